//! Property-specific engine extensions for C08 (owned by the C08 check): sends with chosen CLTV deltas /
//! fees, block delivery to a subset of nodes (singly or as a burst), a pump that respects withheld
//! links, a confirmation scheduler for the consensus simulator and a height-stamped view of the log.

use crate::ops::{CType, Topology, WorldSpec};
use crate::sim::*;
use bitcoin::{OutPoint, Transaction, Txid};
use lightning::events::Event;
use lightning::ln::channelmanager::PaymentId;
use lightning::ln::functional_test_utils::get_payment_preimage_hash;
use lightning::ln::outbound_payment::RecipientOnionFields;
use lightning::types::payment::PaymentHash;
use std::collections::{BTreeMap, BTreeSet};

// -------------------------------------------------------------------------------------------------
// The library's deadlines, as documented. Public constants are taken from the library; crate-private
// ones are restated from their documentation and pinned by the checks at both sides of each boundary.
// -------------------------------------------------------------------------------------------------

pub use lightning::chain::channelmonitor::{ANTI_REORG_DELAY, HTLC_FAIL_BACK_BUFFER};
pub use lightning::ln::channelmanager::{MIN_CLTV_EXPIRY_DELTA, MIN_FINAL_CLTV_EXPIRY_DELTA};

/// channelmonitor::MAX_BLOCKS_FOR_CONF (crate-private): "The upper bound on how many blocks we think it
/// can take for us to get a transaction confirmed."
pub const MAX_BLOCKS_FOR_CONF: u32 = 18;
/// channelmonitor::CLTV_CLAIM_BUFFER (crate-private): "If an HTLC expires within this many blocks,
/// force-close the channel to broadcast the HTLC-Success transaction. This is two times
/// MAX_BLOCKS_FOR_CONF".
pub const CLTV_CLAIM_BUFFER: u32 = 2 * MAX_BLOCKS_FOR_CONF;
/// channelmonitor::LATENCY_GRACE_PERIOD_BLOCKS (crate-private): blocks granted to the peer after an
/// outbound HTLC expired before going on chain. The public HTLC_FAIL_BACK_BUFFER is documented as
/// CLTV_CLAIM_BUFFER + LATENCY_GRACE_PERIOD_BLOCKS, which ties the two restated values to a public one.
pub const LATENCY_GRACE_PERIOD_BLOCKS: u32 = 3;
/// channelmanager::CLTV_FAR_FAR_AWAY (crate-private): two weeks of blocks (BOLT 4 `expiry_too_far`).
pub const CLTV_FAR_FAR_AWAY: u32 = 14 * 24 * 6;

/// Compile-time relations documented by the library (static assertions in channelmanager.rs).
pub fn constants_consistent() -> Result<(), String> {
	if HTLC_FAIL_BACK_BUFFER != CLTV_CLAIM_BUFFER + LATENCY_GRACE_PERIOD_BLOCKS {
		return Err(format!("HTLC_FAIL_BACK_BUFFER {} != CLTV_CLAIM_BUFFER {} + LATENCY_GRACE_PERIOD_BLOCKS {}", HTLC_FAIL_BACK_BUFFER, CLTV_CLAIM_BUFFER, LATENCY_GRACE_PERIOD_BLOCKS));
	}
	if (MIN_CLTV_EXPIRY_DELTA as u32) < 2 * LATENCY_GRACE_PERIOD_BLOCKS + 2 * MAX_BLOCKS_FOR_CONF + ANTI_REORG_DELAY {
		return Err("MIN_CLTV_EXPIRY_DELTA does not cover grace + two confirmations + anti-reorg delay".into());
	}
	if MIN_FINAL_CLTV_EXPIRY_DELTA as u32 != HTLC_FAIL_BACK_BUFFER + 3 {
		return Err("MIN_FINAL_CLTV_EXPIRY_DELTA != HTLC_FAIL_BACK_BUFFER + 3".into());
	}
	Ok(())
}

// -------------------------------------------------------------------------------------------------
// worlds
// -------------------------------------------------------------------------------------------------

/// A plain world (roomy channels, no dust / reserve / in-flight edge effects) in which only the
/// timing-relevant parameters vary.
pub fn timing_world(topo: Topology, ctype: CType, cltv_delta: u16, fee_base_msat: u32, fee_ppm: u32, styles: &[u8]) -> WorldSpec {
	WorldSpec {
		topo,
		ctype,
		value_sat: vec![1_000_000],
		push_permille: vec![500],
		reserve_ppm: 10_000,
		htlc_min_msat: 1,
		inflight_pct: 100,
		max_accepted: 50,
		dust_exposure_fixed_msat: None,
		dust_exposure_multiplier: 10_000,
		fee_base_msat,
		fee_ppm,
		cltv_delta,
		feerate: 253,
		deferred: false,
		connect_style: 0,
		node_styles: styles.to_vec(),
		node_delays: vec![],
		node_tweaks: vec![],
		chan_policies: vec![],
		late_shutdown_script: vec![],
	}
}

// -------------------------------------------------------------------------------------------------
// engine additions
// -------------------------------------------------------------------------------------------------

impl Sim {
	pub fn height_of(&self, node: usize) -> u32 {
		self.w.nodes[node].best_block_info().1
	}

	/// Like `try_send`, but the final CLTV delta, the CLTV delta and the fee offered to the first
	/// forwarding hop are chosen by the caller (`hop_delta_adj` / `hop_fee_adj` are added to what that
	/// hop advertises).
	pub fn send_custom(&mut self, from: usize, chans: &[usize], amt_msat: u64, final_cltv_delta: u32, hop_delta_adj: i32, hop_fee_adj: i64) -> Option<usize> {
		let (mut route, nodes) = self.build_route(from, chans, amt_msat, final_cltv_delta)?;
		if chans.len() > 1 {
			let h = &mut route.paths[0].hops[0];
			h.cltv_expiry_delta = (h.cltv_expiry_delta as i64 + hop_delta_adj as i64).max(0) as u32;
			h.fee_msat = (h.fee_msat as i64 + hop_fee_adj).max(0) as u64;
		}
		// the sender's own sanity limit on the total CLTV is a router parameter, not part of the property
		route.route_params.payment_params.max_total_cltv_expiry_delta = u32::MAX;
		let to = *nodes.last().unwrap();
		let (preimage, hash, secret) = get_payment_preimage_hash(&self.w.nodes[to], None, None);
		let idn = self.next_payment_id;
		self.next_payment_id += 1;
		let mut idb = [0u8; 32];
		idb[..8].copy_from_slice(&idn.to_be_bytes());
		let id = PaymentId(idb);
		let res = self.w.nodes[from].node.send_payment_with_route(route, hash, RecipientOnionFields::secret_only(secret, amt_msat), id);
		let ok = res.is_ok();
		self.rec(SEvent::Api { node: from, what: format!("send pay#{} amt={} chans={:?} final_delta={} hop_adj={}/{}", self.pays.len(), amt_msat, chans, final_cltv_delta, hop_delta_adj, hop_fee_adj), ok, detail: format!("{:?}", res) });
		self.pays.push(PayInfo {
			idx: self.pays.len(),
			from,
			to,
			path_nodes: nodes,
			path_chans: chans.to_vec(),
			amt_msat,
			cltv_expiry: self.height_of(from) + 1 + final_cltv_delta,
			hash,
			preimage,
			secret,
			id,
			state: if ok { PayState::Sent } else { PayState::Refused },
			claimable_seen: false,
			claimed_event: false,
			sent_event: false,
			failed_event: false,
		});
		self.w.nodes[from].chain_monitor.added_monitors.lock().unwrap().clear();
		self.drain(from);
		Some(self.pays.len() - 1)
	}

	/// One payment in several parts over explicit single-channel paths (channel index, amount, final CLTV delta per
	/// part) from `from` to its direct peer.
	pub fn send_custom_mpp(&mut self, from: usize, parts: &[(usize, u64, u32)]) -> Option<usize> {
		use lightning::routing::router::{PaymentParameters, Route, RouteParameters};
		let total: u64 = parts.iter().map(|p| p.1).sum();
		let mut paths = vec![];
		let mut to = 0;
		let mut nodes0 = vec![];
		for (chan, amt, fd) in parts.iter() {
			let (route, nodes) = self.build_route(from, &[*chan], *amt, *fd)?;
			to = *nodes.last().unwrap();
			if nodes0.is_empty() {
				nodes0 = nodes;
			}
			paths.extend(route.paths);
		}
		let payee = self.w.node_id(to);
		let mut route_params = RouteParameters::from_payment_params_and_value(PaymentParameters::from_node_id(payee, parts[0].2), total);
		route_params.max_total_routing_fee_msat = None;
		route_params.payment_params.max_total_cltv_expiry_delta = u32::MAX;
		let route = Route { paths, route_params };
		let (preimage, hash, secret) = get_payment_preimage_hash(&self.w.nodes[to], None, None);
		let idn = self.next_payment_id;
		self.next_payment_id += 1;
		let mut idb = [0u8; 32];
		idb[..8].copy_from_slice(&idn.to_be_bytes());
		let id = PaymentId(idb);
		let res = self.w.nodes[from].node.send_payment_with_route(route, hash, RecipientOnionFields::secret_only(secret, total), id);
		let ok = res.is_ok();
		self.rec(SEvent::Api { node: from, what: format!("send-mpp pay#{} parts={:?}", self.pays.len(), parts), ok, detail: format!("{:?}", res) });
		self.pays.push(PayInfo {
			idx: self.pays.len(),
			from,
			to,
			path_nodes: nodes0,
			path_chans: vec![parts[0].0],
			amt_msat: total,
			cltv_expiry: self.height_of(from) + 1 + parts.iter().map(|p| p.2).min().unwrap_or(0),
			hash,
			preimage,
			secret,
			id,
			state: if ok { PayState::Sent } else { PayState::Refused },
			claimable_seen: false,
			claimed_event: false,
			sent_event: false,
			failed_event: false,
		});
		self.w.nodes[from].chain_monitor.added_monitors.lock().unwrap().clear();
		self.drain(from);
		Some(self.pays.len() - 1)
	}

	/// Mine one block with `txs` on the global chain and hand it to the listed nodes only (the others fall
	/// behind until `catch_up`).
	pub fn mine_for(&mut self, txs: Vec<Transaction>, nodes: &[usize]) -> Vec<(Txid, crate::chain::Reject)> {
		let (block, rejected) = self.chain.mine(txs);
		let height = self.chain.height();
		self.rec(SEvent::Mined { height, txids: block.txdata.iter().map(|t| t.compute_txid()).collect() });
		for i in nodes {
			self.catch_up(*i, false);
		}
		rejected
	}

	/// Mine `n` empty blocks and hand them to the listed nodes as one burst: a node whose delivery style
	/// skips blocks learns only of the last one (as `Confirm` allows for blocks without relevant
	/// transactions), the others get them one after the other without anything else happening in between.
	pub fn mine_burst_for(&mut self, n: u32, nodes: &[usize]) {
		for _ in 0..n {
			let _ = self.chain.mine(vec![]);
			let height = self.chain.height();
			self.rec(SEvent::Mined { height, txids: vec![] });
		}
		for i in nodes {
			self.catch_up(*i, true);
		}
	}

	/// Deliver every block of the global chain the node has not seen yet. With `burst`, a node with a
	/// block-skipping delivery style is told only about the last block of each run of empty blocks.
	pub fn catch_up(&mut self, node: usize, burst: bool) {
		let tip = self.chain.height();
		let mut h = self.height_of(node) + 1;
		let skips = burst && self.w.nodes[node].connect_style.borrow().skips_blocks();
		while h <= tip {
			let block = self.chain.blocks[h as usize].clone();
			let next_empty = h < tip && self.chain.blocks[h as usize + 1].txdata.is_empty();
			if skips && block.txdata.is_empty() && next_empty {
				// skipped: the node's block source knows the block, LDK is not told
				let nd = &self.w.nodes[node];
				let mut bl = nd.blocks.lock().unwrap();
				let nh = bl.last().unwrap().1 + 1;
				bl.push((block, nh));
			} else {
				self.deliver_block(node, &block);
			}
			h += 1;
		}
	}

	/// Deliver / forward / process events to quiescence among the `alive` nodes, never delivering on a
	/// `blocked` directed link (a peer that is merely slow or silent). Returns false if the round bound
	/// was hit.
	pub fn pump_links(&mut self, alive: &[usize], blocked: &[(usize, usize)]) -> bool {
		for _ in 0..80 {
			let mut progress = false;
			let live: Vec<(usize, usize)> = self
				.links
				.iter()
				.filter(|(k, q)| !q.is_empty() && self.is_connected(k.0, k.1) && !blocked.contains(k) && alive.contains(&k.0) && alive.contains(&k.1))
				.map(|(k, _)| *k)
				.collect();
			for (f, t) in live {
				if self.deliver(f, t, 1) > 0 {
					progress = true;
				}
			}
			for i in alive.iter().cloned() {
				if self.w.nodes[i].node.needs_pending_htlc_processing() {
					self.process_forwards(i);
					progress = true;
				}
				if !self.process_events(i).is_empty() {
					progress = true;
				}
			}
			if !progress {
				return true;
			}
		}
		false
	}

	/// Deliver everything queued on unblocked links without letting anyone forward or handle events (the
	/// commitment dance completes, decisions that need `process_pending_htlc_forwards` do not happen).
	pub fn flush_links(&mut self, blocked: &[(usize, usize)]) {
		for _ in 0..200 {
			let live: Vec<(usize, usize)> = self.links.iter().filter(|(k, q)| !q.is_empty() && self.is_connected(k.0, k.1) && !blocked.contains(k)).map(|(k, _)| *k).collect();
			if live.is_empty() {
				break;
			}
			for (f, t) in live {
				self.deliver(f, t, 1);
			}
		}
	}

	/// Height of every node before the first block delivery recorded in the log (world construction confirms
	/// the channels without logging): the last channel's funding height + confirmation depth - 1.
	pub fn base_heights(&self) -> Vec<u32> {
		let mut first: Vec<Option<u32>> = vec![None; self.w.n];
		for (_, e) in self.log.iter() {
			if let SEvent::BlockDelivered { node, .. } = e {
				if first[*node].is_none() {
					first[*node] = Some(0);
				}
			}
		}
		let built = self.chans.iter().filter_map(|c| self.chain.confirmed.get(&c.funding_tx.compute_txid()).map(|x| x.1)).max().map(|h| h + lightning::ln::functional_test_utils::CHAN_CONFIRM_DEPTH - 1).unwrap_or(0);
		(0..self.w.n).map(|i| if first[i].is_some() { built } else { self.height_of(i) }).collect()
	}

	pub fn funding_outpoint(&self, chan: usize) -> OutPoint {
		OutPoint { txid: self.chans[chan].funding_tx.compute_txid(), vout: 0 }
	}

	/// Is the channel still open (listed and not shutting down) at `node`?
	pub fn chan_open_at(&self, node: usize, chan: usize) -> bool {
		self.chan_details(node, chan).is_some()
	}
}

// -------------------------------------------------------------------------------------------------
// confirmation scheduler: which mempool transactions go into the next block
// -------------------------------------------------------------------------------------------------

/// When broadcast transactions confirm. All delays are in blocks and stay within MAX_BLOCKS_FOR_CONF.
#[derive(Clone, Debug)]
pub struct ConfPlan {
	/// a transaction spending a funding output whose first version was broadcast at chain height s is mined in
	/// block s + d_commit (d_commit >= 1)
	pub d_commit: u32,
	/// the tracked HTLC output is resolved in block m + d_htlc, where m is the first chain height at which a
	/// spend of it was both broadcast and had a confirmed parent; 0 = in the same block as the commitment when
	/// a spend is already known by then
	pub d_htlc: u32,
	/// whose spend of the tracked HTLC output is mined if several compete at that moment (else: whichever exists)
	pub prefer: Option<usize>,
	/// sat value of the tracked HTLC's output
	pub htlc_sat: u64,
}

#[derive(Clone, Debug, Default)]
pub struct ChainView {
	/// txid -> (broadcasting node, chain height at first broadcast)
	pub first_seen: BTreeMap<Txid, (usize, u32)>,
	/// per channel: first broadcast of any transaction spending its funding output: (node, chain height, node height, txid)
	pub commit_broadcast: BTreeMap<usize, Vec<(usize, u32, u32, Txid)>>,
	/// per channel: the confirmed funding spend (txid, height)
	pub commit_confirmed: BTreeMap<usize, (Txid, u32)>,
	/// per channel: the tracked HTLC output on the confirmed commitment
	pub htlc_outpoint: BTreeMap<usize, OutPoint>,
	/// per channel: confirmed spend of the tracked HTLC output: (txid, height, broadcasting node, carries a 32-byte preimage-sized witness item)
	pub htlc_spend: BTreeMap<usize, (Txid, u32, Option<usize>, bool)>,
	/// per channel and node: chain height at which that node first broadcast a spend of the tracked HTLC output
	pub htlc_spend_seen: BTreeMap<(usize, usize), u32>,
}

/// Does the input's witness carry a 32-byte item that hashes to the payment hash (an HTLC claimed with
/// the preimage, BOLT 3)?
pub fn witness_has_preimage(tx: &Transaction, input: usize, hash: &PaymentHash) -> bool {
	use bitcoin::hashes::{sha256, Hash};
	tx.input[input].witness.iter().any(|item| item.len() == 32 && sha256::Hash::hash(item).to_byte_array() == hash.0)
}

/// Recompute what the chain and the log say about commitments and the tracked HTLC (value `htlc_sat`,
/// payment hash `hash`).
pub fn chain_view(sim: &Sim, htlc_sat: u64, hash: &PaymentHash) -> ChainView {
	let mut v = ChainView::default();
	let mut heights = sim.base_heights();
	let funding: Vec<OutPoint> = (0..sim.chans.len()).map(|c| sim.funding_outpoint(c)).collect();
	let mut bcasts: Vec<(usize, u32, u32, Transaction)> = vec![];
	for (_, e) in sim.log.iter() {
		match e {
			SEvent::BlockDelivered { node, height } => heights[*node] = heights[*node].max(*height),
			SEvent::Broadcast { node, tx, height, .. } => {
				let txid = tx.compute_txid();
				v.first_seen.entry(txid).or_insert((*node, *height));
				bcasts.push((*node, *height, heights[*node], tx.clone()));
				for (ci, fo) in funding.iter().enumerate() {
					if tx.input.iter().any(|i| i.previous_output == *fo) {
						let e = v.commit_broadcast.entry(ci).or_default();
						if !e.iter().any(|x| x.3 == txid) {
							e.push((*node, *height, heights[*node], txid));
						}
					}
				}
			},
			_ => {},
		}
	}
	for (ci, fo) in funding.iter().enumerate() {
		if let Some(spender) = sim.chain.spent_by.get(fo) {
			if let Some((tx, h)) = sim.chain.confirmed.get(spender) {
				v.commit_confirmed.insert(ci, (*spender, *h));
				if let Some(vout) = tx.output.iter().position(|o| o.value.to_sat() == htlc_sat && o.script_pubkey.is_p2wsh()) {
					let op = OutPoint { txid: *spender, vout: vout as u32 };
					v.htlc_outpoint.insert(ci, op);
					if let Some(sp) = sim.chain.spent_by.get(&op) {
						if let Some((stx, sh)) = sim.chain.confirmed.get(sp) {
							let idx = stx.input.iter().position(|i| i.previous_output == op).unwrap();
							v.htlc_spend.insert(ci, (*sp, *sh, v.first_seen.get(sp).map(|x| x.0), witness_has_preimage(stx, idx, hash)));
						}
					}
					for (node, ch, _, tx) in bcasts.iter() {
						if tx.input.iter().any(|i| i.previous_output == op) {
							let e = v.htlc_spend_seen.entry((ci, *node)).or_insert(*ch);
							*e = (*e).min(*ch);
						}
					}
				}
			}
		}
	}
	v
}

/// Choose the transactions of the next block according to the plan. Everything that is neither a funding
/// spend nor a spend of the tracked HTLC output is mined as soon as it is valid.
pub fn next_block_txs(sim: &Sim, plan: &ConfPlan, hash: &PaymentHash) -> Vec<Transaction> {
	if sim.chain.mempool.is_empty() {
		return vec![];
	}
	let view = chain_view(sim, plan.htlc_sat, hash);
	let next_h = sim.chain.height() + 1;
	let funding: Vec<OutPoint> = (0..sim.chans.len()).map(|c| sim.funding_outpoint(c)).collect();
	let is_htlc_out = |o: &bitcoin::TxOut| o.value.to_sat() == plan.htlc_sat && o.script_pubkey.is_p2wsh();
	let mut out: Vec<Transaction> = vec![];
	let mut included: BTreeSet<Txid> = BTreeSet::new();
	// 1. funding spends (commitments) that are due; their tracked HTLC output becomes spendable in this block
	let mut fresh_tracked: BTreeSet<OutPoint> = BTreeSet::new();
	let mut pending_tracked: BTreeSet<OutPoint> = BTreeSet::new();
	for tx in sim.chain.mempool.iter() {
		let txid = tx.compute_txid();
		if let Some(ci) = funding.iter().position(|fo| tx.input.iter().any(|i| i.previous_output == *fo)) {
			let tracked_out = tx.output.iter().position(|o| is_htlc_out(o)).map(|v| OutPoint { txid, vout: v as u32 });
			let first = view.commit_broadcast.get(&ci).and_then(|v| v.iter().map(|x| x.1).min()).unwrap_or(0);
			if next_h >= first + plan.d_commit && !out.iter().any(|t: &Transaction| t.input.iter().any(|i| funding[ci] == i.previous_output)) {
				out.push(tx.clone());
				included.insert(txid);
				if let Some(op) = tracked_out {
					fresh_tracked.insert(op);
				}
			} else if let Some(op) = tracked_out {
				pending_tracked.insert(op);
			}
		}
	}
	// 2. spends of the tracked HTLC output
	let tracked: BTreeSet<OutPoint> = view.htlc_outpoint.values().cloned().collect();
	let spends = |set: &BTreeSet<OutPoint>| -> Vec<(Option<usize>, Transaction)> {
		sim.chain.mempool.iter().filter(|tx| tx.input.iter().any(|i| set.contains(&i.previous_output))).map(|tx| (view.first_seen.get(&tx.compute_txid()).map(|x| x.0), tx.clone())).collect()
	};
	let mut chosen: Option<Transaction> = None;
	if !tracked.is_empty() {
		let cands = spends(&tracked);
		if !cands.is_empty() {
			// first chain height at which a spend was known with a confirmed parent
			let m = view.htlc_outpoint.iter().map(|(ci, _)| {
				let conf_h = view.commit_confirmed[ci].1;
				let seen = view.htlc_spend_seen.iter().filter(|((c2, _), _)| c2 == ci).map(|(_, s)| *s).min().unwrap_or(conf_h);
				conf_h.max(seen)
			}).min().unwrap();
			if next_h >= m + plan.d_htlc.max(1) {
				// newest version of the preferred node's spend, else the newest of anybody's
				chosen = cands.iter().rev().find(|(w, _)| plan.prefer.is_some() && *w == plan.prefer).or(cands.last()).map(|x| x.1.clone());
			}
		}
	} else if plan.d_htlc == 0 && !fresh_tracked.is_empty() {
		let cands = spends(&fresh_tracked);
		chosen = cands.iter().rev().find(|(w, _)| plan.prefer.is_some() && *w == plan.prefer).or(cands.last()).map(|x| x.1.clone());
	}
	if let Some(tx) = chosen {
		included.insert(tx.compute_txid());
		out.push(tx);
	}
	// 3. everything else, parents first (mempool order is arrival order)
	for tx in sim.chain.mempool.iter() {
		let txid = tx.compute_txid();
		if included.contains(&txid) || tx.input.iter().any(|i| funding.contains(&i.previous_output) || tracked.contains(&i.previous_output) || fresh_tracked.contains(&i.previous_output) || pending_tracked.contains(&i.previous_output)) {
			continue;
		}
		let parents_ok = tx.input.iter().all(|i| sim.chain.utxo.contains_key(&i.previous_output) || included.contains(&i.previous_output.txid));
		let conflicts = out.iter().any(|t| t.input.iter().any(|i| tx.input.iter().any(|j| j.previous_output == i.previous_output)));
		if parents_ok && !conflicts {
			out.push(tx.clone());
			included.insert(txid);
		}
	}
	out
}

// -------------------------------------------------------------------------------------------------
// a height-stamped view of what the nodes did
// -------------------------------------------------------------------------------------------------

#[derive(Clone, Debug)]
pub struct HtlcMsg {
	pub step: u64,
	pub from: usize,
	pub to: usize,
	pub chan: usize,
	pub htlc_id: u64,
	pub hash: Option<PaymentHash>,
	pub cltv: u32,
	pub amt_msat: u64,
	/// best height of the emitting node when it emitted the message
	pub h_from: u32,
}

#[derive(Clone, Debug, Default)]
pub struct Timeline {
	pub adds: Vec<HtlcMsg>,
	pub fails: Vec<HtlcMsg>,
	pub fulfills: Vec<HtlcMsg>,
	/// update_fulfill_htlc / update_fail_htlc actually handed to the receiving node: (is_fulfill, message); `h_from` is
	/// the *receiver's* height at delivery
	pub delivered: Vec<(bool, HtlcMsg)>,
	/// (step, node, node height, event)
	pub events: Vec<(u64, usize, u32, Event)>,
	/// (step, node, node height, previous node height, chain height, tx): node height = after the block
	/// delivery during which the broadcast happened; previous = the node's height before that delivery
	pub broadcasts: Vec<(u64, usize, u32, u32, u32, Transaction)>,
}

impl Timeline {
	pub fn build(sim: &Sim) -> Timeline {
		let mut t = Timeline::default();
		let mut heights = sim.base_heights();
		let mut prev_heights = heights.clone();
		// (chan index, adding node, htlc id) -> hash
		let mut ids: BTreeMap<(usize, usize, u64), PaymentHash> = BTreeMap::new();
		let chan_of = |id: &lightning::ln::types::ChannelId| sim.chans.iter().position(|c| c.id == *id);
		for (step, e) in sim.log.iter() {
			match e {
				SEvent::BlockDelivered { node, height } => {
					// no reorganisations in these scenarios: heights only grow (the wallet-funding block of world
					// construction is logged before the unlogged channel confirmations)
					if *height > heights[*node] {
						prev_heights[*node] = heights[*node];
						heights[*node] = *height;
					}
				},
				SEvent::Emit { from, to, wire } | SEvent::Dropped { from, to, wire } => {
					let emitted = matches!(e, SEvent::Emit { .. });
					match wire {
						Wire::Add(m) => {
							if let Some(c) = chan_of(&m.channel_id) {
								ids.insert((c, *from, m.htlc_id), m.payment_hash);
								if emitted {
									t.adds.push(HtlcMsg { step: *step, from: *from, to: *to, chan: c, htlc_id: m.htlc_id, hash: Some(m.payment_hash), cltv: m.cltv_expiry, amt_msat: m.amount_msat, h_from: heights[*from] });
								}
							}
						},
						Wire::Fail(m) => {
							if let Some(c) = chan_of(&m.channel_id) {
								t.fails.push(HtlcMsg { step: *step, from: *from, to: *to, chan: c, htlc_id: m.htlc_id, hash: ids.get(&(c, *to, m.htlc_id)).cloned(), cltv: 0, amt_msat: 0, h_from: heights[*from] });
							}
						},
						Wire::FailMalformed(m) => {
							if let Some(c) = chan_of(&m.channel_id) {
								t.fails.push(HtlcMsg { step: *step, from: *from, to: *to, chan: c, htlc_id: m.htlc_id, hash: ids.get(&(c, *to, m.htlc_id)).cloned(), cltv: 0, amt_msat: 0, h_from: heights[*from] });
							}
						},
						Wire::Fulfill(m) => {
							if let Some(c) = chan_of(&m.channel_id) {
								t.fulfills.push(HtlcMsg { step: *step, from: *from, to: *to, chan: c, htlc_id: m.htlc_id, hash: ids.get(&(c, *to, m.htlc_id)).cloned(), cltv: 0, amt_msat: 0, h_from: heights[*from] });
							}
						},
						_ => {},
					}
				},
				SEvent::Deliver { from, to, wire } => {
					let (is_fulfill, chan_id, htlc_id) = match wire {
						Wire::Fulfill(m) => (true, m.channel_id, m.htlc_id),
						Wire::Fail(m) => (false, m.channel_id, m.htlc_id),
						Wire::FailMalformed(m) => (false, m.channel_id, m.htlc_id),
						_ => continue,
					};
					if let Some(c) = chan_of(&chan_id) {
						t.delivered.push((is_fulfill, HtlcMsg { step: *step, from: *from, to: *to, chan: c, htlc_id, hash: ids.get(&(c, *to, htlc_id)).cloned(), cltv: 0, amt_msat: 0, h_from: heights[*to] }));
					}
				},
				SEvent::Ldk { node, ev } => t.events.push((*step, *node, heights[*node], ev.clone())),
				SEvent::Broadcast { node, tx, height, .. } => t.broadcasts.push((*step, *node, heights[*node], prev_heights[*node], *height, tx.clone())),
				_ => {},
			}
		}
		t
	}

	pub fn claimable(&self, node: usize, hash: &PaymentHash) -> Option<(u32, Option<u32>)> {
		self.events.iter().find_map(|(_, n, h, ev)| match ev {
			Event::PaymentClaimable { payment_hash, claim_deadline, .. } if *n == node && payment_hash == hash => Some((*h, *claim_deadline)),
			_ => None,
		})
	}
	pub fn claimed(&self, node: usize, hash: &PaymentHash) -> bool {
		self.events.iter().any(|(_, n, _, ev)| matches!(ev, Event::PaymentClaimed { payment_hash, .. } if *n == node && payment_hash == hash))
	}
	pub fn sent(&self, node: usize, hash: &PaymentHash) -> bool {
		self.events.iter().any(|(_, n, _, ev)| matches!(ev, Event::PaymentSent { payment_hash, .. } if *n == node && payment_hash == hash))
	}
	pub fn failed(&self, node: usize, hash: &PaymentHash) -> bool {
		self.events.iter().any(|(_, n, _, ev)| matches!(ev, Event::PaymentFailed { payment_hash, .. } if *n == node && *payment_hash == Some(*hash)))
	}
	/// ChannelClosed events seen by `node` for channel index `chan`
	pub fn closed(&self, sim: &Sim, node: usize, chan: usize) -> Option<(u32, String)> {
		self.closed_step(sim, node, chan).map(|(_, h, r)| (h, r))
	}
	/// (step, node height, reason) of the ChannelClosed event
	pub fn closed_step(&self, sim: &Sim, node: usize, chan: usize) -> Option<(u64, u32, String)> {
		let id = sim.chans[chan].id;
		self.events.iter().find_map(|(s, n, h, ev)| match ev {
			Event::ChannelClosed { channel_id, reason, .. } if *n == node && *channel_id == id => Some((*s, *h, format!("{:?}", reason))),
			_ => None,
		})
	}
	/// Earliest recorded sign that `node` considers channel `chan` closed: the error it sends to the peer, its
	/// first broadcast spending the funding output, or its ChannelClosed event.
	pub fn closure_step(&self, sim: &Sim, node: usize, chan: usize) -> Option<u64> {
		let peer = sim.peer_of(chan, node);
		let fo = sim.funding_outpoint(chan);
		let id = sim.chans[chan].id;
		let mut best: Option<u64> = self.closed_step(sim, node, chan).map(|x| x.0);
		for (step, e) in sim.log.iter() {
			let hit = match e {
				SEvent::ErrorAction { from, to, is_error_msg, .. } => *from == node && *to == peer && *is_error_msg,
				SEvent::Emit { from, wire: Wire::Error(m), .. } => *from == node && m.channel_id == id,
				SEvent::Broadcast { node: n, tx, .. } => *n == node && tx.input.iter().any(|i| i.previous_output == fo),
				_ => false,
			};
			if hit {
				best = Some(best.map(|b| b.min(*step)).unwrap_or(*step));
				break;
			}
		}
		best
	}
	/// Was an update_fulfill_htlc (true) / update_fail_htlc (false) for `hash` handed to `to` by `from` at a step before `before`?
	pub fn delivered_before(&self, is_fulfill: bool, from: usize, to: usize, hash: &PaymentHash, before: Option<u64>) -> Option<&HtlcMsg> {
		self.delivered.iter().find(|(f, m)| *f == is_fulfill && m.from == from && m.to == to && m.hash == Some(*hash) && before.map(|b| m.step < b).unwrap_or(true)).map(|x| &x.1)
	}
	pub fn add_of(&self, from: usize, to: usize, hash: &PaymentHash) -> Option<&HtlcMsg> {
		self.adds.iter().find(|m| m.from == from && m.to == to && m.hash == Some(*hash))
	}
	pub fn fail_of(&self, from: usize, to: usize, hash: &PaymentHash) -> Option<&HtlcMsg> {
		self.fails.iter().find(|m| m.from == from && m.to == to && m.hash == Some(*hash))
	}
	pub fn fulfill_of(&self, from: usize, to: usize, hash: &PaymentHash) -> Option<&HtlcMsg> {
		self.fulfills.iter().find(|m| m.from == from && m.to == to && m.hash == Some(*hash))
	}
	/// first broadcast by `node` of a transaction spending the funding output of `chan`:
	/// (node height, node height before that block delivery, txid)
	pub fn first_commit_broadcast(&self, sim: &Sim, node: usize, chan: usize) -> Option<(u32, u32, Txid)> {
		let fo = sim.funding_outpoint(chan);
		self.broadcasts.iter().find(|(_, n, _, _, _, tx)| *n == node && tx.input.iter().any(|i| i.previous_output == fo)).map(|(_, _, h, p, _, tx)| (*h, *p, tx.compute_txid()))
	}
}
