//! Property-specific engine extensions for C08 (owned by the C08 check).
