//! A per-case world of LDK nodes built from `functional_test_utils`, leaked to `'static` so that
//! nodes can be restarted in a loop, with an arena that reclaims everything at the end of the case.

use crate::rec::*;
use bitcoin::secp256k1::PublicKey;
use lightning::chain::channelmonitor::ChannelMonitor;
use lightning::chain::{BlockLocator, ChannelMonitorUpdateStatus};
use lightning::ln::channelmanager::ChannelManagerReadArgs;
use lightning::ln::functional_test_utils::*;
use lightning::ln::types::ChannelId;
use lightning::util::config::UserConfig;
use lightning::util::ser::{ReadableArgs, Writeable};
use lightning::util::test_channel_signer::TestChannelSigner;
use lightning::ln::msgs::BaseMessageHandler;
use lightning::util::test_utils::TestChainMonitor;
use std::panic::{catch_unwind, AssertUnwindSafe};

pub type SNode = Node<'static, 'static, 'static>;
pub type SManager = TestChannelManager<'static, 'static>;

/// Owns heap allocations that were leaked to `'static`; frees them in reverse order.
#[derive(Default)]
pub struct Arena {
	items: Vec<(*mut u8, unsafe fn(*mut u8))>,
}

unsafe fn drop_box<T>(p: *mut u8) {
	drop(Box::from_raw(p as *mut T));
}

impl Arena {
	/// drops `old` right away and returns an empty arena
	pub fn default_dropping(old: Arena) -> Arena {
		drop(old);
		Arena::default()
	}
	pub fn leak<T: 'static>(&mut self, v: T) -> &'static T {
		let p = Box::into_raw(Box::new(v));
		self.items.push((p as *mut u8, drop_box::<T>));
		unsafe { &*p }
	}
	/// for values whose type mentions non-'static lifetimes that we faked
	pub unsafe fn leak_any<T>(&mut self, v: T) -> &'static T {
		let p = Box::into_raw(Box::new(v));
		self.items.push((p as *mut u8, drop_box::<T>));
		&*p
	}
}

impl Drop for Arena {
	fn drop(&mut self) {
		while let Some((p, f)) = self.items.pop() {
			// a panic while dropping LDK test doubles (they self-check) must not escape
			let _ = catch_unwind(AssertUnwindSafe(|| unsafe { f(p) }));
		}
	}
}

/// Library log lines that discriminate listed findings (the logs themselves are trimmed regularly).
pub const LOG_MARKERS: &[(&str, &[&str])] = &[
	// `feerate_bump` refused to build a claim because the bumped fee would leave less than the dust limit
	("bump-refused-below-dust", &["Can't bump new claiming tx", "below dust threshold"]),
];

pub struct World {
	pub nodes: Vec<SNode>,
	pub persisters: Vec<&'static RecPersister>,
	pub configs: Vec<UserConfig>,
	pub n: usize,
	arena: Arena,
	/// restart counter per node (for labelling)
	pub restarts: Vec<u32>,
	pub deferred: bool,
	/// log markers seen per node, kept across `trim` (node, tag); see `LOG_MARKERS`
	pub log_notes: std::sync::Mutex<std::collections::BTreeSet<(usize, &'static str)>>,
}

pub struct WorldCfg {
	pub n: usize,
	pub configs: Vec<UserConfig>,
	pub keep_images: bool,
	pub deferred_monitor: bool,
	pub connect_style: ConnectStyle,
	/// optional per-node styles (overrides `connect_style`)
	pub node_styles: Vec<ConnectStyle>,
	/// indices of nodes whose signer policy checks against revoked-state signing are disabled (C06 cheater)
	pub disable_revocation_policy: Vec<usize>,
}

impl World {
	pub fn new(cfg: WorldCfg) -> World {
		hist_reset();
		let mut arena = Arena::default();
		let n = cfg.n;
		let mut chanmon_cfgs_v = create_chanmon_cfgs(n);
		for i in cfg.disable_revocation_policy.iter() {
			chanmon_cfgs_v[*i].keys_manager.disable_revocation_policy_check = true;
		}
		let chanmon_cfgs: &'static Vec<TestChanMonCfg> = arena.leak(chanmon_cfgs_v);
		let mut persisters = vec![];
		for i in 0..n {
			persisters.push(arena.leak(RecPersister::new(i, cfg.keep_images)));
		}
		let node_cfgs_v = if cfg.deferred_monitor {
			// the deferred constructor takes the cfg-owned TestPersister; build by hand with ours instead
			let mut v = create_node_cfgs_with_persisters(n, chanmon_cfgs, persisters.clone());
			for (i, nc) in v.iter_mut().enumerate() {
				let c = &chanmon_cfgs[i];
				nc.chain_monitor = TestChainMonitor::new_deferred(
					Some(&c.chain_source),
					&c.tx_broadcaster,
					&c.logger,
					&c.fee_estimator,
					persisters[i],
					&c.keys_manager,
				);
			}
			v
		} else {
			create_node_cfgs_with_persisters(n, chanmon_cfgs, persisters.clone())
		};
		let node_cfgs: &'static Vec<NodeCfg<'static>> = unsafe { arena.leak_any(node_cfgs_v) };
		let cfg_opts: Vec<Option<UserConfig>> = cfg.configs.iter().cloned().map(Some).collect();
		let chanmgrs_v = create_node_chanmgrs(n, node_cfgs, &cfg_opts);
		let chanmgrs: &'static Vec<SManager> = unsafe { arena.leak_any(chanmgrs_v) };
		let mut nodes = create_network(n, node_cfgs, chanmgrs);
		for (i, nd) in nodes.iter_mut().enumerate() {
			let st = cfg.node_styles.get(i).cloned().unwrap_or(cfg.connect_style);
			nd.connect_style = std::rc::Rc::new(std::cell::RefCell::new(st));
		}
		World { nodes, persisters, configs: cfg.configs, n, arena, restarts: vec![0; n], deferred: cfg.deferred_monitor, log_notes: std::sync::Mutex::new(Default::default()) }
	}

	pub fn node_id(&self, i: usize) -> PublicKey {
		self.nodes[i].node.get_our_node_id()
	}

	pub fn index_of(&self, id: &PublicKey) -> Option<usize> {
		(0..self.n).find(|i| self.node_id(*i) == *id)
	}

	/// Report completion of an in-flight monitor update to the node's ChainMonitor.
	pub fn complete_update(&self, node: usize, chan: ChannelId, update_id: u64) {
		{
			let mut st = self.persisters[node].state.lock().unwrap();
			if let Some(v) = st.pending.get_mut(&chan) {
				v.retain(|x| *x != update_id);
			}
			if let Some(bytes) = st.inflight_images.remove(&(chan, update_id)) {
				let newer = st.durable.get(&chan).map(|(id, _)| *id < update_id).unwrap_or(true);
				if newer {
					st.durable.insert(chan, (update_id, bytes));
				}
			}
		}
		hist_push(HEvent::PersistCompleted { node, chan, update_id });
		let _ = self.nodes[node].chain_monitor.chain_monitor.channel_monitor_updated(chan, update_id);
	}

	pub fn pending_updates(&self, node: usize) -> Vec<(ChannelId, u64)> {
		let st = self.persisters[node].state.lock().unwrap();
		let mut out = vec![];
		for (c, v) in st.pending.iter() {
			for id in v {
				out.push((*c, *id));
			}
		}
		out
	}

	pub fn set_async(&self, node: usize, chan: Option<ChannelId>, on: bool) {
		let mut st = self.persisters[node].state.lock().unwrap();
		match chan {
			None => st.async_all = on,
			Some(c) => {
				if on {
					st.async_chans.insert(c);
				} else {
					st.async_chans.remove(&c);
				}
			},
		}
	}

	/// Restart `node` from a serialized manager and one serialized monitor per channel.
	/// Peers are told the node disconnected. Returns Err(description) if deserialization fails.
	pub fn restart(&mut self, node: usize, manager_bytes: &[u8], monitors: &[Vec<u8>], connected_peers: &[usize]) -> Result<(), String> {
		self.restart_opts(node, manager_bytes, monitors, connected_peers, true)
	}

	/// Like `restart`; with `sync_chain` false the reloaded objects are not told anything about the chain: they
	/// stay exactly where their images were written and the caller's chain client carries on from there (used
	/// by the C11 engine, whose client owns every `Listen` / `Confirm` call of the observed node).
	pub fn restart_opts(&mut self, node: usize, manager_bytes: &[u8], monitors: &[Vec<u8>], connected_peers: &[usize], sync_chain: bool) -> Result<(), String> {
		// tell everyone we are gone
		let my_id = self.node_id(node);
		for j in 0..self.n {
			if j != node && connected_peers.contains(&j) {
				self.nodes[j].node.peer_disconnected(my_id);
				self.nodes[j].onion_messenger.peer_disconnected(my_id);
			}
		}
		let old = &self.nodes[node];
		let keys_manager = old.keys_manager;
		let logger = old.logger;
		let fee_estimator = old.fee_estimator;
		let tx_broadcaster = old.tx_broadcaster;
		let chain_source = old.chain_source;
		let router = old.router;
		let message_router = old.message_router;
		let config = self.configs[node].clone();

		let keep_images = self.persisters[node].state.lock().unwrap().keep_images;
		let persister: &'static RecPersister = self.arena.leak(RecPersister::new(node, keep_images));
		let new_chain_monitor_v = if self.deferred {
			TestChainMonitor::new_deferred(Some(chain_source), tx_broadcaster, logger, fee_estimator, persister, keys_manager)
		} else {
			TestChainMonitor::new(Some(chain_source), tx_broadcaster, logger, fee_estimator, persister, keys_manager)
		};
		let new_chain_monitor: &'static TestChainMonitor<'static> = unsafe { self.arena.leak_any(new_chain_monitor_v) };

		let mut mons: Vec<ChannelMonitor<TestChannelSigner>> = vec![];
		for bytes in monitors {
			let mut r = &bytes[..];
			match <(BlockLocator, ChannelMonitor<TestChannelSigner>)>::read(&mut r, (keys_manager, keys_manager)) {
				Ok((_, m)) => mons.push(m),
				Err(e) => return Err(format!("ChannelMonitor::read failed: {:?}", e)),
			}
		}
		// Documented start-up procedure: every ChannelMonitor and the ChannelManager are brought to the chain
		// tip separately before use. The node's block list survives the restart (it is the chain source).
		let chain: Vec<(bitcoin::Block, u32)> = old.blocks.lock().unwrap().clone();
		for m in mons.iter().filter(|_| sync_chain) {
			let from = m.current_best_block().height;
			// A monitor fed through the Confirm interface can have been written between `best_block_updated`
			// and the `transactions_confirmed` calls belonging to the same (or, when blocks are skipped, earlier)
			// blocks. A Confirm client re-checks everything it watches on start-up, whatever the height: the
			// transactions of the blocks the monitor already counts as connected are confirmed to it again
			// (redundant notifications are allowed by the Confirm contract).
			for (blk, h) in chain.iter() {
				if *h <= from && *h > 0 && !blk.txdata.is_empty() {
					let txdata: Vec<(usize, &bitcoin::Transaction)> = blk.txdata.iter().enumerate().collect();
					m.transactions_confirmed(&blk.header, &txdata, *h, tx_broadcaster, fee_estimator, logger);
				}
			}
			for (blk, h) in chain.iter() {
				if *h > from {
					let txdata: Vec<(usize, &bitcoin::Transaction)> = blk.txdata.iter().enumerate().collect();
					m.block_connected(&blk.header, &txdata, *h, tx_broadcaster, fee_estimator, logger);
				}
			}
		}
		let mut channel_monitors = lightning::util::hash_tables::new_hash_map();
		for m in mons.iter() {
			channel_monitors.insert(m.channel_id(), m);
		}
		let mut r = manager_bytes;
		let res = <(BlockLocator, SManager)>::read(
			&mut r,
			ChannelManagerReadArgs {
				config,
				entropy_source: keys_manager,
				node_signer: keys_manager,
				signer_provider: keys_manager,
				fee_estimator,
				router,
				message_router,
				chain_monitor: new_chain_monitor,
				tx_broadcaster,
				logger,
				channel_monitors,
			},
		);
		let mgr = match res {
			Ok((_, m)) => m,
			Err(e) => return Err(format!("ChannelManager::read failed: {:?}", e)),
		};
		let mgr: &'static SManager = unsafe { self.arena.leak_any(mgr) };
		if sync_chain {
			use lightning::chain::Listen;
			let from = mgr.current_best_block().height;
			for (blk, h) in chain.iter() {
				if *h > from {
					mgr.block_connected(blk, *h);
				}
			}
		}
		for m in mons {
			let chan = m.channel_id();
			let id = m.get_latest_update_id();
			{
				let mut st = persister.state.lock().unwrap();
				let bytes = m.encode();
				st.durable.insert(chan, (id, bytes.clone()));
				st.latest.insert(chan, (id, bytes));
			}
			match new_chain_monitor.load_existing_monitor(chan, m) {
				Ok(ChannelMonitorUpdateStatus::Completed) => {},
				other => return Err(format!("load_existing_monitor returned {:?}", other)),
			}
		}
		new_chain_monitor.added_monitors.lock().unwrap().clear();

		// swap the new pieces into the Node. The old manager / chain monitor stay alive in the arena.
		let nd = &mut self.nodes[node];
		nd.node = mgr;
		nd.chain_monitor = new_chain_monitor;
		nd.onion_messenger.set_offers_handler(mgr);
		nd.onion_messenger.set_async_payments_handler(mgr);
		self.persisters[node] = persister;
		self.restarts[node] += 1;
		Ok(())
	}

	fn scan_logs(&self) {
		let mut notes = self.log_notes.lock().unwrap();
		for (i, nd) in self.nodes.iter().enumerate() {
			let lines = nd.logger.lines.lock().unwrap();
			for (tag, needles) in LOG_MARKERS.iter() {
				if !notes.contains(&(i, *tag)) && lines.keys().any(|(_, l)| needles.iter().all(|n| l.contains(n))) {
					notes.insert((i, *tag));
				}
			}
		}
	}

	/// Has node `node` logged a line matching marker `tag` (see `LOG_MARKERS`) at any time in this world?
	pub fn noted(&self, node: usize, tag: &'static str) -> bool {
		self.scan_logs();
		self.log_notes.lock().unwrap().contains(&(node, tag))
	}

	/// Drop all pending bookkeeping of the test doubles that would otherwise grow without bound.
	pub fn trim(&self) {
		self.scan_logs();
		for nd in self.nodes.iter() {
			nd.chain_monitor.added_monitors.lock().unwrap().clear();
			nd.chain_monitor.monitor_updates.lock().unwrap().clear();
			nd.logger.lines.lock().unwrap().clear();
		}
	}
}

impl Drop for World {
	fn drop(&mut self) {
		// Node's Drop runs self-checks that panic on leftover events; drain first and contain any panic.
		let saved_panic = vcore::take_last_panic();
		let nodes = std::mem::take(&mut self.nodes);
		for nd in nodes {
			let _ = catch_unwind(AssertUnwindSafe(|| {
				let _ = nd.node.get_and_clear_pending_msg_events();
				let _ = nd.node.get_and_clear_pending_events();
				nd.chain_monitor.added_monitors.lock().unwrap().clear();
				nd.tx_broadcaster.clear();
			}));
			// skip Node::drop's consistency checks entirely: they are not this harness's oracle and they
			// assume a quiescent world. Fields with heap data are few (Rc/Arc handles); leaking them is
			// bounded by the worker-process case limit.
			unsafe {
				drop(std::ptr::read(&nd.onion_messenger));
				drop(std::ptr::read(&nd.gossip_sync));
				drop(std::ptr::read(&nd.network_payment_count));
				drop(std::ptr::read(&nd.network_chan_count));
				drop(std::ptr::read(&nd.blocks));
				drop(std::ptr::read(&nd.connect_style));
				drop(std::ptr::read(&nd.override_init_features));
				drop(std::ptr::read(&nd.bump_tx_handler));
				drop(std::ptr::read(&nd.wallet_source));
			}
			std::mem::forget(nd);
		}
		// free the arena now, while secondary panics can still be masked
		self.arena = Arena::default_dropping(std::mem::take(&mut self.arena));
		vcore::set_last_panic(saved_panic);
	}
}

pub fn default_config() -> UserConfig {
	test_default_channel_config()
}

