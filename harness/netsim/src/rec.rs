//! Recording layers: a thread-local history, a recording channel signer installed through
//! `test_utils::SIGNER_FACTORY`, and a recording / schedulable `Persist` implementation.
//!
//! Everything here only *observes*; it never changes what the library computes.

use bitcoin::absolute::LockTime;
use bitcoin::secp256k1::ecdh::SharedSecret;
use bitcoin::secp256k1::ecdsa::{RecoverableSignature, Signature};
use bitcoin::secp256k1::{schnorr, All, PublicKey, Scalar, Secp256k1, SecretKey};
use bitcoin::{ScriptBuf, Transaction, TxOut, Txid};
use lightning::chain::chainmonitor::Persist;
use lightning::chain::channelmonitor::{ChannelMonitor, ChannelMonitorUpdate};
use lightning::chain::ChannelMonitorUpdateStatus;
use lightning::ln::chan_utils::{
	ChannelPublicKeys, ChannelTransactionParameters, ClosingTransaction, CommitmentTransaction, HTLCOutputInCommitment,
	HolderCommitmentTransaction,
};
use lightning::ln::inbound_payment::ExpandedKey;
use lightning::ln::msgs::{UnsignedChannelAnnouncement, UnsignedGossipMessage};
use lightning::ln::script::ShutdownScript;
use lightning::ln::types::ChannelId;
use lightning::offers::invoice::UnsignedBolt12Invoice;
use lightning::sign::ecdsa::EcdsaChannelSigner;
use lightning::sign::{
	ChannelSigner, EntropySource, HTLCDescriptor, InMemorySigner, NodeSigner, OutputSpender, PeerStorageKey, PhantomKeysManager,
	ReceiveAuthKey, Recipient, SignerProvider, SpendableOutputDescriptor,
};
use lightning::types::payment::PaymentPreimage;
use lightning::util::dyn_signer::{DynKeysInterfaceTrait, DynSigner, DynSignerTrait, InnerSign};
use lightning::util::persist::MonitorName;
use lightning::util::ser::Writeable;
use lightning::util::test_channel_signer::TestChannelSigner;
use lightning::util::test_utils::{TestSignerFactory, SIGNER_FACTORY};
use lightning_invoice::RawBolt11Invoice;
use std::any::Any;
use std::cell::RefCell;
use std::collections::{BTreeMap, BTreeSet};
use std::sync::{Arc, Mutex};
use std::time::Duration;

/// One observed fact, stamped with a global step counter.
#[derive(Clone, Debug)]
pub enum HEvent {
	/// `sign_counterparty_commitment`: this node signed the *peer's* commitment transaction.
	SignCounterparty { node: usize, keys_id: [u8; 32], tx: CommitmentTransaction, params: ChannelTransactionParameters, inbound_preimages: usize, outbound_preimages: usize },
	ReleaseSecret { node: usize, keys_id: [u8; 32], idx: u64 },
	SignHolderCommitment { node: usize, keys_id: [u8; 32], number: u64, txid: Txid },
	SignHolderHtlc { node: usize, keys_id: [u8; 32], commitment_txid: Txid, per_commitment_number: u64 },
	SignClosing { node: usize, keys_id: [u8; 32], to_holder_sat: u64, to_counterparty_sat: u64, tx: Transaction },
	SignJustice { node: usize, keys_id: [u8; 32], tx: Transaction, input: usize, htlc: bool },
	/// `Persist::persist_new_channel`
	PersistNew { node: usize, chan: ChannelId, update_id: u64, in_progress: bool },
	/// `Persist::update_persisted_channel`; `update_id` None = chain-sync persist
	PersistUpdate { node: usize, chan: ChannelId, update_id: Option<u64>, monitor_latest: u64, steps: Vec<String>, in_progress: bool, debug: String },
	/// harness called `channel_monitor_updated`
	PersistCompleted { node: usize, chan: ChannelId, update_id: u64 },
	Archive { node: usize, chan: ChannelId },
}

#[derive(Default)]
pub struct History {
	pub step: u64,
	pub events: Vec<(u64, HEvent)>,
}

thread_local! {
	pub static HIST: RefCell<History> = RefCell::new(History::default());
}

pub fn hist_reset() {
	HIST.with(|h| *h.borrow_mut() = History::default());
}

pub fn hist_push(e: HEvent) {
	HIST.with(|h| {
		let mut h = h.borrow_mut();
		h.step += 1;
		let s = h.step;
		h.events.push((s, e));
	});
}

pub fn hist_tick() -> u64 {
	HIST.with(|h| {
		let mut h = h.borrow_mut();
		h.step += 1;
		h.step
	})
}

pub fn hist_len() -> usize {
	HIST.with(|h| h.borrow().events.len())
}

/// events recorded at positions `from..`
pub fn hist_since(from: usize) -> Vec<(u64, HEvent)> {
	HIST.with(|h| h.borrow().events[from..].to_vec())
}

// -------------------------------------------------------------------------------------------------
// recording signer
// -------------------------------------------------------------------------------------------------

pub struct RecSigner {
	inner: InMemorySigner,
	node: usize,
}

impl Clone for RecSigner {
	fn clone(&self) -> Self {
		RecSigner { inner: self.inner.clone(), node: self.node }
	}
}

impl ChannelSigner for RecSigner {
	fn get_per_commitment_point(&self, idx: u64, secp_ctx: &Secp256k1<All>) -> Result<PublicKey, ()> {
		self.inner.get_per_commitment_point(idx, secp_ctx)
	}
	fn release_commitment_secret(&self, idx: u64) -> Result<[u8; 32], ()> {
		hist_push(HEvent::ReleaseSecret { node: self.node, keys_id: self.inner.channel_keys_id(), idx });
		self.inner.release_commitment_secret(idx)
	}
	fn validate_holder_commitment(&self, holder_tx: &HolderCommitmentTransaction, preimages: Vec<PaymentPreimage>) -> Result<(), ()> {
		self.inner.validate_holder_commitment(holder_tx, preimages)
	}
	fn validate_counterparty_revocation(&self, idx: u64, secret: &SecretKey) -> Result<(), ()> {
		self.inner.validate_counterparty_revocation(idx, secret)
	}
	fn pubkeys(&self, secp_ctx: &Secp256k1<All>) -> ChannelPublicKeys {
		self.inner.pubkeys(secp_ctx)
	}
	fn new_funding_pubkey(&self, splice_parent_funding_txid: Txid, secp_ctx: &Secp256k1<All>) -> PublicKey {
		self.inner.new_funding_pubkey(splice_parent_funding_txid, secp_ctx)
	}
	fn channel_keys_id(&self) -> [u8; 32] {
		self.inner.channel_keys_id()
	}
}

impl EcdsaChannelSigner for RecSigner {
	fn sign_counterparty_commitment(
		&self, channel_parameters: &ChannelTransactionParameters, commitment_tx: &CommitmentTransaction,
		inbound_htlc_preimages: Vec<PaymentPreimage>, outbound_htlc_preimages: Vec<PaymentPreimage>, secp_ctx: &Secp256k1<All>,
	) -> Result<(Signature, Vec<Signature>), ()> {
		hist_push(HEvent::SignCounterparty {
			node: self.node,
			keys_id: self.inner.channel_keys_id(),
			tx: commitment_tx.clone(),
			params: channel_parameters.clone(),
			inbound_preimages: inbound_htlc_preimages.len(),
			outbound_preimages: outbound_htlc_preimages.len(),
		});
		self.inner.sign_counterparty_commitment(channel_parameters, commitment_tx, inbound_htlc_preimages, outbound_htlc_preimages, secp_ctx)
	}
	fn sign_holder_commitment(
		&self, channel_parameters: &ChannelTransactionParameters, commitment_tx: &HolderCommitmentTransaction, secp_ctx: &Secp256k1<All>,
	) -> Result<Signature, ()> {
		hist_push(HEvent::SignHolderCommitment {
			node: self.node,
			keys_id: self.inner.channel_keys_id(),
			number: commitment_tx.commitment_number(),
			txid: commitment_tx.trust().txid(),
		});
		self.inner.sign_holder_commitment(channel_parameters, commitment_tx, secp_ctx)
	}
	fn unsafe_sign_holder_commitment(
		&self, channel_parameters: &ChannelTransactionParameters, commitment_tx: &HolderCommitmentTransaction, secp_ctx: &Secp256k1<All>,
	) -> Result<Signature, ()> {
		self.inner.unsafe_sign_holder_commitment(channel_parameters, commitment_tx, secp_ctx)
	}
	fn sign_justice_revoked_output(
		&self, channel_parameters: &ChannelTransactionParameters, justice_tx: &Transaction, input: usize, amount: u64,
		per_commitment_key: &SecretKey, secp_ctx: &Secp256k1<All>,
	) -> Result<Signature, ()> {
		hist_push(HEvent::SignJustice { node: self.node, keys_id: self.inner.channel_keys_id(), tx: justice_tx.clone(), input, htlc: false });
		self.inner.sign_justice_revoked_output(channel_parameters, justice_tx, input, amount, per_commitment_key, secp_ctx)
	}
	fn sign_justice_revoked_htlc(
		&self, channel_parameters: &ChannelTransactionParameters, justice_tx: &Transaction, input: usize, amount: u64,
		per_commitment_key: &SecretKey, htlc: &HTLCOutputInCommitment, secp_ctx: &Secp256k1<All>,
	) -> Result<Signature, ()> {
		hist_push(HEvent::SignJustice { node: self.node, keys_id: self.inner.channel_keys_id(), tx: justice_tx.clone(), input, htlc: true });
		self.inner.sign_justice_revoked_htlc(channel_parameters, justice_tx, input, amount, per_commitment_key, htlc, secp_ctx)
	}
	fn sign_holder_htlc_transaction(
		&self, htlc_tx: &Transaction, input: usize, htlc_descriptor: &HTLCDescriptor, secp_ctx: &Secp256k1<All>,
	) -> Result<Signature, ()> {
		hist_push(HEvent::SignHolderHtlc {
			node: self.node,
			keys_id: self.inner.channel_keys_id(),
			commitment_txid: htlc_descriptor.commitment_txid,
			per_commitment_number: htlc_descriptor.per_commitment_number,
		});
		self.inner.sign_holder_htlc_transaction(htlc_tx, input, htlc_descriptor, secp_ctx)
	}
	fn sign_counterparty_htlc_transaction(
		&self, channel_parameters: &ChannelTransactionParameters, htlc_tx: &Transaction, input: usize, amount: u64,
		per_commitment_point: &PublicKey, htlc: &HTLCOutputInCommitment, secp_ctx: &Secp256k1<All>,
	) -> Result<Signature, ()> {
		self.inner.sign_counterparty_htlc_transaction(channel_parameters, htlc_tx, input, amount, per_commitment_point, htlc, secp_ctx)
	}
	fn sign_closing_transaction(
		&self, channel_parameters: &ChannelTransactionParameters, closing_tx: &ClosingTransaction, secp_ctx: &Secp256k1<All>,
	) -> Result<Signature, ()> {
		hist_push(HEvent::SignClosing {
			node: self.node,
			keys_id: self.inner.channel_keys_id(),
			to_holder_sat: closing_tx.to_holder_value_sat(),
			to_counterparty_sat: closing_tx.to_counterparty_value_sat(),
			tx: closing_tx.trust().built_transaction().clone(),
		});
		self.inner.sign_closing_transaction(channel_parameters, closing_tx, secp_ctx)
	}
	fn sign_holder_keyed_anchor_input(
		&self, channel_parameters: &ChannelTransactionParameters, anchor_tx: &Transaction, input: usize, secp_ctx: &Secp256k1<All>,
	) -> Result<Signature, ()> {
		self.inner.sign_holder_keyed_anchor_input(channel_parameters, anchor_tx, input, secp_ctx)
	}
	fn sign_channel_announcement_with_funding_key(
		&self, channel_parameters: &ChannelTransactionParameters, msg: &UnsignedChannelAnnouncement, secp_ctx: &Secp256k1<All>,
	) -> Result<Signature, ()> {
		self.inner.sign_channel_announcement_with_funding_key(channel_parameters, msg, secp_ctx)
	}
	fn sign_splice_shared_input(
		&self, channel_parameters: &ChannelTransactionParameters, tx: &Transaction, input_index: usize, secp_ctx: &Secp256k1<All>,
	) -> Result<Signature, ()> {
		self.inner.sign_splice_shared_input(channel_parameters, tx, input_index, secp_ctx)
	}
}

impl DynSignerTrait for RecSigner {}
impl InnerSign for RecSigner {
	fn box_clone(&self) -> Box<dyn InnerSign> {
		Box::new(self.clone())
	}
	fn as_any(&self) -> &dyn Any {
		self
	}
}

pub struct RecKeys {
	inner: PhantomKeysManager,
	node: usize,
}

impl NodeSigner for RecKeys {
	fn get_expanded_key(&self) -> ExpandedKey {
		self.inner.get_expanded_key()
	}
	fn get_peer_storage_key(&self) -> PeerStorageKey {
		self.inner.get_peer_storage_key()
	}
	fn get_receive_auth_key(&self) -> ReceiveAuthKey {
		self.inner.get_receive_auth_key()
	}
	fn get_node_id(&self, recipient: Recipient) -> Result<PublicKey, ()> {
		self.inner.get_node_id(recipient)
	}
	fn ecdh(&self, recipient: Recipient, other_key: &PublicKey, tweak: Option<&Scalar>) -> Result<SharedSecret, ()> {
		self.inner.ecdh(recipient, other_key, tweak)
	}
	fn sign_invoice(&self, invoice: &RawBolt11Invoice, recipient: Recipient) -> Result<RecoverableSignature, ()> {
		self.inner.sign_invoice(invoice, recipient)
	}
	fn sign_bolt12_invoice(&self, invoice: &UnsignedBolt12Invoice) -> Result<schnorr::Signature, ()> {
		self.inner.sign_bolt12_invoice(invoice)
	}
	fn sign_gossip_message(&self, msg: UnsignedGossipMessage) -> Result<Signature, ()> {
		self.inner.sign_gossip_message(msg)
	}
	fn sign_message(&self, msg: &[u8]) -> Result<String, ()> {
		self.inner.sign_message(msg)
	}
}

impl OutputSpender for RecKeys {
	fn spend_spendable_outputs(
		&self, descriptors: &[&SpendableOutputDescriptor], outputs: Vec<TxOut>, change_destination_script: ScriptBuf,
		feerate_sat_per_1000_weight: u32, locktime: Option<LockTime>, secp_ctx: &Secp256k1<All>,
	) -> Result<Transaction, ()> {
		self.inner.spend_spendable_outputs(descriptors, outputs, change_destination_script, feerate_sat_per_1000_weight, locktime, secp_ctx)
	}
}

impl SignerProvider for RecKeys {
	type EcdsaSigner = DynSigner;
	fn generate_channel_keys_id(&self, inbound: bool, user_channel_id: u128) -> [u8; 32] {
		self.inner.generate_channel_keys_id(inbound, user_channel_id)
	}
	fn derive_channel_signer(&self, channel_keys_id: [u8; 32]) -> DynSigner {
		let inner = self.inner.derive_channel_signer(channel_keys_id);
		DynSigner::new(RecSigner { inner, node: self.node })
	}
	fn get_destination_script(&self, channel_keys_id: [u8; 32]) -> Result<ScriptBuf, ()> {
		self.inner.get_destination_script(channel_keys_id)
	}
	fn get_shutdown_scriptpubkey(&self) -> Result<ShutdownScript, ()> {
		self.inner.get_shutdown_scriptpubkey()
	}
}

impl EntropySource for RecKeys {
	fn get_secure_random_bytes(&self) -> [u8; 32] {
		self.inner.get_secure_random_bytes()
	}
}

impl DynKeysInterfaceTrait for RecKeys {}

struct RecFactory;
impl TestSignerFactory for RecFactory {
	fn make_signer(
		&self, seed: &[u8; 32], now: Duration, v2_remote_key_derivation: bool, phantom_seed: Option<&[u8; 32]>,
	) -> Box<dyn DynKeysInterfaceTrait<EcdsaSigner = DynSigner>> {
		let phantom = PhantomKeysManager::new(
			seed,
			now.as_secs(),
			now.subsec_nanos(),
			if let Some(p) = phantom_seed { p } else { seed },
			v2_remote_key_derivation,
		);
		// functional_test_utils seeds node i with [i; 32]
		Box::new(RecKeys { inner: phantom, node: seed[0] as usize })
	}
}

/// Install the recording signer factory (process-wide; the recorders themselves are thread-local).
pub fn install_recording_signer() {
	SIGNER_FACTORY.set(Arc::new(RecFactory));
	tolerate_observations();
}

/// Library debug assertions that are observations, not verdicts (DESIGN.md 9.3); registered by every netsim check.
pub fn tolerate_observations() {
	// Every netsim check calls this first. One library debug assertion is reachable from the harness's own
	// `list_channels` calls in honest operation and is an observation, not a verdict (DESIGN.md §9.3): the
	// balance predictor includes the peer's not yet committed HTLCs and reports an overdraft although every
	// commitment actually signed is sound; release builds report zero limits instead of panicking.
	vcore::tolerate_panic("some channel balance has been overdrawn", "obs:list_channels-overdrawn-debug-assert");
	// `ChannelManager::read` debug-asserts that a `FreeDuplicateClaimImmediately` completion action is never found
	// in the serialized queue; a manager written while a duplicate claim's monitor update is in flight contains
	// one. The code path after the assertion handles it (nothing to do), release builds load normally.
	vcore::tolerate_panic("Non-event-generating channel freeing should not appear in our queue", "obs:manager-read-debug-assert-free-duplicate-claim");
	// same bookkeeping (a redundant claim whose duplicative RAA blocker is expected in the map): after a restart the
	// blocker may be gone already; the release code path just removes nothing.
	vcore::tolerate_panic("assertion failed: found_blocker", "obs:duplicate-claim-blocker-not-found-debug-assert");
}

/// The test ChainMonitor of the library re-reads every monitor it has just written and asserts equality. That is
/// C12's subject (two listed C12 findings about claim packages that do not re-read equal make it fire); every
/// other netsim check labels such a case as foreign and gives it up instead of reporting it as its own verdict.
pub fn tolerate_monitor_roundtrip_tripwire() {
	vcore::tolerate_panic("assertion failed: new_monitor == *monitor", "foreign-failure:C12:monitor-roundtrip");
}

// -------------------------------------------------------------------------------------------------
// recording persister
// -------------------------------------------------------------------------------------------------

/// Render the step kinds of a `ChannelMonitorUpdate` from its derived `Debug` output (the variants of
/// `ChannelMonitorUpdateStep` are crate-private data but their names are stable in `Debug`).
pub fn update_step_kinds(update: &ChannelMonitorUpdate) -> Vec<String> {
	const KINDS: &[&str] = &[
		"LatestHolderCommitmentTXInfo",
		"LatestHolderCommitment",
		"LatestCounterpartyCommitmentTXInfo",
		"LatestCounterpartyCommitment",
		"PaymentPreimage",
		"CommitmentSecret",
		"ChannelForceClosed",
		"ShutdownScript",
		"RenegotiatedFundingLocked",
		"RenegotiatedFunding",
		"ReleasePaymentComplete",
	];
	// `ChannelMonitorUpdate { updates: [Step { .. }, Step { .. }], update_id: N, channel_id: .. }`
	let d = format!("{:?}", update);
	let mut out = vec![];
	let Some(start) = d.find("updates: [") else { return vec!["?unparsed".to_string()] };
	let body = &d[start + "updates: [".len()..];
	let mut depth = 0i32;
	let mut at_elem_start = true;
	let mut cur = String::new();
	for ch in body.chars() {
		if depth == 0 && at_elem_start {
			if ch.is_alphanumeric() || ch == '_' {
				cur.push(ch);
				continue;
			} else if !cur.is_empty() {
				out.push(if KINDS.contains(&cur.as_str()) { cur.clone() } else { format!("?{}", cur) });
				cur.clear();
				at_elem_start = false;
			} else if ch == ' ' {
				continue;
			}
		}
		match ch {
			'[' | '{' | '(' => depth += 1,
			']' | '}' | ')' => {
				depth -= 1;
				if depth < 0 {
					break;
				}
			},
			',' if depth == 0 => at_elem_start = true,
			_ => {},
		}
	}
	out
}

#[derive(Default)]
pub struct PersistState {
	/// channels currently answering InProgress
	pub async_chans: BTreeSet<ChannelId>,
	/// if set, every channel answers InProgress (also brand-new ones)
	pub async_all: bool,
	/// update ids handed out as InProgress and not yet completed, per channel, in hand-out order
	pub pending: BTreeMap<ChannelId, Vec<u64>>,
	/// serialized monitor after each persist call: (channel, monitor latest_update_id, bytes, was chain-sync persist)
	pub images: Vec<(ChannelId, u64, Vec<u8>, bool)>,
	/// keep the serialized images (costly); off for profiles that do not restart
	pub keep_images: bool,
	/// in asynchronous mode also answer InProgress to chain-sync persists (no update provided). The contract
	/// needs no completion call for those, so such a write is simply not durable until a later completed write
	/// of the channel replaces it. Off unless a check switches it on.
	pub async_chain_sync: bool,
	/// latest image per channel that is *durable* (persist returned Completed, or was completed later)
	pub durable: BTreeMap<ChannelId, (u64, Vec<u8>)>,
	/// latest image per channel handed to the persister at all
	pub latest: BTreeMap<ChannelId, (u64, Vec<u8>)>,
	/// images of InProgress updates keyed by (channel, update id) so that completion can promote them
	pub inflight_images: BTreeMap<(ChannelId, u64), Vec<u8>>,
}

pub struct RecPersister {
	pub node: usize,
	pub state: Mutex<PersistState>,
}

impl RecPersister {
	pub fn new(node: usize, keep_images: bool) -> Self {
		let mut st = PersistState::default();
		st.keep_images = keep_images;
		RecPersister { node, state: Mutex::new(st) }
	}
	fn is_async(&self, st: &PersistState, chan: &ChannelId) -> bool {
		st.async_all || st.async_chans.contains(chan)
	}
}

impl Persist<TestChannelSigner> for RecPersister {
	fn persist_new_channel(&self, _name: MonitorName, monitor: &ChannelMonitor<TestChannelSigner>) -> ChannelMonitorUpdateStatus {
		let chan = monitor.channel_id();
		let id = monitor.get_latest_update_id();
		let mut st = self.state.lock().unwrap();
		let in_progress = self.is_async(&st, &chan);
		let bytes = monitor.encode();
		st.latest.insert(chan, (id, bytes.clone()));
		if st.keep_images {
			st.images.push((chan, id, bytes.clone(), false));
		}
		if in_progress {
			st.pending.entry(chan).or_default().push(id);
			st.inflight_images.insert((chan, id), bytes);
		} else {
			st.durable.insert(chan, (id, bytes));
		}
		drop(st);
		hist_push(HEvent::PersistNew { node: self.node, chan, update_id: id, in_progress });
		if in_progress {
			ChannelMonitorUpdateStatus::InProgress
		} else {
			ChannelMonitorUpdateStatus::Completed
		}
	}

	fn update_persisted_channel(
		&self, _name: MonitorName, update: Option<&ChannelMonitorUpdate>, monitor: &ChannelMonitor<TestChannelSigner>,
	) -> ChannelMonitorUpdateStatus {
		let chan = monitor.channel_id();
		let latest = monitor.get_latest_update_id();
		let mut st = self.state.lock().unwrap();
		// chain-sync persists (no update) are answered Completed: the documented contract only requires a
		// completion call when an update is provided.
		let in_progress = (update.is_some() || st.async_chain_sync) && self.is_async(&st, &chan);
		let bytes = monitor.encode();
		st.latest.insert(chan, (latest, bytes.clone()));
		if st.keep_images {
			st.images.push((chan, latest, bytes.clone(), update.is_none()));
		}
		if in_progress {
			if let Some(u) = update {
				st.pending.entry(chan).or_default().push(u.update_id);
				st.inflight_images.insert((chan, u.update_id), bytes);
			}
		} else {
			// a Completed write of the full monitor makes everything up to `latest` durable only if no
			// earlier update of this channel is still in flight (the contract forbids Completed while
			// InProgress is outstanding; chain-sync persists while updates are in flight do not count as
			// completion of those updates, but the bytes on disk do contain them).
			st.durable.insert(chan, (latest, bytes));
		}
		drop(st);
		hist_push(HEvent::PersistUpdate {
			node: self.node,
			chan,
			update_id: update.map(|u| u.update_id),
			monitor_latest: latest,
			steps: update.map(|u| update_step_kinds(u)).unwrap_or_default(),
			in_progress,
			debug: update.map(|u| format!("{:?}", u)).unwrap_or_default(),
		});
		if in_progress {
			ChannelMonitorUpdateStatus::InProgress
		} else {
			ChannelMonitorUpdateStatus::Completed
		}
	}

	fn archive_persisted_channel(&self, _name: MonitorName) {}
}
