//! Property-specific engine extensions for C06 (owned by the C06 check).
