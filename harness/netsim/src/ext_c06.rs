//! Property-specific engine extensions for C06 (owned by the C06 check).
//!
//! * `build_world`: pair world in which only the cheater's key interface has the revoked-state signing policy
//!   check disabled (everything else as `WorldSpec::build`).
//! * `x_states`: every holder commitment the cheater X ever had, as the serialized monitor images written
//!   while that commitment was current (taken from X's recording persister, correlated with the history).
//! * `StaleX`: a stand-alone, out-of-date `ChannelMonitor` of X fed with the global chain; it produces X's
//!   revoked commitment and, once that is confirmed, X's HTLC-success / HTLC-timeout transactions (anchor
//!   types through a `BumpTransactionEventHandlerSync` with X's own off-node wallet).
//! * chain-only mining and style-aware (possibly delayed) block delivery to one node.
//! * `TkInfo`: classification of the outputs of the revoked commitment from what the victim V signed.
//! * `JusticeOracle`: the C06 oracles over `sim.chain` (ground truth), V's broadcasts, events and balances.

use crate::chain::{ChainSim, Reject};
use crate::ops::*;
use crate::rec::*;
use crate::sim::*;
use crate::world::*;
use bitcoin::blockdata::block::Block;
use bitcoin::secp256k1::{Secp256k1, SecretKey};
use bitcoin::{OutPoint, ScriptBuf, Transaction, TxOut, Txid};
use lightning::chain::chaininterface::{BroadcasterInterface, ConfirmationTarget, TransactionType};
use lightning::chain::channelmonitor::{Balance, ChannelMonitor};
use lightning::chain::BlockLocator;
use lightning::events::bump_transaction::sync::BumpTransactionEventHandlerSync;
use lightning::events::bump_transaction::BumpTransactionEvent;
use lightning::events::Event;
use lightning::ln::chan_utils;
use lightning::ln::functional_test_utils::connect_blocks;
use lightning::ln::types::ChannelId;
use lightning::sign::{OutputSpender, SpendableOutputDescriptor};
use lightning::util::ser::ReadableArgs;
use lightning::util::test_channel_signer::TestChannelSigner;
use lightning::util::test_utils::{TestFeeEstimator, TestKeysInterface, TestLogger, TestWalletSource};
use lightning::util::wallet_utils::{WalletSourceSync, WalletSync};
use std::collections::{BTreeMap, BTreeSet, HashMap};
use std::sync::{Arc, Mutex};
use vcore::{CaseResult, Failure};

// -------------------------------------------------------------------------------------------------
// world
// -------------------------------------------------------------------------------------------------

/// As `WorldSpec::build(true)` for a pair, but node `x`'s key interface signs revoked holder state.
pub fn build_world(spec: &WorldSpec, x: usize) -> Sim {
	let n = 2;
	let w = World::new(WorldCfg {
		n,
		configs: spec.node_configs(n),
		keep_images: true,
		deferred_monitor: false,
		connect_style: connect_style_of(spec.connect_style),
		node_styles: spec.node_styles.iter().map(|s| connect_style_of(*s)).collect(),
		disable_revocation_policy: vec![x],
	});
	for nd in w.nodes.iter() {
		*nd.fee_estimator.sat_per_kw.lock().unwrap() = spec.feerate;
		let mut ov = nd.fee_estimator.target_override.lock().unwrap();
		ov.insert(ConfirmationTarget::MinAllowedAnchorChannelRemoteFee, 253);
		ov.insert(ConfirmationTarget::MinAllowedNonAnchorChannelRemoteFee, 253);
		ov.insert(ConfirmationTarget::ChannelCloseMinimum, 253);
	}
	let mut sim = Sim::new(w);
	if spec.ctype != CType::Static {
		sim.fund_wallets(2);
	}
	let v = spec.value_sat[0];
	let want = v * spec.push_permille[0] as u64;
	let keep_sat = (v / 5).max(10_000);
	let push = want.min((v - keep_sat) * 1000);
	sim.open_channel(0, 1, v, push);
	sim
}

// -------------------------------------------------------------------------------------------------
// X's stored states
// -------------------------------------------------------------------------------------------------

pub struct XStates {
	/// every monitor image X's persister was handed for the channel, in order
	pub images: Vec<Vec<u8>>,
	/// per holder commitment of X (oldest first): first and last image index written while it was current
	pub spans: Vec<(usize, usize)>,
}

/// Correlates X's persister images with the recorded `Persist` calls: a new holder commitment of X starts
/// with `persist_new_channel` and with every update carrying a `LatestHolderCommitment*` step.
pub fn x_states(sim: &Sim, x: usize, chan: ChannelId) -> Result<XStates, String> {
	let images: Vec<Vec<u8>> = sim.w.persisters[x].state.lock().unwrap().images.iter().filter(|(c, _, _, _)| *c == chan).map(|(_, _, b, _)| b.clone()).collect();
	let mut marks = vec![];
	for (_, e) in hist_since(0) {
		match e {
			HEvent::PersistNew { node, chan: c, .. } if node == x && c == chan => marks.push(true),
			HEvent::PersistUpdate { node, chan: c, steps, .. } if node == x && c == chan => marks.push(steps.iter().any(|s| s.starts_with("LatestHolderCommitment"))),
			_ => {},
		}
	}
	if marks.len() != images.len() || marks.first() != Some(&true) {
		return Err(format!("{} persist calls vs {} images", marks.len(), images.len()));
	}
	let mut spans: Vec<(usize, usize)> = vec![];
	for (i, m) in marks.iter().enumerate() {
		if *m {
			spans.push((i, i));
		} else {
			spans.last_mut().unwrap().1 = i;
		}
	}
	Ok(XStates { images, spans })
}

/// Number of X's commitments V can punish: one per distinct `revoke_and_ack` of X that reached V (the j-th
/// revokes X's j-th oldest commitment, BOLT-2).
pub fn revoked_count(sim: &Sim, x: usize, v: usize) -> usize {
	let mut secrets = BTreeSet::new();
	for (_, e) in sim.log.iter() {
		if let SEvent::Deliver { from, to, wire: Wire::Revoke(m) } = e {
			if *from == x && *to == v {
				secrets.insert(m.per_commitment_secret);
			}
		}
	}
	secrets.len()
}

/// commitment numbers whose secret X's signer released
pub fn released_numbers(x: usize) -> BTreeSet<u64> {
	hist_since(0).into_iter().filter_map(|(_, e)| if let HEvent::ReleaseSecret { node, idx, .. } = e { (node == x).then_some(idx) } else { None }).collect()
}

// -------------------------------------------------------------------------------------------------
// the revoked commitment, classified from what V signed
// -------------------------------------------------------------------------------------------------

#[derive(Clone, Debug)]
pub struct TkHtlc {
	pub vout: u32,
	/// offered by X (X's second stage is HTLC-timeout) or received by X (HTLC-success)
	pub offered_by_x: bool,
	pub value_sat: u64,
	pub cltv: u32,
}

#[derive(Clone, Debug)]
pub struct TkInfo {
	pub tx: Transaction,
	pub txid: Txid,
	pub number: u64,
	pub htlcs: Vec<TkHtlc>,
	pub to_local: Option<u32>,
	pub to_remote: Option<u32>,
	pub anchors: Vec<u32>,
	pub channel_value_sat: u64,
	pub contest_delay: u16,
}

impl TkInfo {
	/// outputs X could still take: its delayed balance and every HTLC output (value, outpoint)
	pub fn contested(&self) -> Vec<(OutPoint, u64)> {
		let mut v = vec![];
		if let Some(i) = self.to_local {
			v.push((OutPoint { txid: self.txid, vout: i }, self.tx.output[i as usize].value.to_sat()));
		}
		for h in self.htlcs.iter() {
			v.push((OutPoint { txid: self.txid, vout: h.vout }, h.value_sat));
		}
		v
	}
}

/// Find the `sign_counterparty_commitment` call of V that produced `tk` and classify its outputs with the
/// BOLT-3 script templates (helpers of `chan_utils`, keyed with the channel's static keys).
pub fn classify_tk(tk: &Transaction, v: usize) -> Result<TkInfo, String> {
	let txid = tk.compute_txid();
	for (_, e) in hist_since(0) {
		let HEvent::SignCounterparty { node, tx, params, .. } = e else { continue };
		if node != v || tx.trust().txid() != txid {
			continue;
		}
		let dir = params.as_counterparty_broadcastable();
		let trusted = tx.trust();
		let keys = trusted.keys();
		let to_local_spk = chan_utils::get_revokeable_redeemscript(&keys.revocation_key, dir.contest_delay(), &keys.broadcaster_delayed_payment_key).to_p2wsh();
		let pay = dir.countersignatory_pubkeys().payment_point;
		let to_remote_spks = [
			chan_utils::get_to_countersigner_keyed_anchor_redeemscript(&pay).to_p2wsh(),
			ScriptBuf::new_p2wpkh(&bitcoin::PublicKey::new(pay).wpubkey_hash().unwrap()),
		];
		let anchor_spks = [
			chan_utils::get_keyed_anchor_redeemscript(&dir.broadcaster_pubkeys().funding_pubkey).to_p2wsh(),
			chan_utils::get_keyed_anchor_redeemscript(&dir.countersignatory_pubkeys().funding_pubkey).to_p2wsh(),
			chan_utils::shared_anchor_script_pubkey(),
		];
		let mut info = TkInfo {
			tx: tk.clone(),
			txid,
			number: tx.commitment_number(),
			htlcs: vec![],
			to_local: None,
			to_remote: None,
			anchors: vec![],
			channel_value_sat: dir.channel_value_satoshis(),
			contest_delay: dir.contest_delay(),
		};
		let mut htlc_idx = BTreeSet::new();
		for h in tx.nondust_htlcs() {
			let Some(vout) = h.transaction_output_index else { continue };
			if tk.output.get(vout as usize).map(|o| o.value.to_sat()) != Some(h.amount_msat / 1000) {
				return Err(format!("HTLC output {} does not carry amount_msat/1000", vout));
			}
			htlc_idx.insert(vout);
			info.htlcs.push(TkHtlc { vout, offered_by_x: h.offered, value_sat: h.amount_msat / 1000, cltv: h.cltv_expiry });
		}
		for (i, o) in tk.output.iter().enumerate() {
			let i = i as u32;
			if htlc_idx.contains(&i) {
				continue;
			}
			if o.script_pubkey == to_local_spk && info.to_local.is_none() {
				info.to_local = Some(i);
			} else if to_remote_spks.contains(&o.script_pubkey) && info.to_remote.is_none() {
				info.to_remote = Some(i);
			} else if anchor_spks.contains(&o.script_pubkey) {
				info.anchors.push(i);
			} else {
				return Err(format!("output {} of the revoked commitment is not classifiable", i));
			}
		}
		return Ok(info);
	}
	Err("V never signed this commitment".into())
}

// -------------------------------------------------------------------------------------------------
// the cheater's stale monitor
// -------------------------------------------------------------------------------------------------

#[derive(Default)]
pub struct CollectBroadcaster {
	pub txs: Mutex<Vec<Transaction>>,
}

impl BroadcasterInterface for CollectBroadcaster {
	fn broadcast_transactions(&self, txs: &[(&Transaction, TransactionType)]) {
		let mut g = self.txs.lock().unwrap();
		for (t, _) in txs {
			g.push((*t).clone());
		}
	}
}

type XHandler = BumpTransactionEventHandlerSync<Arc<CollectBroadcaster>, Arc<WalletSync<Arc<TestWalletSource>, &'static TestLogger>>, &'static TestKeysInterface, &'static TestLogger>;

pub struct StaleX {
	pub mon: ChannelMonitor<TestChannelSigner>,
	pub bcast: Arc<CollectBroadcaster>,
	pub wallet: Arc<TestWalletSource>,
	handler: XHandler,
	fee_est: &'static TestFeeEstimator,
	logger: &'static TestLogger,
	/// height up to which the monitor has been fed
	pub fed: u32,
	/// every distinct transaction the stale monitor (or its bump handler) produced, in order
	pub txs: Vec<Transaction>,
}

impl StaleX {
	pub fn new(sim: &Sim, x: usize, image: &[u8]) -> Result<StaleX, String> {
		let nd = &sim.w.nodes[x];
		let km: &'static TestKeysInterface = nd.keys_manager;
		let logger: &'static TestLogger = nd.logger;
		let mut r = image;
		let (_, mon) = <(BlockLocator, ChannelMonitor<TestChannelSigner>)>::read(&mut r, (km, km)).map_err(|e| format!("stale monitor does not deserialize: {:?}", e))?;
		let bcast = Arc::new(CollectBroadcaster::default());
		let wallet = Arc::new(TestWalletSource::new(SecretKey::from_slice(&[0x77; 32]).unwrap()));
		let ws = Arc::new(WalletSync::new(Arc::clone(&wallet), logger));
		let handler = BumpTransactionEventHandlerSync::new(Arc::clone(&bcast), ws, km, logger);
		let fed = mon.current_best_block().height;
		Ok(StaleX { mon, bcast, wallet, handler, fee_est: nd.fee_estimator, logger, fed, txs: vec![] })
	}

	/// transaction funding X's off-node wallet (no inputs: accepted by the chain simulator as external money)
	pub fn wallet_funding_tx(&self, utxos: usize) -> Transaction {
		let spk = self.wallet.get_change_script().unwrap();
		Transaction {
			version: bitcoin::transaction::Version::TWO,
			lock_time: bitcoin::absolute::LockTime::ZERO,
			input: vec![],
			output: (0..utxos).map(|_| TxOut { value: bitcoin::Amount::ONE_BTC, script_pubkey: spk.clone() }).collect(),
		}
	}

	/// X's revoked holder commitment as the stale monitor signs it.
	pub fn commitment(&self) -> Transaction {
		self.mon.unsafe_get_latest_holder_commitment_txn(&self.logger)[0].clone()
	}

	/// Bring the stale monitor to the tip of the global chain (X is always fully synced), let it react
	/// (HTLC claims on its confirmed commitment) and collect what it wants broadcast.
	pub fn feed(&mut self, chain: &ChainSim) {
		let wallet_spk = self.wallet.get_change_script().unwrap();
		while self.fed < chain.height() {
			let h = self.fed + 1;
			let blk = &chain.blocks[h as usize];
			for tx in blk.txdata.iter() {
				for i in tx.input.iter() {
					self.wallet.remove_utxo(i.previous_output);
				}
				for (idx, o) in tx.output.iter().enumerate() {
					if o.script_pubkey == wallet_spk {
						self.wallet.add_utxo(tx.clone(), idx as u32);
					}
				}
			}
			let txdata: Vec<(usize, &Transaction)> = blk.txdata.iter().enumerate().collect();
			self.mon.block_connected(&blk.header, &txdata, h, &*self.bcast, self.fee_est, &self.logger);
			self.fed = h;
			self.pump();
		}
		self.pump();
	}

	fn pump(&mut self) {
		let evs = std::cell::RefCell::new(vec![]);
		let collect = |e: Event| -> Result<(), lightning::events::ReplayEvent> {
			evs.borrow_mut().push(e);
			Ok(())
		};
		let _ = self.mon.process_pending_events(&&collect, &self.logger);
		for ev in evs.into_inner() {
			if let Event::BumpTransaction(b) = &ev {
				if let BumpTransactionEvent::HTLCResolution { .. } = b {
					self.handler.handle_event(b);
				}
			}
		}
		let new: Vec<Transaction> = self.bcast.txs.lock().unwrap().drain(..).collect();
		for t in new {
			let id = t.compute_txid();
			if !self.txs.iter().any(|o| o.compute_txid() == id) {
				self.txs.push(t);
			}
		}
	}

	/// X's second-stage candidates on top of `tk`: per distinct set of spent commitment outputs the newest
	/// version, in order of first appearance.
	pub fn candidates(&self, tk: Txid) -> Vec<Transaction> {
		let mut groups: Vec<(Vec<OutPoint>, Transaction)> = vec![];
		for t in self.txs.iter() {
			let mut key: Vec<OutPoint> = t.input.iter().map(|i| i.previous_output).filter(|o| o.txid == tk).collect();
			if key.is_empty() {
				continue;
			}
			key.sort();
			if let Some(g) = groups.iter_mut().find(|(k, _)| *k == key) {
				g.1 = t.clone();
			} else {
				groups.push((key, t.clone()));
			}
		}
		groups.into_iter().map(|(_, t)| t).collect()
	}
}

// -------------------------------------------------------------------------------------------------
// chain-only mining, (delayed) delivery to one node
// -------------------------------------------------------------------------------------------------

impl Sim {
	/// Mine a block on the global chain without telling any node.
	pub fn c06_mine(&mut self, txs: Vec<Transaction>) -> (Block, Vec<(Txid, Reject)>) {
		let (block, rejected) = self.chain.mine(txs);
		let height = self.chain.height();
		self.rec(SEvent::Mined { height, txids: block.txdata.iter().map(|t| t.compute_txid()).collect() });
		(block, rejected)
	}

	/// Hand consecutive blocks of the global chain to `node` in its current connect style. Runs of empty
	/// blocks go through `connect_blocks`, which for the "skipping" styles only notifies the last one (the
	/// `Confirm` contract allows that); it recreates exactly the blocks the chain simulator mined.
	pub fn c06_deliver(&mut self, node: usize, blocks: &[Block]) {
		let mut i = 0;
		while i < blocks.len() {
			if blocks[i].txdata.is_empty() {
				let mut j = i;
				while j < blocks.len() && blocks[j].txdata.is_empty() {
					j += 1;
				}
				connect_blocks(&self.w.nodes[node], (j - i) as u32);
				assert_eq!(self.w.nodes[node].best_block_hash(), blocks[j - 1].block_hash(), "harness: node and global chain diverged");
				let height = self.w.nodes[node].best_block_info().1;
				self.rec(SEvent::BlockDelivered { node, height });
				self.w.nodes[node].chain_monitor.added_monitors.lock().unwrap().clear();
				self.drain(node);
				i = j;
			} else {
				self.deliver_block(node, &blocks[i]);
				assert_eq!(self.w.nodes[node].best_block_hash(), blocks[i].block_hash(), "harness: node and global chain diverged");
				i += 1;
			}
		}
	}

	/// Process only the ChainMonitor's events of `node` (SpendableOutputs, BumpTransaction). The
	/// ChannelManager's own events (payment failures etc.) are left queued: C06 processes them at the very
	/// end, see c06.rs.
	pub fn c06_monitor_events(&mut self, node: usize) -> usize {
		let mevs = self.w.nodes[node].chain_monitor.chain_monitor.get_and_clear_pending_events();
		for ev in mevs.iter() {
			self.rec(SEvent::Ldk { node, ev: ev.clone() });
			if let Event::BumpTransaction(bump) = ev {
				self.w.nodes[node].bump_tx_handler.handle_event(bump);
			}
		}
		self.drain(node);
		mevs.len()
	}

	pub fn c06_height_of(&self, node: usize) -> u32 {
		self.w.nodes[node].best_block_info().1
	}

	/// best-block height of the newest monitor image `node`'s persister holds for `chan`
	pub fn c06_image_height(&self, node: usize, chan: ChannelId) -> Option<u32> {
		let bytes = self.w.persisters[node].state.lock().unwrap().latest.get(&chan).map(|(_, b)| b.clone())?;
		let km = self.w.nodes[node].keys_manager;
		let mut r = &bytes[..];
		<(BlockLocator, ChannelMonitor<TestChannelSigner>)>::read(&mut r, (km, km)).ok().map(|(_, m)| m.current_best_block().height)
	}
}

// -------------------------------------------------------------------------------------------------
// oracles
// -------------------------------------------------------------------------------------------------

#[derive(Clone, Debug, PartialEq, Eq)]
pub enum Status {
	/// nobody spent it yet (tip = the output X could still take after its CSV)
	Open(OutPoint),
	/// spent by a transaction V broadcast, confirmed at this height
	VClaimed(OutPoint, Txid, u32),
}

#[derive(Default, Debug, Clone)]
pub struct JStats {
	pub v_broadcasts: u64,
	pub benign_conflicts: u64,
	pub reissues: u64,
	pub reissues_bumped: u64,
	pub adequacy_checks: u64,
	pub balance_checks: u64,
	pub max_revoked_balances: usize,
}

pub struct JusticeOracle {
	pub v: usize,
	pub chan: ChannelId,
	pub tk: TkInfo,
	cur_log: usize,
	pub v_txids: BTreeSet<Txid>,
	/// V's broadcasts in order (distinct)
	pub v_txs: Vec<Transaction>,
	/// (c): per exact set of contested inputs the last issued version: (fee, feerate sat/kw, txid)
	issued: BTreeMap<Vec<OutPoint>, (u64, f64, Txid)>,
	/// the same as of the last moment V's monitor was persisted (a reloaded V can only continue from there)
	issued_durable: BTreeMap<Vec<OutPoint>, (u64, f64, Txid)>,
	/// announced `SpendableOutputs` descriptors by outpoint
	pub descriptors: BTreeMap<OutPoint, SpendableOutputDescriptor>,
	pub stats: JStats,
	/// V's on-chain fee estimate over time: (V's height when it changed, sat/kw)
	est_hist: Vec<(u32, u32)>,
	/// per contested outpoint: V's height when it first issued a claim for it, and the latest version spending it
	/// (feerate sat/kw, weight, value of all its inputs, txid)
	first_claim_at: BTreeMap<OutPoint, u32>,
	latest_claim: BTreeMap<OutPoint, (f64, u64, u64, Txid)>,
	/// inputs of each claim transaction recorded in `latest_claim`
	claim_inputs: BTreeMap<Txid, Vec<OutPoint>>,
	/// per contested outpoint: (feerate sat/kw, fee sat, txid) of the first claim of the current claiming period
	first_claim: BTreeMap<OutPoint, (f64, u64, Txid)>,
	cur_v_height: u32,
}

/// A claim that has been pending for this many blocks of V's chain reflects V's current fee estimate: the library's
/// re-issue timer for justice claims is at most 15 blocks (the margin covers reloads and lagging delivery).
pub const ADEQUACY_WINDOW: u32 = 24;

fn fail(oracle: &str, detail: String) -> Failure {
	Failure::new(oracle, detail)
}

impl JusticeOracle {
	pub fn new(sim: &Sim, v: usize, chan: ChannelId, tk: TkInfo) -> JusticeOracle {
		let mut o = JusticeOracle { v, chan, tk, cur_log: 0, v_txids: BTreeSet::new(), v_txs: vec![], issued: BTreeMap::new(), issued_durable: BTreeMap::new(), descriptors: BTreeMap::new(), stats: JStats::default(), est_hist: vec![], first_claim_at: BTreeMap::new(), latest_claim: BTreeMap::new(), claim_inputs: BTreeMap::new(), first_claim: BTreeMap::new(), cur_v_height: 0 };
		// broadcasts of V before the cheat (e.g. its own force close) still count as V's transactions
		for (_, e) in sim.log.iter() {
			if let SEvent::Broadcast { node, tx, .. } = e {
				if *node == v && o.v_txids.insert(tx.compute_txid()) {
					o.v_txs.push(tx.clone());
				}
			}
		}
		o.cur_log = sim.log.len();
		o
	}

	/// V's monitor has just been persisted with everything it issued so far (the ChainMonitor persists a
	/// monitor with pending claims after every chain notification; `rebroadcast_pending_claims` does not).
	pub fn mark_durable(&mut self) {
		self.issued_durable = self.issued.clone();
	}

	/// V's fee estimate for on-chain claims is `rate` from V's height `h` on.
	pub fn note_estimate(&mut self, h: u32, rate: u32) {
		self.est_hist.push((h, rate));
	}

	/// "re-issues those claims with adequate fees until they are buried": a contested output that is still unspent
	/// on the chain V was told, and that V has been claiming for at least `ADEQUACY_WINDOW` blocks, is claimed by
	/// a latest version paying at least the lowest estimate V's estimator gave during that window (2 % tolerance),
	/// provided the claimed value can pay for it with a wide margin.
	pub fn adequacy_rule(&mut self, sim: &Sim, hv: u32) -> CaseResult {
		if hv < ADEQUACY_WINDOW || self.est_hist.is_empty() {
			return Ok(());
		}
		let from = hv - ADEQUACY_WINDOW;
		// estimates in effect during [from, hv]: the last change at or before `from`, and every later one
		let mut req: Option<u32> = None;
		let mut before: Option<u32> = None;
		for (h, r) in self.est_hist.iter() {
			if *h <= from {
				before = Some(*r);
			} else {
				req = Some(req.map(|x: u32| x.min(*r)).unwrap_or(*r));
			}
		}
		let req = match (req, before) {
			(Some(a), Some(b)) => a.min(b),
			(Some(a), None) => a,
			(None, Some(b)) => b,
			(None, None) => return Ok(()),
		};
		for (_, _, st) in self.statuses(sim, hv) {
			let Status::Open(tip) = st else { continue };
			let Some(first) = self.first_claim_at.get(&tip) else { continue };
			if *first > from {
				continue;
			}
			let Some((rate, weight, in_sum, id)) = self.latest_claim.get(&tip).cloned() else { continue };
			// only a claim that is still valid is judged on its fee: when another input of an aggregated claim has
			// been spent meanwhile, the question is whether the remainder is claimed again at all, which the
			// end-of-case completeness rule decides (and where the listed split-remainder finding lives)
			let spent_elsewhere = |op: &OutPoint| sim.chain.spent_by.get(op).and_then(|s| sim.chain.confirmed.get(s)).map(|(_, h)| *h <= hv).unwrap_or(false);
			if self.claim_inputs.get(&id).map(|ins| ins.iter().any(|i| spent_elsewhere(i))).unwrap_or(true) {
				continue;
			}
			let need = req as u64 * weight / 1000;
			if in_sum < need * 2 + 2_000 {
				continue;
			}
			self.stats.adequacy_checks += 1;
			if std::env::var("C06_ADEQ_DEBUG").is_ok() {
				vcore::report(&format!("adequacy hv={} tip={} first={} rate={:.1} req={} in_sum={} weight={} hist={:?}", hv, tip, first, rate, req, in_sum, weight, self.est_hist));
			}
			// "until they are buried": a claim that stays unconfirmed is re-issued with a higher fee (the library
			// bumps by 25 % at every timer even when its estimate does not move); refusals because the bumped fee
			// would leave less than the dust limit are the listed split-remainder finding
			if let Some((frate, ffee, fid)) = self.first_claim.get(&tip).cloned() {
				if rate <= frate * 1.005 && in_sum >= ffee * 4 + 2_000 && !sim.w.noted(self.v, "bump-refused-below-dust") {
					return Err(fail(
						"fee-inadequate",
						format!("V has been claiming {} since its height {} and the output is still unspent at its height {}, yet the latest claim {} pays {:.1} sat/kw, no more than the first one {} ({:.1} sat/kw, {} sat of {} sat claimed): the claim was never bumped in {} blocks", tip, first, hv, id, rate, fid, frate, ffee, in_sum, hv - first),
					)
					.with_key("fee-inadequate/claim-never-bumped"));
				}
			}
			if rate < req as f64 * 0.98 {
				return Err(fail(
					"fee-inadequate",
					format!("V has been claiming {} since its height {} and the output is still unspent at its height {}; the latest claim {} pays {:.1} sat/kw although V's fee estimate has been at least {} sat/kw for the last {} blocks (claimed value {} sat, weight {})", tip, first, hv, id, rate, req, ADEQUACY_WINDOW, in_sum, weight),
				)
				.with_key("fee-inadequate/claim-not-bumped-to-estimate"));
			}
		}
		Ok(())
	}

	/// V was reloaded from its persisted monitor: fee monotonicity continues from the persisted state.
	pub fn on_reload(&mut self) {
		self.issued = self.issued_durable.clone();
		// a reloaded monitor starts its re-issue timers again from what was persisted: the claiming periods the
		// adequacy rules look at start over
		self.first_claim_at.clear();
		self.first_claim.clear();
		self.latest_claim.clear();
	}

	fn prevout(&self, sim: &Sim, op: &OutPoint) -> Option<TxOut> {
		sim.chain.seen.get(&op.txid).and_then(|t| t.output.get(op.vout as usize).cloned())
	}

	/// the outpoints V has to take from X at this moment of the global chain, looking only at blocks up to
	/// `upto`: X's delayed balance, each HTLC output, or — where a second-stage transaction of X spent an
	/// HTLC output — that transaction's output at the index of the spending input (BOLT-3: one in / one out,
	/// or SIGHASH_SINGLE|ANYONECANPAY pairs for anchor types).
	pub fn statuses(&self, sim: &Sim, upto: u32) -> Vec<(OutPoint, u64, Status)> {
		let spender = |op: &OutPoint| -> Option<(Txid, u32, Transaction)> {
			let id = sim.chain.spent_by.get(op)?;
			let (tx, h) = sim.chain.confirmed.get(id)?;
			(*h <= upto).then(|| (*id, *h, tx.clone()))
		};
		let mut out = vec![];
		for (op, val) in self.tk.contested() {
			let mut tip = op;
			let mut st = Status::Open(tip);
			for _ in 0..2 {
				match spender(&tip) {
					None => {
						st = Status::Open(tip);
						break;
					},
					Some((id, h, _)) if self.v_txids.contains(&id) => {
						st = Status::VClaimed(tip, id, h);
						break;
					},
					Some((id, _, tx)) => {
						// X's second stage: follow to the paired output
						let idx = tx.input.iter().position(|i| i.previous_output == tip).unwrap();
						tip = OutPoint { txid: id, vout: idx as u32 };
						st = Status::Open(tip);
					},
				}
			}
			out.push((op, val, st));
		}
		out
	}

	/// Process everything the simulator recorded since the last call. `h_known`: the height up to which V had
	/// been told about the chain when it started the action that produced these broadcasts (a conflict with
	/// something confirmed above that height is not V's fault).
	pub fn scan(&mut self, sim: &Sim, h_known: u32) -> CaseResult {
		// claims found now were issued at or before the height V has reached
		self.cur_v_height = sim.c06_height_of(self.v);
		let new: Vec<SEvent> = sim.log[self.cur_log..].iter().map(|(_, e)| e.clone()).collect();
		self.cur_log = sim.log.len();
		let mut missing: Vec<(Txid, OutPoint)> = vec![];
		for e in new {
			match e {
				SEvent::Broadcast { node, tx, verdict, height } if node == self.v => {
					let id = tx.compute_txid();
					self.stats.v_broadcasts += 1;
					let fresh = self.v_txids.insert(id);
					if fresh {
						self.v_txs.push(tx.clone());
					}
					// (a) consensus validity as a candidate for the next block
					match &verdict {
						Ok(_) | Err(Reject::Duplicate) | Err(Reject::MempoolConflict(_)) => {},
						Err(Reject::AlreadySpent(op, sp)) => {
							let h = sim.chain.confirmed.get(sp).map(|(_, h)| *h).unwrap_or(u32::MAX);
							if h <= h_known {
								return Err(fail("v-tx-invalid", format!("V broadcast {} at height {} spending {} which V knew (height {}) was spent by {} at {}", id, height, op, h_known, sp, h)).with_key("v-tx-invalid/already-spent"));
							}
							self.stats.benign_conflicts += 1;
						},
						Err(Reject::MissingInput(op)) => missing.push((id, *op)),
						Err(r) => {
							let kind = format!("{:?}", r);
							let kind = kind.split(|c: char| !c.is_alphanumeric()).next().unwrap_or("").to_string();
							return Err(fail("v-tx-invalid", format!("V broadcast {} at height {}: {:?}; tx {}", id, height, r, bitcoin::consensus::encode::serialize_hex(&tx))).with_key(format!("v-tx-invalid/{}", kind)));
						},
					}
					// (c) fee monotonicity of re-issued claims on the same contested outpoints
					if fresh {
						self.fee_rule(sim, &tx)?;
					}
				},
				SEvent::Ldk { node, ev: Event::SpendableOutputs { outputs, .. } } if node == self.v => {
					for d in outputs {
						let op = match &d {
							SpendableOutputDescriptor::StaticOutput { outpoint, .. } => outpoint.into_bitcoin_outpoint(),
							SpendableOutputDescriptor::DelayedPaymentOutput(x) => x.outpoint.into_bitcoin_outpoint(),
							SpendableOutputDescriptor::StaticPaymentOutput(x) => x.outpoint.into_bitcoin_outpoint(),
						};
						self.descriptors.insert(op, d);
					}
				},
				_ => {},
			}
		}
		for (id, op) in missing {
			// an unconfirmed parent of V's own (package broadcast in any order, or a child of V's commitment
			// that lost against the revoked one) is fine; spending an output nobody ever created is not
			if !self.v_txids.contains(&op.txid) {
				return Err(fail("v-tx-invalid", format!("V broadcast {} spending unknown output {}", id, op)).with_key("v-tx-invalid/missing-input"));
			}
			self.stats.benign_conflicts += 1;
		}
		Ok(())
	}

	fn is_contestable(&self, sim: &Sim, op: &OutPoint) -> bool {
		if op.txid == self.tk.txid {
			return self.tk.contested().iter().any(|(o, _)| o == op);
		}
		// an output of a (non-V) transaction spending the revoked commitment
		if self.v_txids.contains(&op.txid) {
			return false;
		}
		sim.chain.seen.get(&op.txid).map(|t| t.input.iter().any(|i| i.previous_output.txid == self.tk.txid)).unwrap_or(false)
	}

	fn fee_rule(&mut self, sim: &Sim, tx: &Transaction) -> CaseResult {
		if tx.input.is_empty() || !tx.input.iter().all(|i| self.is_contestable(sim, &i.previous_output)) {
			return Ok(());
		}
		let mut key: Vec<OutPoint> = tx.input.iter().map(|i| i.previous_output).collect();
		key.sort();
		let mut in_sum = 0u64;
		for op in key.iter() {
			let Some(o) = self.prevout(sim, op) else { return Ok(()) };
			in_sum += o.value.to_sat();
		}
		let out_sum: u64 = tx.output.iter().map(|o| o.value.to_sat()).sum();
		let fee = in_sum.saturating_sub(out_sum);
		let rate = fee as f64 * 1000.0 / tx.weight().to_wu() as f64;
		let id = tx.compute_txid();
		if let Some((pfee, prate, pid)) = self.issued.get(&key).cloned() {
			// "while a V claim is unconfirmed": the previous version is not on the chain
			if !sim.chain.confirmed.contains_key(&pid) {
				self.stats.reissues += 1;
				if fee > pfee {
					self.stats.reissues_bumped += 1;
				}
				// 2 % tolerance for signature-size variance (DESIGN §8.1)
				if (fee as f64) < pfee as f64 * 0.98 || rate < prate * 0.98 {
					return Err(fail("fee-monotonic", format!("claim for {:?} re-issued as {} with fee {} sat / {:.1} sat/kw after {} with {} sat / {:.1} sat/kw", key, id, fee, rate, pid, pfee, prate)));
				}
			}
		}
		self.claim_inputs.insert(id, key.clone());
		for op in key.iter() {
			self.first_claim.entry(*op).or_insert((rate, fee, id));
			self.first_claim_at.entry(*op).or_insert(self.cur_v_height);
			self.latest_claim.insert(*op, (rate, tx.weight().to_wu(), in_sum, id));
		}
		self.issued.insert(key, (fee, rate, id));
		Ok(())
	}

	/// Observation only (not part of the property statement, which asks for valid justice broadcasts, re-issue
	/// until buried and the final SpendableOutputs report): does `get_claimable_balances` report
	/// `CounterpartyRevokedOutputClaimable` for exactly the outputs V has not yet taken, in V's own view of the
	/// chain? Returns a label describing a mismatch.
	pub fn observe_balances(&mut self, sim: &Sim) -> Option<&'static str> {
		let hv = sim.c06_height_of(self.v);
		let Ok(mon) = sim.w.nodes[self.v].chain_monitor.chain_monitor.get_monitor(self.chan) else { return None };
		let bals = mon.get_claimable_balances();
		let mut got: Vec<u64> = bals.iter().filter_map(|b| if let Balance::CounterpartyRevokedOutputClaimable { amount_satoshis } = b { Some(*amount_satoshis) } else { None }).collect();
		got.sort();
		let tk_seen = sim.chain.confirmed.get(&self.tk.txid).map(|(_, h)| *h <= hv).unwrap_or(false);
		let mut want: Vec<u64> = if tk_seen { self.statuses(sim, hv).into_iter().filter(|(_, _, s)| matches!(s, Status::Open(_))).map(|(_, v, _)| v).collect() } else { vec![] };
		want.sort();
		self.stats.balance_checks += 1;
		self.stats.max_revoked_balances = self.stats.max_revoked_balances.max(got.len());
		if got == want {
			return None;
		}
		// one known mechanism: the balance of X's still unclaimed to_local output disappears while some not yet
		// buried claim transaction of V has an input with the same output *index* on another transaction
		// (channelmonitor.rs get_claimable_balances compares `previous_output.vout` without the txid)
		if let Some(tl) = self.tk.to_local {
			let tl_val = self.tk.tx.output[tl as usize].value.to_sat();
			let mut rest = want.clone();
			let only_to_local_missing = match rest.iter().position(|x| *x == tl_val) {
				Some(p) => {
					rest.remove(p);
					rest == got
				},
				None => false,
			};
			let collision = self.v_txs.iter().any(|j| {
				let conf = sim.chain.confirmed.get(&j.compute_txid()).map(|(_, h)| *h);
				matches!(conf, Some(h) if h <= hv && hv + 1 - h < lightning::chain::channelmonitor::ANTI_REORG_DELAY) && j.input.iter().any(|i| i.previous_output.vout == tl && i.previous_output.txid != self.tk.txid)
			});
			if only_to_local_missing && collision {
				return Some("obs:to-local-balance-hidden-by-vout-collision");
			}
		}
		Some(if got.len() < want.len() {
			"obs:revoked-balances/missing"
		} else if got.len() > want.len() {
			"obs:revoked-balances/extra"
		} else {
			"obs:revoked-balances/amount"
		})
	}

	/// transactions of V that could be mined in the next block: newest first, mutually non-conflicting
	pub fn v_mineable(&self, sim: &Sim) -> Vec<Transaction> {
		let mut chosen: Vec<Transaction> = vec![];
		let mut used: BTreeSet<OutPoint> = BTreeSet::new();
		let next = sim.chain.height() + 1;
		for tx in self.v_txs.iter().rev() {
			if sim.chain.confirmed.contains_key(&tx.compute_txid()) || tx.input.iter().any(|i| used.contains(&i.previous_output)) {
				continue;
			}
			if sim.chain.check_tx(tx, next, &HashMap::new(), false).is_ok() {
				for i in tx.input.iter() {
					used.insert(i.previous_output);
				}
				chosen.push(tx.clone());
			}
		}
		chosen
	}

	/// (b) + (d) at the end of the case: X keeps nothing, the recovered value is announced and sweepable, the
	/// channel value is accounted for.
	/// Observation only: balances still reported after everything is buried and announced.
	pub fn balances_left(&self, sim: &Sim) -> bool {
		sim.w.nodes[self.v].chain_monitor.chain_monitor.get_monitor(self.chan).map(|m| !m.get_claimable_balances().is_empty()).unwrap_or(false)
	}

	pub fn finish(&mut self, sim: &Sim) -> CaseResult {
		let tip = sim.chain.height();
		let st = self.statuses(sim, tip);
		for (op, val, s) in st.iter() {
			if let Status::Open(t) = s {
				// discriminate the case "V's aggregated claim containing this output was invalidated because X
				// confirmed a second-stage transaction on another input of it, and V never issued a new claim"
				let split = self.v_txs.iter().any(|j| {
					j.input.iter().any(|i| i.previous_output == *t)
						&& j.input.iter().any(|i| i.previous_output != *t && sim.chain.spent_by.get(&i.previous_output).map(|sp| !self.v_txids.contains(sp)).unwrap_or(false))
				});
				let refused = sim.w.noted(self.v, "bump-refused-below-dust");
				if split && refused {
					return Err(fail("x-keeps-output", format!("output {} ({} sat) of the revoked commitment: V's aggregated claim was invalidated when X confirmed a second-stage transaction on another input, and V never re-issued a claim for {} ({} sat at stake)", op, val, t, self.prevout(sim, t).map(|o| o.value.to_sat()).unwrap_or(0))).with_key("x-keeps-output/abandoned-after-split"));
				}
				return Err(fail("x-keeps-output", format!("output {} ({} sat) of the revoked commitment was never taken by V: {} is unspent at the end (X's CSV {} would let X sweep it)", op, val, t, self.tk.contest_delay)).with_key(if t == op { "x-keeps-output/commitment" } else { "x-keeps-output/second-stage" }));
			}
		}
		// expected descriptors: V's balance output and every output of V's confirmed justice transactions
		let mut expect: BTreeMap<OutPoint, u64> = BTreeMap::new();
		if let Some(i) = self.tk.to_remote {
			expect.insert(OutPoint { txid: self.tk.txid, vout: i }, self.tk.tx.output[i as usize].value.to_sat());
		}
		let mut v_fees = 0u64;
		let mut seen_j = BTreeSet::new();
		for (_, _, s) in st.iter() {
			if let Status::VClaimed(_, id, _) = s {
				if !seen_j.insert(*id) {
					continue;
				}
				let (tx, _) = &sim.chain.confirmed[id];
				let ins: u64 = tx.input.iter().map(|i| self.prevout(sim, &i.previous_output).map(|o| o.value.to_sat()).unwrap_or(0)).sum();
				let outs: u64 = tx.output.iter().map(|o| o.value.to_sat()).sum();
				v_fees += ins - outs;
				for (k, o) in tx.output.iter().enumerate() {
					expect.insert(OutPoint { txid: *id, vout: k as u32 }, o.value.to_sat());
				}
			}
		}
		for (op, val) in expect.iter() {
			if !self.descriptors.contains_key(op) {
				return Err(fail("spendable-missing", format!("no SpendableOutputs descriptor for {} ({} sat) {} blocks after everything confirmed", op, val, tip - sim.chain.confirmed.get(&op.txid).map(|(_, h)| *h).unwrap_or(tip))).with_key(if op.txid == self.tk.txid { "spendable-missing/to-remote" } else { "spendable-missing/justice" }));
			}
		}
		// value accounting: what X's second-stage transactions burnt from the contested outputs
		let mut x_fees = 0u64;
		for (op, val, s) in st.iter() {
			let Status::VClaimed(t, _, _) = s else { continue };
			if t != op {
				x_fees += val - self.prevout(sim, t).map(|o| o.value.to_sat()).unwrap_or(0);
			}
		}
		let tk_out: u64 = self.tk.tx.output.iter().map(|o| o.value.to_sat()).sum();
		let anchors: u64 = self.tk.anchors.iter().map(|i| self.tk.tx.output[*i as usize].value.to_sat()).sum();
		let tk_fee = self.tk.channel_value_sat - tk_out; // includes trimmed dust
		let announced: u64 = self.descriptors.iter().filter(|(op, _)| expect.contains_key(op)).map(|(op, _)| self.prevout(sim, op).map(|o| o.value.to_sat()).unwrap_or(0)).sum();
		if self.tk.channel_value_sat != announced + tk_fee + anchors + x_fees + v_fees {
			return Err(fail("value-accounting", format!("channel value {} != announced spendable {} + commitment fee and dust {} + anchors {} + X second-stage fees {} + V claim fees {}", self.tk.channel_value_sat, announced, tk_fee, anchors, x_fees, v_fees)));
		}
		// every announced descriptor is really spendable with V's keys
		if !self.descriptors.is_empty() {
			let nd = &sim.w.nodes[self.v];
			let descs: Vec<&SpendableOutputDescriptor> = self.descriptors.values().collect();
			let secp = Secp256k1::new();
			let dest = ScriptBuf::new_p2wpkh(&bitcoin::PublicKey::new(nd.node.get_our_node_id()).wpubkey_hash().unwrap());
			let sweep = nd.keys_manager.backing.spend_spendable_outputs(&descs, vec![], dest, 253, None, &secp).map_err(|_| fail("sweep", "spend_spendable_outputs failed on the announced descriptors".into()))?;
			if let Err(r) = sim.chain.check_tx(&sweep, tip + 1, &HashMap::new(), false) {
				return Err(fail("sweep", format!("the sweep of the announced descriptors is rejected by consensus: {:?}", r)));
			}
			let swept: u64 = sweep.input.iter().map(|i| self.prevout(sim, &i.previous_output).map(|o| o.value.to_sat()).unwrap_or(0)).sum();
			let all: u64 = self.descriptors.keys().map(|op| self.prevout(sim, op).map(|o| o.value.to_sat()).unwrap_or(0)).sum();
			if swept != all || sweep.input.len() != self.descriptors.len() {
				return Err(fail("sweep", format!("sweep spends {} sat of {} announced", swept, all)));
			}
		}
		Ok(())
	}
}
