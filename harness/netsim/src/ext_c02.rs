//! Property-specific engine extensions for C02 (owned by the C02 check).
