//! Property-specific engine extensions for C02 (owned by the C02 check): sends whose hop fee / CLTV delta
//! are generated around the forwarder's advertised policy, an operation profile centred on node 1 ("B"),
//! a bounded settle that also mines, and the forwarding oracle (admission, claim-follows-knowledge,
//! fail-only-when-safe, ledger).
//!
//! The oracle is a function of the recorded history (wire messages, events, persistence calls, mined
//! transactions), of an independent BOLT-2 model instance driven by the same wire messages, and of public
//! API results (`list_channels`, `get_claimable_balances`). It never reads LDK-internal state.

use crate::model::*;
use crate::ops::*;
use crate::oracle_commit::{merged_since, M};
use crate::rec::*;
use crate::sim::*;
use bitcoin::hashes::{sha256, Hash};
use bitcoin::{OutPoint, Transaction, Txid};
use lightning::chain::channelmonitor::Balance;
use lightning::events::Event;
use lightning::ln::channelmanager::PaymentId;
use lightning::ln::functional_test_utils::*;
use lightning::ln::outbound_payment::RecipientOnionFields;
use lightning::ln::types::ChannelId;
use lightning::routing::router::{Path, PaymentParameters, Route, RouteHop, RouteParameters};
use lightning::sign::SpendableOutputDescriptor;
use lightning::types::features::{ChannelFeatures, NodeFeatures};
use proptest::prelude::*;
use serde::{Deserialize, Serialize};
use std::collections::{BTreeMap, BTreeSet};
use vcore::{pick, CaseResult, Failure};

/// The forwarding node under test.
pub const B: usize = 1;
/// `chain::channelmonitor::LATENCY_GRACE_PERIOD_BLOCKS` (crate-private there): an HTLC is not forwarded
/// when its outgoing expiry is within this many blocks of the next block height.
pub const LATENCY_GRACE_PERIOD_BLOCKS: u32 = 3;
/// Documented value of `chain::channelmonitor::ANTI_REORG_DELAY` (kept as the oracle's own constant so that
/// a change of the library's value is noticed instead of followed): an on-chain resolution counts as final
/// once it has this many confirmations.
pub const ANTI_REORG_DELAY: u32 = 6;

// -------------------------------------------------------------------------------------------------
// sends around B's policy
// -------------------------------------------------------------------------------------------------

/// Routes through B: (sender, channel indices).
pub fn fwd_routes(t: Topology) -> Vec<(usize, Vec<usize>)> {
	match t {
		Topology::Line4 => vec![(0, vec![0, 1, 2]), (3, vec![2, 1, 0]), (0, vec![0, 1]), (2, vec![1, 0])],
		Topology::Line3Parallel => vec![(0, vec![0, 1]), (0, vec![0, 2]), (2, vec![1, 0]), (2, vec![2, 0])],
		_ => vec![(0, vec![0, 1]), (2, vec![1, 0])],
	}
}

#[derive(Clone, Debug, Serialize, Deserialize)]
pub enum FwdAmt {
	/// one of the generic classes, resolved against the sender's first channel (halved so fees fit)
	Base(Amt),
	/// the amount B has to forward is the next hop's announced `htlc_minimum_msat` + d
	DownMin(i8),
	/// the amount B has to forward is B's current `next_outbound_htlc_limit_msat` on the outgoing channel + d
	DownLimit(i8),
}

#[derive(Clone, Debug, Serialize, Deserialize)]
pub struct FwdSend {
	pub route: u16,
	pub amt: FwdAmt,
	/// msat added to the fee B's policy asks for
	pub fee_adj: i8,
	/// blocks added to the CLTV delta B's policy asks for
	pub delta_adj: i8,
	/// CLTV delta of the final hop (the recipient's share)
	pub final_delta: u16,
	/// when B's outgoing channel had its policy changed: bit 0 = pay the fee of the policy before the change,
	/// bit 1 = leave the CLTV delta of the policy before the change (the library honours the previous policy as a
	/// whole for a few timer ticks)
	#[serde(default)]
	pub use_prev: u8,
}

pub fn fwd_send_strategy() -> impl Strategy<Value = FwdSend> + Clone {
	(
		any::<u16>(),
		prop_oneof![
			6 => amt_strategy().prop_map(FwdAmt::Base),
			1 => (-1i8..=1).prop_map(FwdAmt::DownMin),
			1 => (-1i8..=1).prop_map(FwdAmt::DownLimit),
		],
		prop_oneof![6 => Just(0i8), 1 => Just(-1i8), 1 => Just(1i8)],
		prop_oneof![6 => Just(0i8), 1 => Just(-1i8), 1 => Just(1i8)],
		// mostly the usual final delta; sometimes around the forwarder's "outgoing expiry too soon" edge
		// (next height + LATENCY_GRACE_PERIOD_BLOCKS), sometimes around the recipient's minimum
		prop_oneof![14 => Just(TEST_FINAL_CLTV as u16), 2 => 1u16..=7, 1 => 40u16..=46, 1 => 60u16..120],
		prop_oneof![3 => Just(0u8), 1 => 1u8..=3],
	)
		.prop_map(|(route, amt, fee_adj, delta_adj, final_delta, use_prev)| FwdSend { route, amt, fee_adj, delta_adj, final_delta, use_prev })
}

/// `htlc_minimum_msat` the peer of `node` on `chan` announced for HTLCs it receives.
pub fn peer_htlc_minimum(sim: &Sim, chan: usize, node: usize) -> u64 {
	let c = &sim.chans[chan];
	if c.a == node {
		c.accept.common_fields.htlc_minimum_msat
	} else {
		c.open.common_fields.htlc_minimum_msat
	}
}

/// `max_htlc_value_in_flight_msat` the peer of `node` on `chan` announced.
pub fn peer_max_in_flight(sim: &Sim, chan: usize, node: usize) -> u64 {
	let c = &sim.chans[chan];
	if c.a == node {
		c.accept.common_fields.max_htlc_value_in_flight_msat
	} else {
		c.open.common_fields.max_htlc_value_in_flight_msat
	}
}

impl Sim {
	/// Like `try_send`, but the hop that pays B carries B's policy fee + `fee_adj` msat and B's CLTV delta +
	/// `delta_adj` blocks, and the final hop's delta is `final_delta`. Returns the payment index.
	pub fn c02_send(&mut self, topo: Topology, s: &FwdSend) -> Option<usize> {
		let routes = fwd_routes(topo);
		let (from, chans) = routes[pick(s.route, routes.len())].clone();
		let mut nodes = vec![from];
		let mut cur = from;
		for ci in chans.iter() {
			let c = &self.chans[*ci];
			let next = if c.a == cur { c.b } else if c.b == cur { c.a } else { return None };
			nodes.push(next);
			cur = next;
		}
		let bpos = (1..nodes.len() - 1).find(|i| nodes[*i] == B)?;
		let out_chan = chans[bpos];
		let last = chans.len() - 1;
		let amt = match &s.amt {
			FwdAmt::Base(a) => (resolve_amount(self, from, chans[0], a)? / 2).max(1),
			FwdAmt::DownMin(d) => (peer_htlc_minimum(self, out_chan, B) as i64 + *d as i64).max(1) as u64,
			FwdAmt::DownLimit(d) => {
				let det = self.chan_details(B, out_chan)?;
				(det.next_outbound_htlc_limit_msat as i64 + *d as i64).max(1) as u64
			},
		};
		if self.pays.len() >= 60 || self.chan_details(from, chans[0]).map(|d| !d.is_usable).unwrap_or(true) {
			return None;
		}
		// hop i's fee_msat pays node i+1 for forwarding over channel i+1; the last hop carries the amount
		let mut amounts = vec![0u64; chans.len()];
		let mut deltas = vec![0u32; chans.len()];
		amounts[last] = amt;
		deltas[last] = s.final_delta as u32;
		let mut carried = amt;
		for i in (0..last).rev() {
			let fwd = nodes[i + 1];
			let cfg = self.chan_details(fwd, chans[i + 1])?.config?;
			let mut fee = cfg.forwarding_fee_base_msat as u64 + carried * cfg.forwarding_fee_proportional_millionths as u64 / 1_000_000;
			let mut delta = cfg.cltv_expiry_delta as u32;
			if fwd == B {
				if let Some((pb, pp, pd)) = self.prev_policy.get(&(B, chans[i + 1])).cloned() {
					if s.use_prev & 1 != 0 {
						fee = pb as u64 + carried * pp as u64 / 1_000_000;
					}
					if s.use_prev & 2 != 0 {
						delta = pd as u32;
					}
				}
				fee = (fee as i64 + s.fee_adj as i64).max(0) as u64;
				delta = (delta as i64 + s.delta_adj as i64).max(0) as u32;
			}
			amounts[i] = fee;
			deltas[i] = delta;
			carried += fee;
		}
		let mut hops = vec![];
		for (i, ci) in chans.iter().enumerate() {
			hops.push(RouteHop {
				pubkey: self.w.node_id(nodes[i + 1]),
				node_features: NodeFeatures::empty(),
				short_channel_id: self.chans[*ci].scid,
				channel_features: ChannelFeatures::empty(),
				fee_msat: amounts[i],
				cltv_expiry_delta: deltas[i],
				maybe_announced_channel: true,
			});
		}
		let to = *nodes.last().unwrap();
		let mut route_params = RouteParameters::from_payment_params_and_value(PaymentParameters::from_node_id(self.w.node_id(to), s.final_delta as u32), amt);
		route_params.max_total_routing_fee_msat = None;
		let route = Route { paths: vec![Path { hops, blinded_tail: None }], route_params };
		let (preimage, hash, secret) = get_payment_preimage_hash(&self.w.nodes[to], None, None);
		let idn = self.next_payment_id;
		self.next_payment_id += 1;
		let mut idb = [0u8; 32];
		idb[..8].copy_from_slice(&idn.to_be_bytes());
		let id = PaymentId(idb);
		let res = self.w.nodes[from].node.send_payment_with_route(route, hash, RecipientOnionFields::secret_only(secret, amt), id);
		let ok = res.is_ok();
		self.rec(SEvent::Api {
			node: from,
			what: format!("c02 send pay#{} amt={} chans={:?} fee_adj={} delta_adj={} final_delta={}", self.pays.len(), amt, chans, s.fee_adj, s.delta_adj, s.final_delta),
			ok,
			detail: format!("{:?}", res),
		});
		self.pays.push(PayInfo {
			idx: self.pays.len(),
			from,
			to,
			path_nodes: nodes,
			path_chans: chans.to_vec(),
			amt_msat: amt,
			cltv_expiry: self.chain.height() + 1 + s.final_delta as u32,
			hash,
			preimage,
			secret,
			id,
			state: if ok { PayState::Sent } else { PayState::Refused },
			claimable_seen: false,
			claimed_event: false,
			sent_event: false,
			failed_event: false,
		});
		self.w.nodes[from].chain_monitor.added_monitors.lock().unwrap().clear();
		self.drain(from);
		Some(self.pays.len() - 1)
	}

	/// Deliver the head of one directed link. When an `update_fulfill_htlc` is about to reach B, a marker
	/// records whether B still has that channel (a fulfil for a closed channel teaches B nothing: the peer
	/// has to claim on chain instead).
	pub fn c02_deliver1(&mut self, f: usize, t: usize) -> bool {
		if t == B && self.is_connected(f, t) {
			if let Some(Wire::Fulfill(m)) = self.links.get(&(f, t)).and_then(|q| q.front()) {
				let cid = m.channel_id;
				let open = self.w.nodes[B].node.list_channels().iter().any(|c| c.channel_id == cid);
				self.rec(SEvent::Api { node: B, what: "c02-fulfil-arrives".into(), ok: open, detail: String::new() });
			}
		}
		// Two LDK nodes that both consider a channel closed answer each other's bogus channel_reestablish
		// (commitment numbers 0/0, sent "to force the peer to close") with another one, forever. The transport
		// cuts that exchange: such a message for a channel neither end has any more is dropped.
		if let Some(Wire::Reestablish(m)) = self.links.get(&(f, t)).and_then(|q| q.front()) {
			if m.next_local_commitment_number == 0 && m.next_remote_commitment_number == 0 && self.is_connected(f, t) {
				let cid = m.channel_id;
				let has = |n: usize| self.w.nodes[n].node.list_channels().iter().any(|c| c.channel_id == cid);
				if !has(f) && !has(t) {
					let wire = self.links.get_mut(&(f, t)).unwrap().pop_front().unwrap();
					self.rec(SEvent::Dropped { from: f, to: t, wire });
					return true;
				}
			}
		}
		self.deliver(f, t, 1) > 0
	}

	fn c02_live_links(&self) -> Vec<(usize, usize)> {
		self.links.iter().filter(|(k, q)| !q.is_empty() && self.is_connected(k.0, k.1)).map(|(k, _)| *k).collect()
	}

	fn c02_flush_deferred(&mut self, deferred: bool) -> bool {
		if !deferred {
			return false;
		}
		let mut any = false;
		for i in 0..self.w.n {
			let nd = &self.w.nodes[i];
			let cnt = nd.chain_monitor.pending_operation_count();
			if cnt > 0 {
				nd.chain_monitor.chain_monitor.flush(cnt, &nd.logger);
				any = true;
			}
			self.drain(i);
		}
		any
	}

	/// deliver + forward + process events until nothing moves; disconnections and async state stay as they are
	pub fn c02_pump(&mut self, deferred: bool) {
		for _ in 0..60 {
			let mut progress = self.c02_flush_deferred(deferred);
			for (f, t) in self.c02_live_links() {
				if self.c02_deliver1(f, t) {
					progress = true;
				}
			}
			for i in 0..self.w.n {
				if self.w.nodes[i].node.needs_pending_htlc_processing() {
					self.process_forwards(i);
					progress = true;
				}
				if !self.process_events(i).is_empty() {
					progress = true;
				}
			}
			if !progress {
				break;
			}
		}
	}

	/// Mine `blocks` blocks the way an uncensored chain does: every block contains everything in the mempool
	/// that is valid for it (`reverse`: conflicting candidates are tried in reverse arrival order). After each
	/// block every node handles its events (a live node's event loop; anchor claims need it to be broadcast).
	pub fn c02_mine(&mut self, blocks: u32, reverse: bool) {
		for _ in 0..blocks {
			let mut txs = self.chain.mempool.clone();
			if reverse {
				txs.reverse();
			}
			let rejected = self.mine_block(txs);
			// candidates that can never confirm any more (an input is gone for good: no reorgs here) leave the mempool
			let dead: Vec<Txid> = rejected.iter().filter(|(_, r)| matches!(r, crate::chain::Reject::MissingInput(_) | crate::chain::Reject::AlreadySpent(..))).map(|(t, _)| *t).collect();
			if !dead.is_empty() {
				self.chain.mempool.retain(|t| !dead.contains(&t.compute_txid()));
			}
			for i in 0..self.w.n {
				self.process_events(i);
			}
		}
	}

	/// what keeps `c02_chain_work_pending` true (diagnostics)
	pub fn c02_chain_work_desc(&self) -> String {
		let mut out = format!("mempool {}", self.chain.mempool.len());
		for (i, nd) in self.w.nodes.iter().enumerate() {
			for cid in nd.chain_monitor.chain_monitor.list_monitors() {
				if let Ok(mon) = nd.chain_monitor.chain_monitor.get_monitor(cid) {
					for b in mon.get_claimable_balances() {
						match b {
							Balance::ClaimableOnChannelClose { .. } | Balance::ClaimableAwaitingConfirmations { .. } => {},
							other => out.push_str(&format!("; n{} {:?}", i, other)),
						}
					}
				}
			}
		}
		out
	}

	/// true if some channel of some node has left the off-chain world and is not fully resolved on chain yet
	pub fn c02_chain_work_pending(&self) -> bool {
		if !self.chain.mempool.is_empty() {
			return true;
		}
		for nd in self.w.nodes.iter() {
			for cid in nd.chain_monitor.chain_monitor.list_monitors() {
				if let Ok(mon) = nd.chain_monitor.chain_monitor.get_monitor(cid) {
					for b in mon.get_claimable_balances() {
						match b {
							Balance::ClaimableOnChannelClose { .. } | Balance::ClaimableAwaitingConfirmations { .. } => {},
							_ => return true,
						}
					}
				}
			}
		}
		false
	}

	/// Off-chain part of the settle (like `Sim::settle` but through `c02_deliver1` and with deferred flushes).
	fn c02_settle_offchain(&mut self, deferred: bool, max_rounds: usize) -> bool {
		for i in 0..self.w.n {
			self.w.set_async(i, None, false);
		}
		for _ in 0..max_rounds {
			let mut progress = self.c02_flush_deferred(deferred);
			for i in 0..self.w.n {
				if !self.w.pending_updates(i).is_empty() {
					self.complete_all_updates(i);
					progress = true;
				}
				let chans: Vec<ChannelId> = self.w.persisters[i].state.lock().unwrap().async_chans.iter().cloned().collect();
				for c in chans {
					self.w.set_async(i, Some(c), false);
				}
			}
			let n = self.w.n;
			for a in 0..n {
				for b in (a + 1)..n {
					if !self.is_connected(a, b) {
						self.reconnect(a, b);
						progress = true;
					}
				}
			}
			self.drain_all();
			let keys: Vec<(usize, usize)> = self.links.keys().cloned().collect();
			for (f, t) in keys {
				while self.queued(f, t) > 0 && self.is_connected(f, t) {
					self.c02_deliver1(f, t);
					progress = true;
				}
			}
			for i in 0..self.w.n {
				if self.w.nodes[i].node.needs_pending_htlc_processing() {
					self.process_forwards(i);
					progress = true;
				}
				if !self.process_events(i).is_empty() {
					progress = true;
				}
			}
			self.drain_all();
			if !progress && self.total_queued() == 0 {
				return true;
			}
		}
		false
	}

	/// Bounded drive to final quiescence: off-chain settle, resolve what the recipients hold (claim / fail
	/// by `resolutions`), and while anything is unresolved on chain mine one uncensored block at a time
	/// (up to `max_blocks`), ending `ANTI_REORG_DELAY` blocks after the last on-chain activity.
	/// Returns (quiescent, blocks mined).
	pub fn c02_settle(&mut self, deferred: bool, resolutions: &[bool], max_blocks: u32) -> (bool, u32) {
		let mut mined = 0u32;
		for _ in 0..(max_blocks as usize + 60) {
			let quiet = self.c02_settle_offchain(deferred, 40);
			let cands: Vec<usize> = self.pays.iter().filter(|p| p.state == PayState::Claimable).map(|p| p.idx).collect();
			if !cands.is_empty() {
				for p in cands {
					if resolutions.is_empty() || resolutions[p % resolutions.len()] {
						self.claim(p);
					} else {
						self.fail_back(p);
					}
				}
				continue;
			}
			if !quiet {
				return (false, mined);
			}
			// the last block that confirmed anything must be buried ANTI_REORG_DELAY deep: only then have the
			// monitors told their managers about every on-chain resolution
			let last_nonempty = self.log.iter().rev().find_map(|(_, e)| match e {
				SEvent::Mined { height, txids } if !txids.is_empty() => Some(*height),
				_ => None,
			});
			let bury = last_nonempty.map(|h| self.chain.height() < h + ANTI_REORG_DELAY + 1).unwrap_or(false);
			if self.c02_chain_work_pending() || bury {
				if mined >= max_blocks {
					return (false, mined);
				}
				self.c02_mine(1, false);
				mined += 1;
				continue;
			}
			return (true, mined);
		}
		(false, mined)
	}
}

// -------------------------------------------------------------------------------------------------
// operations
// -------------------------------------------------------------------------------------------------

#[derive(Clone, Debug, Serialize, Deserialize)]
pub enum COp {
	Fwd(FwdSend),
	/// send and pump until nothing moves (the recipient usually holds the payment afterwards)
	FwdReady(FwdSend),
	/// Claim / FailBack / Events / Forwards / Disconnect / Reconnect / Timer / ForceClose of `ops::Op`
	Base(Op),
	Deliver { link: u16, k: u8 },
	Flush,
	Pump,
	/// persistence of one of B's channels answers InProgress from now on (off: only when nothing is in flight)
	AsyncB { chan: u16, on: bool },
	CompleteB { which: u16 },
	CompleteAllB,
	/// B changes the forwarding policy of one of its channels (`update_channel_config`)
	UpdateConfigB { chan: u16, base: u32, ppm: u32, delta: u16 },
	FlushDeferredB,
	SnapshotB,
	/// restart B from its snap-th newest manager snapshot and the durable (or latest written) monitor images
	RestartB { snap: u16, landed: bool },
	Mine { blocks: u8, reverse: bool },
	/// mine until the chain height is the (downstream or upstream) expiry of a forwarded HTLC plus `offset`
	MineToExpiry { pay: u16, upstream: bool, offset: i8 },
	/// the recipient claims a payment it holds, the fulfil travels back until `k` messages reached B on the
	/// downstream link, with a disturbance around it (async persistence is switched on before, the others
	/// happen right after B learned the preimage)
	ClaimThen { pay: u16, k: u8, then: Disturb },
	/// one link of a payment the recipient holds is force-closed (by B or by its peer), `blocks` blocks are
	/// mined, then the recipient claims (or keeps waiting)
	CloseThenClaim { pay: u16, downstream: bool, by_b: bool, blocks: u8, claim: bool },
	/// from now on B's persister also answers InProgress to chain-sync persists of channels in asynchronous mode
	/// (legal: the contract asks for no completion call for them; the write is just not durable yet)
	ChainSyncAsyncB,
}

#[derive(Clone, Debug, Serialize, Deserialize)]
pub enum Disturb {
	None,
	AsyncUp,
	AsyncDown,
	AsyncBoth,
	DisconnectUp,
	DisconnectDown,
	Restart { snap: u16, landed: bool },
	ForceCloseUp { by_b: bool },
	ForceCloseDown { by_b: bool },
}

#[derive(Clone, Debug)]
pub struct CWeights {
	pub fwd: u32,
	pub fwd_ready: u32,
	pub claim: u32,
	pub fail: u32,
	pub deliver: u32,
	pub flush: u32,
	pub events: u32,
	pub forwards: u32,
	pub pump: u32,
	pub disconnect: u32,
	pub reconnect: u32,
	pub timer: u32,
	pub async_b: u32,
	pub complete_b: u32,
	pub snapshot_b: u32,
	pub config_b: u32,
	pub restart_b: u32,
	pub force_close: u32,
	pub mine: u32,
	pub mine_to: u32,
	pub claim_then: u32,
	pub close_then_claim: u32,
	/// ClaimThen may force-close
	pub claim_then_close: bool,
}

pub fn cop_strategy(w: CWeights) -> impl Strategy<Value = COp> + Clone {
	let mut v: Vec<(u32, BoxedStrategy<COp>)> = vec![
		(w.fwd, fwd_send_strategy().prop_map(COp::Fwd).boxed()),
		(w.fwd_ready, fwd_send_strategy().prop_map(COp::FwdReady).boxed()),
		(w.claim, any::<u16>().prop_map(|pay| COp::Base(Op::Claim { pay })).boxed()),
		(w.fail, any::<u16>().prop_map(|pay| COp::Base(Op::FailBack { pay })).boxed()),
		(w.deliver, (any::<u16>(), 1u8..6).prop_map(|(link, k)| COp::Deliver { link, k }).boxed()),
		(w.flush, Just(COp::Flush).boxed()),
		(w.events, any::<u16>().prop_map(|node| COp::Base(Op::Events { node })).boxed()),
		(w.forwards, any::<u16>().prop_map(|node| COp::Base(Op::Forwards { node })).boxed()),
		(w.pump, Just(COp::Pump).boxed()),
		(w.disconnect, any::<u16>().prop_map(|pair| COp::Base(Op::Disconnect { pair })).boxed()),
		(w.reconnect, any::<u16>().prop_map(|pair| COp::Base(Op::Reconnect { pair })).boxed()),
		(w.timer, any::<u16>().prop_map(|node| COp::Base(Op::Timer { node })).boxed()),
		(w.async_b, (any::<u16>(), proptest::bool::weighted(0.75)).prop_map(|(chan, on)| COp::AsyncB { chan, on }).boxed()),
		(w.complete_b, prop_oneof![4 => any::<u16>().prop_map(|which| COp::CompleteB { which }), 2 => Just(COp::CompleteAllB), 1 => Just(COp::FlushDeferredB)].boxed()),
		(w.snapshot_b, Just(COp::SnapshotB).boxed()),
		(w.config_b, (any::<u16>(), prop_oneof![Just(0u32), Just(1000u32), 0u32..5_000], prop_oneof![Just(0u32), 0u32..20_000], prop_oneof![Just(72u16), 34u16..200]).prop_map(|(chan, base, ppm, delta)| COp::UpdateConfigB { chan, base, ppm, delta }).boxed()),
		(w.restart_b, (prop_oneof![3 => Just(0u16), 1 => any::<u16>()], any::<bool>()).prop_map(|(snap, landed)| COp::RestartB { snap, landed }).boxed()),
		(w.force_close, (any::<u16>(), any::<bool>()).prop_map(|(chan, by_funder)| COp::Base(Op::ForceClose { chan, by_funder })).boxed()),
		(w.mine, (prop_oneof![3 => Just(1u8), 2 => 1u8..8, 1 => 6u8..40], any::<bool>()).prop_map(|(blocks, reverse)| COp::Mine { blocks, reverse }).boxed()),
		(w.mine_to, (any::<u16>(), any::<bool>(), -8i8..=8).prop_map(|(pay, upstream, offset)| COp::MineToExpiry { pay, upstream, offset }).boxed()),
		(
			w.claim_then,
			(
				any::<u16>(),
				1u8..4,
				prop_oneof![
					1 => Just(Disturb::None),
					3 => Just(Disturb::AsyncUp),
					2 => Just(Disturb::AsyncDown),
					2 => Just(Disturb::AsyncBoth),
					3 => Just(Disturb::DisconnectUp),
					2 => Just(Disturb::DisconnectDown),
					3 => (prop_oneof![3 => Just(0u16), 1 => any::<u16>()], any::<bool>()).prop_map(|(snap, landed)| Disturb::Restart { snap, landed }),
					if w.claim_then_close { 2 } else { 0 } => any::<bool>().prop_map(|by_b| Disturb::ForceCloseUp { by_b }),
					if w.claim_then_close { 2 } else { 0 } => any::<bool>().prop_map(|by_b| Disturb::ForceCloseDown { by_b }),
				],
			)
				.prop_map(|(pay, k, then)| COp::ClaimThen { pay, k, then })
				.boxed(),
		),
		(
			w.close_then_claim,
			(any::<u16>(), proptest::bool::weighted(0.7), any::<bool>(), prop_oneof![2 => Just(0u8), 2 => 1u8..4, 1 => 4u8..12], proptest::bool::weighted(0.8))
				.prop_map(|(pay, downstream, by_b, blocks, claim)| COp::CloseThenClaim { pay, downstream, by_b, blocks, claim })
				.boxed(),
		),
	];
	v.retain(|(w, _)| *w > 0);
	proptest::strategy::Union::new_weighted(v)
}

fn b_chans(sim: &Sim) -> Vec<usize> {
	(0..sim.chans.len()).filter(|c| sim.chans[*c].a == B || sim.chans[*c].b == B).collect()
}

/// a generated index that `vcore::pick` maps onto `i` of `len`
fn chan_pick(i: usize, len: usize) -> u16 {
	(((i << 16) + (1 << 15)) / len) as u16
}

/// A payment the recipient currently holds whose path goes through B:
/// (payment, upstream channel, downstream channel, upstream peer, downstream peer)
fn held_forward(sim: &Sim, pay: u16) -> Option<(usize, usize, usize, usize, usize)> {
	let cands: Vec<usize> = sim.pays.iter().filter(|p| p.state == PayState::Claimable && p.path_nodes.iter().position(|n| *n == B).map(|i| i > 0 && i + 1 < p.path_nodes.len()).unwrap_or(false)).map(|p| p.idx).collect();
	if cands.is_empty() {
		return None;
	}
	let p = &sim.pays[cands[pick(pay, cands.len())]];
	let i = p.path_nodes.iter().position(|n| *n == B)?;
	Some((p.idx, p.path_chans[i - 1], p.path_chans[i], p.path_nodes[i - 1], p.path_nodes[i + 1]))
}

/// Apply one operation; returns a tag of what happened.
pub fn apply_c02(sim: &mut Sim, spec: &WorldSpec, op: &COp) -> &'static str {
	match op {
		COp::Fwd(s) => match sim.c02_send(spec.topo, s) {
			None => "send-skipped",
			Some(i) if sim.pays[i].state == PayState::Refused => "send-refused",
			Some(_) => "send",
		},
		COp::FwdReady(s) => {
			let r = match sim.c02_send(spec.topo, s) {
				None => "send-skipped",
				Some(i) if sim.pays[i].state == PayState::Refused => "send-refused",
				Some(_) => "send-ready",
			};
			sim.c02_pump(spec.deferred);
			r
		},
		COp::Base(o) => match o {
			Op::Claim { .. } | Op::FailBack { .. } | Op::Events { .. } | Op::Forwards { .. } | Op::DecodeAdds { .. } | Op::Disconnect { .. } | Op::Reconnect { .. } | Op::Timer { .. } | Op::ForceClose { .. } => apply(sim, spec, o),
			_ => "base-op-not-in-profile",
		},
		COp::Deliver { link, k } => {
			let live = sim.c02_live_links();
			if live.is_empty() {
				return "deliver-skipped";
			}
			let (f, t) = live[pick(*link, live.len())];
			for _ in 0..*k {
				if !sim.c02_deliver1(f, t) {
					break;
				}
			}
			"deliver"
		},
		COp::Flush => {
			for _ in 0..200 {
				let live = sim.c02_live_links();
				if live.is_empty() {
					break;
				}
				for (f, t) in live {
					sim.c02_deliver1(f, t);
				}
			}
			"flush"
		},
		COp::Pump => {
			sim.c02_pump(spec.deferred);
			"pump"
		},
		COp::AsyncB { chan, on } => {
			let mine = b_chans(sim);
			let c = sim.chans[mine[pick(*chan, mine.len())]].id;
			// documented rule: back to synchronous persistence only after a restart; the harness uses the
			// allowed subset "only when nothing is in flight for that channel"
			if !*on && sim.w.pending_updates(B).iter().any(|(pc, _)| *pc == c) {
				return "async-skipped";
			}
			sim.w.set_async(B, Some(c), *on);
			if *on {
				"async-on"
			} else {
				"async-off"
			}
		},
		COp::CompleteB { which } => {
			let pend = sim.w.pending_updates(B);
			if pend.is_empty() {
				return "complete-skipped";
			}
			let (c, id) = pend[pick(*which, pend.len())];
			sim.w.complete_update(B, c, id);
			sim.drain(B);
			"complete"
		},
		COp::CompleteAllB => {
			if sim.w.pending_updates(B).is_empty() {
				return "complete-skipped";
			}
			sim.complete_all_updates(B);
			"complete-all"
		},
		COp::ChainSyncAsyncB => {
			sim.w.persisters[B].state.lock().unwrap().async_chain_sync = true;
			"chain-sync-async"
		},
		COp::FlushDeferredB => {
			if !spec.deferred {
				return "flushdef-skipped";
			}
			let nd = &sim.w.nodes[B];
			let cnt = nd.chain_monitor.pending_operation_count();
			nd.chain_monitor.chain_monitor.flush(cnt, &nd.logger);
			sim.drain(B);
			"flush-deferred"
		},
		COp::SnapshotB => {
			sim.snapshot_manager(B);
			"snapshot"
		},
		COp::UpdateConfigB { chan, base, ppm, delta } => {
			let mine: Vec<usize> = (0..sim.chans.len()).filter(|c| sim.chans[*c].a == B || sim.chans[*c].b == B).collect();
			let ci = mine[pick(*chan, mine.len())];
			let Some(cfg) = sim.chan_details(B, ci).and_then(|d| d.config) else { return "config-skipped" };
			let mut new = cfg.clone();
			new.forwarding_fee_base_msat = *base;
			new.forwarding_fee_proportional_millionths = *ppm;
			new.cltv_expiry_delta = (*delta).max(lightning::ln::channelmanager::MIN_CLTV_EXPIRY_DELTA);
			let peer = sim.w.node_id(sim.peer_of(ci, B));
			let id = sim.chans[ci].id;
			let res = sim.w.nodes[B].node.update_channel_config(&peer, &[id], &new);
			if res.is_ok() {
				sim.prev_policy.insert((B, ci), (cfg.forwarding_fee_base_msat, cfg.forwarding_fee_proportional_millionths, cfg.cltv_expiry_delta));
			}
			sim.rec(SEvent::Api { node: B, what: format!("c02-config {} {} {} {}", ci, new.forwarding_fee_base_msat, new.forwarding_fee_proportional_millionths, new.cltv_expiry_delta), ok: res.is_ok(), detail: format!("{:?}", res) });
			sim.drain(B);
			"config-update"
		},
		COp::RestartB { snap, landed } => match sim.restart(B, *snap, *landed) {
			Ok(()) => "restart",
			Err(_) => "restart-failed",
		},
		COp::Mine { blocks, reverse } => {
			sim.c02_mine(*blocks as u32, *reverse);
			"mine"
		},
		COp::ClaimThen { pay, k, then } => {
			let Some((p, up, down, up_peer, down_peer)) = held_forward(sim, *pay) else { return "claimthen-skipped" };
			match then {
				Disturb::AsyncUp | Disturb::AsyncBoth => sim.w.set_async(B, Some(sim.chans[up].id), true),
				_ => {},
			}
			match then {
				Disturb::AsyncDown | Disturb::AsyncBoth => sim.w.set_async(B, Some(sim.chans[down].id), true),
				_ => {},
			}
			sim.claim(p);
			// whatever has to happen beyond B (line of four: the recipient is not B's peer)
			for _ in 0..20 {
				let mut progress = false;
				for (f, t) in sim.c02_live_links() {
					if f != B && t != B && sim.c02_deliver1(f, t) {
						progress = true;
					}
				}
				for i in 0..sim.w.n {
					if i != B && sim.w.nodes[i].node.needs_pending_htlc_processing() {
						sim.process_forwards(i);
						progress = true;
					}
				}
				if !progress {
					break;
				}
			}
			for _ in 0..*k {
				if !sim.c02_deliver1(down_peer, B) {
					break;
				}
			}
			match then {
				Disturb::DisconnectUp => sim.disconnect(B, up_peer),
				Disturb::DisconnectDown => sim.disconnect(B, down_peer),
				Disturb::Restart { snap, landed } => {
					if sim.restart(B, *snap, *landed).is_err() {
						return "restart-failed";
					}
				},
				Disturb::ForceCloseUp { by_b } => {
					let by_funder = (sim.chans[up].a == B) == *by_b;
					apply(sim, spec, &Op::ForceClose { chan: chan_pick(up, sim.chans.len()), by_funder });
				},
				Disturb::ForceCloseDown { by_b } => {
					let by_funder = (sim.chans[down].a == B) == *by_b;
					apply(sim, spec, &Op::ForceClose { chan: chan_pick(down, sim.chans.len()), by_funder });
				},
				_ => {},
			}
			"claim-then"
		},
		COp::CloseThenClaim { pay, downstream, by_b, blocks, claim } => {
			let Some((p, up, down, _, _)) = held_forward(sim, *pay) else { return "closethen-skipped" };
			let ch = if *downstream { down } else { up };
			let by_funder = (sim.chans[ch].a == B) == *by_b;
			apply(sim, spec, &Op::ForceClose { chan: chan_pick(ch, sim.chans.len()), by_funder });
			sim.c02_mine(*blocks as u32, false);
			if *claim {
				sim.claim(p);
			}
			"close-then-claim"
		},
		COp::MineToExpiry { pay, upstream, offset } => {
			// expiries of the HTLCs B forwarded so far, read from the recorded wire messages
			let mut exp: Vec<u32> = vec![];
			for (_, e) in sim.log.iter() {
				match e {
					SEvent::Emit { from, wire: Wire::Add(m), .. } if *from == B && !*upstream => exp.push(m.cltv_expiry),
					SEvent::Deliver { to, wire: Wire::Add(m), .. } if *to == B && *upstream => exp.push(m.cltv_expiry),
					_ => {},
				}
			}
			exp.sort();
			exp.dedup();
			if exp.is_empty() {
				return "mineto-skipped";
			}
			let target = (exp[pick(*pay, exp.len())] as i64 + *offset as i64).max(0) as u32;
			let h = sim.chain.height();
			if target <= h || target - h > 400 {
				return "mineto-skipped";
			}
			sim.c02_mine(target - h, false);
			"mine-to-expiry"
		},
	}
}

// -------------------------------------------------------------------------------------------------
// oracle
// -------------------------------------------------------------------------------------------------

#[derive(Clone, Debug)]
pub struct Down {
	pub chan: usize,
	pub id: u64,
	pub amt_out: u64,
	pub cltv_out: u32,
	pub t_emit: u64,
	/// the add reached the next hop at least once
	pub delivered: bool,
}

#[derive(Clone, Debug)]
pub struct Pair {
	pub hash: [u8; 32],
	pub up_chan: usize,
	pub up_id: u64,
	pub amt_in: u64,
	pub cltv_in: u32,
	pub t_in: u64,
	/// B's height when the upstream add arrived / when the first upstream revoke_and_ack after it arrived
	pub h_in: u32,
	pub h_commit: Option<u32>,
	/// B is an intermediate hop of this payment
	pub is_forward: bool,
	pub down: Option<Down>,
	/// step at which B learned the preimage from downstream, and how
	pub learned: Option<(u64, &'static str)>,
	/// step at which a downstream preimage spend was mined (kept even when the preimage was already known by
	/// message: knowledge by message can die with the process, the chain's does not)
	pub revealed_on_chain: Option<u64>,
	pub up_fulfill_emit: Option<u64>,
	pub up_fulfill_delivered: Option<u64>,
	pub up_fail_emit: Option<u64>,
	pub up_claim_onchain: Option<u64>,
	pub handling_failed_seen: bool,
	pub forwarded_event: bool,
	/// disturbances between learning and upstream resolution
	pub async_pending_at_learn: bool,
	pub disconnect_in_window: bool,
	pub restart_in_window: bool,
	pub restarts_after_in: u32,
	/// B was restarted from a manager snapshot taken before it sent the downstream add (monitors newer)
	pub stale_restart: bool,
	pub stale_restart_up_inflight: bool,
	/// B learned the preimage by message and crashed before it reached a manager snapshot or a monitor image
	pub knowledge_lost: bool,
}

/// What a signed commitment transaction contains (from the signer record and the model).
#[derive(Clone, Debug)]
pub struct CommitRec {
	pub chan: usize,
	/// side (0 = funder) whose transaction this is
	pub broadcaster: usize,
	/// (payment hash, amount msat, offered by the broadcaster, output index)
	pub nondust: Vec<([u8; 32], u64, bool, u32)>,
	pub dust: Vec<ExpHtlc>,
	pub to_broadcaster_sat: u64,
	pub to_countersignatory_sat: u64,
}

#[derive(Default, Clone, Debug)]
pub struct FwdStats {
	pub pairs: u64,
	pub forwarded: u64,
	pub admission_checks: u64,
	pub refused_forwards: u64,
	pub learned_msg: u64,
	pub learned_chain: u64,
	pub up_fulfilled_msg: u64,
	pub up_fulfilled_chain: u64,
	pub up_failed_after_offchain_removal: u64,
	pub up_failed_after_onchain: u64,
	pub fee_events_checked: u64,
	pub restarts_b: u64,
	pub chans_onchain: u64,
	pub dust_forfeits: u64,
	pub ledger: &'static str,
	pub fee_edge: [u64; 3],
	pub delta_edge: [u64; 3],
	pub disturbed_pairs: u64,
	pub knowledge_lost: u64,
	pub reforwards_after_undelivered: u64,
	pub non_strict_forwards: u64,
	pub config_updates: u64,
	pub admissions_after_config_update: u64,
	pub refused_forward_still_pending: u64,
}

pub struct FwdOracle {
	cur_h: usize,
	cur_s: usize,
	pub pairs: BTreeMap<[u8; 32], Pair>,
	models: Vec<ChanModel>,
	/// (chan, side) -> commitment number of a signature not yet sent
	pending_number: BTreeMap<(usize, usize), (u64, Txid, Vec<([u8; 32], u64, bool, u32)>, u64, u64)>,
	/// (chan, side) -> for each distinct commitment_signed of that side: how many of the peer's updates it acknowledged
	acked_at_cs: BTreeMap<(usize, usize), Vec<usize>>,
	/// revocation secrets that reached B, per channel
	revokes_at_b: BTreeMap<usize, BTreeSet<[u8; 32]>>,
	pub commits: BTreeMap<Txid, CommitRec>,
	/// confirmed transactions: txid -> height
	confirmed: BTreeMap<Txid, u32>,
	/// confirmed spends: outpoint -> (spending txid, height)
	spent: BTreeMap<OutPoint, (Txid, u32)>,
	b_broadcast: BTreeMap<Txid, u64>,
	/// restarts of B: (step, update id of the monitor image used per channel index)
	b_restarts: Vec<(u64, Vec<(usize, u64)>)>,
	height: u32,
	b_height: u32,
	/// B's in-flight monitor updates: (chan id, update id)
	b_inflight: BTreeSet<(ChannelId, u64)>,
	/// B's monitor updates per channel index, in hand-out order: (update id, step kinds, debug rendering, durable)
	b_updates: BTreeMap<usize, Vec<(u64, Vec<String>, String, bool)>>,
	/// B's asynchronous updates per channel index: (handed out at step, completed at step)
	b_async_spans: BTreeMap<usize, Vec<(u64, u64, Option<u64>)>>,
	/// channels of B for which update counting is no longer reliable (closed, or B was restarted)
	b_updates_unreliable: BTreeSet<usize>,
	/// distinct revocation secrets delivered to B per channel, in arrival order
	revoke_order_at_b: BTreeMap<usize, Vec<[u8; 32]>>,
	pub durability_checks: u64,
	fulfil_marker: Option<bool>,
	/// the pair whose preimage B is learning in the delivery being processed right now
	learning_now: Option<[u8; 32]>,
	/// policy B advertised per channel: (base msat, ppm, cltv delta)
	policy: Vec<Option<(u64, u64, u32)>>,
	/// every policy a channel of B has carried, in order: (step it was set at, policy); the first entry is the
	/// policy the channel was created with
	policy_hist: Vec<Vec<(u64, (u64, u64, u32))>>,
	start_msat: Vec<u64>,
	start_reported_sat: Vec<Option<u64>>,
	spendable: BTreeMap<OutPoint, (ChannelId, u64)>,
	handling_failed: BTreeMap<usize, u64>,
	pub stats: FwdStats,
	pub model_error: Option<String>,
}

fn fail(oracle: &str, detail: String) -> Failure {
	Failure::new(oracle, detail)
}

fn side_of(sim: &Sim, chan: usize, node: usize) -> usize {
	if sim.chans[chan].a == node {
		0
	} else {
		1
	}
}

fn chan_of(sim: &Sim, id: &ChannelId) -> Option<usize> {
	sim.chans.iter().position(|c| c.id == *id)
}

fn funding_outpoint(sim: &Sim, chan: usize) -> OutPoint {
	OutPoint { txid: sim.chans[chan].funding_tx.compute_txid(), vout: 0 }
}

fn witness_has_preimage(tx: &Transaction, hash: &[u8; 32]) -> bool {
	tx.input.iter().any(|i| i.witness.iter().any(|w| w.len() == 32 && sha256::Hash::hash(w).to_byte_array() == *hash))
}

fn input_has_preimage(tx: &Transaction, prev: &OutPoint, hash: &[u8; 32]) -> bool {
	tx.input.iter().any(|i| i.previous_output == *prev && i.witness.iter().any(|w| w.len() == 32 && sha256::Hash::hash(w).to_byte_array() == *hash))
}

/// balance B's monitor reports for one open channel (sat): `ClaimableOnChannelClose` amount
fn reported_open_sat(sim: &Sim, ci: usize) -> Option<u64> {
	let mon = sim.w.nodes[B].chain_monitor.chain_monitor.get_monitor(sim.chans[ci].id).ok()?;
	let mut sum = None;
	for b in mon.get_claimable_balances() {
		if let Balance::ClaimableOnChannelClose { balance_candidates, confirmed_balance_candidate_index, .. } = b {
			sum = Some(sum.unwrap_or(0) + balance_candidates[confirmed_balance_candidate_index].amount_satoshis);
		}
	}
	sum
}

impl FwdOracle {
	/// Must be created right after the channels were opened.
	pub fn new(sim: &Sim) -> FwdOracle {
		let mut models = vec![];
		let mut policy = vec![];
		let mut start_msat = vec![];
		for (ci, c) in sim.chans.iter().enumerate() {
			let ct = c.accept.common_fields.channel_type.clone().or(c.open.common_fields.channel_type.clone());
			let chan_type = match ct {
				Some(t) if t.supports_anchor_zero_fee_commitments() => ChanType::ZeroFeeCommitments,
				Some(t) if t.supports_anchors_zero_fee_htlc_tx() => ChanType::AnchorsZeroFeeHtlc,
				_ => ChanType::StaticRemoteKey,
			};
			models.push(ChanModel::new(Params {
				value_sat: c.value_sat,
				funder: 0,
				init_balance_msat: [c.value_sat * 1000 - c.push_msat, c.push_msat],
				dust_limit_sat: [c.open.common_fields.dust_limit_satoshis, c.accept.common_fields.dust_limit_satoshis],
				chan_type,
				init_feerate: c.open.common_fields.commitment_feerate_sat_per_1000_weight,
			}));
			let pol = if c.a == B || c.b == B {
				sim.chan_details(B, ci).and_then(|d| d.config).map(|cfg| (cfg.forwarding_fee_base_msat as u64, cfg.forwarding_fee_proportional_millionths as u64, cfg.cltv_expiry_delta as u32))
			} else {
				None
			};
			policy.push(pol);
			start_msat.push(if c.a == B {
				c.value_sat * 1000 - c.push_msat
			} else if c.b == B {
				c.push_msat
			} else {
				0
			});
		}
		// commitments signed during channel establishment carry no HTLCs
		let mut commits = BTreeMap::new();
		for (_, e) in hist_since(0) {
			if let HEvent::SignCounterparty { node, tx, params, .. } = e {
				if let Some(chan) = params.funding_outpoint.and_then(|fo| sim.chans.iter().position(|c| c.funding_tx.compute_txid() == fo.txid)) {
					let side = side_of(sim, chan, node);
					commits.insert(
						tx.trust().txid(),
						CommitRec { chan, broadcaster: 1 - side, nondust: vec![], dust: vec![], to_broadcaster_sat: tx.to_broadcaster_value_sat(), to_countersignatory_sat: tx.to_countersignatory_value_sat() },
					);
				}
			}
		}
		let h = sim.chain.height();
		FwdOracle {
			cur_h: hist_len(),
			cur_s: sim.log.len(),
			pairs: BTreeMap::new(),
			models,
			pending_number: BTreeMap::new(),
			acked_at_cs: BTreeMap::new(),
			revokes_at_b: BTreeMap::new(),
			commits,
			confirmed: BTreeMap::new(),
			spent: BTreeMap::new(),
			b_broadcast: BTreeMap::new(),
			b_restarts: vec![],
			height: h,
			b_height: sim.w.nodes[B].best_block_info().1,
			b_inflight: BTreeSet::new(),
			b_updates: BTreeMap::new(),
			b_async_spans: BTreeMap::new(),
			b_updates_unreliable: BTreeSet::new(),
			revoke_order_at_b: BTreeMap::new(),
			durability_checks: 0,
			fulfil_marker: None,
			learning_now: None,
			policy_hist: policy.iter().map(|p| p.iter().map(|x| (0u64, *x)).collect()).collect(),
			policy,
			start_msat,
			start_reported_sat: (0..sim.chans.len()).map(|ci| reported_open_sat(sim, ci)).collect(),
			spendable: BTreeMap::new(),
			handling_failed: BTreeMap::new(),
			stats: FwdStats::default(),
			model_error: None,
		}
	}

	fn acked_by(m: &ChanModel, acker: usize) -> usize {
		let j = m.sides[acker].raa_secrets.len();
		if j == 0 {
			0
		} else {
			m.sides[1 - acker].cs.get(j - 1).map(|c| c.covers).unwrap_or(0)
		}
	}

	fn pair_by_up(&mut self, chan: usize, id: u64) -> Option<&mut Pair> {
		self.pairs.values_mut().find(|p| p.up_chan == chan && p.up_id == id)
	}

	fn pair_by_down(&mut self, chan: usize, id: u64) -> Option<&mut Pair> {
		self.pairs.values_mut().find(|p| p.down.as_ref().map(|d| d.chan == chan && d.id == id).unwrap_or(false))
	}

	/// (d) durability order, observed directly (while B was never restarted and the channel is open): when
	/// the monitor update of the downstream channel that makes the *fulfilled* HTLC's removal irrevocable --
	/// the one carrying the commitment secret of the next hop's revoke_and_ack for B's first commitment_signed
	/// without the HTLC -- becomes durable, a monitor update storing the preimage in the upstream channel's
	/// monitor must already be durable. The n-th distinct revoke_and_ack delivered to B on a channel
	/// corresponds to B's n-th monitor update of that channel carrying a CommitmentSecret step.
	fn check_durability_order(&mut self, sim: &Sim, chan: usize) -> CaseResult {
		if self.b_updates_unreliable.contains(&chan) {
			return Ok(());
		}
		let sb = side_of(sim, chan, B);
		let sc = 1 - sb;
		let mut evaluated = 0;
		for p in self.pairs.values() {
			let Some(d) = &p.down else { continue };
			if d.chan != chan || p.learned.map(|(_, how)| how != "message").unwrap_or(true) {
				continue;
			}
			let m = &self.models[chan];
			let Some(k) = m.sides[sc].updates.iter().position(|u| *u == Upd::Fulfill { id: d.id }) else { continue };
			let Some(acked) = self.acked_at_cs.get(&(chan, sb)) else { continue };
			let Some(i) = acked.iter().position(|a| *a > k) else { continue };
			// the next hop's (i+1)-th revoke_and_ack revokes its last commitment containing the HTLC
			let Some(secret) = m.sides[sc].raa_secrets.get(i) else { continue };
			let Some(n) = self.revoke_order_at_b.get(&chan).and_then(|v| v.iter().position(|s| s == secret)) else { continue };
			let Some(upd) = self.b_updates.get(&chan).and_then(|v| v.iter().filter(|u| u.1.iter().any(|s| s == "CommitmentSecret")).nth(n)) else { continue };
			if !upd.3 {
				continue;
			}
			if self.b_updates_unreliable.contains(&p.up_chan) {
				continue;
			}
			let preimage = sim.pays.iter().find(|x| x.hash.0 == p.hash).map(|x| format!("{:?}", x.preimage));
			let Some(needle) = preimage else { continue };
			evaluated += 1;
			let up_durable = self.b_updates.get(&p.up_chan).map(|v| v.iter().any(|u| u.3 && u.1.iter().any(|s| s == "PaymentPreimage") && u.2.contains(&needle))).unwrap_or(false);
			if !up_durable {
				return Err(fail(
					"durability-order",
					format!(
						"B's monitor update {} of the downstream chan {} (steps {:?}), which makes the removal of the fulfilled HTLC id {} irrevocable, is durable while no durable update of the upstream chan {} stores the preimage (upstream HTLC id {})",
						upd.0, chan, upd.1, d.id, p.up_chan, p.up_id
					),
				)
				.with_key("durability-order"));
			}
		}
		self.durability_checks += evaluated;
		Ok(())
	}

	/// (c), off-chain branch: the downstream HTLC was removed by the next hop's *failure* and no unrevoked
	/// commitment of either side contains it any more, as far as B can know (BOLT-2: the next hop's
	/// update_fail_htlc was covered by its commitment_signed, B acknowledged that with a revoke_and_ack,
	/// signed a commitment without the HTLC, and the next hop's revoke_and_ack for that commitment reached B).
	fn down_irrevocably_failed(&self, sim: &Sim, d: &Down) -> bool {
		let m = &self.models[d.chan];
		let sb = side_of(sim, d.chan, B);
		let sc = 1 - sb;
		let Some(k) = m.sides[sc].updates.iter().position(|u| *u == Upd::Fail { id: d.id }) else { return false };
		let Some(acked) = self.acked_at_cs.get(&(d.chan, sb)) else { return false };
		let delivered = self.revokes_at_b.get(&d.chan);
		for (i, a) in acked.iter().enumerate() {
			if *a > k {
				if let (Some(sec), Some(del)) = (m.sides[sc].raa_secrets.get(i), delivered) {
					if del.contains(sec) {
						return true;
					}
				}
			}
		}
		false
	}

	/// (c), on-chain branch. Some(true): the downstream channel's confirmed commitment has no output for the
	/// HTLC and is buried ANTI_REORG_DELAY deep, or the HTLC output was spent without the preimage by a
	/// transaction buried that deep. Some(false): not (yet). None: cannot tell (unknown commitment).
	fn down_unclaimable_onchain(&self, sim: &Sim, hash: &[u8; 32], d: &Down) -> Option<bool> {
		let Some((t, h_t)) = self.spent.get(&funding_outpoint(sim, d.chan)) else { return Some(false) };
		let rec = self.commits.get(t)?;
		let sb = side_of(sim, d.chan, B);
		let offered_by_b = |offered: bool| offered == (rec.broadcaster == sb);
		match rec.nondust.iter().find(|(h, _, off, _)| h == hash && offered_by_b(*off)) {
			None => Some(self.height + 1 >= *h_t + ANTI_REORG_DELAY),
			Some((_, _, _, idx)) => match self.spent.get(&OutPoint { txid: *t, vout: *idx }) {
				None => Some(false),
				Some((stx, h_s)) => {
					let tx = sim.chain.seen.get(stx)?;
					Some(!input_has_preimage(tx, &OutPoint { txid: *t, vout: *idx }, hash) && self.height + 1 >= *h_s + ANTI_REORG_DELAY)
				},
			},
		}
	}

	pub fn step(&mut self, sim: &Sim) -> CaseResult {
		let evs = merged_since(sim, &mut self.cur_h, &mut self.cur_s);
		for (at, ev) in evs {
			match ev {
				M::H(HEvent::SignCounterparty { node, tx, params, .. }) => {
					let Some(chan) = params.funding_outpoint.and_then(|fo| sim.chans.iter().position(|c| c.funding_tx.compute_txid() == fo.txid)) else { continue };
					let side = side_of(sim, chan, node);
					let nd: Vec<([u8; 32], u64, bool, u32)> = tx.nondust_htlcs().iter().map(|h| (h.payment_hash.0, h.amount_msat, h.offered, h.transaction_output_index.unwrap_or(u32::MAX))).collect();
					self.pending_number.insert((chan, side), (tx.commitment_number(), tx.trust().txid(), nd, tx.to_broadcaster_value_sat(), tx.to_countersignatory_value_sat()));
				},
				M::H(HEvent::PersistUpdate { node, chan, update_id: Some(id), in_progress, steps, debug, .. }) if node == B => {
					if let Some(ci) = chan_of(sim, &chan) {
						if steps.iter().any(|s| s == "ChannelForceClosed" || s.starts_with('?')) {
							self.b_updates_unreliable.insert(ci);
						}
						self.b_updates.entry(ci).or_default().push((id, steps, debug, !in_progress));
						if in_progress {
							self.b_async_spans.entry(ci).or_default().push((id, at, None));
						}
						if !in_progress {
							self.check_durability_order(sim, ci)?;
						}
					}
					if in_progress {
						self.b_inflight.insert((chan, id));
						// an update B creates while handling the fulfil (the upstream preimage update, the downstream
						// commitment update) stays in flight
						if let Some(p) = self.learning_now.and_then(|h| self.pairs.get_mut(&h)) {
							p.async_pending_at_learn = true;
						}
					}
				},
				M::H(HEvent::PersistNew { node, chan, update_id, in_progress: true }) if node == B => {
					self.b_inflight.insert((chan, update_id));
				},
				M::H(HEvent::PersistCompleted { node, chan, update_id }) if node == B => {
					self.b_inflight.remove(&(chan, update_id));
					if let Some(ci) = chan_of(sim, &chan) {
						if let Some(u) = self.b_updates.get_mut(&ci).and_then(|v| v.iter_mut().find(|u| u.0 == update_id)) {
							u.3 = true;
						}
						if let Some(sp) = self.b_async_spans.get_mut(&ci).and_then(|v| v.iter_mut().rev().find(|u| u.0 == update_id && u.2.is_none())) {
							sp.2 = Some(at);
						}
						self.check_durability_order(sim, ci)?;
					}
				},
				M::S(SEvent::Api { node, what, ok, .. }) => {
					self.learning_now = None;
					if node == B && what == "c02-fulfil-arrives" {
						self.fulfil_marker = Some(ok);
					}
					if node == B && ok && what.starts_with("c02-config ") {
						let f: Vec<u64> = what.split(' ').skip(1).filter_map(|x| x.parse().ok()).collect();
						if f.len() == 4 && (f[0] as usize) < self.policy_hist.len() {
							let pol = (f[1], f[2], f[3] as u32);
							self.policy_hist[f[0] as usize].push((at, pol));
							self.policy[f[0] as usize] = Some(pol);
							self.stats.config_updates += 1;
						}
					}
				},
				M::S(SEvent::Emit { from, to, wire }) => self.on_emit(sim, at, from, to, &wire)?,
				M::S(SEvent::Deliver { from, to, wire }) => {
					self.learning_now = None;
					self.on_deliver(sim, at, from, to, &wire)?
				},
				M::S(SEvent::Disconnect { a, b }) => {
					if a == B || b == B {
						for p in self.pairs.values_mut() {
							if p.learned.is_some() && p.up_fulfill_delivered.is_none() && p.up_claim_onchain.is_none() {
								p.disconnect_in_window = true;
							}
						}
					}
				},
				M::S(SEvent::Restart { node, ok, snapshot_step, monitor_ids, .. }) => {
					if node == B && ok {
						// Knowledge that existed only in memory dies with the process: a preimage B learned by message
						// survives the crash only if the manager snapshot used was taken after it was learned (the
						// manager carries the claim and its in-flight updates) or a monitor image used contains it.
						let lost: Vec<[u8; 32]> = self
							.pairs
							.values()
							.filter(|p| match p.learned {
								Some((t, "message")) => {
									let needle = sim.pays.iter().find(|x| x.hash.0 == p.hash).map(|x| format!("{:?}", x.preimage)).unwrap_or_default();
									let in_image = self.b_updates.iter().any(|(ci, v)| {
										let used = monitor_ids.iter().find(|(c, _)| chan_of(sim, c) == Some(*ci)).map(|(_, id)| *id).unwrap_or(0);
										v.iter().any(|u| (u.3 || u.0 <= used) && u.2.contains(&needle))
									});
									!(snapshot_step > t || in_image)
								},
								_ => false,
							})
							.map(|p| p.hash)
							.collect();
						for h in lost {
							let p = self.pairs.get_mut(&h).unwrap();
							if let Some(t) = p.revealed_on_chain {
								// the downstream preimage spend is in the chain: the closed channel's monitor has it
								p.learned = Some((t, "chain"));
								continue;
							}
							p.learned = None;
							p.knowledge_lost = true;
							self.stats.knowledge_lost += 1;
						}
						self.stats.restarts_b += 1;
						self.b_inflight.clear();
						// updates still in flight when B stopped never complete in the old process
						let spans = self.b_async_spans.clone();
						self.b_restarts.push((at, monitor_ids.iter().filter_map(|(c, id)| chan_of(sim, c).map(|ci| (ci, *id))).collect()));
						for ci in 0..sim.chans.len() {
							self.b_updates_unreliable.insert(ci);
						}
						for p in self.pairs.values_mut() {
							p.restarts_after_in += 1;
							if p.down.as_ref().map(|d| snapshot_step < d.t_emit).unwrap_or(false) {
								p.stale_restart = true;
								// were monitor updates of the upstream channel in flight when that manager was written? (then the
								// inbound HTLC may have been parked inside the Channel: monitor_pending_update_adds)
								if spans.get(&p.up_chan).map(|v| v.iter().any(|(_, a, d)| *a < snapshot_step && d.map(|d| d > snapshot_step).unwrap_or(true))).unwrap_or(false) {
									p.stale_restart_up_inflight = true;
								}
							}
							if p.learned.is_some() && p.up_fulfill_delivered.is_none() && p.up_claim_onchain.is_none() {
								p.restart_in_window = true;
							}
						}
					}
				},
				M::S(SEvent::Broadcast { node, tx, .. }) => {
					if node == B {
						self.b_broadcast.entry(tx.compute_txid()).or_insert(at);
					}
				},
				M::S(SEvent::BlockDelivered { node, height }) => {
					if node == B {
						self.b_height = height;
					}
				},
				M::S(SEvent::Mined { height, txids }) => {
					self.height = height;
					for txid in txids {
						let Some(tx) = sim.chain.seen.get(&txid) else { continue };
						self.confirmed.insert(txid, height);
						for i in tx.input.iter() {
							self.spent.insert(i.previous_output, (txid, height));
						}
						self.on_mined_tx(sim, at, tx, height);
					}
				},
				M::S(SEvent::Ldk { node, ev }) if node == B => self.on_b_event(sim, &ev)?,
				_ => {},
			}
		}
		Ok(())
	}

	/// The funding output of channel `ci` was spent by B's own commitment transaction, which B handed to the
	/// broadcaster while monitor updates of that channel were still InProgress, and B was later restarted from an
	/// image of that monitor older than one of those updates.
	fn own_commitment_lost_after_restart(&self, sim: &Sim, ci: usize) -> bool {
		let Some((t, _)) = self.spent.get(&funding_outpoint(sim, ci)).cloned() else { return false };
		let Some(rec) = self.commits.get(&t) else { return false };
		if rec.broadcaster != side_of(sim, ci, B) {
			return false;
		}
		let Some(s_b) = self.b_broadcast.get(&t) else { return false };
		let inflight: Vec<u64> = self.b_async_spans.get(&ci).map(|v| v.iter().filter(|(_, a, d)| a < s_b && d.map(|d| d > *s_b).unwrap_or(true)).map(|(id, _, _)| *id).collect()).unwrap_or_default();
		self.b_restarts.iter().any(|(rs, ids)| rs > s_b && ids.iter().any(|(c, used)| *c == ci && inflight.iter().any(|id| id > used)))
	}

	/// Money-loss symptoms on a history in which one of B's channels was closed by B's own commitment, broadcast
	/// while its monitor update was in flight, and B then restarted from an older image of that monitor: the
	/// monitor cannot act on a commitment it does not know (listed root cause, see C09
	/// `broadcast-before-durable/holder-commitment`). Such failures get the suffix below so that they are matched
	/// by their own known-finding entries and never hide the same symptom on a history without that condition.
	pub fn qualify_lost_commitment(&self, sim: &Sim, mut f: Failure) -> Failure {
		const SYMPTOMS: &[&str] = &[
			"claim-follows-knowledge/onchain-timeout",
			"claim-follows-knowledge/onchain-unclaimed",
			"claim-follows-knowledge/onchain-missing",
			"failed-upstream-while-downstream-claimable",
			"failed-upstream-with-preimage",
		];
		const SUFFIX: &str = "/own-commitment-unknown-to-monitor-after-restart";
		if SYMPTOMS.contains(&f.key.as_str()) && b_chans(sim).into_iter().any(|ci| self.own_commitment_lost_after_restart(sim, ci)) {
			f.key = format!("{}{}", f.key, SUFFIX);
		}
		f
	}

	fn on_mined_tx(&mut self, _sim: &Sim, at: u64, tx: &Transaction, _height: u32) {
		let txid = tx.compute_txid();
		// a spend carrying a preimage of a forwarded payment
		let hashes: Vec<[u8; 32]> = self.pairs.keys().cloned().collect();
		for h in hashes {
			if !witness_has_preimage(tx, &h) {
				continue;
			}
			let (down_chan, up_chan) = {
				let p = &self.pairs[&h];
				(p.down.as_ref().map(|d| d.chan), p.up_chan)
			};
			for i in tx.input.iter() {
				let parent = i.previous_output.txid;
				let Some(rec) = self.commits.get(&parent) else { continue };
				if !input_has_preimage(tx, &i.previous_output, &h) {
					continue;
				}
				if Some(rec.chan) == down_chan {
					// the next hop claimed the downstream HTLC on chain: B's monitor sees the preimage in this block
					let inflight = !self.b_inflight.is_empty();
					let p = self.pairs.get_mut(&h).unwrap();
					if p.revealed_on_chain.is_none() {
						p.revealed_on_chain = Some(at);
					}
					if p.learned.is_none() {
						p.learned = Some((at, "chain"));
						p.async_pending_at_learn = inflight;
						self.stats.learned_chain += 1;
					}
				} else if rec.chan == up_chan && self.b_broadcast.contains_key(&txid) {
					let p = self.pairs.get_mut(&h).unwrap();
					if p.up_claim_onchain.is_none() {
						p.up_claim_onchain = Some(at);
						self.stats.up_fulfilled_chain += 1;
					}
				}
			}
		}
	}

	fn feed_model(&mut self, sim: &Sim, from: usize, wire: &Wire) {
		let Some(cid) = wire.channel_id() else { return };
		let Some(chan) = chan_of(sim, &cid) else { return };
		let side = side_of(sim, chan, from);
		let r: Result<(), String> = match wire {
			Wire::Add(m) => {
				self.models[chan].on_update(side, Upd::Add { id: m.htlc_id, amt_msat: m.amount_msat, hash: m.payment_hash.0, cltv: m.cltv_expiry });
				Ok(())
			},
			Wire::Fulfill(m) => {
				self.models[chan].on_update(side, Upd::Fulfill { id: m.htlc_id });
				Ok(())
			},
			Wire::Fail(m) => {
				self.models[chan].on_update(side, Upd::Fail { id: m.htlc_id });
				Ok(())
			},
			Wire::FailMalformed(m) => {
				self.models[chan].on_update(side, Upd::Fail { id: m.htlc_id });
				Ok(())
			},
			Wire::Fee(m) => {
				self.models[chan].on_update(side, Upd::Fee { rate: m.feerate_per_kw });
				Ok(())
			},
			Wire::Commit(_) => {
				let pend = self.pending_number.remove(&(chan, side));
				let number = pend.as_ref().map(|p| p.0).or(self.models[chan].sides[side].cs.last().map(|c| c.number));
				match number {
					None => Err("commitment_signed without an observed signature".to_string()),
					Some(number) => match self.models[chan].on_commit(side, number) {
						Err(e) => Err(e),
						Ok(false) => Ok(()),
						Ok(true) => {
							let acked = Self::acked_by(&self.models[chan], side);
							self.acked_at_cs.entry((chan, side)).or_default().push(acked);
							if let Some((_, txid, nondust, to_b, to_c)) = pend {
								match self.models[chan].expected_for(1 - side) {
									Ok(exp) => {
										self.commits.insert(txid, CommitRec { chan, broadcaster: 1 - side, nondust, dust: exp.dust, to_broadcaster_sat: to_b, to_countersignatory_sat: to_c });
										Ok(())
									},
									Err(e) => Err(e),
								}
							} else {
								Err("new commitment_signed without a fresh signature".to_string())
							}
						},
					},
				}
			},
			Wire::Revoke(m) => self.models[chan].on_revoke(side, m.per_commitment_secret).map(|_| ()),
			_ => Ok(()),
		};
		if let Err(e) = r {
			if self.model_error.is_none() {
				self.model_error = Some(format!("chan {} node {}: {}", chan, from, e));
			}
		}
	}

	fn on_emit(&mut self, sim: &Sim, at: u64, from: usize, _to: usize, wire: &Wire) -> CaseResult {
		self.feed_model(sim, from, wire);
		if from != B {
			return Ok(());
		}
		let Some(chan) = wire.channel_id().and_then(|c| chan_of(sim, &c)) else { return Ok(()) };
		match wire {
			Wire::Add(m) => {
				let hash = m.payment_hash.0;
				let Some(p) = self.pairs.get(&hash).cloned() else {
					// B is never a payer in this profile
					return Err(fail("add-without-upstream", format!("B sent update_add_htlc (chan {}, id {}, {} msat) for a payment hash it never received an HTLC for", chan, m.htlc_id, m.amount_msat)));
				};
				if let Some(d) = &p.down {
					if d.chan == chan && d.id == m.htlc_id {
						return Ok(()); // retransmission
					}
					if !d.delivered && sim.chan_details(B, d.chan).is_none() {
						// the first update_add_htlc never reached the next hop and B no longer has that channel (closed on
						// a stale reload): the next hop holds no signed commitment containing it, so it can never be
						// claimed there; forwarding again is the only way to serve the payment
						self.stats.reforwards_after_undelivered += 1;
						let hash = p.hash;
						self.pairs.get_mut(&hash).unwrap().down = None;
						return self.on_emit(sim, at, from, _to, wire);
					}
					// other symptom of the listed stale-reload family: the manager B restarted from was written before
					// the forward (the inbound HTLC sat in the upstream Channel's monitor_pending_update_adds while an
					// upstream monitor update was in flight), so it forwards the HTLC a second time
					let key = if p.stale_restart_up_inflight {
						"double-forward/manager-snapshot-predates-forward/monitor-pending-update-adds"
					} else if p.stale_restart {
						"double-forward/manager-snapshot-predates-forward"
					} else {
						"double-forward"
					};
					return Err(fail(
						"double-forward",
						format!("B forwarded the HTLC received on chan {} (id {}) twice: first as chan {} id {} (delivered: {}), now as chan {} id {}; B restarted from a manager snapshot older than the forward: {}, with monitor updates of the upstream channel in flight when it was written: {}", p.up_chan, p.up_id, d.chan, d.id, d.delivered, chan, m.htlc_id, p.stale_restart, p.stale_restart_up_inflight),
					)
					.with_key(key));
				}
				if chan == p.up_chan {
					return Err(fail("forward-to-origin", format!("B forwarded an HTLC back over the channel it arrived on (chan {})", chan)));
				}
				// (a) admission, evaluated on the message B actually sent
				self.stats.admission_checks += 1;
				self.stats.forwarded += 1;
				// the policy that applies is that of the channel the sender named in the onion; the library may use any
				// other channel to the same peer for the HTLC itself (non-strict forwarding), and B's channels may
				// advertise different policies
				let named = sim.pays.iter().find(|q| q.hash.0 == p.hash).and_then(|q| q.path_nodes.iter().position(|n| *n == B).and_then(|i| q.path_chans.get(i).cloned())).filter(|c| *c != chan && *c < sim.chans.len() && sim.peer_of(*c, B) == sim.peer_of(chan, B));
				if named.is_some() {
					self.stats.non_strict_forwards += 1;
				}
				let (base, ppm, delta) = self.policy[named.unwrap_or(chan)].ok_or_else(|| fail("harness", "no policy for B's outgoing channel".into()))?;
				let ctx = format!(
					"in: chan {} id {} {} msat expiry {}; out: chan {} id {} {} msat expiry {}; policy base {} ppm {} delta {}",
					p.up_chan, p.up_id, p.amt_in, p.cltv_in, chan, m.htlc_id, m.amount_msat, m.cltv_expiry, base, ppm, delta
				);
				// A channel whose policy was changed while this HTLC was on its way: the library honours the policy before
				// the change, as a whole, for a few timer ticks. Every policy that was in force (or in its grace period)
				// at some moment since the inbound HTLC arrived is acceptable, but only as a whole: fee and CLTV delta
				// of the same policy.
				let hist = &self.policy_hist[named.unwrap_or(chan)];
				if hist.len() > 1 {
					let live_from = hist.iter().rposition(|(t, _)| *t <= p.t_in).unwrap_or(0).saturating_sub(1);
					let ok_whole = hist[live_from..].iter().any(|(_, (b, pp, d))| (p.amt_in as u128) >= m.amount_msat as u128 + *b as u128 + (m.amount_msat as u128 * *pp as u128) / 1_000_000 && (p.cltv_in as u64) >= m.cltv_expiry as u64 + *d as u64);
					self.stats.admissions_after_config_update += 1;
					if !ok_whole {
						return Err(fail("admission-policy", format!("B forwarded an HTLC that satisfies none of the policies its outgoing channel carried since the HTLC arrived, taken as a whole (fee and CLTV delta of one and the same policy): {}; policies (step set, base, ppm, delta): {:?}", ctx, &hist[live_from..])).with_key("admission-policy/no-whole-policy-satisfied"));
					}
				} else {
				let need_fee = base as u128 + (m.amount_msat as u128 * ppm as u128) / 1_000_000;
				if (p.amt_in as u128) < m.amount_msat as u128 + need_fee {
					return Err(fail("admission-fee", format!("B forwarded for less than its advertised fee ({} msat needed): {}", need_fee, ctx)).with_key("admission-fee"));
				}
				if (p.cltv_in as u64) < m.cltv_expiry as u64 + delta as u64 {
					return Err(fail("admission-cltv-delta", format!("B forwarded with less than its advertised cltv_expiry_delta: {}", ctx)).with_key("admission-cltv-delta"));
				}
				}
				// the outgoing expiry must be more than LATENCY_GRACE_PERIOD_BLOCKS beyond the next block height at
				// the time B decided; B's height when the HTLC became irrevocably committed upstream is a lower bound
				let h_lo = p.h_commit.unwrap_or(p.h_in);
				if m.cltv_expiry <= h_lo + 1 + LATENCY_GRACE_PERIOD_BLOCKS {
					return Err(fail(
						"admission-expiry-buffer",
						format!("B forwarded an HTLC whose outgoing expiry {} is within {} blocks of the next height (B was at height {} or later when it decided): {}", m.cltv_expiry, LATENCY_GRACE_PERIOD_BLOCKS, h_lo, ctx),
					)
					.with_key("admission-expiry-buffer"));
				}
				let min = peer_htlc_minimum(sim, chan, B);
				let maxf = peer_max_in_flight(sim, chan, B);
				if m.amount_msat < min || m.amount_msat > maxf {
					return Err(fail("admission-amount", format!("B forwarded an amount outside the next hop's announced limits [{}, {}]: {}", min, maxf, ctx)).with_key("admission-amount"));
				}
				let need_fee = base as u128 + (m.amount_msat as u128 * ppm as u128) / 1_000_000;
				let fee_slack = (p.amt_in as u128).saturating_sub(m.amount_msat as u128 + need_fee);
				self.stats.fee_edge[if fee_slack == 0 { 0 } else if fee_slack == 1 { 1 } else { 2 }] += 1;
				let delta_slack = (p.cltv_in as u64).saturating_sub(m.cltv_expiry as u64 + delta as u64);
				self.stats.delta_edge[if delta_slack == 0 { 0 } else if delta_slack == 1 { 1 } else { 2 }] += 1;
				let p = self.pairs.get_mut(&hash).unwrap();
				p.down = Some(Down { chan, id: m.htlc_id, amt_out: m.amount_msat, cltv_out: m.cltv_expiry, t_emit: at, delivered: false });
			},
			Wire::Fulfill(m) => {
				let preimage_hash = sha256::Hash::hash(&m.payment_preimage.0).to_byte_array();
				if let Some(p) = self.pair_by_up(chan, m.htlc_id) {
					if p.hash != preimage_hash {
						return Err(fail("upstream-fulfil-wrong-preimage", format!("B fulfilled upstream HTLC chan {} id {} with a preimage of a different payment", chan, m.htlc_id)));
					}
					if p.up_fulfill_emit.is_none() {
						p.up_fulfill_emit = Some(at);
					}
				}
			},
			Wire::Fail(_) | Wire::FailMalformed(_) => {
				let id = match wire {
					Wire::Fail(m) => m.htlc_id,
					Wire::FailMalformed(m) => m.htlc_id,
					_ => unreachable!(),
				};
				let Some(p) = self.pair_by_up(chan, id).map(|p| p.clone()) else { return Ok(()) };
				let first = p.up_fail_emit.is_none();
				self.pairs.get_mut(&p.hash).unwrap().up_fail_emit.get_or_insert(at);
				if let Some((t, how)) = p.learned {
					// listed finding, other symptom of the same root cause as the ledger key: the downstream channel was
					// closed by B's own commitment, broadcast while monitor updates were in flight, and B then restarted
					// from a monitor image that does not know that commitment: it cannot see the preimage spend
					return Err(fail(
						"failed-upstream-with-preimage",
						format!("B sent update_fail_htlc upstream (chan {} id {}) at step {} although it had learned the preimage from downstream ({}) at step {}", chan, id, at, how, t),
					)
					.with_key("failed-upstream-with-preimage"));
				}
				let Some(d) = &p.down else {
					if first {
						self.stats.refused_forwards += 1;
					}
					return Ok(());
				};
				// (c) fail-only-when-safe
				if self.down_irrevocably_failed(sim, d) {
					if first {
						self.stats.up_failed_after_offchain_removal += 1;
					}
					return Ok(());
				}
				match self.down_unclaimable_onchain(sim, &p.hash, d) {
					Some(true) => {
						if first {
							self.stats.up_failed_after_onchain += 1;
						}
					},
					None => {
						if self.model_error.is_none() {
							self.model_error = Some("unknown downstream commitment confirmed".into());
						}
					},
					Some(false) => {
						if self.model_error.is_some() {
							return Ok(());
						}
						let onchain = self.spent.get(&funding_outpoint(sim, d.chan)).map(|(t, h)| format!("downstream funding spent by {} at height {} (now {})", t, h, self.height)).unwrap_or("downstream channel not on chain".into());
						return Err(fail(
							"failed-upstream-while-downstream-claimable",
							format!(
								"B sent update_fail_htlc upstream (chan {} id {}) at step {} while the downstream HTLC (chan {} id {}, sent at step {}, delivered: {}) could still be claimed by the next hop: it was not irrevocably removed by a failure (next hop's update_fail covered by its commitment_signed, acknowledged by B, B's new commitment_signed revoked-and-acked) and {}; B restarted from a manager snapshot older than the forward (monitors newer): {}, with monitor updates of the upstream channel in flight when it was written: {}",
								chan, id, at, d.chan, d.id, d.t_emit, d.delivered, onchain, p.stale_restart, p.stale_restart_up_inflight
							),
						)
						.with_key(if p.stale_restart_up_inflight {
							"failed-upstream-while-downstream-claimable/manager-snapshot-predates-forward/monitor-pending-update-adds"
						} else if p.stale_restart {
							"failed-upstream-while-downstream-claimable/manager-snapshot-predates-forward"
						} else {
							"failed-upstream-while-downstream-claimable"
						}));
					},
				}
			},
			_ => {},
		}
		Ok(())
	}

	fn on_deliver(&mut self, sim: &Sim, at: u64, from: usize, to: usize, wire: &Wire) -> CaseResult {
		let Some(chan) = wire.channel_id().and_then(|c| chan_of(sim, &c)) else { return Ok(()) };
		if from == B {
			match wire {
				Wire::Add(m) => {
					if let Some(p) = self.pair_by_down(chan, m.htlc_id) {
						p.down.as_mut().unwrap().delivered = true;
					}
				},
				Wire::Fulfill(m) => {
					if let Some(p) = self.pair_by_up(chan, m.htlc_id) {
						if p.up_fulfill_delivered.is_none() {
							p.up_fulfill_delivered = Some(at);
							self.stats.up_fulfilled_msg += 1;
						}
					}
				},
				_ => {},
			}
			return Ok(());
		}
		if to != B {
			return Ok(());
		}
		match wire {
			Wire::Add(m) => {
				let hash = m.payment_hash.0;
				let is_forward = sim.pays.iter().find(|p| p.hash.0 == hash).map(|p| p.path_nodes.iter().position(|n| *n == B).map(|i| i > 0 && i + 1 < p.path_nodes.len()).unwrap_or(false)).unwrap_or(false);
				let bh = self.b_height;
				match self.pairs.get_mut(&hash) {
					Some(p) => {
						// retransmission after a reconnect (the first copy was never committed)
						if p.up_chan == chan && p.up_id == m.htlc_id && p.down.is_none() {
							p.t_in = at;
							p.h_in = bh;
							p.h_commit = None;
						}
					},
					None => {
						self.stats.pairs += 1;
						self.pairs.insert(
							hash,
							Pair {
								hash,
								up_chan: chan,
								up_id: m.htlc_id,
								amt_in: m.amount_msat,
								cltv_in: m.cltv_expiry,
								t_in: at,
								h_in: bh,
								h_commit: None,
								is_forward,
								down: None,
								learned: None,
								revealed_on_chain: None,
								up_fulfill_emit: None,
								up_fulfill_delivered: None,
								up_fail_emit: None,
								up_claim_onchain: None,
								handling_failed_seen: false,
								forwarded_event: false,
								async_pending_at_learn: false,
								disconnect_in_window: false,
								restart_in_window: false,
								restarts_after_in: 0,
								stale_restart: false,
								stale_restart_up_inflight: false,
								knowledge_lost: false,
							},
						);
					},
				}
			},
			Wire::Revoke(m) => {
				if self.revokes_at_b.entry(chan).or_default().insert(m.per_commitment_secret) {
					self.revoke_order_at_b.entry(chan).or_default().push(m.per_commitment_secret);
				}
				let bh = self.b_height;
				for p in self.pairs.values_mut() {
					if p.up_chan == chan && p.h_commit.is_none() && p.down.is_none() {
						p.h_commit = Some(bh);
					}
				}
			},
			Wire::Fulfill(m) => {
				let open = self.fulfil_marker.take().unwrap_or(true);
				let inflight = !self.b_inflight.is_empty();
				let preimage_hash = sha256::Hash::hash(&m.payment_preimage.0).to_byte_array();
				let mut newly = false;
				if let Some(p) = self.pair_by_down(chan, m.htlc_id) {
					if p.hash == preimage_hash && open && p.learned.is_none() {
						p.learned = Some((at, "message"));
						p.async_pending_at_learn = inflight;
						newly = true;
					}
				}
				if newly {
					self.stats.learned_msg += 1;
					self.learning_now = Some(preimage_hash);
				}
			},
			_ => {},
		}
		Ok(())
	}

	fn on_b_event(&mut self, sim: &Sim, ev: &Event) -> CaseResult {
		match ev {
			Event::PaymentForwarded { prev_htlcs, next_htlcs, total_fee_earned_msat, claim_from_onchain_tx, outbound_amount_forwarded_msat, skimmed_fee_msat } => {
				let Some(prev) = prev_htlcs.first() else { return Ok(()) };
				let Some(up) = chan_of(sim, &prev.channel_id) else { return Ok(()) };
				let Some(id) = prev.htlc_id else { return Ok(()) };
				let Some(p) = self.pair_by_up(up, id).map(|p| p.clone()) else {
					return Err(fail("forwarded-event-unknown-htlc", format!("PaymentForwarded names upstream HTLC chan {} id {} which B never received", up, id)));
				};
				self.pairs.get_mut(&p.hash).unwrap().forwarded_event = true;
				let Some(d) = &p.down else {
					return Err(fail("forwarded-event-without-forward", format!("PaymentForwarded for upstream HTLC chan {} id {} which B never forwarded", up, id)));
				};
				if p.learned.is_none() {
					return Err(fail("forwarded-event-without-preimage", format!("PaymentForwarded for upstream HTLC chan {} id {} although the next hop never revealed the preimage (neither by message on an open channel nor on chain)", up, id)));
				}
				if let Some(next) = next_htlcs.first() {
					if chan_of(sim, &next.channel_id) != Some(d.chan) {
						return Err(fail("forwarded-event-wrong-channel", format!("PaymentForwarded names downstream channel {:?} but the HTLC left over chan {}", chan_of(sim, &next.channel_id), d.chan)));
					}
				}
				if let Some(fee) = total_fee_earned_msat {
					self.stats.fee_events_checked += 1;
					let real = p.amt_in - d.amt_out;
					let skim = skimmed_fee_msat.unwrap_or(0);
					// documented: when the next hop claimed on chain the amount it took was rounded down to a whole
					// satoshi, so the reported fee may exceed the msat difference by less than one satoshi
					let ok = if *claim_from_onchain_tx { *fee >= real && *fee < real + 1000 } else { *fee == real };
					if !ok || skim != 0 {
						return Err(fail(
							"forwarded-fee-mismatch",
							format!("PaymentForwarded reports total_fee_earned_msat {} (skimmed {}, from_onchain {}, outbound_amount {}) but the HTLC pair is {} msat in / {} msat out = {}", fee, skim, claim_from_onchain_tx, outbound_amount_forwarded_msat, p.amt_in, d.amt_out, real),
						)
						.with_key("forwarded-fee-mismatch"));
					}
					if !*claim_from_onchain_tx && *outbound_amount_forwarded_msat != d.amt_out {
						return Err(fail("forwarded-fee-mismatch", format!("PaymentForwarded reports outbound amount {} but {} msat left B", outbound_amount_forwarded_msat, d.amt_out)).with_key("forwarded-amount-mismatch"));
					}
				}
			},
			Event::HTLCHandlingFailed { prev_channel_ids, .. } => {
				for c in prev_channel_ids {
					if let Some(ci) = chan_of(sim, c) {
						*self.handling_failed.entry(ci).or_insert(0) += 1;
					}
				}
			},
			Event::SpendableOutputs { outputs, channel_id, .. } => {
				for o in outputs {
					let (op, val) = match o {
						SpendableOutputDescriptor::StaticOutput { outpoint, output, .. } => (outpoint.clone(), output.value.to_sat()),
						SpendableOutputDescriptor::DelayedPaymentOutput(d) => (d.outpoint.clone(), d.output.value.to_sat()),
						SpendableOutputDescriptor::StaticPaymentOutput(d) => (d.outpoint.clone(), d.output.value.to_sat()),
					};
					let op = OutPoint { txid: op.txid, vout: op.index as u32 };
					if let Some(cid) = channel_id {
						self.spendable.insert(op, (*cid, val));
					}
				}
			},
			_ => {},
		}
		Ok(())
	}

	/// Checks at final quiescence: (a) refused forwards were failed back and reported, (b) every HTLC whose
	/// preimage B learned ended fulfilled upstream, (e) the ledger.
	pub fn finish(&mut self, sim: &Sim, spec: &WorldSpec) -> CaseResult {
		if self.model_error.is_some() {
			self.stats.ledger = "skipped:model";
			return Ok(());
		}
		let b_open: BTreeSet<usize> = sim.w.nodes[B].node.list_channels().iter().filter_map(|c| chan_of(sim, &c.channel_id)).collect();
		let pairs: Vec<Pair> = self.pairs.values().cloned().collect();
		for p in pairs.iter() {
			let up_t = self.spent.get(&funding_outpoint(sim, p.up_chan)).cloned();
			let m = &self.models[p.up_chan];
			let sb = side_of(sim, p.up_chan, B);
			let fulfilled_offchain = m.sides[sb].updates.contains(&Upd::Fulfill { id: p.up_id });
			let failed_offchain = m.sides[sb].updates.contains(&Upd::Fail { id: p.up_id });
			if let Some((t_learn, how)) = p.learned {
				// (b) claim-follows-knowledge
				let d = p.down.as_ref().unwrap();
				let ctx = format!(
					"upstream HTLC chan {} id {} ({} msat, expiry {}), downstream chan {} id {} ({} msat, expiry {}), preimage learned by {} at step {}",
					p.up_chan, p.up_id, p.amt_in, p.cltv_in, d.chan, d.id, d.amt_out, d.cltv_out, how, t_learn
				);
				match up_t {
					None => {
						if !(fulfilled_offchain && b_open.contains(&p.up_chan)) {
							return Err(fail("claim-follows-knowledge", format!("at final quiescence the upstream HTLC is not fulfilled although B knows the preimage (upstream channel open at B: {}, B's update_fulfill_htlc committed: {}, update_fail_htlc: {}): {}", b_open.contains(&p.up_chan), fulfilled_offchain, failed_offchain, ctx))
								.with_key("claim-follows-knowledge/offchain"));
						}
					},
					Some((t, h_t)) => {
						let Some(rec) = self.commits.get(&t) else {
							self.stats.ledger = "skipped:unknown-commitment";
							return Ok(());
						};
						// offered by the upstream peer = not offered by B
						let by_peer = |off: bool| off != (rec.broadcaster == sb);
						if let Some((_, _, _, idx)) = rec.nondust.iter().find(|(h, _, off, _)| *h == p.hash && by_peer(*off)) {
							let op = OutPoint { txid: t, vout: *idx };
							match self.spent.get(&op) {
								Some((stx, h_s)) => {
									let with_preimage = sim.chain.seen.get(stx).map(|tx| input_has_preimage(tx, &op, &p.hash)).unwrap_or(false);
									if !with_preimage {
										// discriminating fact: B did try, but only in transactions that also spend an output
										// which was already spent on chain (so they could never confirm)
										let bundled = sim.log.iter().any(|(_, e)| match e {
											SEvent::Broadcast { node, tx, verdict: Err(crate::chain::Reject::AlreadySpent(..)), .. } => *node == B && tx.input.iter().any(|i| i.previous_output == op),
											_ => false,
										});
										let key = if bundled { "claim-follows-knowledge/onchain-timeout/claim-bundled-with-spent-input" } else { "claim-follows-knowledge/onchain-timeout" };
										return Err(fail(
											"claim-follows-knowledge",
											format!("the upstream HTLC output {}:{} (commitment confirmed at height {}) was taken back by the previous hop through {} at height {} although B knew the preimage (B's only claim attempts also spent an already spent output: {}): {}", t, idx, h_t, stx, h_s, bundled, ctx),
										)
										.with_key(key));
									}
								},
								None => {
									return Err(fail("claim-follows-knowledge", format!("at final quiescence (height {}) the upstream HTLC output {}:{} is still unspent although B knows the preimage: {}", self.height, t, idx, ctx)).with_key("claim-follows-knowledge/onchain-unclaimed"));
								},
							}
						} else if rec.dust.iter().any(|h| h.hash == p.hash) {
							// too small for an output: forfeited to fees by the on-chain close (allowed by the property)
							self.stats.dust_forfeits += 1;
						} else if !fulfilled_offchain {
							return Err(fail("claim-follows-knowledge", format!("the confirmed upstream commitment {} has no HTLC for this payment and B never fulfilled it off chain: {}", t, ctx)).with_key("claim-follows-knowledge/onchain-missing"));
						}
					},
				}
			} else if p.is_forward && p.down.is_none() && up_t.is_none() && b_open.contains(&p.up_chan) {
				// (a) otherwise-branch: an HTLC B did not forward must be failed back once it is irrevocably committed
				if p.h_commit.is_some() && !failed_offchain {
					let still_pending = sim.chan_details(B, p.up_chan).map(|d| d.pending_inbound_htlcs.iter().any(|h| h.htlc_id == p.up_id)).unwrap_or(false);
					if still_pending && self.stats.restarts_b > 0 {
						// liveness, not part of the statement (no money moves while the HTLC just sits there): seen
						// after two restarts in a row from the same manager snapshot, the channel stays silent after
						// channel_reestablish. Labelled (DESIGN.md 9.3), not failed.
						self.stats.refused_forward_still_pending += 1;
					} else if still_pending {
						return Err(fail("refused-forward-not-failed", format!("at final quiescence the HTLC chan {} id {} which B neither forwarded nor failed is still pending", p.up_chan, p.up_id)).with_key("refused-forward-not-failed"));
					}
				}
			}
		}
		// (a) every refused forward is reported through HTLCHandlingFailed (count rule per upstream channel; only
		// without restarts of B, which may lose or repeat events of a timeline that was rolled back)
		if self.stats.restarts_b == 0 {
			let mut need: BTreeMap<usize, u64> = BTreeMap::new();
			for p in pairs.iter() {
				if p.is_forward && p.up_fail_emit.is_some() {
					*need.entry(p.up_chan).or_insert(0) += 1;
				}
			}
			for (c, n) in need {
				let got = self.handling_failed.get(&c).cloned().unwrap_or(0);
				if got < n {
					return Err(fail("handling-failed-missing", format!("B failed {} forwarded HTLCs back over chan {} but emitted only {} HTLCHandlingFailed events naming it", n, c, got)).with_key("handling-failed-missing"));
				}
			}
		}
		self.ledger(sim, spec, &b_open)
	}

	/// (e) B's total over all its channels at final quiescence is not below its starting value.
	fn ledger(&mut self, sim: &Sim, spec: &WorldSpec, b_open: &BTreeSet<usize>) -> CaseResult {
		let start: u64 = self.start_msat.iter().sum();
		let mut end: u128 = 0;
		let mut allowance: u128 = 0;
		let mut detail = vec![];
		let mut all_open = true;
		let mut lost_own_commitment = false;
		let wallet_spk = lightning::util::wallet_utils::WalletSourceSync::get_change_script(&*sim.w.nodes[B].wallet_source).ok();
		let limit = match spec.dust_exposure_fixed_msat {
			Some(x) => x,
			None => spec.dust_exposure_multiplier.saturating_mul(if spec.ctype == CType::ZeroFee { 250 } else { spec.feerate.max(253) as u64 }),
		};
		for ci in b_chans(sim) {
			let c = &sim.chans[ci];
			let sb = side_of(sim, ci, B);
			match self.spent.get(&funding_outpoint(sim, ci)).cloned() {
				None => {
					if !b_open.contains(&ci) {
						self.stats.ledger = "skipped:closed-unconfirmed";
						return Ok(());
					}
					let exp = match self.models[ci].fully_applied(sb) {
						Ok(e) => e,
						Err(_) => {
							self.stats.ledger = "skipped:model";
							return Ok(());
						},
					};
					if !exp.nondust.is_empty() || !exp.dust.is_empty() || !self.models[ci].sides[0].batch.is_empty() || !self.models[ci].sides[1].batch.is_empty() {
						self.stats.ledger = "skipped:htlcs-pending";
						return Ok(());
					}
					end += exp.balance_msat[0] as u128;
					detail.push(format!("chan {} open: {} msat (start {})", ci, exp.balance_msat[0], self.start_msat[ci]));
				},
				Some((t, _)) => {
					all_open = false;
					self.stats.chans_onchain += 1;
					let Some(rec) = self.commits.get(&t).cloned() else {
						self.stats.ledger = "skipped:unknown-commitment";
						return Ok(());
					};
					let Some(ttx) = sim.chain.seen.get(&t) else { continue };
					// what B's monitor still reports as on its way + what it already handed over as spendable
					let mut reported = 0u64;
					if let Ok(mon) = sim.w.nodes[B].chain_monitor.chain_monitor.get_monitor(c.id) {
						for b in mon.get_claimable_balances() {
							match b {
								Balance::ClaimableAwaitingConfirmations { amount_satoshis, .. } => reported += amount_satoshis,
								_ => {
									self.stats.ledger = "skipped:onchain-unresolved";
									return Ok(());
								},
							}
						}
					}
					// outputs descending from the commitment transaction
					let mut desc: BTreeSet<Txid> = BTreeSet::new();
					desc.insert(t);
					let mut grew = true;
					while grew {
						grew = false;
						for (op, (stx, _)) in self.spent.iter() {
							if desc.contains(&op.txid) && !desc.contains(stx) {
								desc.insert(*stx);
								grew = true;
							}
						}
					}
					let spendable: u64 = self.spendable.iter().filter(|(op, (cid, _))| *cid == c.id && desc.contains(&op.txid)).map(|(_, (_, v))| *v).sum();
					// fees B paid out of channel funds (or swept into its own wallet) in confirmed claim transactions;
					// anchor outputs are accounted with the commitment transaction's cost below
					let htlc_idx: BTreeSet<u32> = rec.nondust.iter().map(|x| x.3).collect();
					let is_anchor = |op: &OutPoint| op.txid == t && !htlc_idx.contains(&op.vout) && ttx.output.get(op.vout as usize).map(|o| o.value.to_sat() <= ANCHOR_SAT).unwrap_or(false);
					let mut fees = 0u64;
					for txid in desc.iter() {
						if *txid == t || !self.b_broadcast.contains_key(txid) {
							continue;
						}
						let Some(tx) = sim.chain.seen.get(txid) else { continue };
						let mut inp = 0u64;
						for i in tx.input.iter() {
							if desc.contains(&i.previous_output.txid) && !is_anchor(&i.previous_output) {
								if let Some(ptx) = sim.chain.seen.get(&i.previous_output.txid) {
									inp += ptx.output[i.previous_output.vout as usize].value.to_sat();
								}
							}
						}
						let out: u64 = tx.output.iter().filter(|o| Some(&o.script_pubkey) != wallet_spk.as_ref()).map(|o| o.value.to_sat()).sum();
						fees += inp.saturating_sub(out);
					}
					// the commitment transaction's own cost (fee, anchors, trimmed HTLCs, msat remainders) is the funder's
					let htlc_sat: u64 = rec.nondust.iter().map(|x| x.1 / 1000).sum();
					let commit_cost = c.value_sat.saturating_sub(rec.to_broadcaster_sat + rec.to_countersignatory_sat + htlc_sat);
					let mut v = reported + spendable + fees;
					if sb == 0 {
						v += commit_cost;
					} else {
						// documented roundings borne by the non-funder: its balance and every HTLC it claims are rounded
						// down to whole satoshis, and trimmed HTLCs it has a stake in go to fees
						allowance += 1000 * (1 + rec.nondust.len() as u128);
						allowance += rec.dust.iter().map(|h| h.amt_msat as u128).sum::<u128>();
					}
					let mine = if rec.broadcaster == sb { rec.to_broadcaster_sat } else { rec.to_countersignatory_sat };
					if mine > 0 && reported + spendable == 0 && rec.broadcaster == sb {
						// discriminating facts for the key: the confirmed commitment is B's own, B broadcast it while
						// monitor updates of that channel were still InProgress, and B was then restarted from an image
						// of that monitor older than one of those updates
						if let Some(s_b) = self.b_broadcast.get(&t) {
							let inflight: Vec<u64> = self.b_async_spans.get(&ci).map(|v| v.iter().filter(|(_, a, d)| a < s_b && d.map(|d| d > *s_b).unwrap_or(true)).map(|(id, _, _)| *id).collect()).unwrap_or_default();
							let stale_image = self.b_restarts.iter().any(|(rs, ids)| rs > s_b && ids.iter().any(|(c, used)| *c == ci && inflight.iter().any(|id| id > used)));
							if stale_image {
								lost_own_commitment = true;
							}
						}
					}
					if mine == 0 {
						// B's own balance was below the dust limit and has no output
						allowance += 1000 * c.open.common_fields.dust_limit_satoshis.max(c.accept.common_fields.dust_limit_satoshis) as u128;
					}
					end += v as u128 * 1000;
					detail.push(format!("chan {} on chain via {}: monitor reports {} sat, spendable {} sat, claim fees {} sat, commitment cost {} sat (B funder: {}) (start {} msat)", ci, t, reported, spendable, fees, commit_cost, sb == 0, self.start_msat[ci]));
					// dust HTLCs B had a stake in stay within its configured exposure limit
					let stake: u64 = rec
						.dust
						.iter()
						.filter(|h| {
							let offered_by_b = h.offered == (rec.broadcaster == sb);
							offered_by_b || self.pairs.get(&h.hash).map(|p| p.learned.is_some()).unwrap_or(false)
						})
						.map(|h| h.amt_msat)
						.sum();
					if stake > limit {
						return Err(fail("dust-exposure", format!("trimmed HTLCs worth {} msat in which B had a stake were on the confirmed commitment {} of chan {}, above B's max_dust_htlc_exposure of {} msat", stake, t, ci, limit)).with_key("dust-exposure"));
					}
				},
			}
		}
		if end + allowance < start as u128 {
			return Err(fail(
				"ledger",
				format!("B's total over its channels fell from {} msat to {} msat (allowance for trimmed HTLCs / satoshi rounding on closed channels: {} msat). {}", start, end, allowance, detail.join("; ")),
			)
			.with_key(if all_open {
				"ledger/offchain"
			} else if lost_own_commitment {
				"ledger/onchain/own-commitment-unknown-to-monitor-after-restart"
			} else {
				"ledger/onchain"
			}));
		}
		if all_open {
			// the monitors' own reports agree: with no HTLC pending and an unchanged feerate the reported
			// ClaimableOnChannelClose amount is the whole-satoshi balance less a constant (commitment fee and
			// anchors if B funds the channel), unless the balance is too small for an output (reported as 0)
			for ci in b_chans(sim) {
				let (Some(a), Some(b)) = (self.start_reported_sat[ci], reported_open_sat(sim, ci)) else { continue };
				if a == 0 || b == 0 {
					continue;
				}
				let m_end = self.models[ci].fully_applied(side_of(sim, ci, B)).map(|e| e.balance_msat[0]).unwrap_or(0);
				let model_delta = (m_end / 1000) as i64 - (self.start_msat[ci] / 1000) as i64;
				if b as i64 - a as i64 != model_delta {
					return Err(fail("ledger", format!("get_claimable_balances of chan {} went from {} sat to {} sat but the wire messages moved B's balance by {} sat. {}", ci, a, b, model_delta, detail.join("; "))).with_key("ledger/reported"));
				}
			}
			self.stats.ledger = "checked:offchain";
		} else {
			self.stats.ledger = "checked:onchain";
		}
		Ok(())
	}

	/// Pairs whose downstream side was fulfilled, by kind of disturbance between B learning the preimage and
	/// the upstream resolution: [any, async update in flight at B when it learned, disconnect, restart, on chain]
	pub fn disturbed_fulfilled(&self, sim: &Sim) -> [u64; 5] {
		let mut n = [0u64; 5];
		for p in self.pairs.values() {
			if p.learned.is_none() {
				continue;
			}
			let d = p.down.as_ref().unwrap();
			let onchain = self.spent.contains_key(&funding_outpoint(sim, d.chan)) || self.spent.contains_key(&funding_outpoint(sim, p.up_chan));
			let kinds = [p.async_pending_at_learn, p.disconnect_in_window, p.restart_in_window, onchain];
			if kinds.iter().any(|k| *k) {
				n[0] += 1;
			}
			for (i, k) in kinds.iter().enumerate() {
				if *k {
					n[i + 1] += 1;
				}
			}
		}
		n
	}
}
