//! C20 — the chain-sync client keeps listeners on one consistent chain at the best tip.
//!
//! A case is a generated regtest block *tree* (valid PoW by nonce grinding, real merkle roots, three
//! difficulty classes so that "more work" and "more height" differ, optional PoW-invalid blocks), a
//! scripted `BlockSource` over that tree (which tip it reports at each poll, full / header-only blocks,
//! one injected fault at the n-th request of a call) and either
//!   * a `SpvClient` started at a generated position that is polled repeatedly (parts `poll`, `deep`), or
//!   * 1-4 listeners at generated (possibly stale, possibly unknown-to-the-source) positions that are
//!     brought to a common tip by `init::synchronize_listeners` and then polled through the returned
//!     header cache (part `sync`, also inside `deep`).
//!
//! Oracle: recording `chain::Listen` listeners replayed against a reference cursor in the tree
//! (DESIGN.md C20 (a)-(d)); everything the oracle knows about the chain (parent, height, work, PoW
//! validity) comes from the harness's own tree, never from the library.

use bitcoin::absolute::LockTime;
use bitcoin::block::{Block, Header, Version};
use bitcoin::constants::genesis_block;
use bitcoin::hashes::Hash as _;
use bitcoin::{Amount, BlockHash, CompactTarget, Network, OutPoint, ScriptBuf, Sequence, Transaction, TxIn, TxOut, Witness, Work};
use lightning::chain::transaction::TransactionData;
use lightning::chain::{BlockLocator, Listen};
use lightning_block_sync::init::synchronize_listeners;
use lightning_block_sync::poll::{ChainPoller, ChainTip, Validate};
use lightning_block_sync::{BlockData, BlockHeaderData, BlockSource, BlockSourceError, BlockSourceResult, HeaderCache, SpvClient, HEADER_CACHE_LIMIT};
use proptest::prelude::*;
use serde::{Deserialize, Serialize};
use std::collections::HashMap;
use std::future::Future;
use std::panic::{catch_unwind, AssertUnwindSafe};
use std::sync::Mutex;
use vcore::*;

// ---------------------------------------------------------------------------------------------
// the case (= replay format)
// ---------------------------------------------------------------------------------------------

/// A branch grown from `depth` blocks below the tip of an earlier branch (`base`; 0 = main chain).
/// depth 0 extends that tip. `cls` = difficulty class (work 2 / 4 / 8 per block).
#[derive(Clone, Debug, Serialize, Deserialize)]
struct BranchSpec {
	base: u16,
	depth: u16,
	len: u16,
	cls: u8,
	/// position (pick) inside the branch of a block whose PoW is *invalid* (ground to miss the target)
	bad_at: Option<u16>,
}

/// A tree position: `back` blocks below the tip of branch `branch` (pick over branches).
#[derive(Clone, Debug, Serialize, Deserialize)]
struct Pos {
	branch: u16,
	back: u16,
}

/// One injected fault: the `at`-th request (0-based) of the call answers wrongly. `on` selects what
/// is counted: 0 every request, 1 only get_header requests, 2 only get_block requests. `kind` is
/// interpreted per request kind (see `Src`).
#[derive(Clone, Debug, Serialize, Deserialize)]
struct Fault {
	at: u16,
	#[serde(default)]
	on: u8,
	kind: u8,
	arg: u16,
}

#[derive(Clone, Debug, Serialize, Deserialize)]
struct Step {
	tip: Pos,
	fault: Option<Fault>,
}

#[derive(Clone, Debug, Serialize, Deserialize)]
struct ListenerSpec {
	pos: Pos,
	/// bit i set = `previous_blocks[i]` of the listener's locator is `None`
	holes: u16,
	/// the source no longer has the top `forget` stale blocks of this listener's chain
	forget: u8,
}

#[derive(Clone, Debug, Serialize, Deserialize)]
struct Case {
	salt: u32,
	main_len: u16,
	main_cls: u8,
	branches: Vec<BranchSpec>,
	/// 0 full blocks, 1 header-only, 2 mixed per block
	block_mode: u8,
	/// get_best_block reports a height hint
	hint: bool,
	/// unknown hashes are answered with a transient (else persistent) error
	unknown_transient: bool,
	/// where the SpvClient starts when there are no listeners to synchronise
	start: Pos,
	listeners: Vec<ListenerSpec>,
	sync_tip: Pos,
	sync_fault: Option<Fault>,
	steps: Vec<Step>,
	/// header faults may also be "right header, wrong height / chainwork" (part `metadata` only)
	#[serde(default)]
	lies: bool,
}

// ---------------------------------------------------------------------------------------------
// block tree (the reference model's ground truth)
// ---------------------------------------------------------------------------------------------

/// regtest-style compact targets: work per block 2, 4, 8
const BITS: [u32; 3] = [0x207fffff, 0x203fffff, 0x201fffff];
const CLS_WORK: [u64; 3] = [2, 4, 8];

struct Node {
	parent: usize,
	height: u32,
	/// honest accumulated work (sum of header work from genesis)
	w: u64,
	block: Block,
	hash: BlockHash,
	/// own PoW valid and every ancestor valid
	valid: bool,
	pow_ok: bool,
}

struct Tree {
	nodes: Vec<Node>,
	by_hash: HashMap<BlockHash, usize>,
	/// tip node of main chain (index 0) and of every branch
	tips: Vec<usize>,
}

fn work_from_u64(v: u64) -> Work {
	let mut b = [0u8; 32];
	b[24..].copy_from_slice(&v.to_be_bytes());
	Work::from_be_bytes(b)
}

/// Grind the nonce until the header's PoW is valid (`want_ok`) or invalid (`!want_ok`).
fn grind(h: &mut Header, want_ok: bool) {
	let t = h.target();
	while t.is_met_by(h.block_hash()) != want_ok {
		h.nonce = h.nonce.wrapping_add(1);
	}
}

impl Tree {
	fn add_block(&mut self, parent: usize, cls: usize, bad: bool, salt: u32) -> usize {
		let idx = self.nodes.len();
		// coinbase-like tx made unique by the node index; some blocks carry 1-2 more txs so that the
		// merkle root is a real tree
		let coinbase = Transaction {
			version: bitcoin::transaction::Version::TWO,
			lock_time: LockTime::ZERO,
			input: vec![TxIn {
				previous_output: OutPoint::null(),
				script_sig: ScriptBuf::from_bytes([&[4u8][..], &(idx as u32).to_le_bytes()[..]].concat()),
				sequence: Sequence::MAX,
				witness: Witness::new(),
			}],
			output: vec![TxOut { value: Amount::from_sat(50_0000_0000), script_pubkey: ScriptBuf::from_bytes(vec![0x51]) }],
		};
		let mut txdata = vec![coinbase];
		let extra = if idx % 7 == 0 { 2 } else if idx % 3 == 0 { 1 } else { 0 };
		for k in 0..extra {
			let prev = txdata[k].compute_txid();
			txdata.push(Transaction {
				version: bitcoin::transaction::Version::TWO,
				lock_time: LockTime::ZERO,
				input: vec![TxIn { previous_output: OutPoint { txid: prev, vout: 0 }, script_sig: ScriptBuf::new(), sequence: Sequence::MAX, witness: Witness::new() }],
				output: vec![TxOut { value: Amount::from_sat(1000 + k as u64), script_pubkey: ScriptBuf::from_bytes(vec![0x51]) }],
			});
		}
		let mut block = Block {
			header: Header {
				version: Version::NO_SOFT_FORK_SIGNALLING,
				prev_blockhash: self.nodes[parent].hash,
				merkle_root: bitcoin::TxMerkleNode::all_zeros(),
				time: 1_600_000_000 + idx as u32,
				bits: CompactTarget::from_consensus(BITS[cls]),
				nonce: salt,
			},
			txdata,
		};
		block.header.merkle_root = block.compute_merkle_root().unwrap();
		grind(&mut block.header, !bad);
		let hash = block.header.block_hash();
		debug_assert_eq!(block.header.work(), work_from_u64(CLS_WORK[cls]));
		let p = &self.nodes[parent];
		let node = Node { parent, height: p.height + 1, w: p.w + CLS_WORK[cls], block, hash, valid: p.valid && !bad, pow_ok: !bad };
		self.by_hash.insert(hash, idx);
		self.nodes.push(node);
		idx
	}

	fn build(c: &Case) -> Tree {
		let g = genesis_block(Network::Regtest);
		let hash = g.header.block_hash();
		assert_eq!(g.header.work(), work_from_u64(2));
		let mut t = Tree { nodes: vec![Node { parent: 0, height: 0, w: 2, block: g, hash, valid: true, pow_ok: true }], by_hash: HashMap::new(), tips: vec![] };
		t.by_hash.insert(hash, 0);
		let mut cur = 0;
		for _ in 0..c.main_len.max(1) {
			cur = t.add_block(cur, (c.main_cls % 3) as usize, false, c.salt);
		}
		t.tips.push(cur);
		for b in c.branches.iter() {
			let mut cur = t.tips[pick(b.base, t.tips.len())];
			for _ in 0..b.depth {
				cur = t.nodes[cur].parent;
			}
			let len = b.len.max(1);
			let bad = b.bad_at.map(|p| pick(p, len as usize) as u16);
			for i in 0..len {
				cur = t.add_block(cur, (b.cls % 3) as usize, bad == Some(i), c.salt);
			}
			t.tips.push(cur);
		}
		t
	}

	fn resolve(&self, p: &Pos) -> usize {
		let mut cur = self.tips[pick(p.branch, self.tips.len())];
		for _ in 0..p.back {
			cur = self.nodes[cur].parent;
		}
		cur
	}

	/// nearest ancestor-or-self that is a valid chain position
	fn valid_at_or_below(&self, mut i: usize) -> usize {
		while !self.nodes[i].valid {
			i = self.nodes[i].parent;
		}
		i
	}

	fn is_ancestor_or_self(&self, a: usize, mut of: usize) -> bool {
		while self.nodes[of].height > self.nodes[a].height {
			of = self.nodes[of].parent;
		}
		of == a
	}

	fn lca(&self, mut a: usize, mut b: usize) -> usize {
		while a != b {
			if self.nodes[a].height >= self.nodes[b].height {
				a = self.nodes[a].parent;
			} else {
				b = self.nodes[b].parent;
			}
		}
		a
	}

	/// The notification sequence that takes a listener from `from` to `to`: at most one disconnect
	/// (to the highest common block, only if that is not `from` itself) and then every block of the
	/// path in ascending height order.
	fn expected(&self, from: usize, to: usize) -> Vec<Mv> {
		let f = self.lca(from, to);
		let mut out = vec![];
		let mut path = vec![];
		let mut cur = to;
		while cur != f {
			path.push(Mv::Conn(cur));
			cur = self.nodes[cur].parent;
		}
		if f != from {
			out.push(Mv::Disc(f));
		}
		out.extend(path.into_iter().rev());
		out
	}

	fn header_data(&self, i: usize) -> BlockHeaderData {
		let n = &self.nodes[i];
		BlockHeaderData { header: n.block.header, height: n.height, chainwork: work_from_u64(n.w) }
	}

	fn locator(&self, i: usize, holes: u16) -> BlockLocator {
		let mut l = BlockLocator::new(self.nodes[i].hash, self.nodes[i].height);
		let mut cur = i;
		for k in 0..l.previous_blocks.len() {
			if cur == 0 {
				break;
			}
			cur = self.nodes[cur].parent;
			if holes & (1 << k) == 0 {
				l.previous_blocks[k] = Some(self.nodes[cur].hash);
			}
		}
		l
	}
}

/// a notification in terms of tree nodes
#[derive(Clone, Copy, Debug, PartialEq, Eq)]
enum Mv {
	Disc(usize),
	Conn(usize),
}

// ---------------------------------------------------------------------------------------------
// scripted block source
// ---------------------------------------------------------------------------------------------

struct SrcState {
	tip: usize,
	/// requests seen in this call: [all, get_header, get_block]
	req: [u32; 3],
	fault: Option<Fault>,
	injected: Option<&'static str>,
}

struct Src<'t> {
	tree: &'t Tree,
	known: Vec<bool>,
	block_mode: u8,
	salt: u32,
	hint: bool,
	unknown_transient: bool,
	lies: bool,
	st: Mutex<SrcState>,
}

impl<'t> Src<'t> {
	fn arm(&self, tip: usize, fault: Option<Fault>) {
		let mut st = self.st.lock().unwrap();
		st.tip = tip;
		st.req = [0; 3];
		st.fault = fault;
		st.injected = None;
	}
	fn take_injected(&self) -> Option<&'static str> {
		let mut st = self.st.lock().unwrap();
		st.fault = None;
		st.injected.take()
	}
	/// the fault to apply to the current request, if it is the armed one
	fn due(&self, req_kind: usize) -> Option<Fault> {
		let mut st = self.st.lock().unwrap();
		let seen = st.req;
		st.req[0] += 1;
		if req_kind > 0 {
			st.req[req_kind] += 1;
		}
		match &st.fault {
			Some(f) if (f.on % 3 == 0 || f.on as usize % 3 == req_kind) && f.at as u32 == seen[f.on as usize % 3] => st.fault.take(),
			_ => None,
		}
	}
	fn injected(&self, what: &'static str) {
		self.st.lock().unwrap().injected = Some(what);
	}
	fn serves_full(&self, i: usize) -> bool {
		match self.block_mode % 3 {
			0 => true,
			1 => false,
			_ => (((i as u32).wrapping_mul(2654435761) ^ self.salt) >> 9) & 1 == 0,
		}
	}
	fn unknown(&self) -> BlockSourceError {
		if self.unknown_transient {
			BlockSourceError::transient("not found")
		} else {
			BlockSourceError::persistent("not found")
		}
	}
	fn lookup(&self, h: &BlockHash) -> Option<usize> {
		match self.tree.by_hash.get(h) {
			Some(i) if self.known[*i] => Some(*i),
			_ => None,
		}
	}
	fn other(&self, i: usize, arg: u16) -> usize {
		let o = pick(arg, self.tree.nodes.len());
		if o == i {
			(i + 1) % self.tree.nodes.len()
		} else {
			o
		}
	}

	fn do_best(&self) -> BlockSourceResult<(BlockHash, Option<u32>)> {
		if let Some(f) = self.due(0) {
			// a source that reports a *different* tip is a different script step, not a fault: only errors here
			return if f.kind % 2 == 0 {
				self.injected("best/transient");
				Err(BlockSourceError::transient("injected"))
			} else {
				self.injected("best/persistent");
				Err(BlockSourceError::persistent("injected"))
			};
		}
		let tip = self.st.lock().unwrap().tip;
		let n = &self.tree.nodes[tip];
		Ok((n.hash, if self.hint { Some(n.height) } else { None }))
	}

	fn do_header(&self, h: &BlockHash) -> BlockSourceResult<BlockHeaderData> {
		let fault = self.due(1);
		let Some(i) = self.lookup(h) else { return Err(self.unknown()) };
		let mut d = self.tree.header_data(i);
		if let Some(f) = fault {
			let w = self.tree.nodes[i].w;
			// kinds 4-6 (metadata lies) only in cases that ask for them
			match if self.lies { f.kind % 8 } else { [0, 1, 2, 3, 7][f.kind as usize % 5] } {
				0 => {
					self.injected("hdr/transient");
					return Err(BlockSourceError::transient("injected"));
				},
				1 => {
					self.injected("hdr/persistent");
					return Err(BlockSourceError::persistent("injected"));
				},
				2 => {
					// same header re-ground so that it misses its target
					self.injected("hdr/bad-pow");
					d.header.nonce = d.header.nonce.wrapping_add(1);
					grind(&mut d.header, false);
				},
				3 => {
					// a valid header of the tree, but not the requested one (does not connect)
					self.injected("hdr/other-block");
					d = self.tree.header_data(self.other(i, f.arg));
				},
				4 => {
					self.injected("hdr/wrong-height");
					let k = 1 + (f.arg as u32 >> 1) % 3;
					d.height = if f.arg & 1 == 0 || d.height < k { d.height + k } else { d.height - k };
				},
				5 => {
					self.injected("hdr/chainwork-up");
					d.chainwork = work_from_u64(w + 2 * (1 + (f.arg as u64 % 4)));
				},
				6 => {
					self.injected("hdr/chainwork-down");
					d.chainwork = work_from_u64(w - (1 + f.arg as u64 % (w - 1).min(8)));
				},
				_ => {
					// altered field, PoW valid again: hash differs from the requested one
					self.injected("hdr/altered");
					d.header.time += 1;
					grind(&mut d.header, true);
				},
			}
		}
		Ok(d)
	}

	fn do_block(&self, h: &BlockHash) -> BlockSourceResult<BlockData> {
		let fault = self.due(2);
		let Some(i) = self.lookup(h) else { return Err(self.unknown()) };
		let n = &self.tree.nodes[i];
		if let Some(f) = fault {
			match f.kind % 6 {
				0 => {
					self.injected("blk/transient");
					return Err(BlockSourceError::transient("injected"));
				},
				1 => {
					self.injected("blk/persistent");
					return Err(BlockSourceError::persistent("injected"));
				},
				2 => {
					self.injected("blk/other-block");
					return Ok(BlockData::FullBlock(self.tree.nodes[self.other(i, f.arg)].block.clone()));
				},
				3 => {
					// right header, tampered transaction list (merkle root mismatch)
					self.injected("blk/tampered-txdata");
					let mut b = n.block.clone();
					let last = b.txdata.len() - 1;
					b.txdata[last].lock_time = LockTime::from_consensus(12345 + f.arg as u32);
					return Ok(BlockData::FullBlock(b));
				},
				4 => {
					self.injected("blk/other-header-only");
					return Ok(BlockData::HeaderOnly(self.tree.nodes[self.other(i, f.arg)].block.header));
				},
				_ => {
					self.injected("blk/bad-pow");
					let mut b = n.block.clone();
					b.header.nonce = b.header.nonce.wrapping_add(1);
					grind(&mut b.header, false);
					return Ok(BlockData::FullBlock(b));
				},
			}
		}
		Ok(if self.serves_full(i) { BlockData::FullBlock(n.block.clone()) } else { BlockData::HeaderOnly(n.block.header) })
	}
}

impl<'t> BlockSource for Src<'t> {
	fn get_header<'a>(&'a self, header_hash: &'a BlockHash, _height_hint: Option<u32>) -> impl Future<Output = BlockSourceResult<BlockHeaderData>> + Send + 'a {
		std::future::ready(self.do_header(header_hash))
	}
	fn get_block<'a>(&'a self, header_hash: &'a BlockHash) -> impl Future<Output = BlockSourceResult<BlockData>> + Send + 'a {
		std::future::ready(self.do_block(header_hash))
	}
	fn get_best_block<'a>(&'a self) -> impl Future<Output = BlockSourceResult<(BlockHash, Option<u32>)>> + Send + 'a {
		std::future::ready(self.do_best())
	}
}

/// The source's futures are immediately ready: a no-op waker and a few polls are a complete executor.
fn block_on<F: Future>(f: F) -> F::Output {
	use std::task::{Context, Poll, RawWaker, RawWakerVTable, Waker};
	fn raw() -> RawWaker {
		static VT: RawWakerVTable = RawWakerVTable::new(|_| raw(), |_| {}, |_| {}, |_| {});
		RawWaker::new(std::ptr::null(), &VT)
	}
	let waker = unsafe { Waker::from_raw(raw()) };
	let mut cx = Context::from_waker(&waker);
	let mut f = std::pin::pin!(f);
	for _ in 0..64 {
		if let Poll::Ready(v) = f.as_mut().poll(&mut cx) {
			return v;
		}
	}
	panic!("harness: future stayed pending although the source never blocks");
}

// ---------------------------------------------------------------------------------------------
// recording listener and the reference cursor
// ---------------------------------------------------------------------------------------------

#[derive(Clone, Debug, PartialEq, Eq)]
enum Ev {
	/// `full`: delivered through block_connected; `intact`: the delivered block equals the tree's
	Conn { hash: BlockHash, height: u32, full: bool, ntx: usize, intact: bool },
	Disc { hash: BlockHash, height: u32 },
}

struct Rec<'t> {
	tree: &'t Tree,
	evs: Mutex<Vec<Ev>>,
}

impl<'t> Rec<'t> {
	fn drain(&self) -> Vec<Ev> {
		std::mem::take(&mut *self.evs.lock().unwrap())
	}
}

impl<'t> Listen for Rec<'t> {
	fn filtered_block_connected(&self, header: &Header, txdata: &TransactionData, height: u32) {
		self.evs.lock().unwrap().push(Ev::Conn { hash: header.block_hash(), height, full: false, ntx: txdata.len(), intact: true });
	}
	fn block_connected(&self, block: &Block, height: u32) {
		let hash = block.block_hash();
		let intact = self.tree.by_hash.get(&hash).map(|i| self.tree.nodes[*i].block == *block).unwrap_or(false);
		self.evs.lock().unwrap().push(Ev::Conn { hash, height, full: true, ntx: block.txdata.len(), intact });
	}
	fn blocks_disconnected(&self, fork_point: BlockLocator) {
		self.evs.lock().unwrap().push(Ev::Disc { hash: fork_point.block_hash, height: fork_point.height });
	}
}

struct Fan<'a, 't>(Vec<&'a Rec<'t>>);
impl<'a, 't> Listen for Fan<'a, 't> {
	fn filtered_block_connected(&self, header: &Header, txdata: &TransactionData, height: u32) {
		self.0.iter().for_each(|l| l.filtered_block_connected(header, txdata, height));
	}
	fn block_connected(&self, block: &Block, height: u32) {
		self.0.iter().for_each(|l| l.block_connected(block, height));
	}
	fn blocks_disconnected(&self, fork_point: BlockLocator) {
		self.0.iter().for_each(|l| l.blocks_disconnected(fork_point));
	}
}

/// failure whose key carries the last injected fault of the case (a lie accepted in one call can
/// surface in a later one)
#[derive(Clone, Copy)]
struct K {
	/// last injected fault of the case
	lf: &'static str,
	/// first injected header whose *height / chainwork* was wrong (if any): whatever goes wrong from
	/// then on is one finding family, keyed by the kind of lie
	lie: Option<&'static str>,
}
impl K {
	fn note(&mut self, l: &'static str) {
		self.lf = l;
		if self.lie.is_none() && matches!(l, "hdr/wrong-height" | "hdr/chainwork-up" | "hdr/chainwork-down") {
			self.lie = Some(&l[4..]);
		}
	}
}
fn fail(oracle: &str, k: K, detail: String) -> Failure {
	match k.lie {
		Some(lie) => Failure::new(oracle, format!("[after an injected {} header] {}", lie, detail)).with_key(format!("header-metadata-unchecked/{}", lie)),
		None => Failure::new(oracle, detail).with_key(format!("{}|last_fault={}", oracle, k.lf)),
	}
}

/// Run a library call; a panic inside it is a failure of the case keyed like every other failure.
fn unpanic<T>(k: K, r: std::thread::Result<T>) -> Result<T, Failure> {
	r.map_err(|_| {
		let (msg, loc) = take_last_panic().unwrap_or_default();
		match k.lie {
			Some(_) => fail("panic", k, format!("panic at {}: {}", loc, msg)),
			None => Failure::new("panic", format!("panic at {}: {}", loc, msg)).with_key(format!("panic@{}", loc)),
		}
	})
}

macro_rules! chk {
	($cond:expr, $lf:expr, $oracle:expr, $($arg:tt)*) => {
		if !($cond) {
			return Err(fail($oracle, $lf, format!($($arg)*)));
		}
	};
}

/// Oracle (b): replay one batch of notifications against the cursor. Every disconnect must name a
/// strict ancestor of the cursor (with its true height); every connect must be the child of the
/// cursor at cursor height + 1, be a block of the tree with valid PoW on a valid chain, and be
/// delivered in the style the source served it. Returns the batch in terms of tree nodes.
fn replay(tree: &Tree, src: &Src, cursor: &mut usize, evs: &[Ev], lf: K) -> Result<Vec<Mv>, Failure> {
	let mut out = vec![];
	for (k, ev) in evs.iter().enumerate() {
		match ev {
			Ev::Disc { hash, height } => {
				let f = tree.by_hash.get(hash).copied();
				chk!(f.is_some(), lf, "walk/disconnect-unknown-block", "event {}: fork point {} is not a block of the tree", k, hash);
				let f = f.unwrap();
				chk!(tree.nodes[f].height == *height, lf, "walk/disconnect-height", "event {}: fork point {} reported at height {} but is at {}", k, hash, height, tree.nodes[f].height);
				chk!(
					f != *cursor && tree.is_ancestor_or_self(f, *cursor),
					lf,
					"walk/disconnect-not-ancestor",
					"event {}: fork point node {} (h{}) is not a strict ancestor of the listener's tip node {} (h{})",
					k,
					f,
					height,
					*cursor,
					tree.nodes[*cursor].height
				);
				*cursor = f;
				out.push(Mv::Disc(f));
			},
			Ev::Conn { hash, height, full, ntx, intact } => {
				let n = tree.by_hash.get(hash).copied();
				chk!(n.is_some(), lf, "walk/connect-unknown-block", "event {}: connected block {} is not a block of the tree", k, hash);
				let n = n.unwrap();
				let node = &tree.nodes[n];
				chk!(node.pow_ok, lf, "walk/invalid-pow-connected", "event {}: node {} ({}) fails its proof of work but was connected", k, n, hash);
				chk!(
					node.parent == *cursor && n != 0,
					lf,
					"walk/connect-not-on-tip",
					"event {}: connected node {} (h{}) whose parent is node {} while the listener is at node {} (h{}): skipped / repeated / out-of-order block",
					k,
					n,
					node.height,
					node.parent,
					*cursor,
					tree.nodes[*cursor].height
				);
				chk!(node.height == *height, lf, "walk/connect-height", "event {}: node {} connected at height {} but its height is {}", k, n, height, node.height);
				chk!(node.valid, lf, "walk/invalid-chain-connected", "event {}: node {} sits on a PoW-invalid ancestor", k, n);
				// BlockData::FullBlock must reach the listener with all its transactions, HeaderOnly as a filtered block
				if src.serves_full(n) {
					chk!(*full && *intact && *ntx == node.block.txdata.len(), lf, "walk/delivery-style", "event {}: full block node {} delivered full={} intact={} ntx={}", k, n, full, intact, ntx);
				} else {
					chk!(!*full && *ntx == 0, lf, "walk/delivery-style", "event {}: header-only node {} delivered full={} ntx={}", k, n, full, ntx);
				}
				*cursor = n;
				out.push(Mv::Conn(n));
			},
		}
	}
	Ok(out)
}

// ---------------------------------------------------------------------------------------------
// the oracle
// ---------------------------------------------------------------------------------------------

fn oracle(c: &Case, ctx: &mut Ctx) -> CaseResult {
	let r = run_case(c, ctx);
	if let Err(f) = &r {
		// the histogram shows how a listed (known) finding family manifests
		ctx.label_if(f.key.starts_with("header-metadata-unchecked/"), &format!("finding/{}/{}", &f.key[26..], f.oracle));
	}
	r
}

fn run_case(c: &Case, ctx: &mut Ctx) -> CaseResult {
	let tree = Tree::build(c);
	let nn = tree.nodes.len();
	let mut lf = K { lf: "none", lie: None };
	let mut nontrivial = false;

	// --- which blocks the source still has (sync cases: stale tops of listener chains may be gone) ---
	let sync_tip = tree.resolve(&c.sync_tip);
	let lpos: Vec<usize> = c.listeners.iter().map(|l| tree.valid_at_or_below(tree.resolve(&l.pos))).collect();
	let mut known = vec![true; nn];
	for (l, &p0) in c.listeners.iter().zip(lpos.iter()) {
		let mut p = p0;
		for _ in 0..l.forget {
			if tree.is_ancestor_or_self(p, sync_tip) {
				break;
			}
			known[p] = false;
			p = tree.nodes[p].parent;
		}
	}
	for i in 1..nn {
		// children are created after their parents: a forgotten block takes its descendants with it
		if !known[tree.nodes[i].parent] {
			known[i] = false;
		}
	}
	let src = Src {
		tree: &tree,
		known,
		block_mode: c.block_mode,
		salt: c.salt,
		hint: c.hint,
		unknown_transient: c.unknown_transient,
		lies: c.lies,
		st: Mutex::new(SrcState { tip: 0, req: [0; 3], fault: None, injected: None }),
	};
	ctx.label(match c.block_mode % 3 {
		0 => "blocks/full",
		1 => "blocks/header-only",
		_ => "blocks/mixed",
	});

	let recs: Vec<Rec> = (0..c.listeners.len().max(1)).map(|_| Rec { tree: &tree, evs: Mutex::new(vec![]) }).collect();
	let mut cursor: usize;
	let cache: HeaderCache;

	if c.listeners.is_empty() {
		cursor = tree.valid_at_or_below(tree.resolve(&c.start));
		cache = HeaderCache::new();
	} else {
		// ------------------------------------------------------------------------------------
		// start-up synchronisation
		// ------------------------------------------------------------------------------------
		ctx.label(&format!("sync/listeners={}", c.listeners.len()));
		let mut cursors = lpos.clone();
		let mut holes: Vec<u16> = c.listeners.iter().map(|l| l.holes).collect();
		let mut fault = c.sync_fault.clone();
		let mut attempt = 0;
		loop {
			attempt += 1;
			// what the documented resolution (block_hash first, then previous_blocks in order) can find
			let resolved: Vec<Option<usize>> = cursors
				.iter()
				.zip(holes.iter())
				.map(|(&p, &h)| {
					let mut cur = p;
					if src.known[cur] {
						return Some(cur);
					}
					for k in 0..12 {
						if cur == 0 {
							break;
						}
						cur = tree.nodes[cur].parent;
						if h & (1 << k) == 0 && src.known[cur] {
							return Some(cur);
						}
					}
					None
				})
				.collect();
			for (i, r) in resolved.iter().enumerate() {
				if !tree.is_ancestor_or_self(cursors[i], sync_tip) {
					ctx.label("sync/stale-listener");
				}
				match r {
					None => ctx.label("sync/unresolvable-locator"),
					Some(r) if *r != cursors[i] => ctx.label("sync/resolved-via-previous_blocks"),
					_ => {},
				}
			}
			let listeners: Vec<(BlockLocator, &Rec)> = cursors.iter().zip(holes.iter()).zip(recs.iter()).map(|((&p, &h), r)| (tree.locator(p, h), r)).collect();
			src.arm(sync_tip, fault.take());
			let res = catch_unwind(AssertUnwindSafe(|| block_on(synchronize_listeners(&src, Network::Regtest, listeners))));
			let injected = src.take_injected();
			if let Some(l) = injected {
				lf.note(l);
				ctx.label(&format!("sync/fault/{}", l));
			}
			let res = unpanic(lf, res)?;
			let before = cursors.clone();
			let mut moves = vec![];
			for (i, r) in recs.iter().enumerate() {
				let evs = r.drain();
				moves.push(replay(&tree, &src, &mut cursors[i], &evs, lf)?);
			}
			let possible = tree.nodes[sync_tip].valid && resolved.iter().all(|r| r.is_some());
			if injected.is_none() {
				// fault-free: success iff every locator resolves and the source's chain is valid; on success
				// every listener saw exactly [disconnect to the fork point] + the best chain above it
				chk!(res.is_ok() == possible, lf, "sync/result", "synchronize_listeners returned ok={} but possible={} (tip valid={}, resolved={:?})", res.is_ok(), possible, tree.nodes[sync_tip].valid, resolved);
				for i in 0..recs.len() {
					let exp = match (possible, resolved[i]) {
						(true, Some(r)) => {
							let f = tree.lca(r, sync_tip);
							let mut e = tree.expected(f, sync_tip);
							if f != before[i] {
								e.insert(0, Mv::Disc(f));
							}
							e
						},
						_ => vec![],
					};
					if possible {
						chk!(moves[i] == exp, lf, "sync/not-exact", "listener {} from node {}: got {:?}, expected {:?}", i, before[i], moves[i], exp);
					} else {
						// documented: on failure listeners may have been disconnected already; nothing may be connected
						chk!(moves[i].iter().all(|m| matches!(m, Mv::Disc(_))), lf, "sync/connected-on-failure", "listener {}: {:?}", i, moves[i]);
					}
				}
			}
			// synchronize_listeners fetches and connects in batches of 36 blocks
			ctx.label_if(moves.iter().any(|m| m.iter().filter(|x| matches!(x, Mv::Conn(_))).count() > 36), "sync/more-than-one-block-batch");
			if moves.iter().any(|m| m.iter().any(|x| matches!(x, Mv::Disc(_)))) {
				nontrivial = true;
				ctx.label("sync/reorged-listener");
			}
			match res {
				Ok((hc, tip)) => {
					// (c)/(d): the returned tip is the source's tip and every listener is there
					chk!(tip.header.block_hash() == tree.nodes[sync_tip].hash, lf, "sync/returned-tip", "returned {} expected node {}", tip.header.block_hash(), sync_tip);
					chk!(tip.height == tree.nodes[sync_tip].height && tip.chainwork == work_from_u64(tree.nodes[sync_tip].w), lf, "sync/returned-tip-data", "returned tip carries height {} chainwork {:?}", tip.height, tip.chainwork);
					for i in 0..recs.len() {
						chk!(cursors[i] == sync_tip, lf, "sync/listener-not-at-tip", "listener {} ended at node {} (h{}), returned tip is node {} (h{})", i, cursors[i], tree.nodes[cursors[i]].height, sync_tip, tree.nodes[sync_tip].height);
					}
					ctx.label(if attempt == 1 { "sync/ok" } else { "sync/ok-on-retry" });
					cache = hc;
					cursor = sync_tip;
					break;
				},
				Err(_) => {
					if injected.is_some() {
						ctx.label("sync/failed-by-fault");
						if moves.iter().any(|m| !m.is_empty()) {
							nontrivial = true;
							ctx.label("sync/fault-left-partial-progress");
						}
					}
					if attempt == 2 || injected.is_none() {
						// nothing more to learn: the listeners' histories were valid walks
						ctx.label("sync/gave-up");
						ctx.nontrivial_if(nontrivial);
						return Ok(());
					}
					// retry fault-free from where the listeners say they are (fresh locators)
					holes.iter_mut().for_each(|h| *h = 0);
				},
			}
		}
	}

	// ----------------------------------------------------------------------------------------
	// polling
	// ----------------------------------------------------------------------------------------
	let fan = Fan(recs.iter().collect());
	let start_hdr = tree.header_data(cursor).validate(tree.nodes[cursor].hash).map_err(|e| Failure::new("harness/start-header", format!("{:?}", e)))?;
	let mut client = SpvClient::new(start_hdr, ChainPoller::new(&src, Network::Regtest), cache, &fan);

	// the scripted steps, then one fault-free poll of the best valid tip the source has: after any
	// faults the client must produce exactly the missing suffix
	let mut targets: Vec<(usize, Option<Fault>)> = c
		.steps
		.iter()
		.map(|s| {
			let mut t = tree.resolve(&s.tip);
			while !src.known[t] {
				t = tree.nodes[t].parent;
			}
			(t, s.fault.clone())
		})
		.collect();
	targets.push((usize::MAX, None));

	for (sn, (target, fault)) in targets.into_iter().enumerate() {
		let before = cursor;
		let target = if target == usize::MAX {
			// best valid known tip; the current position wins ties (equal work must not switch)
			let mut best = before;
			for i in 0..nn {
				if tree.nodes[i].valid && src.known[i] && tree.nodes[i].w > tree.nodes[best].w {
					best = i;
				}
			}
			best
		} else {
			target
		};
		src.arm(target, fault);
		let res = catch_unwind(AssertUnwindSafe(|| block_on(client.poll_best_tip())));
		let injected = src.take_injected();
		if let Some(l) = injected {
			lf.note(l);
			ctx.label(&format!("fault/{}", l));
		}
		let res = unpanic(lf, res)?;
		let evs = recs[0].drain();
		for (i, r) in recs.iter().enumerate().skip(1) {
			let o = r.drain();
			chk!(o == evs, lf, "poll/listeners-disagree", "step {}: listener {} saw {:?}, listener 0 saw {:?}", sn, i, o, evs);
		}
		let moves = replay(&tree, &src, &mut cursor, &evs, lf)?;

		let (tb, tt) = (&tree.nodes[before], &tree.nodes[target]);
		let better = tt.valid && tt.w > tb.w;
		let exp = if better { tree.expected(before, target) } else { vec![] };
		let n_disc = exp.iter().filter(|m| matches!(m, Mv::Disc(_))).count();
		if injected.is_none() {
			// (a) a non-empty batch ends on strictly more work; (c) the listener is at the polled tip iff
			// that tip is a valid chain with strictly more work, otherwise untouched
			chk!(moves.is_empty() || tree.nodes[cursor].w > tb.w, lf, "tip/moved-without-more-work", "step {}: moved from node {} (work {}) to node {} (work {})", sn, before, tb.w, cursor, tree.nodes[cursor].w);
			chk!(
				cursor == if better { target } else { before },
				lf,
				"tip/not-at-best",
				"step {}: listener at node {} (h{} w{}), polled tip node {} (h{} w{} valid={}), was at node {} (h{} w{})",
				sn,
				cursor,
				tree.nodes[cursor].height,
				tree.nodes[cursor].w,
				target,
				tt.height,
				tt.w,
				tt.valid,
				before,
				tb.height,
				tb.w
			);
			chk!(moves == exp, lf, "notify/not-exact", "step {}: got {:?}, expected {:?}", sn, moves, exp);
			// return value
			match &res {
				Ok((ChainTip::Common, conn)) => chk!(target == before && !conn, lf, "ret/common", "step {}: Common/{} for target node {} from node {}", sn, conn, target, before),
				Ok((ChainTip::Better(h), conn)) => {
					chk!(h.header.block_hash() == tt.hash && tt.w > tb.w, lf, "ret/better", "step {}: Better({}) for target node {} w{} from w{}", sn, h.header.block_hash(), target, tt.w, tb.w);
					chk!(*conn == !moves.is_empty(), lf, "ret/connected-flag", "step {}: flag {} but {} notifications", sn, conn, moves.len());
				},
				Ok((ChainTip::Worse(h), conn)) => chk!(h.header.block_hash() == tt.hash && target != before && tt.w <= tb.w && !conn, lf, "ret/worse", "step {}: Worse/{} for target node {} w{} from w{}", sn, conn, target, tt.w, tb.w),
				Err(e) => chk!(!tt.valid, lf, "ret/error-without-fault", "step {}: {:?} for valid target node {}", sn, e, target),
			}
			if target != before && tt.valid {
				if tt.w == tb.w {
					ctx.label("tie/equal-work-not-switched");
				} else if tt.w < tb.w {
					ctx.label("worse-tip-ignored");
				}
			}
			if !tt.valid && tt.w > tb.w {
				ctx.label("bad-pow-chain-refused");
			}
		} else {
			// with a fault the listener may stop early, but only somewhere along the way to the polled tip
			chk!(exp.starts_with(&moves), lf, "fault/not-a-prefix", "step {} (fault {}): got {:?}, fault-free sequence would be {:?}", sn, lf.lf, moves, exp);
			if moves.len() < exp.len() {
				ctx.label(if moves.is_empty() { "fault/refused-whole-advance" } else { "fault/partial-advance" });
				if exp.len() - n_disc >= 2 {
					nontrivial = true;
					ctx.label("fault/interrupted-multi-block-advance");
				}
			} else {
				ctx.label("fault/harmless");
			}
		}
		if let Some(Mv::Disc(f)) = moves.first() {
			nontrivial = true;
			let depth = tb.height - tree.nodes[*f].height;
			ctx.label("reorg");
			ctx.label_if(depth >= 5, "reorg/depth>=5");
			ctx.label_if(depth > HEADER_CACHE_LIMIT, "reorg/deeper-than-header-cache");
			ctx.label_if(tree.nodes[cursor].height < tb.height && tree.nodes[cursor].w > tb.w, "reorg/to-lower-height-more-work");
		}
		ctx.label_if(moves.iter().filter(|m| matches!(m, Mv::Conn(_))).count() > HEADER_CACHE_LIMIT as usize, "advance/longer-than-header-cache");
	}
	ctx.nontrivial_if(nontrivial);
	Ok(())
}

// ---------------------------------------------------------------------------------------------
// generators
// ---------------------------------------------------------------------------------------------

#[derive(Clone, Copy)]
struct Shape {
	main: (u16, u16),
	max_branches: usize,
	max_depth: u16,
	deep: bool,
	max_at: u16,
	listeners: (usize, usize),
	lies: bool,
}

fn cls_strat() -> impl Strategy<Value = u8> + Clone {
	prop_oneof![7 => Just(0u8), 2 => Just(1u8), 1 => Just(2u8)]
}

fn branch_strat(s: Shape) -> impl Strategy<Value = BranchSpec> + Clone {
	let depth = if s.deep { prop_oneof![1 => 0u16..=20, 3 => (HEADER_CACHE_LIMIT as u16 - 10)..=s.max_depth].sboxed() } else { prop_oneof![3 => 0u16..=6, 2 => 0u16..=s.max_depth].sboxed() };
	(any::<u16>(), depth, -3i32..=6, cls_strat(), prop_oneof![9 => Just(None), 1 => any::<u16>().prop_map(Some)]).prop_map(|(base, depth, delta, cls, bad_at)| {
		// length around the work-equivalent of the replaced blocks so that ties and near-ties are frequent
		let eq = (depth as i32 * 2 + CLS_WORK[cls as usize] as i32 - 1) / CLS_WORK[cls as usize] as i32;
		BranchSpec { base, depth, len: (eq + delta).max(1) as u16, cls, bad_at }
	})
}

fn pos_strat(s: Shape) -> impl Strategy<Value = Pos> + Clone {
	let back = if s.deep { prop_oneof![5 => Just(0u16), 3 => 1u16..=3, 2 => 0u16..=1400].sboxed() } else { prop_oneof![5 => Just(0u16), 3 => 1u16..=3, 2 => 0u16..=24, 1 => 25u16..=60].sboxed() };
	(any::<u16>(), back).prop_map(|(branch, back)| Pos { branch, back })
}

fn fault_strat(s: Shape) -> impl Strategy<Value = Option<Fault>> + Clone {
	let at = if s.deep { prop_oneof![1 => 0u16..4, 1 => 0u16..14, 4 => 0u16..=s.max_at].sboxed() } else { prop_oneof![2 => 0u16..4, 3 => 0u16..14, 2 => 0u16..=s.max_at].sboxed() };
	// with `lies` every header fault is a wrong-height / wrong-chainwork header (kinds 4-6 of 8)
	let kind = if s.lies { (4u8..=6).sboxed() } else { any::<u8>().sboxed() };
	let on = prop_oneof![2 => Just(0u8), 1 => Just(1u8), 2 => Just(2u8)];
	prop_oneof![3 => Just(None), 2 => (at, on, kind, any::<u16>()).prop_map(|(at, on, kind, arg)| Some(Fault { at, on, kind, arg }))]
}

fn case_strat(s: Shape) -> impl Strategy<Value = Case> + Clone + Send + Sync + 'static {
	let tree = (any::<u32>(), s.main.0..=s.main.1, prop_oneof![8 => Just(0u8), 1 => Just(1u8)], prop::collection::vec(branch_strat(s), 0..=s.max_branches));
	let srcs = (0u8..3, any::<bool>(), any::<bool>());
	let listener = (pos_strat(s), prop_oneof![3 => Just(0u16), 1 => any::<u16>()], prop_oneof![3 => Just(0u8), 2 => 1u8..=4, 1 => 5u8..=16]).prop_map(|(pos, holes, forget)| ListenerSpec { pos, holes, forget });
	let sync = (prop::collection::vec(listener, s.listeners.0..=s.listeners.1), pos_strat(s), fault_strat(s));
	let steps = prop::collection::vec((pos_strat(s), fault_strat(s)).prop_map(|(tip, fault)| Step { tip, fault }), if s.deep { 1..=4 } else { 1..=8 });
	(tree, srcs, pos_strat(s), sync, steps)
		.prop_map(move |((salt, main_len, main_cls, branches), (block_mode, hint, unknown_transient), start, (listeners, sync_tip, sync_fault), steps)| Case {
			salt,
			main_len,
			main_cls,
			branches,
			block_mode,
			hint,
			unknown_transient,
			start,
			listeners,
			sync_tip,
			sync_fault,
			steps,
			lies: s.lies,
		})
		.sboxed()
}

fn main() {
	let mut c = Check::new("C20", "exploration");
	c.assume("the block source is an in-memory scripted tree; REST/RPC clients and their JSON conversion are not exercised");
	c.assume("ChainPoller runs with Network::Regtest: per-block difficulty may vary, mainnet difficulty-transition validation is not generated");
	c.assume("ground truth for parent/height/work/PoW validity is the harness's own tree; PoW is judged with rust-bitcoin's Target::is_met_by");
	c.assume("one injected fault per call (error, bad-PoW / foreign / altered header, foreign / tampered / bad-PoW block); a source reporting a different tip is a script step, not a fault");
	c.assume("height and chainwork reported by the source are honest (sum of header work): a valid, connecting header served with a wrong height / chainwork is a lying source and out of scope (opt-in part `metadata`, VERIF_C20_METADATA=1)");
	c.assume("listener start positions are valid chain positions; a locator's previous_blocks are true ancestors (with generated holes)");

	let small = Shape { main: (5, 60), max_branches: 4, max_depth: 20, deep: false, max_at: 60, listeners: (0, 0), lies: false };
	c.part(
		PartSpec {
			name: "poll",
			rule: "tree: main 5-60 blocks + 0-4 branches (depth 0-20, near-tie lengths, work classes 2/4/8, 10% with a PoW-invalid block); SpvClient from a generated position with an empty cache, 1-8 polls of generated tips with 40% faulted + one final fault-free poll. Non-trivial: >=1 reorg, or a fault interrupted an advance of >=2 blocks",
			quick_cases: 160_000,
			thorough_cases: 6_000_000,
			max_shrink: 3000,
		},
		case_strat(small),
		oracle,
	);
	c.part(
		PartSpec {
			name: "sync",
			rule: "same trees; 1-4 listeners at generated valid positions (stale forks, locators with holes, top 0-16 stale blocks unknown to the source), synchronize_listeners (40% faulted, one fault-free retry), then polls through the returned cache. Non-trivial: >=1 listener disconnected, or a fault left partial progress / interrupted an advance",
			quick_cases: 100_000,
			thorough_cases: 4_000_000,
			max_shrink: 3000,
		},
		case_strat(Shape { listeners: (1, 4), ..small }),
		oracle,
	);
	let deep = Shape { main: (1030, 1300), max_branches: 2, max_depth: 1250, deep: true, max_at: 3000, listeners: (0, 2), lies: false };
	c.part(
		PartSpec {
			name: "deep",
			rule: "main 1030-1300 blocks (> HEADER_CACHE_LIMIT = 1008) + 0-2 branches forking up to 1250 below a tip, 0-2 listeners, 1-4 polls. Non-trivial as above; labels count reorgs deeper than the header cache",
			quick_cases: 2_000,
			thorough_cases: 80_000,
			max_shrink: 400,
		},
		case_strat(deep),
		oracle,
	);
	// Out of the property's scope (it speaks of PoW failures and non-connecting headers; a valid,
	// connecting header served with a wrong height / chainwork is a lying source): opt-in only, to
	// reproduce the observation recorded in DESIGN.md. Not declared otherwise.
	if std::env::var("VERIF_C20_METADATA").ok().as_deref() == Some("1") {
	c.part(
		PartSpec {
			name: "metadata",
			rule: "poll/sync cases as above (0-3 listeners) whose header faults are the right header with a wrong height or chainwork: such a header must never move a listener, change a height, or leave the client at a position from which the next fault-free poll does not produce the missing suffix. Non-trivial as above",
			quick_cases: 40_000,
			thorough_cases: 1_000_000,
			max_shrink: 3000,
		},
		case_strat(Shape { listeners: (0, 3), lies: true, ..small }),
		oracle,
	);
	}
	c.finish();
}
