//! Return path: failure packets (origin hop k, wrapped by hops k-1..0, read by the sender) and
//! fulfil attribution data, driven through the `_verif_hooks` accessors.

use crate::refimpl as r;
use crate::world::{norm_scid, prg, secret_key};
use crate::NullLogger;
use bitcoin::secp256k1::{PublicKey, Secp256k1, SecretKey};
use lightning::blinded_path::BlindedHop;
use lightning::ln::onion_utils::verif_hooks as h;
use lightning::ln::onion_utils::{AttributionData, LocalHTLCFailureReason as R};
use lightning::routing::router::{BlindedTail, Path, RouteHop};
use lightning::types::features::{ChannelFeatures, NodeFeatures};
use lightning::util::ser::{Readable, Writeable};
use proptest::prelude::*;
use serde::{Deserialize, Serialize};
use vcore::*;

const BADONION: u16 = 0x8000;
const PERM: u16 = 0x4000;
const NODE: u16 = 0x2000;
const UPDATE: u16 = 0x1000;
const INVALID_ONION_BLINDING: u16 = BADONION | PERM | 24;
const MAX_HOPS: usize = 27;

const KNOWN: &[R] = &[
	R::TemporaryNodeFailure,
	R::PermanentNodeFailure,
	R::RequiredNodeFeature,
	R::InvalidOnionVersion,
	R::InvalidOnionHMAC,
	R::InvalidOnionKey,
	R::TemporaryChannelFailure,
	R::PermanentChannelFailure,
	R::RequiredChannelFeature,
	R::UnknownNextPeer,
	R::AmountBelowMinimum,
	R::FeeInsufficient,
	R::IncorrectCLTVExpiry,
	R::CLTVExpiryTooSoon,
	R::IncorrectPaymentDetails,
	R::FinalIncorrectCLTVExpiry,
	R::FinalIncorrectHTLCAmount,
	R::ChannelDisabled,
	R::CLTVExpiryTooFar,
	R::InvalidOnionPayload,
	R::MPPTimeout,
	R::InvalidOnionBlinding,
	R::ForwardExpiryBuffer,
	R::InvalidTrampolineForward,
	R::PaymentClaimBuffer,
	R::DustLimitHolder,
	R::DustLimitCounterparty,
	R::FeeSpikeBuffer,
	R::PrivateChannelForward,
	R::RealSCIDForward,
	R::ChannelNotReady,
	R::InvalidKeysendPreimage,
	R::InvalidTrampolinePayload,
	R::PaymentSecretRequired,
	R::OutgoingCLTVTooSoon,
	R::ChannelClosed,
	R::OnChainTimeout,
	R::ZeroAmount,
	R::HTLCMinimum,
	R::HTLCMaximum,
	R::PeerOffline,
	R::ChannelBalanceOverdrawn,
	R::TemporaryTrampolineFailure,
	R::TrampolineFeeOrExpiryInsufficient,
	R::UnknownNextTrampoline,
];

#[derive(Clone, Debug, Serialize, Deserialize)]
enum CodeSel {
	Known(u16),
	Raw(u16),
}

#[derive(Clone, Debug, Serialize, Deserialize)]
enum DataSel {
	Raw(u16),
	/// [debug field of 0/2/4/8 bytes] || u16 len || len bytes, the shape UPDATE failures carry
	UpdateShaped(u8, u16),
}

#[derive(Clone, Debug, Serialize, Deserialize, PartialEq)]
enum FMode {
	Clean,
	/// hops j..=k do not know attribution data (packet built / wrapped per plain BOLT-4 by the reference)
	LegacyFrom(u16),
	/// hop j drops the attribution TLV when relaying
	StripAt(u16),
	/// one byte of the failure message is XORed right after hop j handled it
	CorruptData { at: u16, pos: u16, mask: u8 },
	/// one byte of the attribution data is XORed right after hop j handled it
	CorruptAttr { at: u16, pos: u16, mask: u8 },
}

#[derive(Clone, Debug, Serialize, Deserialize)]
struct FailCase {
	seed: u64,
	n: u8,
	/// number of blinded hops behind the last path hop (0: no blinded tail)
	blinded: u8,
	scids: Vec<u64>,
	k: u16,
	code: CodeSel,
	data: DataSel,
	holds: Vec<u32>,
	mode: FMode,
}

#[derive(Clone, Debug, Serialize, Deserialize)]
struct FulfilCase {
	seed: u64,
	n: u8,
	holds: Vec<u32>,
	/// hop that does not relay attribution data (its upstream neighbour starts afresh)
	legacy_at: Option<u16>,
}

fn holds() -> impl Strategy<Value = Vec<u32>> + Clone {
	proptest::collection::vec(prop_oneof![Just(0u32), 0u32..50, any::<u32>(), Just(u32::MAX)], MAX_HOPS)
}

fn hop_count() -> impl Strategy<Value = u8> + Clone {
	prop_oneof![3 => 1u8..=6, 3 => 1u8..=27, 2 => 18u8..=27]
}

fn fail_strat() -> impl Strategy<Value = FailCase> + Clone + Send + Sync + 'static {
	let code = prop_oneof![3 => any::<u16>().prop_map(CodeSel::Known), 2 => any::<u16>().prop_map(CodeSel::Raw)];
	let len = prop_oneof![2 => Just(0u16), 4 => 0u16..40, 3 => 0u16..300, 1 => 0u16..3000, 1 => 50_000u16..60_000];
	let data = prop_oneof![3 => len.prop_map(DataSel::Raw), 1 => (any::<u8>(), 0u16..200).prop_map(|(d, l)| DataSel::UpdateShaped(d, l))];
	let mask = prop_oneof![3 => (0u8..8).prop_map(|b| 1u8 << b), 1 => 1u8..=255];
	let mode = prop_oneof![
		4 => Just(FMode::Clean),
		1 => any::<u16>().prop_map(FMode::LegacyFrom),
		1 => any::<u16>().prop_map(FMode::StripAt),
		2 => (any::<u16>(), any::<u16>(), mask.clone()).prop_map(|(at, pos, mask)| FMode::CorruptData { at, pos, mask }),
		2 => (any::<u16>(), any::<u16>(), mask).prop_map(|(at, pos, mask)| FMode::CorruptAttr { at, pos, mask }),
	];
	(any::<u64>(), hop_count(), prop_oneof![3 => Just(0u8), 1 => 1u8..=3], proptest::collection::vec(any::<u64>(), MAX_HOPS), any::<u16>(), code, data, holds(), mode)
		.prop_map(|(seed, n, blinded, scids, k, code, data, holds, mode)| FailCase { seed, n, blinded, scids, k, code, data, holds, mode })
}

fn fulfil_strat() -> impl Strategy<Value = FulfilCase> + Clone + Send + Sync + 'static {
	(any::<u64>(), hop_count(), holds(), proptest::option::weighted(0.25, any::<u16>())).prop_map(|(seed, n, holds, legacy_at)| FulfilCase { seed, n, holds, legacy_at })
}

fn fail(oracle: &str, detail: String) -> Failure {
	Failure::new(oracle, detail).with_key(oracle.to_string())
}

macro_rules! check {
	($cond:expr, $oracle:expr, $($arg:tt)*) => {
		if !($cond) {
			return Err(fail($oracle, format!($($arg)*)));
		}
	};
}

struct Route {
	path: Path,
	session_priv: SecretKey,
	secrets: Vec<[u8; 32]>,
	scids: Vec<u64>,
}

/// A path of `n` hops with generated node keys; the shared secrets are derived the way the *nodes*
/// derive them (ECDH with the ephemeral key they are handed), not the way the sender does.
fn route(secp: &Secp256k1<bitcoin::secp256k1::All>, seed: u64, n: usize, raw_scids: &[u64], blinded: usize) -> Route {
	let sks: Vec<SecretKey> = (0..n).map(|i| secret_key(seed, "fnode", i as u64)).collect();
	let scids: Vec<u64> = (0..n).map(|i| norm_scid(raw_scids[i], i)).collect();
	let hops: Vec<RouteHop> = (0..n)
		.map(|i| RouteHop {
			pubkey: PublicKey::from_secret_key(secp, &sks[i]),
			node_features: NodeFeatures::empty(),
			short_channel_id: scids[i],
			channel_features: ChannelFeatures::empty(),
			fee_msat: 1000,
			cltv_expiry_delta: 50,
			maybe_announced_channel: true,
		})
		.collect();
	let blinded_tail = if blinded == 0 {
		None
	} else {
		// only the node ids of the tail matter on the return path; hop 0 of the tail is the last path hop
		let bh = (0..blinded).map(|i| BlindedHop { blinded_node_id: PublicKey::from_secret_key(secp, &secret_key(seed, "bnode", i as u64)), encrypted_payload: vec![] }).collect();
		Some(BlindedTail { trampoline_hops: vec![], hops: bh, blinding_point: PublicKey::from_secret_key(secp, &secret_key(seed, "bpoint", 0)), excess_final_cltv_expiry_delta: 0, final_value_msat: 1000 })
	};
	let session_priv = secret_key(seed, "session", 1);
	let secrets = r::node_side_secrets(secp, &PublicKey::from_secret_key(secp, &session_priv), &sks);
	Route { path: Path { hops, blinded_tail }, session_priv, secrets, scids }
}

fn hop_bucket(n: usize) -> &'static str {
	match n {
		1 => "hops=1",
		2 => "hops=2",
		3..=8 => "hops=3-8",
		9..=20 => "hops=9-20",
		_ => "hops=21-27",
	}
}

fn oracle_failure(c: &FailCase, ctx: &mut Ctx) -> CaseResult {
	let secp = Secp256k1::new();
	let n = (c.n as usize).clamp(1, MAX_HOPS);
	let corrupting = matches!(c.mode, FMode::CorruptData { .. });
	// An unattributable failure on a path with a multi-hop blinded tail is, by design, reported as
	// "failed inside the blinded path": keep the data-corruption cases on paths where the expected
	// answer is unambiguous.
	let nb = if corrupting { (c.blinded as usize).min(1) } else { c.blinded as usize };
	let rt = route(&secp, c.seed, n, &c.scids, nb);
	let k = pick(c.k, n);
	let final_like = k == n - 1 && nb <= 1;
	let in_blinded = k == n - 1 && nb >= 2;

	// failure code and data
	let (code, data): (u16, Vec<u8>) = if in_blinded {
		// the only failure a conforming introduction node relays
		(INVALID_ONION_BLINDING, vec![0; 32])
	} else {
		let code = match c.code {
			CodeSel::Known(i) => h::failure_code(KNOWN[pick(i, KNOWN.len())]),
			CodeSel::Raw(x) => x,
		};
		let data = match c.data {
			DataSel::Raw(l) => prg(c.seed, "fdata", 0, l as usize),
			DataSel::UpdateShaped(d, l) => {
				let mut v = prg(c.seed, "fdbg", 0, [0usize, 2, 4, 8][(d & 3) as usize]);
				v.extend_from_slice(&l.to_be_bytes());
				v.extend_from_slice(&prg(c.seed, "fupd", 0, l as usize));
				v
			},
		};
		(code, data)
	};
	let reason: R = code.into();
	check!(h::failure_code(reason) == code, "code-roundtrip", "u16 {:#06x} -> {:?} -> {:#06x}", code, reason, h::failure_code(reason));

	// the sender's own derivation of the hop secrets must agree with what the nodes derive
	let sender_secrets = h::hop_shared_secrets(&secp, &rt.path, &rt.session_priv);
	check!(sender_secrets == rt.secrets, "shared-secrets", "sender-side hop secrets differ from the node-side ECDH");

	// return path: hop k originates, hops k-1 .. 0 wrap
	let j = match c.mode {
		FMode::Clean => None,
		FMode::LegacyFrom(s) | FMode::StripAt(s) => Some(pick(s, k + 1)),
		FMode::CorruptData { at, .. } | FMode::CorruptAttr { at, .. } => Some(pick(at, k + 1)),
	};
	let mut pkt = match c.mode {
		FMode::LegacyFrom(_) => {
			let mut p = h::build_failure(&rt.secrets[k], reason, &[], 0);
			p.data = r::build_failure_legacy(&rt.secrets[k], code, &data);
			p.attribution_data = None;
			p
		},
		_ => h::build_failure(&rt.secrets[k], reason, &data, c.holds[k]),
	};
	let mut i = k;
	loop {
		// `pkt` has just been handled by hop i
		if Some(i) == j {
			match c.mode {
				FMode::StripAt(_) => pkt.attribution_data = None,
				FMode::CorruptData { pos, mask, .. } => {
					let at = pick(pos, pkt.data.len());
					pkt.data[at] ^= mask;
				},
				FMode::CorruptAttr { pos, mask, .. } => {
					let mut b = pkt.attribution_data.as_ref().expect("attribution").encode();
					let at = pick(pos, b.len());
					b[at] ^= mask;
					pkt.attribution_data = Some(AttributionData::read(&mut &b[..]).expect("attribution data"));
				},
				_ => {},
			}
		}
		if i == 0 {
			break;
		}
		i -= 1;
		match (&c.mode, j) {
			(FMode::LegacyFrom(_), Some(j)) if i >= j => r::wrap_failure_legacy(&rt.secrets[i], &mut pkt.data),
			_ => h::wrap_failure(&rt.secrets[i], &mut pkt, c.holds[i]),
		}
	}
	let wire_data = pkt.data.clone();
	let wire_attr = pkt.attribution_data.as_ref().map(|a| a.encode());
	let d = h::process_failure(&secp, &NullLogger, &rt.path, &rt.session_priv, pkt);

	let mode_label = match c.mode {
		FMode::Clean => "clean",
		FMode::LegacyFrom(_) => "legacy-from-j",
		FMode::StripAt(_) => "strip-at-j",
		FMode::CorruptData { .. } => "corrupt-data",
		FMode::CorruptAttr { .. } => "corrupt-attribution",
	};
	ctx.label(mode_label);
	ctx.label(hop_bucket(n));
	ctx.label(if k == 0 { "fail@first" } else if k == n - 1 { "fail@last" } else { "fail@middle" });
	ctx.label_if(k >= 20, "fail-beyond-20");
	ctx.label_if(nb > 0, &format!("blinded-tail={}", nb));
	ctx.label_if(in_blinded, "fail@intro-of-blinded");
	ctx.label(match code {
		c if c & BADONION != 0 => "code:badonion",
		c if c & NODE != 0 => "code:node",
		c if c & PERM != 0 => "code:perm",
		c if c & UPDATE != 0 => "code:update",
		_ => "code:plain",
	});
	ctx.label_if(matches!(reason, R::UnknownFailureCode { .. }), "code:unknown");
	ctx.label(match data.len() {
		0 => "data=0",
		1..=254 => "data<255",
		255..=3000 => "data<=3000",
		_ => "data>50000",
	});
	ctx.nontrivial_if(n >= 3 && ((k > 0 && k < n - 1) || c.mode != FMode::Clean));

	ctx.summary(serde_json::json!({ "seed": c.seed, "hops": n, "blinded_tail": nb, "failing_hop": k, "j": j, "code": format!("{:#06x}", code), "data_len": data.len(), "mode": format!("{:?}", c.mode) }));
	let want_holds = |upto: usize| -> Vec<u32> { c.holds[..upto.min(20).min(n)].to_vec() };
	// Attribution HMACs are truncated to 4 bytes: where hop j's HMAC is expected *not* to verify, a
	// 2^-32 coincidence yields extra entries. Such a reading is accepted only if the independent
	// reference decoder, fed the same bytes, arrives at the very same list.
	let collision = |want: &Vec<u32>| -> bool {
		let Some(attr) = wire_attr.as_ref() else { return false };
		let rf = r::decode_failure(&rt.secrets, &wire_data);
		let ref_holds = r::decode_attribution(attr, &rt.secrets, n, &|i| &rf.layers[i][..]);
		d.hold_times.len() > want.len() && d.hold_times[..want.len()] == want[..] && ref_holds == d.hold_times
	};
	let detail = || {
		format!(
			"n={} k={} j={:?} nb={} code={:#06x} data_len={} mode={:?} -> scid={:?} perm={} blinded={} code={:?} data_len={:?} holds={:?}",
			n, k, j, nb, code, data.len(), c.mode, d.short_channel_id, d.payment_failed_permanently, d.failed_within_blinded_path,
			d.failure_code.map(|x| format!("{:#06x}", x)), d.failure_data.as_ref().map(|x| x.len()), d.hold_times
		)
	};

	if let FMode::CorruptData { .. } = c.mode {
		// (c, corruption) never a valid failure, never blamed on anyone; hold times only from the hops
		// that relayed the packet after it was damaged
		check!(d.failure_code.is_none() && d.failure_data.is_none(), "corrupt-decoded", "a damaged failure packet was decoded: {}", detail());
		check!(d.short_channel_id.is_none() && !d.failed_within_blinded_path, "corrupt-attributed", "a damaged failure packet was attributed: {}", detail());
		check!(d.payment_failed_permanently, "corrupt-not-permanent", "an unattributable failure must fail the payment: {}", detail());
		let want = want_holds(j.unwrap());
		if d.hold_times != want && collision(&want) {
			ctx.label("hmac4-collision");
		} else {
			check!(d.hold_times == want, "corrupt-hold-times", "expected hold times {:?}: {}", want, detail());
		}
		return Ok(());
	}

	// (c) attributed to hop k with the original code and data
	check!(d.failure_code == Some(code), "failure-code", "{}", detail());
	check!(d.failure_data.as_deref() == Some(&data[..]), "failure-data", "{}", detail());
	if in_blinded {
		// BOLT-4: failures from inside a blinded path cannot be attributed further
		check!(d.failed_within_blinded_path && d.short_channel_id.is_none() && !d.payment_failed_permanently, "blinded-attribution", "{}", detail());
	} else {
		check!(!d.failed_within_blinded_path, "blinded-attribution", "{}", detail());
		// the blamed channel is adjacent to node k: the one it was reached over or the one it forwards to
		let incoming = rt.scids[k];
		let outgoing = rt.scids.get(k + 1).copied();
		check!(d.short_channel_id.map_or(true, |s| s == incoming || Some(s) == outgoing), "attributed-hop", "blamed channel is not adjacent to hop {} ({} / {:?}): {}", k, incoming, outgoing, detail());
		if code & BADONION == 0 && code & NODE != 0 {
			// NODE: the node itself failed -> the hop that leads to it
			check!(d.short_channel_id == Some(incoming), "attributed-hop", "node failure not blamed on the hop into node {}: {}", k, detail());
		}
		if code & (BADONION | NODE) == 0 && code & PERM != 0 && !final_like {
			// permanent channel failure at a forwarding node -> its outgoing channel
			check!(d.short_channel_id == outgoing, "attributed-hop", "permanent channel failure not blamed on the channel out of node {}: {}", k, detail());
		}
		// PERM from the recipient ends the payment; from anyone else only the route
		check!(d.payment_failed_permanently == (final_like && code & PERM != 0), "permanent-flag", "{}", detail());
	}

	// hold times of the hops up to the origin (at most the first 20 are attributable)
	let clean_holds = want_holds(if in_blinded { k } else { k + 1 });
	match c.mode {
		FMode::Clean => check!(d.hold_times == clean_holds, "hold-times", "expected {:?}: {}", clean_holds, detail()),
		FMode::LegacyFrom(_) | FMode::StripAt(_) => {
			let want = want_holds(j.unwrap());
			if d.hold_times != want && collision(&want) {
				ctx.label("hmac4-collision");
			} else {
				check!(d.hold_times == want, "hold-times", "expected {:?}: {}", want, detail());
			}
		},
		FMode::CorruptAttr { .. } => {
			let l = d.hold_times.len();
			check!(l >= j.unwrap().min(20) && l <= clean_holds.len() && d.hold_times[..] == clean_holds[..l], "hold-times", "expected a prefix of {:?} of at least {} entries: {}", clean_holds, j.unwrap().min(20), detail());
		},
		FMode::CorruptData { .. } => unreachable!(),
	}

	// differential: an independent BOLT-4 reading of the same bytes
	let rf = r::decode_failure(&rt.secrets, &wire_data);
	let mut msg = code.to_be_bytes().to_vec();
	msg.extend_from_slice(&data);
	check!(rf.origin == Some((k, msg)), "ref-decode", "the reference decodes origin {:?}: {}", rf.origin.as_ref().map(|(i, m)| (*i, m.len())), detail());
	if c.mode == FMode::Clean && !in_blinded {
		let attr = wire_attr.expect("attribution data present");
		let ref_holds = r::decode_attribution(&attr, &rt.secrets, n, &|i| &rf.layers[i][..]);
		// the reference keeps verifying past hop k (whose downstream is empty) only if HMACs collide
		check!(ref_holds.len() >= clean_holds.len() && ref_holds[..clean_holds.len()] == clean_holds[..], "ref-hold-times", "the reference reads hold times {:?}: {}", ref_holds, detail());
	}
	Ok(())
}

fn oracle_fulfil(c: &FulfilCase, ctx: &mut Ctx) -> CaseResult {
	let secp = Secp256k1::new();
	let n = (c.n as usize).clamp(1, MAX_HOPS);
	let rt = route(&secp, c.seed, n, &vec![1; MAX_HOPS], 0);
	check!(h::hop_shared_secrets(&secp, &rt.path, &rt.session_priv) == rt.secrets, "shared-secrets", "sender-side hop secrets differ from the node-side ECDH");
	// hops that report: n-1 down to 0, or j-1 down to 0 when hop j relays no attribution data
	let top = match c.legacy_at {
		Some(s) if n >= 2 => 1 + pick(s, n - 1),
		_ => n,
	};
	let mut attr: Option<AttributionData> = None;
	for i in (0..top).rev() {
		attr = Some(h::wrap_fulfill_attribution(attr, &rt.secrets[i], c.holds[i]));
	}
	let bytes = attr.unwrap().encode();
	check!(bytes.len() == r::ATTR_LEN, "attribution-size", "attribution data is {} bytes", bytes.len());
	let got = r::decode_attribution(&bytes, &rt.secrets, n, &|_| &[][..]);
	let want = c.holds[..top.min(20)].to_vec();
	ctx.label(hop_bucket(n));
	ctx.label_if(top < n, "legacy-hop");
	ctx.label_if(n > 20, "more-than-20-hops");
	ctx.nontrivial_if(n >= 3 && c.holds[..top.min(20)].iter().any(|h| *h != 0));
	ctx.summary(serde_json::json!({ "seed": c.seed, "hops": n, "reporting_hops": top, "hold_times": &c.holds[..top.min(20)] }));
	check!(got == want, "fulfil-hold-times", "n={} reporting hops={} hold times read {:?}, expected {:?}", n, top, got, want);
	Ok(())
}

/// Every (path length, failing position) pair with a representative code of each class, clean mode.
fn grid_cases() -> Vec<FailCase> {
	let codes: [u16; 9] = [NODE | 2, PERM | NODE | 2, BADONION | PERM | 5, UPDATE | 7, PERM | 8, PERM | 15, 19, 23, 0x0fff];
	let mut out = vec![];
	for n in 1..=MAX_HOPS {
		for k in 0..n {
			for (ci, code) in codes.iter().enumerate() {
				out.push(FailCase {
					seed: 7,
					n: n as u8,
					blinded: 0,
					scids: (0..MAX_HOPS as u64).map(|i| 640 * (i + 1)).collect(),
					// smallest selector that `pick` maps onto k
					k: ((k * 65536 + n - 1) / n) as u16,
					code: CodeSel::Raw(*code),
					data: DataSel::Raw(if ci % 2 == 0 { 0 } else { 12 }),
					holds: (0..MAX_HOPS as u32).map(|i| 100 + i).collect(),
					mode: FMode::Clean,
				});
			}
		}
	}
	out
}

pub fn register(c: &mut Check) {
	c.enumerate(
		"failure-grid",
		"all 378 (path length 1..27, failing position) pairs x 9 codes (one per flag class, final-only codes, unknown), default payload, clean return path",
		grid_cases(),
		true,
		oracle_failure,
	);
	c.enumerate(
		"fulfil-grid",
		"every path length 1..27 with distinct hold times, no legacy hop",
		(1..=MAX_HOPS as u8).map(|n| FulfilCase { seed: 9, n, holds: (0..MAX_HOPS as u32).map(|i| 1000 + i).collect(), legacy_at: None }).collect(),
		true,
		oracle_fulfil,
	);
	c.part(
		PartSpec {
			name: "failure",
			rule: "path of 1-27 hops (optionally a 1-3 hop blinded tail), failing hop k, every LocalHTLCFailureReason or an arbitrary u16 code, data of 0..60000 bytes (random or update-shaped), generated hold times; modes: clean / legacy hops j..k / attribution stripped at j / one byte of the failure message or of the attribution data damaged after hop j; non-trivial: >=3 hops and (k strictly inside the path or a non-clean mode)",
			quick_cases: 40_000,
			thorough_cases: 1_000_000,
			max_shrink: 800,
		},
		fail_strat(),
		oracle_failure,
	);
	c.part(
		PartSpec {
			name: "fulfil",
			rule: "path of 1-27 hops, generated hold times, optionally one hop that relays no attribution data; the attribution data produced by the hops is read by the reference decoder; non-trivial: >=3 hops and a non-zero hold time",
			quick_cases: 10_000,
			thorough_cases: 250_000,
			max_shrink: 800,
		},
		fulfil_strat(),
		oracle_fulfil,
	);
}
