//! Case types, proptest strategies and the builder that turns a generated `World` into a concrete
//! `Path` + recipient fields, together with the *expected* per-hop instructions and payload bytes
//! (computed here from the BOLT-4 payload format, without calling the onion code).

use crate::refimpl as r;
use bitcoin::secp256k1::{All, PublicKey, Secp256k1, SecretKey};
use lightning::blinded_path::payment::{
	BlindedPaymentPath, Bolt12RefundContext, ForwardTlvs, PaymentConstraints, PaymentContext, PaymentForwardNode, PaymentRelay, ReceiveTlvs,
};
use lightning::ln::outbound_payment::{RecipientCustomTlvs, RecipientOnionFields};
use lightning::routing::router::{BlindedTail, Path, RouteHop};
use lightning::sign::{EntropySource, KeysManager, NodeSigner, Recipient};
use lightning::types::features::{BlindedHopFeatures, ChannelFeatures, NodeFeatures};
use lightning::types::payment::{PaymentHash, PaymentPreimage, PaymentSecret};
use proptest::prelude::*;
use serde::{Deserialize, Serialize};
use std::collections::BTreeMap;

pub const POOL: usize = 27; // 27 forwarding payloads of minimal size + any final payload exceed 1300 bytes
pub const KEYSEND_TLV: u64 = 5482373484;
pub const FILL_TLV: u64 = 0xffff_ffff_ffff_fff1; // odd custom type used to pad the recipient payload
pub const MIN_CLTV_DELTA: u32 = 48; // what a forwarding LDK node insists on (MIN_CLTV_EXPIRY_DELTA)

#[derive(Clone, Debug, Serialize, Deserialize)]
pub struct HopSpec {
	pub scid: u64,
	pub fee: u64,
	pub delta: u16,
}

#[derive(Clone, Debug, Serialize, Deserialize)]
pub struct BlindFwdSpec {
	pub scid: u64,
	pub base: u32,
	pub prop: u32,
	pub delta: u16,
}

#[derive(Clone, Debug, Serialize, Deserialize)]
pub struct BlindSpec {
	pub fwd: Vec<BlindFwdSpec>,
	pub min_final: u16,
	pub excess: u16,
	/// length of one payment_metadata entry in the recipient's payment context
	pub ctx_meta: Option<u16>,
	/// All forwarding hops of one blinded path use base fees of the same encoded width and the same
	/// htlc_minimum: the path constructor debug-asserts that their (padded) TLVs have equal size.
	pub base_bytes: u8,
	pub htlc_min: u64,
}

#[derive(Clone, Debug, Serialize, Deserialize)]
pub struct RecipSpec {
	pub secret: bool,
	pub metadata: Option<u16>,
	pub custom: Vec<(u64, u16)>,
	pub keysend: bool,
	pub total_extra: u64,
}

#[derive(Clone, Debug, Serialize, Deserialize)]
pub struct World {
	pub seed: u64,
	pub height: u32,
	/// few hops with large CLTV deltas instead of many hops with small ones (the sum is capped by
	/// what forwarding nodes accept, CLTV_FAR_FAR_AWAY)
	pub wide: bool,
	pub prefix: Vec<HopSpec>,
	/// the last unblinded hop: the recipient, or the introduction node of the blinded tail
	pub last: HopSpec,
	pub recip: RecipSpec,
	pub blind: Option<BlindSpec>,
}

// ------------------------------------------------------------------------------- strategies

fn amount(max_bits: u32) -> impl Strategy<Value = u64> + Clone {
	prop_oneof![Just(0u64), 0u64..256, 0u64..70_000, 0u64..(1 << 33), 0u64..(1u64 << max_bits)]
}

fn scid() -> impl Strategy<Value = u64> + Clone {
	prop_oneof![any::<u64>(), 1u64..1000, Just(u64::MAX)]
}

fn hop_spec() -> impl Strategy<Value = HopSpec> + Clone {
	(scid(), amount(54), any::<u16>()).prop_map(|(scid, fee, delta)| HopSpec { scid, fee, delta })
}

fn recip_spec() -> impl Strategy<Value = RecipSpec> + Clone {
	let len = prop_oneof![4 => 0u16..40, 2 => 0u16..300, 1 => 0u16..1250];
	let typ = prop_oneof![65536u64..66000, (KEYSEND_TLV - 3)..(KEYSEND_TLV + 4), 77_770u64..77_790, any::<u64>(), (u64::MAX - 40)..=u64::MAX];
	(any::<bool>(), proptest::option::weighted(0.4, len.clone()), proptest::collection::vec((typ, len), 0..4), proptest::bool::weighted(0.3), amount(58))
		.prop_map(|(secret, metadata, custom, keysend, total_extra)| RecipSpec { secret, metadata, custom, keysend, total_extra })
}

fn blind_spec() -> impl Strategy<Value = BlindSpec> + Clone {
	let fwd = (scid(), any::<u32>(), prop_oneof![Just(0u32), 0u32..2000, 0u32..100_000], any::<u16>()).prop_map(|(scid, base, prop, delta)| BlindFwdSpec { scid, base, prop, delta });
	(proptest::collection::vec(fwd, 0..4), any::<u16>(), any::<u16>(), proptest::option::weighted(0.3, 0u16..60), 0u8..=4, 0u64..2)
		.prop_map(|(fwd, min_final, excess, ctx_meta, base_bytes, htlc_min)| BlindSpec { fwd, min_final, excess, ctx_meta, base_bytes, htlc_min })
}

pub fn world() -> impl Strategy<Value = World> + Clone + Send + Sync + 'static {
	let height = prop_oneof![1u32..300, 300u32..70_000, 700_000u32..1_000_000, 1_000_000u32..499_990_000];
	(
		any::<u64>(),
		height,
		proptest::bool::weighted(0.15),
		proptest::collection::vec(hop_spec(), POOL),
		(scid(), prop_oneof![1u64..256, 1u64..70_000, 1u64..(1 << 33), 1u64..(1u64 << 59)], any::<u16>()),
		recip_spec(),
		proptest::option::weighted(0.35, blind_spec()),
	)
		.prop_map(|(seed, height, wide, prefix, (ls, lf, ld), recip, blind)| World {
			seed,
			height,
			wide,
			prefix,
			last: HopSpec { scid: ls, fee: lf, delta: ld },
			recip,
			blind,
		})
}

// ------------------------------------------------------------------------------- deterministic bytes

pub fn prg(seed: u64, tag: &str, idx: u64, len: usize) -> Vec<u8> {
	let mut out = Vec::with_capacity(len + 32);
	let mut ctr = 0u64;
	while out.len() < len {
		out.extend_from_slice(&r::sha256(&[b"c14", tag.as_bytes(), &seed.to_le_bytes(), &idx.to_le_bytes(), &ctr.to_le_bytes()]));
		ctr += 1;
	}
	out.truncate(len);
	out
}

pub fn prg32(seed: u64, tag: &str, idx: u64) -> [u8; 32] {
	let mut a = [0u8; 32];
	a.copy_from_slice(&prg(seed, tag, idx, 32));
	a
}

pub fn secret_key(seed: u64, tag: &str, idx: u64) -> SecretKey {
	let mut ctr = idx;
	loop {
		if let Ok(k) = SecretKey::from_slice(&prg32(seed, tag, ctr)) {
			return k;
		}
		ctr += 1 << 32;
	}
}

/// Distinct non-zero short channel ids: the low 6 bits carry the position in the case.
pub fn norm_scid(raw: u64, idx: usize) -> u64 {
	let s = (raw & !0x3f) | (idx as u64 & 0x3f);
	if s == 0 {
		64
	} else {
		s
	}
}

pub struct FixedEntropy(pub [u8; 32]);
impl EntropySource for FixedEntropy {
	fn get_secure_random_bytes(&self) -> [u8; 32] {
		self.0
	}
}

// ------------------------------------------------------------------------------- the built plan

pub struct Node {
	pub km: KeysManager,
	pub sk: SecretKey,
	pub pk: PublicKey,
}

pub fn node(secp: &Secp256k1<All>, seed: u64, idx: usize) -> Node {
	let km = KeysManager::new(&prg32(seed, "node", idx as u64), 42, 42, true);
	let sk = km.get_node_secret_key();
	let pk = PublicKey::from_secret_key(secp, &sk);
	debug_assert_eq!(km.get_node_id(Recipient::Node).unwrap(), pk);
	Node { km, sk, pk }
}

#[derive(Clone, Debug)]
pub struct RecvExpect {
	pub amt: u64,
	pub cltv: u32,
	pub secret: Option<[u8; 32]>,
	pub total: u64,
	pub metadata: Option<Vec<u8>>,
	pub custom: Vec<(u64, Vec<u8>)>,
	pub keysend: Option<[u8; 32]>,
	/// for a blinded receive: (is the recipient its own introduction node, expected payment context)
	pub blinded: Option<(bool, PaymentContext)>,
}

#[derive(Clone, Debug)]
pub enum Expect {
	Forward { scid: u64, amt: u64, cltv: u32 },
	BlindedForward { scid: u64, base: u32, prop: u32, delta: u16, intro: bool },
	Receive(RecvExpect),
}

pub struct HopPlan {
	/// what the HTLC arriving at this hop carries
	pub recv_amt: u64,
	pub recv_cltv: u32,
	pub expect: Expect,
	/// the exact TLV stream BOLT-4 prescribes for this hop
	pub payload: Vec<u8>,
}

/// What the sender hands to `create_payment_onion` for one concrete path.
pub struct SenderView {
	pub path: Path,
	pub recipient_onion: RecipientOnionFields,
	pub keysend_preimage: Option<PaymentPreimage>,
	pub payment_hash: PaymentHash,
	pub session_priv: SecretKey,
	pub prng_seed: [u8; 32],
	pub height: u32,
	/// sum over hops of (length prefix + payload + 32-byte HMAC)
	pub size: usize,
}

pub struct Plan<'a> {
	pub view: SenderView,
	prefix_nodes: Vec<Node>,
	prefix_hops: Vec<HopPlan>,
	tail: &'a Tail,
	pub n_blinded: usize,
}

impl<'a> Plan<'a> {
	pub fn len(&self) -> usize {
		self.prefix_hops.len() + self.tail.hops.len()
	}
	pub fn node(&self, i: usize) -> &Node {
		let p = self.prefix_nodes.len();
		if i < p {
			&self.prefix_nodes[i]
		} else {
			&self.tail.nodes[i - p]
		}
	}
	pub fn hop(&self, i: usize) -> &HopPlan {
		let p = self.prefix_hops.len();
		if i < p {
			&self.prefix_hops[i]
		} else {
			&self.tail.hops[i - p]
		}
	}
}

/// The part of a world that does not depend on how many prefix hops are used.
pub struct Tail {
	nodes: Vec<Node>,
	hops: Vec<HopPlan>,
	last_hop: RouteHop,
	blinded_tail: Option<BlindedTail>,
	recipient_onion: RecipientOnionFields,
	keysend_preimage: Option<PaymentPreimage>,
	payment_hash: PaymentHash,
	height: u32,
	seed: u64,
	/// normalised prefix hops (scid, fee, delta), index 0 is the farthest from the recipient
	prefix: Vec<(u64, u64, u32)>,
	max_prefix: usize,
	/// recipient expectation / onion fields without the fill record, and the blinded-receive extras
	final_base: RecvExpect,
	final_enc: Option<(Vec<u8>, Option<PublicKey>)>,
	onion_base: RecipientOnionFields,
}

fn fwd_payload(amt: u64, cltv: u32, scid: u64) -> Vec<u8> {
	let mut v = Vec::new();
	r::put_tlv(&mut v, 2, &r::tu(amt));
	r::put_tlv(&mut v, 4, &r::tu(cltv as u64));
	r::put_tlv(&mut v, 6, &scid.to_be_bytes());
	v
}

/// Custom records and the keysend record share one ascending type order in the payload.
fn put_custom(v: &mut Vec<u8>, custom: &[(u64, Vec<u8>)], keysend: &Option<[u8; 32]>) {
	let mut all: Vec<(u64, Vec<u8>)> = custom.to_vec();
	if let Some(p) = keysend {
		all.push((KEYSEND_TLV, p.to_vec()));
	}
	all.sort_by_key(|(t, _)| *t);
	for (t, val) in all {
		r::put_tlv(v, t, &val);
	}
}

fn recv_payload(e: &RecvExpect, enc: Option<&(Vec<u8>, Option<PublicKey>)>) -> Vec<u8> {
	let mut v = Vec::new();
	r::put_tlv(&mut v, 2, &r::tu(e.amt));
	r::put_tlv(&mut v, 4, &r::tu(e.cltv as u64));
	match enc {
		None => {
			if let Some(s) = e.secret {
				let mut pd = s.to_vec();
				pd.extend_from_slice(&r::tu(e.total));
				r::put_tlv(&mut v, 8, &pd);
			}
			if let Some(m) = &e.metadata {
				r::put_tlv(&mut v, 16, m);
			}
		},
		Some((enc, path_key)) => {
			r::put_tlv(&mut v, 10, enc);
			if let Some(pk) = path_key {
				r::put_tlv(&mut v, 12, &pk.serialize());
			}
			r::put_tlv(&mut v, 18, &r::tu(e.total));
		},
	}
	put_custom(&mut v, &e.custom, &e.keysend);
	v
}

fn route_hop(pk: PublicKey, scid: u64, fee: u64, delta: u32) -> RouteHop {
	RouteHop {
		pubkey: pk,
		node_features: NodeFeatures::empty(),
		short_channel_id: scid,
		channel_features: ChannelFeatures::empty(),
		fee_msat: fee,
		cltv_expiry_delta: delta,
		maybe_announced_channel: true,
	}
}

impl Tail {
	/// `None` when the blinded-path constructor refuses the generated parameters.
	pub fn new(secp: &Secp256k1<All>, w: &World) -> Option<Tail> {
		let seed = w.seed;
		let height = w.height;
		let (delta_cap, max_prefix) = if w.wide { (300u32, 4usize) } else { (14u32, POOL) };
		let prefix: Vec<(u64, u64, u32)> = w
			.prefix
			.iter()
			.enumerate()
			.map(|(i, h)| (norm_scid(h.scid, i), h.fee.min(1 << 54), MIN_CLTV_DELTA + (h.delta as u32) % (delta_cap + 1)))
			.collect();
		assert_eq!(prefix.len(), POOL);
		let final_amt = w.last.fee.clamp(1, 1 << 59);
		let last_scid = norm_scid(w.last.scid, POOL);

		// recipient fields
		let keysend = if w.recip.keysend { Some(prg32(seed, "preimage", 0)) } else { None };
		let payment_hash = PaymentHash(match keysend {
			Some(p) => r::sha256(&[&p]),
			None => prg32(seed, "payment_hash", 0),
		});
		let mut custom: BTreeMap<u64, Vec<u8>> = BTreeMap::new();
		for (i, (t, l)) in w.recip.custom.iter().enumerate() {
			let mut t = (*t).max(1 << 16);
			while t == KEYSEND_TLV || t == 77_777 || t == FILL_TLV || custom.contains_key(&t) {
				t = if t == u64::MAX { 1 << 16 } else { t + 1 };
			}
			custom.insert(t, prg(seed, "custom", i as u64, *l as usize));
		}
		let custom: Vec<(u64, Vec<u8>)> = custom.into_iter().collect();
		let total = final_amt + w.recip.total_extra.min(1 << 58);

		let mut nodes = Vec::new();
		let mut hops = Vec::new();
		let (last_hop, blinded_tail, onion_base, final_base, final_enc);
		match &w.blind {
			None => {
				// A non-keysend payment needs a payment secret to be acceptable at all.
				let secret = if w.recip.secret || keysend.is_none() { Some(prg32(seed, "payment_secret", 0)) } else { None };
				let metadata = w.recip.metadata.map(|l| prg(seed, "metadata", 0, l as usize));
				let final_delta = 40 + (w.last.delta as u32) % 261;
				let e = RecvExpect { amt: final_amt, cltv: height + final_delta, secret, total, metadata: metadata.clone(), custom: custom.clone(), keysend, blinded: None };
				nodes.push(node(secp, seed, POOL));
				hops.push(HopPlan { recv_amt: final_amt, recv_cltv: height + final_delta, expect: Expect::Receive(e.clone()), payload: recv_payload(&e, None) });
				last_hop = route_hop(nodes[0].pk, last_scid, final_amt, final_delta);
				blinded_tail = None;
				let mut ro = match secret {
					Some(s) => RecipientOnionFields::secret_only(PaymentSecret(s), total),
					None => RecipientOnionFields::spontaneous_empty(total),
				};
				ro.payment_metadata = metadata;
				onion_base = ro.with_custom_tlvs(RecipientCustomTlvs::new(custom.clone()).expect("custom tlvs"));
				final_base = e;
				final_enc = None;
			},
			Some(b) => {
				// blinded path nodes: intro = tail node 0, payee last
				let t = b.fwd.len() + 1;
				for i in 0..t {
					nodes.push(node(secp, seed, POOL + i));
				}
				let min_final = 40 + b.min_final % 21;
				let excess = (b.excess % 31) as u32;
				// (scid, base, prop, delta, htlc_min)
				let fwd: Vec<(u64, u32, u32, u16, u64)> = b
					.fwd
					.iter()
					.enumerate()
					.map(|(i, f)| (norm_scid(f.scid, POOL + 1 + i), base_of_width(f.base, b.base_bytes), f.prop, MIN_CLTV_DELTA as u16 + f.delta % 33, b.htlc_min.min(1)))
					.collect();
				let constraints = |min| PaymentConstraints { max_cltv_expiry: 500_100_000, htlc_minimum_msat: min };
				let inter: Vec<PaymentForwardNode> = fwd
					.iter()
					.enumerate()
					.map(|(i, (scid, base, prop, delta, min))| PaymentForwardNode {
						tlvs: ForwardTlvs {
							short_channel_id: *scid,
							payment_relay: PaymentRelay { cltv_expiry_delta: *delta, fee_proportional_millionths: *prop, fee_base_msat: *base },
							payment_constraints: constraints(*min),
							features: BlindedHopFeatures::empty(),
							next_blinding_override: None,
						},
						node_id: nodes[i].pk,
						htlc_maximum_msat: 2_000_000_000_000_000_000,
					})
					.collect();
				let pay_secret = prg32(seed, "payment_secret", 0);
				let ctx = PaymentContext::Bolt12Refund(Bolt12RefundContext {
					payment_metadata: b.ctx_meta.map(|l| {
						let mut m = BTreeMap::new();
						m.insert(7u64, prg(seed, "ctxmeta", 0, l as usize));
						m
					}),
				});
				let payee_tlvs = ReceiveTlvs { payment_secret: PaymentSecret(pay_secret), payment_constraints: constraints(0), payment_context: ctx.clone() };
				let bp = BlindedPaymentPath::new(
					&inter,
					nodes[t - 1].pk,
					nodes[t - 1].km.get_receive_auth_key(),
					payee_tlvs,
					2_000_000_000_000_000_000,
					min_final,
					FixedEntropy(secret_key(seed, "blinding", 0).secret_bytes()),
					secp,
				)
				.ok()?;
				let bhops = bp.blinded_hops().to_vec();
				assert_eq!(bhops.len(), t);
				// Amounts backwards from the recipient: a forwarding blinded hop must be handed enough to
				// keep base + ceil(prop * out / 1e6) and still forward `out`.
				let mut need = vec![0u64; t];
				need[t - 1] = final_amt;
				for i in (0..t - 1).rev() {
					let out = need[i + 1] as u128;
					let fee = fwd[i].1 as u128 + (out * fwd[i].2 as u128 + 999_999) / 1_000_000;
					need[i] = (out + fee) as u64;
				}
				let total_delta: u32 = fwd.iter().map(|f| f.3 as u32).sum::<u32>() + min_final as u32 + excess;
				let mut cltv_in = height + total_delta;
				for i in 0..t - 1 {
					let mut payload = Vec::new();
					r::put_tlv(&mut payload, 10, &bhops[i].encrypted_payload);
					if i == 0 {
						r::put_tlv(&mut payload, 12, &bp.blinding_point().serialize());
					}
					hops.push(HopPlan {
						recv_amt: need[i], // exact only for i == 0; later hops are checked against the chain
						recv_cltv: cltv_in,
						expect: Expect::BlindedForward { scid: fwd[i].0, base: fwd[i].1, prop: fwd[i].2, delta: fwd[i].3, intro: i == 0 },
						payload,
					});
					cltv_in -= fwd[i].3 as u32;
				}
				let e = RecvExpect { amt: final_amt, cltv: height + excess, secret: Some(pay_secret), total, metadata: None, custom: custom.clone(), keysend, blinded: Some((t == 1, ctx)) };
				let enc = (bhops[t - 1].encrypted_payload.clone(), if t == 1 { Some(bp.blinding_point()) } else { None });
				hops.push(HopPlan { recv_amt: final_amt, recv_cltv: cltv_in, expect: Expect::Receive(e.clone()), payload: recv_payload(&e, Some(&enc)) });
				last_hop = route_hop(nodes[0].pk, last_scid, need[0] - final_amt, total_delta);
				blinded_tail = Some(BlindedTail {
					trampoline_hops: vec![],
					hops: bhops,
					blinding_point: bp.blinding_point(),
					excess_final_cltv_expiry_delta: excess,
					final_value_msat: final_amt,
				});
				onion_base = RecipientOnionFields::spontaneous_empty(total).with_custom_tlvs(RecipientCustomTlvs::new(custom.clone()).expect("custom tlvs"));
				final_base = e;
				final_enc = Some(enc);
			},
		}
		Some(Tail {
			nodes,
			hops,
			last_hop,
			blinded_tail,
			recipient_onion: onion_base.clone(),
			keysend_preimage: keysend.map(PaymentPreimage),
			payment_hash,
			height,
			seed,
			prefix,
			max_prefix,
			final_base,
			final_enc,
			onion_base,
		})
	}

	/// Pad the recipient payload with a custom record of `pad` value bytes (`None`: no record).
	pub fn set_fill(&mut self, pad: Option<usize>) {
		let mut e = self.final_base.clone();
		let mut ro = self.onion_base.clone();
		if let Some(pad) = pad {
			e.custom.push((FILL_TLV, prg(self.seed, "fill", 0, pad)));
			e.custom.sort_by_key(|(t, _)| *t);
			ro = ro.with_custom_tlvs(RecipientCustomTlvs::new(e.custom.clone()).expect("fill tlv"));
		}
		let last = self.hops.last_mut().unwrap();
		last.payload = recv_payload(&e, self.final_enc.as_ref());
		last.expect = Expect::Receive(e);
		self.recipient_onion = ro;
	}

	fn tail_size(&self) -> usize {
		self.hops.iter().map(|h| r::payload_footprint(h.payload.len())).sum()
	}

	/// (amount, cltv, scid) of the HTLC entering the tail
	fn tail_entry(&self) -> (u64, u32, u64) {
		(self.hops[0].recv_amt, self.hops[0].recv_cltv, self.last_hop.short_channel_id)
	}

	/// Total hop-data bytes needed when the last `p` prefix hops are used.
	pub fn size_with_prefix(&self, p: usize) -> usize {
		let (mut amt, mut cltv, mut scid) = self.tail_entry();
		let mut s = self.tail_size();
		for (hs, fee, delta) in self.prefix[POOL - p..].iter().rev() {
			s += r::payload_footprint(fwd_payload(amt, cltv, scid).len());
			amt += fee;
			cltv += delta;
			scid = *hs;
		}
		s
	}

	/// Largest number of prefix hops that fits in 1300 bytes (`None`: not even the tail fits).
	pub fn max_fit(&self) -> Option<usize> {
		if self.tail_size() > r::HOP_DATA_LEN {
			return None;
		}
		let mut p = 0;
		while p < self.max_prefix && self.size_with_prefix(p + 1) <= r::HOP_DATA_LEN {
			p += 1;
		}
		Some(p)
	}

	pub fn max_prefix(&self) -> usize {
		self.max_prefix
	}

	/// `size_with_prefix(p)` if the fill record had `pad` value bytes (independent of the current fill).
	pub fn size_if_fill(&self, p: usize, pad: usize) -> usize {
		let base = recv_payload(&self.final_base, self.final_enc.as_ref()).len();
		let cur = self.hops.last().unwrap().payload.len();
		self.size_with_prefix(p) - r::payload_footprint(cur) + r::payload_footprint(base + fill_tlv_len(pad))
	}

	/// Materialise the path that uses the last `p` prefix hops.
	pub fn plan<'a>(&'a self, secp: &Secp256k1<All>, p: usize) -> Plan<'a> {
		let (mut amt, mut cltv, mut scid) = self.tail_entry();
		let mut nodes = Vec::new();
		let mut hops = Vec::new();
		let mut route = Vec::new();
		for (i, (hs, fee, delta)) in self.prefix.iter().enumerate().skip(POOL - p).rev() {
			let payload = fwd_payload(amt, cltv, scid);
			let expect = Expect::Forward { scid, amt, cltv };
			amt += fee;
			cltv += delta;
			scid = *hs;
			let nd = node(secp, self.seed, i);
			route.push(route_hop(nd.pk, *hs, *fee, *delta));
			nodes.push(nd);
			hops.push(HopPlan { recv_amt: amt, recv_cltv: cltv, expect, payload });
		}
		nodes.reverse();
		hops.reverse();
		route.reverse();
		route.push(self.last_hop.clone());
		Plan {
			view: SenderView {
				path: Path { hops: route, blinded_tail: self.blinded_tail.clone() },
				recipient_onion: self.recipient_onion.clone(),
				keysend_preimage: self.keysend_preimage,
				payment_hash: self.payment_hash,
				session_priv: secret_key(self.seed, "session", 0),
				prng_seed: prg32(self.seed, "prng", 0),
				height: self.height,
				size: self.size_with_prefix(p),
			},
			prefix_nodes: nodes,
			prefix_hops: hops,
			tail: self,
			n_blinded: self.blinded_tail.as_ref().map_or(0, |b| b.hops.len()),
		}
	}
}

/// Bytes the fill record adds to the recipient's TLV stream.
fn fill_tlv_len(pad: usize) -> usize {
	let mut v = Vec::new();
	r::put_bigsize(&mut v, FILL_TLV);
	r::put_bigsize(&mut v, pad as u64);
	v.len() + pad
}

/// A base fee whose truncated big-endian encoding has exactly `bytes` bytes (capped at 1e9 msat).
fn base_of_width(raw: u32, bytes: u8) -> u32 {
	let w = bytes.min(4) as u32;
	if w == 0 {
		return 0;
	}
	let lo = 1u64 << (8 * (w - 1));
	let hi = ((1u64 << (8 * w)) - 1).min(1_000_000_000);
	(lo + raw as u64 % (hi - lo + 1)) as u32
}
