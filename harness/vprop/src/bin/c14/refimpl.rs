//! Independent reference pieces for C14, written from BOLT-4 ("Packet Structure", "Returning
//! Errors", route blinding) and the attributable-failures extension (20 hops, 4-byte hold times,
//! 4-byte truncated HMACs, triangular HMAC layout). Nothing in here calls into the lightning crate:
//! ChaCha20 is implemented locally, HMAC/SHA-256 and the EC operations come from `bitcoin`.

use bitcoin::hashes::{sha256, Hash, HashEngine, Hmac, HmacEngine};
use bitcoin::secp256k1::ecdh::SharedSecret;
use bitcoin::secp256k1::{All, PublicKey, Scalar, Secp256k1, SecretKey};

pub const HOP_DATA_LEN: usize = 1300;
pub const PACKET_WIRE_LEN: usize = 1 + 33 + HOP_DATA_LEN + 32;
pub const MAX_ATTR_HOPS: usize = 20;
pub const ATTR_LEN: usize = MAX_ATTR_HOPS * 4 + 210 * 4;

// ---------------------------------------------------------------- ChaCha20 (RFC 8439, zero nonce)

fn qr(s: &mut [u32; 16], a: usize, b: usize, c: usize, d: usize) {
	s[a] = s[a].wrapping_add(s[b]);
	s[d] = (s[d] ^ s[a]).rotate_left(16);
	s[c] = s[c].wrapping_add(s[d]);
	s[b] = (s[b] ^ s[c]).rotate_left(12);
	s[a] = s[a].wrapping_add(s[b]);
	s[d] = (s[d] ^ s[a]).rotate_left(8);
	s[c] = s[c].wrapping_add(s[d]);
	s[b] = (s[b] ^ s[c]).rotate_left(7);
}

fn chacha_block(key: &[u8; 32], counter: u32) -> [u8; 64] {
	let mut st = [0u32; 16];
	st[0] = 0x61707865;
	st[1] = 0x3320646e;
	st[2] = 0x79622d32;
	st[3] = 0x6b206574;
	for i in 0..8 {
		st[4 + i] = u32::from_le_bytes([key[4 * i], key[4 * i + 1], key[4 * i + 2], key[4 * i + 3]]);
	}
	st[12] = counter; // st[13..16]: 96-bit nonce, all zero in BOLT-4
	let mut w = st;
	for _ in 0..10 {
		qr(&mut w, 0, 4, 8, 12);
		qr(&mut w, 1, 5, 9, 13);
		qr(&mut w, 2, 6, 10, 14);
		qr(&mut w, 3, 7, 11, 15);
		qr(&mut w, 0, 5, 10, 15);
		qr(&mut w, 1, 6, 11, 12);
		qr(&mut w, 2, 7, 8, 13);
		qr(&mut w, 3, 4, 9, 14);
	}
	let mut out = [0u8; 64];
	for i in 0..16 {
		out[4 * i..4 * i + 4].copy_from_slice(&w[i].wrapping_add(st[i]).to_le_bytes());
	}
	out
}

/// XOR `data` with the ChaCha20 key stream of `key` (zero nonce) starting at stream offset 0.
pub fn chacha20_xor(key: &[u8; 32], data: &mut [u8]) {
	for (ctr, chunk) in data.chunks_mut(64).enumerate() {
		let ks = chacha_block(key, ctr as u32);
		for (b, k) in chunk.iter_mut().zip(ks.iter()) {
			*b ^= *k;
		}
	}
}

// ---------------------------------------------------------------- hashes / key derivation

pub fn sha256(parts: &[&[u8]]) -> [u8; 32] {
	let mut e = sha256::Hash::engine();
	for p in parts {
		e.input(p);
	}
	sha256::Hash::from_engine(e).to_byte_array()
}

pub fn hmac(key: &[u8], parts: &[&[u8]]) -> [u8; 32] {
	let mut e = HmacEngine::<sha256::Hash>::new(key);
	for p in parts {
		e.input(p);
	}
	Hmac::from_engine(e).to_byte_array()
}

/// BOLT-4 key generation: HMAC-SHA256 keyed by the ASCII key type over the shared secret.
pub fn kdf(key_type: &[u8], ss: &[u8; 32]) -> [u8; 32] {
	hmac(key_type, &[ss])
}

/// BOLT-4 shared secret: SHA256 of the compressed ECDH point.
pub fn ecdh(pk: &PublicKey, sk: &SecretKey) -> [u8; 32] {
	SharedSecret::new(pk, sk).secret_bytes()
}

/// BOLT-4 ephemeral key / path key update: `P * SHA256(P || ss)`.
pub fn next_point(secp: &Secp256k1<All>, p: &PublicKey, ss: &[u8; 32]) -> Option<PublicKey> {
	let f = sha256(&[&p.serialize(), ss]);
	p.mul_tweak(secp, &Scalar::from_be_bytes(f).ok()?).ok()
}

/// Route blinding: the private key a blinded node uses to peel the onion,
/// `HMAC256("blinded_node_id", ECDH(k, E)) * k`.
pub fn blinded_node_secret(sk: &SecretKey, path_key: &PublicKey) -> Option<SecretKey> {
	let ss = ecdh(path_key, sk);
	sk.mul_tweak(&Scalar::from_be_bytes(hmac(b"blinded_node_id", &[&ss])).ok()?).ok()
}

// ---------------------------------------------------------------- TLV helpers

pub fn put_bigsize(v: &mut Vec<u8>, x: u64) {
	if x < 0xfd {
		v.push(x as u8);
	} else if x <= 0xffff {
		v.push(0xfd);
		v.extend_from_slice(&(x as u16).to_be_bytes());
	} else if x <= 0xffff_ffff {
		v.push(0xfe);
		v.extend_from_slice(&(x as u32).to_be_bytes());
	} else {
		v.push(0xff);
		v.extend_from_slice(&x.to_be_bytes());
	}
}

pub fn get_bigsize(b: &[u8], pos: &mut usize) -> Option<u64> {
	let first = *b.get(*pos)?;
	*pos += 1;
	let n = match first {
		0xff => 8,
		0xfe => 4,
		0xfd => 2,
		x => return Some(x as u64),
	};
	let s = b.get(*pos..*pos + n)?;
	*pos += n;
	let mut x = 0u64;
	for y in s {
		x = (x << 8) | *y as u64;
	}
	Some(x)
}

/// Truncated big-endian integer (tu64 / tu32): leading zero bytes dropped.
pub fn tu(x: u64) -> Vec<u8> {
	let b = x.to_be_bytes();
	let skip = b.iter().take_while(|y| **y == 0).count();
	b[skip..].to_vec()
}

pub fn put_tlv(v: &mut Vec<u8>, typ: u64, val: &[u8]) {
	put_bigsize(v, typ);
	put_bigsize(v, val.len() as u64);
	v.extend_from_slice(val);
}

/// Bytes a payload occupies inside the 1300-byte hop data: length prefix, TLV stream, HMAC.
pub fn payload_footprint(tlv_stream_len: usize) -> usize {
	let mut l = Vec::new();
	put_bigsize(&mut l, tlv_stream_len as u64);
	l.len() + tlv_stream_len + 32
}

// ---------------------------------------------------------------- Sphinx packet peel

#[derive(Clone, Debug, PartialEq, Eq)]
pub struct Pkt {
	pub version: u8,
	pub pubkey: [u8; 33],
	pub hop_data: Vec<u8>,
	pub hmac: [u8; 32],
}

impl Pkt {
	pub fn from_wire(b: &[u8]) -> Option<Pkt> {
		if b.len() != PACKET_WIRE_LEN {
			return None;
		}
		let mut pubkey = [0u8; 33];
		pubkey.copy_from_slice(&b[1..34]);
		let mut hmac = [0u8; 32];
		hmac.copy_from_slice(&b[34 + HOP_DATA_LEN..]);
		Some(Pkt { version: b[0], pubkey, hop_data: b[34..34 + HOP_DATA_LEN].to_vec(), hmac })
	}
	pub fn to_wire(&self) -> Vec<u8> {
		let mut v = vec![self.version];
		v.extend_from_slice(&self.pubkey);
		v.extend_from_slice(&self.hop_data);
		v.extend_from_slice(&self.hmac);
		v
	}
}

#[derive(Clone, Debug, PartialEq, Eq)]
pub enum PeelErr {
	Version,
	Key,
	Hmac,
	Payload,
}

pub struct Peeled {
	pub ss: [u8; 32],
	/// the hop's TLV stream (without the length prefix)
	pub payload: Vec<u8>,
	/// `None` when the next HMAC is all-zero (this hop is the final one)
	pub next: Option<Pkt>,
}

/// BOLT-4 "Accepting and Forwarding a Payment": what the holder of `sk` does with `pkt`.
pub fn peel(secp: &Secp256k1<All>, sk: &SecretKey, pkt: &Pkt, assoc: &[u8]) -> Result<Peeled, PeelErr> {
	if pkt.version != 0 {
		return Err(PeelErr::Version);
	}
	let eph = PublicKey::from_slice(&pkt.pubkey).map_err(|_| PeelErr::Key)?;
	let ss = ecdh(&eph, sk);
	if hmac(&kdf(b"mu", &ss), &[&pkt.hop_data, assoc]) != pkt.hmac {
		return Err(PeelErr::Hmac);
	}
	let mut buf = pkt.hop_data.clone();
	buf.resize(2 * HOP_DATA_LEN, 0);
	chacha20_xor(&kdf(b"rho", &ss), &mut buf);
	let mut pos = 0;
	let len = get_bigsize(&buf[..HOP_DATA_LEN], &mut pos).ok_or(PeelErr::Payload)? as usize;
	if len < 2 || pos + len + 32 > HOP_DATA_LEN {
		return Err(PeelErr::Payload);
	}
	let payload = buf[pos..pos + len].to_vec();
	pos += len;
	let mut next_hmac = [0u8; 32];
	next_hmac.copy_from_slice(&buf[pos..pos + 32]);
	pos += 32;
	let next = if next_hmac == [0u8; 32] {
		None
	} else {
		let np = next_point(secp, &eph, &ss).ok_or(PeelErr::Key)?;
		Some(Pkt { version: 0, pubkey: np.serialize(), hop_data: buf[pos..pos + HOP_DATA_LEN].to_vec(), hmac: next_hmac })
	};
	Ok(Peeled { ss, payload, next })
}

/// The shared secrets the nodes of a path derive themselves (receiver side of the ECDH), walking
/// the ephemeral key forward from the sender's session public key.
pub fn node_side_secrets(secp: &Secp256k1<All>, session_pub: &PublicKey, node_sks: &[SecretKey]) -> Vec<[u8; 32]> {
	let mut eph = *session_pub;
	let mut out = Vec::with_capacity(node_sks.len());
	for sk in node_sks {
		let ss = ecdh(&eph, sk);
		eph = next_point(secp, &eph, &ss).expect("tweak");
		out.push(ss);
	}
	out
}

// ---------------------------------------------------------------- failure packets (legacy part)

/// BOLT-4 "Returning Errors": the erring node's packet, encrypted under its own shared secret.
pub fn build_failure_legacy(ss: &[u8; 32], code: u16, data: &[u8]) -> Vec<u8> {
	let failure_len = 2 + data.len();
	let pad_len = 256usize.saturating_sub(failure_len);
	let mut body = Vec::new();
	body.extend_from_slice(&(failure_len as u16).to_be_bytes());
	body.extend_from_slice(&code.to_be_bytes());
	body.extend_from_slice(data);
	body.extend_from_slice(&(pad_len as u16).to_be_bytes());
	body.resize(body.len() + pad_len, 0);
	let mut pkt = hmac(&kdf(b"um", ss), &[&body]).to_vec();
	pkt.extend_from_slice(&body);
	chacha20_xor(&kdf(b"ammag", ss), &mut pkt);
	pkt
}

/// What a node without attribution support does on the return path.
pub fn wrap_failure_legacy(ss: &[u8; 32], pkt: &mut [u8]) {
	chacha20_xor(&kdf(b"ammag", ss), pkt);
}

pub struct RefFailure {
	/// index of the hop whose `um` HMAC verified, with its failure message (code + data)
	pub origin: Option<(usize, Vec<u8>)>,
	/// the packet as seen after removing layer i (== what node i authenticated in its attribution HMACs)
	pub layers: Vec<Vec<u8>>,
}

/// The origin node's decoding loop of BOLT-4 "Returning Errors".
pub fn decode_failure(secrets: &[[u8; 32]], data: &[u8]) -> RefFailure {
	let mut cur = data.to_vec();
	let mut layers = Vec::new();
	let mut origin = None;
	for (i, ss) in secrets.iter().enumerate() {
		chacha20_xor(&kdf(b"ammag", ss), &mut cur);
		layers.push(cur.clone());
		if origin.is_none() && cur.len() >= 32 && hmac(&kdf(b"um", ss), &[&cur[32..]])[..] == cur[..32] {
			let body = &cur[32..];
			if body.len() >= 2 {
				let fl = u16::from_be_bytes([body[0], body[1]]) as usize;
				if let Some(msg) = body.get(2..2 + fl) {
					origin = Some((i, msg.to_vec()));
				}
			}
		}
	}
	RefFailure { origin, layers }
}

// ---------------------------------------------------------------- attribution data (sender side)

/// Sender-side reading of attribution data. `attr` is hold_times(20 x u32 BE) || hmacs(210 x 4).
/// `path_hops` is the number of (unblinded) hops of the path; `message(i)` is what hop i
/// authenticated besides the attribution data (the failure packet as hop i saw it; empty for a
/// fulfil). Returns the hold times of the hops whose HMAC chain verified, first hop first.
///
/// Layout: hop i (seen from the sender) contributes a block of 20-i truncated HMACs, one per
/// position it might have (distance to the last attributable hop, largest first). After the
/// sender removes a hop's layer it drops that hop's block and the now impossible first entry of
/// every remaining block. The HMAC of a hop at position p covers the message, p+1 hold times and
/// the HMACs the p downstream hops produced for their positions p-1 .. 0.
pub fn decode_attribution<'a>(attr: &[u8], secrets: &[[u8; 32]], path_hops: usize, message: &dyn Fn(usize) -> &'a [u8]) -> Vec<u32> {
	assert_eq!(attr.len(), ATTR_LEN);
	let n_attr = path_hops.min(MAX_ATTR_HOPS).min(secrets.len());
	let mut cur = attr.to_vec();
	let mut out = Vec::new();
	for i in 0..n_attr {
		chacha20_xor(&kdf(b"ammagext", &secrets[i]), &mut cur);
		let (holds, hmacs) = cur.split_at(MAX_ATTR_HOPS * 4);
		// blocks[b] = HMACs of the hop b steps downstream of hop i; blocks[b][e] is for position 19-b-e
		let mut blocks: Vec<Vec<[u8; 4]>> = Vec::new();
		let mut off = 0;
		for b in 0..MAX_ATTR_HOPS {
			let sz = MAX_ATTR_HOPS - b;
			blocks.push((0..sz).map(|e| [hmacs[4 * (off + e)], hmacs[4 * (off + e) + 1], hmacs[4 * (off + e) + 2], hmacs[4 * (off + e) + 3]]).collect());
			off += sz;
		}
		let position = n_attr - 1 - i;
		let entry_for = |b: usize, pos: usize| blocks[b][MAX_ATTR_HOPS - 1 - b - pos];
		let mut e = HmacEngine::<sha256::Hash>::new(&kdf(b"um", &secrets[i]));
		e.input(message(i));
		e.input(&holds[..(position + 1) * 4]);
		for d in 1..=position {
			e.input(&entry_for(d, position - d));
		}
		let mac = Hmac::from_engine(e).to_byte_array();
		if mac[..4] != entry_for(0, position) {
			break;
		}
		out.push(u32::from_be_bytes([holds[0], holds[1], holds[2], holds[3]]));
		// shift to the next hop's frame of reference
		let mut next = Vec::with_capacity(ATTR_LEN);
		next.extend_from_slice(&holds[4..]);
		next.extend_from_slice(&[0u8; 4]);
		for b in 0..MAX_ATTR_HOPS {
			next.extend_from_slice(&[0u8; 4]); // entry for a position that hop can no longer have
			if b + 1 < MAX_ATTR_HOPS {
				for h in blocks[b + 1].iter() {
					next.extend_from_slice(h);
				}
			}
		}
		// block b of the new frame has 20-b entries: 1 stale + the 19-b of old block b+1
		next.truncate(ATTR_LEN);
		debug_assert_eq!(next.len(), ATTR_LEN);
		cur = next;
	}
	out
}
