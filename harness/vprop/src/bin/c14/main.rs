//! C14 — onions deliver exactly each hop's instructions; failures name the right hop.
//!
//! Parts:
//! * `build-peel`   create_payment_onion -> peel_payment_onion at every hop, against the expected
//!                  instructions / payload bytes and an independent BOLT-4 peel; fit accounting
//!                  (largest path that fits, +1 hop and +1 byte are refused).
//! * `corrupt`      any modification of packet / ephemeral key / HMAC / version / payment hash in
//!                  flight is rejected by the next hop.
//! * `failure`      failure built at hop k and wrapped by hops k-1..0 is attributed to hop k with the
//!                  original code and data; hold times; legacy hops; corruption in flight.
//! * `fulfil`       fulfil attribution data reports the hops' hold times.
//! * `*-grid`       enumerated: every prefix length for four fixed recipient shapes; every
//!                  (path length, failing position) pair x 9 codes; every path length for fulfils.
//!
//! Every expectation is computed in `world.rs` / `refimpl.rs` from BOLT-4 (payload TLVs, Sphinx
//! peel, "Returning Errors", route blinding, attributable failures), never by the code under test.

mod fail;
mod refimpl;
mod world;

use bitcoin::secp256k1::{All, PublicKey, Secp256k1};
use lightning::ln::channelmanager::{BlindedFailure, PendingHTLCRouting};
use lightning::ln::msgs::{OnionPacket, UpdateAddHTLC};
use lightning::ln::onion_payment::peel_payment_onion;
use lightning::ln::onion_utils::{create_payment_onion, LocalHTLCFailureReason};
use lightning::ln::types::ChannelId;
use lightning::types::payment::{PaymentHash, PaymentSecret};
use lightning::util::logger::{Logger, Record};
use lightning::util::ser::{Readable, Writeable};
use proptest::prelude::*;
use refimpl as r;
use serde::{Deserialize, Serialize};
use vcore::*;
use world::{Expect, Plan, SenderView, Tail, World, POOL};

pub struct NullLogger;
impl Logger for NullLogger {
	fn log(&self, _record: Record) {}
}

// ------------------------------------------------------------------------------------ cases

#[derive(Clone, Debug, Serialize, Deserialize)]
enum Mode {
	/// use `pick(sel, max+1)` prefix hops
	Take(u16),
	/// the largest number of hops that fits
	Max,
	/// `pick(sel, max+1)` prefix hops, recipient payload padded until the 1300 bytes are used up
	Fill(u16),
	/// exactly this many prefix hops (capped at the maximum), used by the enumerated grid
	Exact(u8),
}

#[derive(Clone, Debug, Serialize, Deserialize)]
struct ChainCase {
	world: World,
	mode: Mode,
}

#[derive(Clone, Copy, Debug, Serialize, Deserialize, PartialEq)]
enum Field {
	HopData,
	Version,
	Pubkey,
	Hmac,
	PaymentHash,
}

#[derive(Clone, Debug, Serialize, Deserialize)]
struct CorruptCase {
	world: World,
	take: u16,
	hop: u16,
	field: Field,
	pos: u16,
	/// XOR mask applied to the selected byte (single bit in most cases)
	mask: u8,
}

fn chain_strat() -> impl Strategy<Value = ChainCase> + Clone + Send + Sync + 'static {
	let mode = prop_oneof![3 => any::<u16>().prop_map(Mode::Take), 2 => Just(Mode::Max), 2 => any::<u16>().prop_map(Mode::Fill)];
	(world::world(), mode).prop_map(|(world, mode)| ChainCase { world, mode })
}

fn corrupt_strat() -> impl Strategy<Value = CorruptCase> + Clone + Send + Sync + 'static {
	let field = prop_oneof![4 => Just(Field::HopData), 1 => Just(Field::Version), 2 => Just(Field::Pubkey), 2 => Just(Field::Hmac), 2 => Just(Field::PaymentHash)];
	let mask = prop_oneof![3 => (0u8..8).prop_map(|b| 1u8 << b), 1 => 1u8..=255];
	(world::world(), any::<u16>(), any::<u16>(), field, any::<u16>(), mask).prop_map(|(world, take, hop, field, pos, mask)| CorruptCase { world, take, hop, field, pos, mask })
}

// ------------------------------------------------------------------------------------ helpers

fn fail(oracle: &str, key: String, detail: String) -> Failure {
	Failure::new(oracle, detail).with_key(key)
}

macro_rules! check {
	($cond:expr, $oracle:expr, $($arg:tt)*) => {
		if !($cond) {
			return Err(fail($oracle, $oracle.to_string(), format!($($arg)*)));
		}
	};
}

fn build(secp: &Secp256k1<All>, v: &SenderView) -> Result<(OnionPacket, u64, u32), String> {
	create_payment_onion(secp, &v.path, &v.session_priv, &v.recipient_onion, v.height, &v.payment_hash, &v.keysend_preimage, None, v.prng_seed)
		.map_err(|e| format!("{:?}", e))
}

fn update_add(amount_msat: u64, cltv_expiry: u32, payment_hash: PaymentHash, onion: OnionPacket, blinding_point: Option<PublicKey>) -> UpdateAddHTLC {
	UpdateAddHTLC {
		channel_id: ChannelId([0; 32]),
		htlc_id: 0,
		amount_msat,
		cltv_expiry,
		payment_hash,
		onion_routing_packet: onion,
		skimmed_fee_msat: None,
		blinding_point,
		hold_htlc: None,
		accountable: None,
	}
}

fn hop_bucket(n: usize) -> &'static str {
	match n {
		1 => "hops=1",
		2 => "hops=2",
		3..=8 => "hops=3-8",
		9..=16 => "hops=9-16",
		17..=22 => "hops=17-22",
		_ => "hops=23+",
	}
}

/// Walk the onion through hops `0..stop`, checking at every hop
/// * an independent BOLT-4 peel yields exactly the expected TLV stream and the same next packet,
/// * `peel_payment_onion` with that hop's keys yields exactly the expected instructions,
/// * the forwarded packet is again 1366 bytes and only the last hop sees itself as final.
/// Returns the `update_add_htlc` that hop `stop` would receive (None after the final hop).
fn walk(secp: &Secp256k1<All>, plan: &Plan, first: (OnionPacket, u64, u32), stop: usize) -> Result<Option<UpdateAddHTLC>, Failure> {
	let v = &plan.view;
	let n = plan.len();
	let peel_height = v.height - 1; // create_payment_onion takes best height + 1
	let (onion, amt, cltv) = first;
	let mut msg = update_add(amt, cltv, v.payment_hash, onion, None);
	for i in 0..stop.min(n) {
		let nd = plan.node(i);
		let hp = plan.hop(i);
		let last = i == n - 1;
		let wire = msg.onion_routing_packet.encode();
		check!(wire.len() == r::PACKET_WIRE_LEN, "packet-size", "hop {}: onion packet is {} bytes on the wire", i, wire.len());
		let ref_pkt = r::Pkt::from_wire(&wire).unwrap();

		// independent peel with the key BOLT-4 says this node uses
		let ref_sk = match msg.blinding_point {
			Some(pk) => r::blinded_node_secret(&nd.sk, &pk).expect("tweak"),
			None => nd.sk,
		};
		let rp = match r::peel(secp, &ref_sk, &ref_pkt, &v.payment_hash.0) {
			Ok(p) => p,
			Err(e) => return Err(fail("ref-peel", format!("ref-peel/{:?}", e), format!("hop {}/{}: a BOLT-4 peel of the library-built packet fails with {:?}", i, n, e))),
		};
		check!(rp.payload == hp.payload, "payload-bytes", "hop {}/{}: payload differs from the BOLT-4 encoding of this hop's instructions\n got  {}\n want {}", i, n, hex(&rp.payload), hex(&hp.payload));
		check!(rp.next.is_none() == last, "final-recognition", "hop {}/{}: next HMAC all-zero = {} but last = {}", i, n, rp.next.is_none(), last);

		// the library's peel with this node's signer
		let info = match peel_payment_onion(&msg, &nd.km, &NullLogger, secp, peel_height, false) {
			Ok(x) => x,
			Err(e) => {
				return Err(fail(
					"peel-rejected",
					format!("peel-rejected/{:?}", e.reason),
					format!("hop {}/{} rejected the sender-built onion: {:?} {} (amt {} cltv {} height {})", i, n, e.reason, e.msg, msg.amount_msat, msg.cltv_expiry, peel_height),
				))
			},
		};
		check!(info.incoming_shared_secret == rp.ss, "shared-secret", "hop {}: shared secret differs from the BOLT-4 one", i);
		check!(info.payment_hash == v.payment_hash && info.incoming_amt_msat == Some(msg.amount_msat), "echo", "hop {}: payment hash / incoming amount not echoed", i);
		check!(msg.cltv_expiry == hp.recv_cltv, "chain-cltv", "hop {}: HTLC arrives with cltv {} but the path says {}", i, msg.cltv_expiry, hp.recv_cltv);

		let mut next_path_key = None;
		match (&hp.expect, &info.routing) {
			(Expect::Forward { scid, amt, cltv }, PendingHTLCRouting::Forward { short_channel_id, blinded, incoming_cltv_expiry, .. }) => {
				check!(msg.amount_msat == hp.recv_amt, "chain-amount", "hop {}: HTLC arrives with {} msat but the path says {}", i, msg.amount_msat, hp.recv_amt);
				check!(
					*short_channel_id == *scid && info.outgoing_amt_msat == *amt && info.outgoing_cltv_value == *cltv,
					"forward-instructions",
					"hop {}/{}: got scid {} amt {} cltv {}, expected scid {} amt {} cltv {}",
					i, n, short_channel_id, info.outgoing_amt_msat, info.outgoing_cltv_value, scid, amt, cltv
				);
				check!(blinded.is_none() && *incoming_cltv_expiry == Some(msg.cltv_expiry), "forward-extras", "hop {}: blinded={:?} incoming_cltv={:?}", i, blinded, incoming_cltv_expiry);
			},
			(Expect::BlindedForward { scid, base, prop, delta, intro }, PendingHTLCRouting::Forward { short_channel_id, blinded, .. }) => {
				let path_key = if *intro { v.path.blinded_tail.as_ref().unwrap().blinding_point } else { msg.blinding_point.expect("path key") };
				if *intro {
					check!(msg.amount_msat == hp.recv_amt, "chain-amount", "intro hop {}: HTLC arrives with {} msat, path says {}", i, msg.amount_msat, hp.recv_amt);
				}
				// BOLT-4 route blinding: amt_to_forward = ceil((in - base) * 1e6 / (1e6 + prop)); LDK rounds so
				// that the retained fee always covers base + prop: at most 1 msat lower. Either is accepted.
				let inb = (msg.amount_msat - *base as u64) as u128;
				let den = 1_000_000u128 + *prop as u128;
				let lo = (inb * 1_000_000 / den) as u64;
				let hi = ((inb * 1_000_000 + den - 1) / den) as u64;
				check!(
					*short_channel_id == *scid && info.outgoing_cltv_value == msg.cltv_expiry - *delta as u32 && (info.outgoing_amt_msat == lo || info.outgoing_amt_msat == hi),
					"blinded-forward-instructions",
					"hop {}/{}: got scid {} amt {} cltv {}, expected scid {} amt {}..={} cltv {}",
					i, n, short_channel_id, info.outgoing_amt_msat, info.outgoing_cltv_value, scid, lo, hi, msg.cltv_expiry - *delta as u32
				);
				let want_failure = if *intro { BlindedFailure::FromIntroductionNode } else { BlindedFailure::FromBlindedNode };
				check!(
					matches!(blinded, Some(b) if b.inbound_blinding_point == path_key && b.failure == want_failure && b.next_blinding_override.is_none()),
					"blinded-forward-extras",
					"hop {}: blinded info {:?}, expected path key {} failure {:?}",
					i, blinded, path_key, want_failure
				);
				// what this node puts into the next update_add_htlc: E' = SHA256(E || ss) * E
				next_path_key = Some(r::next_point(secp, &path_key, &r::ecdh(&path_key, &nd.sk)).expect("tweak"));
			},
			(Expect::Receive(e), routing) => {
				check!(last, "final-recognition", "hop {}/{} got receive instructions but is not last", i, n);
				check!(info.outgoing_amt_msat == e.amt && info.outgoing_cltv_value == e.cltv, "receive-instructions", "final hop: amt {} cltv {}, expected {} {}", info.outgoing_amt_msat, info.outgoing_cltv_value, e.amt, e.cltv);
				let want_pd = e.secret.map(|s| (PaymentSecret(s), e.total));
				let (pd, meta, ctx, custom, cltv_in, req_blinded, preimage) = match routing {
					PendingHTLCRouting::Receive { payment_data, payment_metadata, payment_context, custom_tlvs, incoming_cltv_expiry, requires_blinded_error, phantom_shared_secret, trampoline_shared_secret } => {
						check!(phantom_shared_secret.is_none() && trampoline_shared_secret.is_none(), "receive-extras", "unexpected phantom/trampoline secret");
						(Some((payment_data.payment_secret, payment_data.total_msat)), payment_metadata, payment_context, custom_tlvs, *incoming_cltv_expiry, *requires_blinded_error, None)
					},
					PendingHTLCRouting::ReceiveKeysend { payment_data, payment_metadata, payment_context, custom_tlvs, incoming_cltv_expiry, requires_blinded_error, payment_preimage, invoice_request, .. } => {
						check!(invoice_request.is_none(), "receive-extras", "unexpected invoice request");
						(payment_data.as_ref().map(|d| (d.payment_secret, d.total_msat)), payment_metadata, payment_context, custom_tlvs, *incoming_cltv_expiry, *requires_blinded_error, Some(payment_preimage.0))
					},
					_ => return Err(fail("final-recognition", "final-recognition".into(), format!("final hop {}/{} was told to forward", i, n))),
				};
				check!(preimage == e.keysend, "receive-keysend", "keysend preimage {:?}, expected {:?}", preimage.map(|p| hex(&p)), e.keysend.map(|p| hex(&p)));
				check!(pd == want_pd, "receive-payment-data", "payment data {:?}, expected {:?}", pd, want_pd);
				check!(*meta == e.metadata, "receive-metadata", "metadata {:?}, expected {:?}", meta.as_ref().map(|m| hex(m)), e.metadata.as_ref().map(|m| hex(m)));
				check!(*custom == e.custom, "receive-custom-tlvs", "custom TLVs {:?}, expected {:?}", custom, e.custom);
				check!(cltv_in == msg.cltv_expiry, "receive-extras", "incoming cltv {} != {}", cltv_in, msg.cltv_expiry);
				match &e.blinded {
					None => check!(ctx.is_none() && !req_blinded, "receive-extras", "unblinded receive with context {:?} / blinded error {}", ctx, req_blinded),
					Some((payee_is_intro, want_ctx)) => check!(ctx.as_ref() == Some(want_ctx) && req_blinded == !*payee_is_intro, "receive-blinded", "context {:?} blinded-error {}, expected {:?} {}", ctx, req_blinded, want_ctx, !*payee_is_intro),
				}
			},
			(want, _) => return Err(fail("final-recognition", "final-recognition".into(), format!("hop {}/{}: expected {:?} but the hop was told to receive", i, n, want))),
		}

		if let PendingHTLCRouting::Forward { onion_packet, .. } = &info.routing {
			let next_wire = onion_packet.encode();
			let ref_next = rp.next.as_ref().expect("checked above").to_wire();
			check!(next_wire.len() == r::PACKET_WIRE_LEN, "packet-size", "hop {}: forwarded packet is {} bytes", i, next_wire.len());
			check!(next_wire == ref_next, "next-packet", "hop {}/{}: forwarded packet differs from the BOLT-4 one (first difference at byte {:?})", i, n, next_wire.iter().zip(ref_next.iter()).position(|(a, b)| a != b));
			// go through the wire encoding like a real peer would
			let pkt: OnionPacket = Readable::read(&mut &next_wire[..]).expect("onion packet");
			msg = update_add(info.outgoing_amt_msat, info.outgoing_cltv_value, v.payment_hash, pkt, next_path_key);
		} else {
			return Ok(None);
		}
	}
	Ok(if stop < n { Some(msg) } else { None })
}

// ------------------------------------------------------------------------------------ part: build-peel

fn oracle_chain(c: &ChainCase, ctx: &mut Ctx) -> CaseResult {
	let secp = Secp256k1::new();
	let Some(mut tail) = Tail::new(&secp, &c.world) else {
		ctx.discard();
		return Ok(());
	};
	let Some(pmax) = tail.max_fit() else {
		// recipient fields alone exceed the packet: the builder must refuse
		ctx.label("tail-too-big");
		let plan = tail.plan(&secp, 0);
		check!(build(&secp, &plan.view).is_err(), "oversize-accepted", "a {}-byte route was accepted", plan.view.size);
		return Ok(());
	};
	let (p, label) = match c.mode {
		Mode::Take(s) => (pick(s, pmax + 1), "mode=take"),
		Mode::Max => (pmax, "mode=max"),
		Mode::Fill(s) => (pick(s, pmax + 1), "mode=fill"),
		Mode::Exact(x) => ((x as usize).min(pmax), "mode=exact"),
	};
	ctx.label(label);
	let mut over_fill = None;
	if let Mode::Fill(_) = c.mode {
		// largest pad that still fits; sizes are monotone in pad
		let mut best = None;
		let mut pad = 0;
		while tail.size_if_fill(p, pad) <= r::HOP_DATA_LEN {
			best = Some(pad);
			pad += 1;
		}
		if let Some(b) = best {
			tail.set_fill(Some(b));
			over_fill = Some(b + 1);
		} else {
			ctx.label("fill-impossible");
		}
	}
	let plan = tail.plan(&secp, p);
	let n = plan.len();
	let v = &plan.view;
	check!(v.size <= r::HOP_DATA_LEN, "harness", "planned size {}", v.size);
	ctx.label(hop_bucket(n));
	ctx.label_if(p == pmax && pmax < tail.max_prefix(), "at-max-hops");
	ctx.label_if(v.size == r::HOP_DATA_LEN, "exact-1300");
	ctx.label_if(v.size >= r::HOP_DATA_LEN - 8, "within-8-of-1300");
	ctx.label_if(plan.n_blinded > 0, &format!("blinded-hops={}", plan.n_blinded));
	ctx.label_if(v.keysend_preimage.is_some(), "keysend");
	ctx.label_if(v.recipient_onion.payment_metadata.is_some(), "metadata");
	ctx.label_if(!v.recipient_onion.custom_tlvs().is_empty(), "custom-tlvs");
	ctx.label_if(c.world.wide, "wide-cltv");
	let rich = plan.n_blinded > 0 || v.keysend_preimage.is_some() || v.recipient_onion.payment_metadata.is_some() || !v.recipient_onion.custom_tlvs().is_empty();
	ctx.nontrivial_if(n >= 3 && (rich || p == pmax));
	ctx.summary(serde_json::json!({
		"seed": c.world.seed, "height": v.height, "hops": n, "blinded_hops": plan.n_blinded, "max_prefix_hops_that_fit": pmax, "prefix_hops": p,
		"hop_data_bytes": v.size, "mode": format!("{:?}", c.mode), "keysend": v.keysend_preimage.is_some(),
		"metadata_len": v.recipient_onion.payment_metadata.as_ref().map(|m| m.len()),
		"custom_tlvs": v.recipient_onion.custom_tlvs().iter().map(|(t, x)| (*t, x.len())).collect::<Vec<_>>(),
	}));

	// (a) the route fits: the builder must accept it and announce the first hop's amount / expiry
	let first = match build(&secp, v) {
		Ok(x) => x,
		Err(e) => return Err(fail("fit-refused", "fit-refused".into(), format!("{} hops needing {} of 1300 bytes were refused: {}", n, v.size, e))),
	};
	check!(first.1 == plan.hop(0).recv_amt && first.2 == plan.hop(0).recv_cltv, "first-hop-values", "builder announces ({}, {}), path says ({}, {})", first.1, first.2, plan.hop(0).recv_amt, plan.hop(0).recv_cltv);
	let end = walk(&secp, &plan, first, n)?;
	check!(end.is_none(), "harness", "walk did not end at the final hop");
	ctx.sub_evaluations(n as u64);

	// (a') one more hop than fits / one more payload byte than fits is refused, not truncated
	if pmax < POOL && tail.size_with_prefix(pmax + 1) > r::HOP_DATA_LEN && !matches!(c.mode, Mode::Take(s) if s & 3 != 0) {
		let over = tail.plan(&secp, pmax + 1);
		ctx.label("over-by-one-hop");
		check!(build(&secp, &over.view).is_err(), "oversize-accepted", "{} hops needing {} bytes were accepted (max that fits: {} hops)", over.len(), over.view.size, pmax + plan.len() - p);
	}
	if let Some(pad) = over_fill {
		drop(plan);
		tail.set_fill(Some(pad));
		let over = tail.plan(&secp, p);
		ctx.label(if over.view.size == r::HOP_DATA_LEN + 1 { "over-by-one-byte" } else { "over-by-few-bytes" });
		check!(over.view.size > r::HOP_DATA_LEN, "harness", "over-fill size {}", over.view.size);
		check!(build(&secp, &over.view).is_err(), "oversize-accepted", "a route needing {} bytes was accepted", over.view.size);
	}
	Ok(())
}

// ------------------------------------------------------------------------------------ part: corrupt

fn oracle_corrupt(c: &CorruptCase, ctx: &mut Ctx) -> CaseResult {
	let secp = Secp256k1::new();
	let Some(mut tail) = Tail::new(&secp, &c.world) else {
		ctx.discard();
		return Ok(());
	};
	if tail.max_fit().is_none() {
		// recipient fields alone overflow the packet: retry with the bulky ones removed
		let mut w = c.world.clone();
		w.recip.custom.clear();
		w.recip.metadata = None;
		tail = Tail::new(&secp, &w).expect("same blinded path");
	}
	let Some(pmax) = tail.max_fit() else {
		ctx.discard();
		return Ok(());
	};
	let plan = tail.plan(&secp, pick(c.take, pmax + 1));
	let n = plan.len();
	let j = pick(c.hop, n);
	let v = &plan.view;
	let first = build(&secp, v).map_err(|e| fail("fit-refused", "fit-refused".into(), format!("{} hops / {} bytes refused: {}", n, v.size, e)))?;
	let mut msg = walk(&secp, &plan, first, j)?.expect("hop j exists");

	// corrupt what hop j receives
	let mut wire = msg.onion_routing_packet.encode();
	let (lo, len) = match c.field {
		Field::Version => (0, 1),
		Field::Pubkey => (1, 33),
		Field::HopData => (34, r::HOP_DATA_LEN),
		Field::Hmac => (34 + r::HOP_DATA_LEN, 32),
		Field::PaymentHash => (0, 32),
	};
	let off = pick(c.pos, len);
	let mut hash = msg.payment_hash.0;
	if c.field == Field::PaymentHash {
		hash[off] ^= c.mask;
		msg.payment_hash = PaymentHash(hash);
	} else {
		wire[lo + off] ^= c.mask;
		msg.onion_routing_packet = Readable::read(&mut &wire[..]).expect("onion packet");
	}
	let blinded_hop = msg.blinding_point.is_some();
	ctx.label(&format!("{:?}", c.field));
	ctx.label(hop_bucket(n));
	ctx.label_if(blinded_hop, "at-blinded-hop");
	ctx.label_if(j == n - 1, "at-final-hop");
	ctx.label_if(c.mask.count_ones() == 1, "single-bit");
	ctx.label_if(msg.onion_routing_packet.public_key.is_err(), "invalid-point");
	ctx.nontrivial_if(n >= 3 && j >= 1);
	ctx.summary(serde_json::json!({ "seed": c.world.seed, "hops": n, "blinded_hops": plan.n_blinded, "corrupted_hop": j, "field": format!("{:?}", c.field), "byte": off, "mask": c.mask }));

	// the reference peel says why a conforming node refuses
	let nd = plan.node(j);
	let ref_sk = match msg.blinding_point {
		Some(pk) => r::blinded_node_secret(&nd.sk, &pk).expect("tweak"),
		None => nd.sk,
	};
	let ref_err = match r::peel(&secp, &ref_sk, &r::Pkt::from_wire(&wire).unwrap(), &hash) {
		Err(e) => e,
		Ok(_) => return Err(fail("harness", "harness/ref-accepts-corrupt".into(), "the reference peel accepted a corrupted packet".into())),
	};
	match peel_payment_onion(&msg, &nd.km, &NullLogger, &secp, v.height - 1, false) {
		Ok(info) => Err(fail(
			"corruption-accepted",
			format!("corruption-accepted/{:?}", c.field),
			format!("hop {}/{} accepted a packet whose {:?} byte {} was XORed with {:#04x}: outgoing amt {} cltv {}", j, n, c.field, off, c.mask, info.outgoing_amt_msat, info.outgoing_cltv_value),
		)),
		Err(e) => {
			// BOLT-4: bad version / key / HMAC are reported as such; inside a blinded path everything
			// is reported as invalid_onion_blinding.
			let want = if blinded_hop {
				LocalHTLCFailureReason::InvalidOnionBlinding
			} else {
				match ref_err {
					r::PeelErr::Version => LocalHTLCFailureReason::InvalidOnionVersion,
					r::PeelErr::Key => LocalHTLCFailureReason::InvalidOnionKey,
					_ => LocalHTLCFailureReason::InvalidOnionHMAC,
				}
			};
			if e.reason != want {
				return Err(fail("reject-reason", format!("reject-reason/{:?}", c.field), format!("hop {}/{} rejected a corrupted {:?} with {:?}, BOLT-4 says {:?}", j, n, c.field, e.reason, want)));
			}
			Ok(())
		},
	}
}

fn grid_cases() -> Vec<ChainCase> {
	use world::{BlindFwdSpec, BlindSpec, HopSpec, RecipSpec};
	let hop = |i: u64| HopSpec { scid: 1000 + 64 * i, fee: 1000 + i, delta: 0 };
	let blind = |k: u64| BlindSpec {
		fwd: (0..k).map(|i| BlindFwdSpec { scid: 5000 + 64 * i, base: 1000, prop: 100, delta: 0 }).collect(),
		min_final: 0,
		excess: 3,
		ctx_meta: None,
		base_bytes: 2,
		htlc_min: 1,
	};
	let shapes: Vec<(RecipSpec, Option<BlindSpec>)> = vec![
		(RecipSpec { secret: true, metadata: None, custom: vec![], keysend: false, total_extra: 0 }, None),
		(RecipSpec { secret: true, metadata: Some(20), custom: vec![(70_001, 10)], keysend: true, total_extra: 5 }, None),
		(RecipSpec { secret: true, metadata: None, custom: vec![], keysend: false, total_extra: 0 }, Some(blind(2))),
		(RecipSpec { secret: true, metadata: None, custom: vec![(70_001, 10)], keysend: true, total_extra: 0 }, Some(blind(0))),
	];
	let mut out = vec![];
	for (si, (recip, bl)) in shapes.into_iter().enumerate() {
		for p in 0..=POOL as u8 {
			let world = World {
				seed: 1000 + si as u64,
				height: 800_000,
				wide: false,
				prefix: (0..POOL as u64).map(hop).collect(),
				last: HopSpec { scid: 99 * 64, fee: 50_000, delta: 0 },
				recip: recip.clone(),
				blind: bl.clone(),
			};
			out.push(ChainCase { world, mode: Mode::Exact(p) });
		}
	}
	out
}

fn main() {
	let mut c = Check::new("C14", "exploration");
	c.assume("Hop keys are production KeysManager signers derived from generated seeds; forwarding hops apply LDK's own relay policy, so per-hop CLTV deltas are >= 48 and the total <= 2015 blocks (amounts, heights, scids and recipient fields are unconstrained within protocol limits)");
	c.assume("Expected payload bytes, packet peeling, failure decoding and attribution-data decoding come from an in-harness BOLT-4 reference (own ChaCha20; HMAC/EC from the bitcoin crate)");
	c.assume("Blinded forwarding hops may forward either floor or ceil of (in-base)*1e6/(1e6+prop) (BOLT-4 formula vs LDK's fee-covering rounding)");
	c.assume("Failure/fulfil attribution is driven through the add-only _verif_hooks accessors of the crate-private helpers; the fulfil-side decoder (decode_fulfill_attribution_data) is not reachable from outside the crate, so fulfil hold times are decoded by the reference");
	c.assume("Trampoline onions and the netsim end-to-end cross-check (design oracle d) are not part of this binary");
	c.part(
		PartSpec {
			name: "build-peel",
			rule: "27-hop pool + recipient (plain / keysend / metadata / custom TLVs / blinded tail of 1-4 hops); path = the last p pool hops + tail with p up to the constructively found maximum that fits 1300 bytes; modes take/max/fill-to-1300; non-trivial: >=3 hops and (rich recipient fields or blinded tail or at the maximum hop count)",
			quick_cases: 12_000,
			thorough_cases: 400_000,
			max_shrink: 600,
		},
		chain_strat(),
		oracle_chain,
	);
	c.part(
		PartSpec {
			name: "corrupt",
			rule: "same worlds; the update_add_htlc arriving at a generated hop has one byte of hop data / version / ephemeral key / HMAC / payment hash XORed with a generated mask (single bit in 3 of 4 cases); non-trivial: >=3 hops and corrupted after the first hop",
			quick_cases: 12_000,
			thorough_cases: 400_000,
			max_shrink: 600,
		},
		corrupt_strat(),
		oracle_corrupt,
	);
	c.enumerate(
		"build-peel-grid",
		"every prefix length 0..=27 (capped at the maximum that fits) for four fixed recipient shapes: plain, keysend+metadata+custom TLV, 3-hop blinded tail, 1-hop blinded tail",
		grid_cases(),
		true,
		oracle_chain,
	);
	fail::register(&mut c);
	c.finish();
}
