//! Constructive half: build `ln::msgs` structs directly (as LDK or an API user would) from plain
//! generated data and require encode -> decode to give an equal value. Values are kept inside what a
//! sender legitimately constructs (no inputs the encoder is documented to normalise, and nothing
//! larger than fits a 65535-byte frame).

use bitcoin::constants::ChainHash;
use bitcoin::hashes::Hash;
use bitcoin::secp256k1::ecdsa::Signature;
use bitcoin::secp256k1::{PublicKey, Secp256k1, SecretKey};
use bitcoin::{ScriptBuf, Txid, Witness};
use lightning::blinded_path::message::BlindedMessagePath;
use lightning::blinded_path::BlindedHop;
use lightning::ln::msgs::{self, SocketAddress};
use lightning::ln::types::ChannelId;
use lightning::ln::wire::verif_hooks::read_wire;
use lightning::routing::gossip::{NodeAlias, NodeId};
use lightning::types::features::{ChannelFeatures, ChannelTypeFeatures, InitFeatures, NodeFeatures};
use lightning::types::payment::PaymentHash;
use lightning::util::ser::{Hostname, LengthReadable, Writeable};
use proptest::collection::vec;
use proptest::prelude::*;
use serde::{Deserialize, Serialize};
use std::fmt::Debug;
use vcore::*;

use crate::layout::{Rng, MAX_PAYLOAD};

#[derive(Clone, Debug, Serialize, Deserialize)]
pub enum CAddr {
	V4([u8; 4], u16),
	V6([u8; 16], u16),
	OnionV2([u8; 12]),
	OnionV3 { key: [u8; 32], checksum: u16, version: u8, port: u16 },
	Host(String, u16),
}

#[derive(Clone, Debug, Serialize, Deserialize)]
pub enum CMsg {
	Init { features: Vec<u8>, networks: Option<Vec<[u8; 32]>>, addr: Option<CAddr> },
	UpdateAdd {
		ids: [u64; 2],
		cltv: u32,
		seed: u64,
		onion_version: u8,
		onion_key_valid: bool,
		skimmed: Option<u64>,
		blinding: bool,
		hold: bool,
		accountable: Option<bool>,
	},
	Reestablish { nums: [u64; 2], seed: u64, next_funding: Option<([u8; 32], u8)>, locked: Option<([u8; 32], u8)> },
	NodeAnn {
		seed: u64,
		features: Vec<u8>,
		timestamp: u32,
		addrs: Vec<CAddr>,
		/// empty, or starting with a descriptor type no implementation knows
		excess_addr: Vec<u8>,
		excess: Vec<u8>,
	},
	ChanUpdate { seed: u64, scid: u64, timestamp: u32, flags: [u8; 2], cltv: u16, amts: [u64; 2], fees: [u32; 2], excess: Vec<u8> },
	ChanAnn { seed: u64, features: Vec<u8>, scid: u64, excess: Vec<u8> },
	OpenV2 { seed: u64, nums: [u64; 4], script: Option<Vec<u8>>, chan_type: Option<Vec<u8>>, confirmed: bool, no_reserve: bool },
	AcceptV1 { seed: u64, nums: [u64; 4], script: Option<Vec<u8>>, chan_type: Option<Vec<u8>> },
	CommitSigned { seed: u64, n_htlc: u16, funding_txid: Option<[u8; 32]> },
	TxSigs { seed: u64, witnesses: Vec<Vec<Vec<u8>>>, shared: bool },
	Revoke { seed: u64, paths: Vec<(u64, u8, Vec<u8>)> },
	Closing { seed: u64, fee: u64, range: Option<(u64, u64)> },
	ErrorMsg { chan: [u8; 32], text: String, warning: bool },
	Ping { ponglen: u16, byteslen: u16 },
	ScidQuery { chain: [u8; 32], scids: Vec<u64>, reply: Option<(u32, u32, bool)> },
	StartBatch { chan: [u8; 32], size: u16, mtype: Option<u16> },
}

fn bytes_any(max: usize) -> impl Strategy<Value = Vec<u8>> + Clone + Send + Sync + 'static {
	// lengths 0, 1 and larger ones all well represented; also vectors ending in zero bytes
	// (for little-endian feature flags: unset high bytes, which Features equality ignores)
	prop_oneof![
		Just(vec![]),
		vec(any::<u8>(), 1..=1),
		vec(any::<u8>(), 0..max.min(48)),
		vec(any::<u8>(), 0..max),
		(vec(any::<u8>(), 0..max.min(16)), 1usize..4).prop_map(|(mut v, z)| {
			v.extend(std::iter::repeat(0u8).take(z));
			v
		}),
	]
}

fn host() -> impl Strategy<Value = String> + Clone + Send + Sync + 'static {
	prop_oneof![
		"[a-zA-Z0-9._-]{0,40}",
		"[a-z0-9.-]{255}", // longest representable
	]
}

fn addr() -> impl Strategy<Value = CAddr> + Clone + Send + Sync + 'static {
	prop_oneof![
		(any::<[u8; 4]>(), any::<u16>()).prop_map(|(a, p)| CAddr::V4(a, p)),
		(any::<[u8; 16]>(), any::<u16>()).prop_map(|(a, p)| CAddr::V6(a, p)),
		any::<[u8; 12]>().prop_map(CAddr::OnionV2),
		(any::<[u8; 32]>(), any::<u16>(), any::<u8>(), any::<u16>())
			.prop_map(|(key, checksum, version, port)| CAddr::OnionV3 { key, checksum, version, port }),
		(host(), any::<u16>()).prop_map(|(h, p)| CAddr::Host(h, p)),
	]
}

fn unknown_addr_tail() -> impl Strategy<Value = Vec<u8>> + Clone + Send + Sync + 'static {
	prop_oneof![
		3 => Just(vec![]),
		1 => (prop_oneof![Just(0u8), 6u8..=255], vec(any::<u8>(), 0..40)).prop_map(|(t, mut v)| {
			v.insert(0, t);
			v
		}),
	]
}

pub fn strat() -> impl Strategy<Value = CMsg> + Clone + Send + Sync + 'static {
	// (two groups: prop_oneof! keeps Send + Sync only up to ten arms)
	prop_oneof![3 => strat_a(), 2 => strat_b()]
}

fn strat_a() -> impl Strategy<Value = CMsg> + Clone + Send + Sync + 'static {
	let s64 = any::<u64>;
	prop_oneof![
		3 => (bytes_any(300), proptest::option::of(vec(any::<[u8; 32]>(), 0..5)), proptest::option::of(addr()))
			.prop_map(|(features, networks, addr)| CMsg::Init { features, networks, addr }),
		3 => (any::<[u64; 2]>(), any::<u32>(), s64(), prop_oneof![Just(0u8), any::<u8>()], prop::bool::weighted(0.8),
				proptest::option::of(s64()), any::<bool>(), any::<bool>(), proptest::option::of(any::<bool>()))
			.prop_map(|(ids, cltv, seed, onion_version, onion_key_valid, skimmed, blinding, hold, accountable)| CMsg::UpdateAdd {
				ids, cltv, seed, onion_version, onion_key_valid, skimmed, blinding, hold, accountable }),
		2 => (any::<[u64; 2]>(), s64(), proptest::option::of((any::<[u8; 32]>(), any::<u8>())), proptest::option::of((any::<[u8; 32]>(), any::<u8>())))
			.prop_map(|(nums, seed, next_funding, locked)| CMsg::Reestablish { nums, seed, next_funding, locked }),
		3 => (s64(), bytes_any(120), any::<u32>(), vec(addr(), 0..8), unknown_addr_tail(), bytes_any(200))
			.prop_map(|(seed, features, timestamp, addrs, excess_addr, excess)| CMsg::NodeAnn { seed, features, timestamp, addrs, excess_addr, excess }),
		2 => (s64(), s64(), any::<u32>(), any::<[u8; 2]>(), any::<u16>(), any::<[u64; 2]>(), any::<[u32; 2]>(), bytes_any(200))
			.prop_map(|(seed, scid, timestamp, flags, cltv, amts, fees, excess)| CMsg::ChanUpdate { seed, scid, timestamp, flags, cltv, amts, fees, excess }),
		1 => (s64(), bytes_any(80), s64(), bytes_any(200)).prop_map(|(seed, features, scid, excess)| CMsg::ChanAnn { seed, features, scid, excess }),
		2 => (s64(), any::<[u64; 4]>(), proptest::option::of(bytes_any(80)), proptest::option::of(bytes_any(40)), any::<bool>(), any::<bool>())
			.prop_map(|(seed, nums, script, chan_type, confirmed, no_reserve)| CMsg::OpenV2 { seed, nums, script, chan_type, confirmed, no_reserve }),
		1 => (s64(), any::<[u64; 4]>(), proptest::option::of(bytes_any(80)), proptest::option::of(bytes_any(40)))
			.prop_map(|(seed, nums, script, chan_type)| CMsg::AcceptV1 { seed, nums, script, chan_type }),
	]
}

fn strat_b() -> impl Strategy<Value = CMsg> + Clone + Send + Sync + 'static {
	let s64 = any::<u64>;
	prop_oneof![
		2 => (s64(), prop_oneof![Just(0u16), Just(1u16), 0u16..40, Just(966u16), Just(1021u16)], proptest::option::of(any::<[u8; 32]>()))
			.prop_map(|(seed, n_htlc, funding_txid)| CMsg::CommitSigned { seed, n_htlc, funding_txid }),
		2 => (s64(), vec(vec(bytes_any(80), 0..4), 0..5), any::<bool>()).prop_map(|(seed, witnesses, shared)| CMsg::TxSigs { seed, witnesses, shared }),
		2 => (s64(), vec((s64(), 1u8..4, bytes_any(60)), 0..4)).prop_map(|(seed, paths)| CMsg::Revoke { seed, paths }),
		1 => (s64(), s64(), proptest::option::of((s64(), s64()))).prop_map(|(seed, fee, range)| CMsg::Closing { seed, fee, range }),
		1 => (any::<[u8; 32]>(), prop_oneof!["[ -~]{0,60}", "\\PC{0,40}"], any::<bool>()).prop_map(|(chan, text, warning)| CMsg::ErrorMsg { chan, text, warning }),
		1 => (any::<u16>(), prop_oneof![Just(0u16), Just(1u16), 0u16..300, Just(65529u16)]).prop_map(|(ponglen, byteslen)| CMsg::Ping { ponglen, byteslen }),
		1 => (any::<[u8; 32]>(), vec(s64(), 0..20), proptest::option::of((any::<u32>(), any::<u32>(), any::<bool>())))
			.prop_map(|(chain, scids, reply)| CMsg::ScidQuery { chain, scids, reply }),
		1 => (any::<[u8; 32]>(), any::<u16>(), proptest::option::of(any::<u16>())).prop_map(|(chan, size, mtype)| CMsg::StartBatch { chan, size, mtype }),
	]
}

fn pk(r: &mut Rng) -> PublicKey {
	let secp = Secp256k1::signing_only();
	loop {
		if let Ok(sk) = SecretKey::from_slice(&r.bytes(32)) {
			return PublicKey::from_secret_key(&secp, &sk);
		}
	}
}
fn sg(r: &mut Rng) -> Signature {
	Signature::from_compact(&crate::layout::sig(r)).expect("r,s below the group order")
}
fn h32(r: &mut Rng) -> [u8; 32] {
	let mut o = [0u8; 32];
	o.copy_from_slice(&r.bytes(32));
	o
}
fn node_id(r: &mut Rng) -> NodeId {
	NodeId::from_pubkey(&pk(r))
}

fn sock(a: &CAddr) -> SocketAddress {
	match a {
		CAddr::V4(addr, port) => SocketAddress::TcpIpV4 { addr: *addr, port: *port },
		CAddr::V6(addr, port) => SocketAddress::TcpIpV6 { addr: *addr, port: *port },
		CAddr::OnionV2(b) => SocketAddress::OnionV2(*b),
		CAddr::OnionV3 { key, checksum, version, port } => {
			SocketAddress::OnionV3 { ed25519_pubkey: *key, checksum: *checksum, version: *version, port: *port }
		},
		CAddr::Host(h, port) => SocketAddress::Hostname { hostname: Hostname::try_from(h.clone()).expect("generated charset is valid"), port: *port },
	}
}

/// encode -> decode equality, `serialized_length`, re-encode equality and the wire dispatch.
fn rt<M: Writeable + LengthReadable + PartialEq + Debug>(m: &M, name: &'static str, id: u16, wire: bool, ctx: &mut Ctx) -> CaseResult {
	ctx.label(name);
	let enc = m.encode();
	if enc.len() > MAX_PAYLOAD {
		ctx.discard();
		return Ok(());
	}
	let fail = |o: &str, d: String| Err(Failure::new(o, format!("[{}] {}", name, d)).with_key(format!("{}/{}", o, name)));
	if m.serialized_length() != enc.len() {
		return fail("c-serialized-length", format!("serialized_length {} != encoded {}", m.serialized_length(), enc.len()));
	}
	let mut rd = &enc[..];
	let back = match M::read_from_fixed_length_buffer(&mut rd) {
		Ok(b) => b,
		Err(e) => return fail("c-decodes", format!("own encoding rejected: {:?}; value {:?}", e, m)),
	};
	if &back != m {
		return fail("c-roundtrip-eq", format!("decode(encode(m)) != m\n m    = {:?}\n back = {:?}", m, back));
	}
	if back.encode() != enc {
		return fail("c-reencode", format!("re-encoding differs for {:?}", m));
	}
	if wire {
		let mut w = id.to_be_bytes().to_vec();
		w.extend_from_slice(&enc);
		match read_wire(&w) {
			Ok(d) => {
				if d.unknown || d.type_id != id || d.reencoded != w {
					return fail("c-wire", format!("wire dispatch of type {} gave unknown={} type_id={} {}", id, d.unknown, d.type_id, d.debug));
				}
			},
			Err((e, t)) => return fail("c-wire", format!("wire::read rejected a constructed message: {:?} {:?}", e, t)),
		}
	}
	Ok(())
}

pub fn oracle(c: &CMsg, ctx: &mut Ctx) -> CaseResult {
	match c {
		CMsg::Init { features, networks, addr } => {
			ctx.nontrivial_if(networks.is_some() || addr.is_some() || features.len() > 2);
			ctx.label_if(features.last() == Some(&0), "init/features-high-zero-bytes");
			let m = msgs::Init {
				features: InitFeatures::from_le_bytes(features.clone()),
				networks: networks.as_ref().map(|n| n.iter().map(|h| ChainHash::from(*h)).collect()),
				remote_network_address: addr.as_ref().map(sock),
			};
			rt(&m, "init", 16, true, ctx)
		},
		CMsg::UpdateAdd { ids, cltv, seed, onion_version, onion_key_valid, skimmed, blinding, hold, accountable } => {
			let mut r = Rng(*seed);
			ctx.nontrivial_if(skimmed.is_some() || *blinding || *hold || accountable.is_some());
			ctx.label_if(!*onion_key_valid, "update_add/bogus-onion-key");
			let mut hop_data = [0u8; 1300];
			hop_data.copy_from_slice(&r.bytes(1300));
			let m = msgs::UpdateAddHTLC {
				channel_id: ChannelId(h32(&mut r)),
				htlc_id: ids[0],
				amount_msat: ids[1],
				payment_hash: PaymentHash(h32(&mut r)),
				cltv_expiry: *cltv,
				skimmed_fee_msat: *skimmed,
				onion_routing_packet: msgs::OnionPacket {
					version: *onion_version,
					// the only way the library itself produces the Err arm: a key that failed to parse
					public_key: if *onion_key_valid { Ok(pk(&mut r)) } else { PublicKey::from_slice(&[0u8; 33]) },
					hop_data,
					hmac: h32(&mut r),
				},
				blinding_point: if *blinding { Some(pk(&mut r)) } else { None },
				hold_htlc: if *hold { Some(()) } else { None },
				accountable: *accountable,
			};
			rt(&m, "update_add_htlc", 128, true, ctx)
		},
		CMsg::Reestablish { nums, seed, next_funding, locked } => {
			let mut r = Rng(*seed);
			ctx.nontrivial_if(next_funding.is_some() || locked.is_some());
			let m = msgs::ChannelReestablish {
				channel_id: ChannelId(h32(&mut r)),
				next_local_commitment_number: nums[0],
				next_remote_commitment_number: nums[1],
				your_last_per_commitment_secret: h32(&mut r),
				my_current_per_commitment_point: pk(&mut r),
				next_funding: next_funding.map(|(t, f)| msgs::NextFunding { txid: Txid::from_byte_array(t), retransmit_flags: f }),
				my_current_funding_locked: locked.map(|(t, f)| msgs::FundingLocked { txid: Txid::from_byte_array(t), retransmit_flags: f }),
			};
			rt(&m, "channel_reestablish", 136, true, ctx)
		},
		CMsg::NodeAnn { seed, features, timestamp, addrs, excess_addr, excess } => {
			let mut r = Rng(*seed);
			ctx.nontrivial_if(!addrs.is_empty() || !excess_addr.is_empty() || !excess.is_empty());
			for a in addrs.iter() {
				ctx.label(match a {
					CAddr::V4(..) => "addr/v4",
					CAddr::V6(..) => "addr/v6",
					CAddr::OnionV2(..) => "addr/onion2",
					CAddr::OnionV3 { .. } => "addr/onion3",
					CAddr::Host(..) => "addr/hostname",
				});
			}
			ctx.label_if(!excess_addr.is_empty(), "node_ann/unknown-descriptor-tail");
			let mut rgb = [0u8; 3];
			rgb.copy_from_slice(&r.bytes(3));
			let m = msgs::NodeAnnouncement {
				signature: sg(&mut r),
				contents: msgs::UnsignedNodeAnnouncement {
					features: NodeFeatures::from_le_bytes(features.clone()),
					timestamp: *timestamp,
					node_id: node_id(&mut r),
					rgb,
					alias: NodeAlias(h32(&mut r)),
					addresses: addrs.iter().map(sock).collect(),
					excess_address_data: excess_addr.clone(),
					excess_data: excess.clone(),
				},
			};
			rt(&m, "node_announcement", 257, true, ctx)
		},
		CMsg::ChanUpdate { seed, scid, timestamp, flags, cltv, amts, fees, excess } => {
			let mut r = Rng(*seed);
			ctx.nontrivial_if(!excess.is_empty() || flags[1] != 0);
			let m = msgs::ChannelUpdate {
				signature: sg(&mut r),
				contents: msgs::UnsignedChannelUpdate {
					chain_hash: ChainHash::from(h32(&mut r)),
					short_channel_id: *scid,
					timestamp: *timestamp,
					// bit 0 (`must_be_one`) is forced on by the encoder; a sender sets it
					message_flags: flags[0] | 1,
					channel_flags: flags[1],
					cltv_expiry_delta: *cltv,
					htlc_minimum_msat: amts[0],
					htlc_maximum_msat: amts[1],
					fee_base_msat: fees[0],
					fee_proportional_millionths: fees[1],
					excess_data: excess.clone(),
				},
			};
			rt(&m, "channel_update", 258, true, ctx)
		},
		CMsg::ChanAnn { seed, features, scid, excess } => {
			let mut r = Rng(*seed);
			ctx.nontrivial_if(!excess.is_empty() || !features.is_empty());
			let m = msgs::ChannelAnnouncement {
				node_signature_1: sg(&mut r),
				node_signature_2: sg(&mut r),
				bitcoin_signature_1: sg(&mut r),
				bitcoin_signature_2: sg(&mut r),
				contents: msgs::UnsignedChannelAnnouncement {
					features: ChannelFeatures::from_le_bytes(features.clone()),
					chain_hash: ChainHash::from(h32(&mut r)),
					short_channel_id: *scid,
					node_id_1: node_id(&mut r),
					node_id_2: node_id(&mut r),
					bitcoin_key_1: node_id(&mut r),
					bitcoin_key_2: node_id(&mut r),
					excess_data: excess.clone(),
				},
			};
			rt(&m, "channel_announcement", 256, true, ctx)
		},
		CMsg::OpenV2 { seed, nums, script, chan_type, confirmed, no_reserve } => {
			let mut r = Rng(*seed);
			ctx.nontrivial_if(script.is_some() || chan_type.is_some() || *confirmed || *no_reserve);
			let m = msgs::OpenChannelV2 {
				common_fields: msgs::CommonOpenChannelFields {
					chain_hash: ChainHash::from(h32(&mut r)),
					temporary_channel_id: ChannelId(h32(&mut r)),
					funding_satoshis: nums[0],
					dust_limit_satoshis: nums[1],
					max_htlc_value_in_flight_msat: nums[2],
					htlc_minimum_msat: nums[3],
					commitment_feerate_sat_per_1000_weight: r.next() as u32,
					to_self_delay: r.next() as u16,
					max_accepted_htlcs: r.next() as u16,
					funding_pubkey: pk(&mut r),
					revocation_basepoint: pk(&mut r),
					payment_basepoint: pk(&mut r),
					delayed_payment_basepoint: pk(&mut r),
					htlc_basepoint: pk(&mut r),
					first_per_commitment_point: pk(&mut r),
					channel_flags: r.next() as u8,
					shutdown_scriptpubkey: script.clone().map(ScriptBuf::from),
					channel_type: chan_type.clone().map(ChannelTypeFeatures::from_le_bytes),
				},
				funding_feerate_sat_per_1000_weight: r.next() as u32,
				locktime: r.next() as u32,
				second_per_commitment_point: pk(&mut r),
				require_confirmed_inputs: if *confirmed { Some(()) } else { None },
				disable_channel_reserve: if *no_reserve { Some(()) } else { None },
			};
			rt(&m, "open_channel2", 64, true, ctx)
		},
		CMsg::AcceptV1 { seed, nums, script, chan_type } => {
			let mut r = Rng(*seed);
			ctx.nontrivial_if(script.is_some() || chan_type.is_some());
			let m = msgs::AcceptChannel {
				common_fields: msgs::CommonAcceptChannelFields {
					temporary_channel_id: ChannelId(h32(&mut r)),
					dust_limit_satoshis: nums[0],
					max_htlc_value_in_flight_msat: nums[1],
					htlc_minimum_msat: nums[2],
					minimum_depth: r.next() as u32,
					to_self_delay: r.next() as u16,
					max_accepted_htlcs: r.next() as u16,
					funding_pubkey: pk(&mut r),
					revocation_basepoint: pk(&mut r),
					payment_basepoint: pk(&mut r),
					delayed_payment_basepoint: pk(&mut r),
					htlc_basepoint: pk(&mut r),
					first_per_commitment_point: pk(&mut r),
					shutdown_scriptpubkey: script.clone().map(ScriptBuf::from),
					channel_type: chan_type.clone().map(ChannelTypeFeatures::from_le_bytes),
				},
				channel_reserve_satoshis: nums[3],
			};
			rt(&m, "accept_channel", 33, true, ctx)
		},
		CMsg::CommitSigned { seed, n_htlc, funding_txid } => {
			let mut r = Rng(*seed);
			ctx.nontrivial_if(funding_txid.is_some() || *n_htlc <= 1 || *n_htlc > 900);
			let m = msgs::CommitmentSigned {
				channel_id: ChannelId(h32(&mut r)),
				signature: sg(&mut r),
				htlc_signatures: (0..*n_htlc).map(|_| sg(&mut r)).collect(),
				funding_txid: funding_txid.map(Txid::from_byte_array),
			};
			rt(&m, "commitment_signed", 132, true, ctx)
		},
		CMsg::TxSigs { seed, witnesses, shared } => {
			let mut r = Rng(*seed);
			ctx.nontrivial_if(*shared || witnesses.len() <= 1);
			let m = msgs::TxSignatures {
				channel_id: ChannelId(h32(&mut r)),
				tx_hash: Txid::from_byte_array(h32(&mut r)),
				witnesses: witnesses.iter().map(|w| Witness::from_slice(&w[..])).collect(),
				shared_input_signature: if *shared { Some(sg(&mut r)) } else { None },
			};
			rt(&m, "tx_signatures", 71, true, ctx)
		},
		CMsg::Revoke { seed, paths } => {
			let mut r = Rng(*seed);
			ctx.nontrivial_if(!paths.is_empty());
			let m = msgs::RevokeAndACK {
				channel_id: ChannelId(h32(&mut r)),
				per_commitment_secret: h32(&mut r),
				next_per_commitment_point: pk(&mut r),
				release_htlc_message_paths: paths
					.iter()
					.map(|(id, hops, payload)| {
						let intro = pk(&mut r);
						let blinding = pk(&mut r);
						let hops = (0..*hops).map(|_| BlindedHop { blinded_node_id: pk(&mut r), encrypted_payload: payload.clone() }).collect();
						(*id, BlindedMessagePath::from_blinded_path(intro, blinding, hops))
					})
					.collect(),
			};
			rt(&m, "revoke_and_ack", 133, true, ctx)
		},
		CMsg::Closing { seed, fee, range } => {
			let mut r = Rng(*seed);
			ctx.nontrivial_if(range.is_some());
			let m = msgs::ClosingSigned {
				channel_id: ChannelId(h32(&mut r)),
				fee_satoshis: *fee,
				signature: sg(&mut r),
				fee_range: range.map(|(a, b)| msgs::ClosingSignedFeeRange { min_fee_satoshis: a, max_fee_satoshis: b }),
			};
			rt(&m, "closing_signed", 39, true, ctx)
		},
		CMsg::ErrorMsg { chan, text, warning } => {
			ctx.nontrivial_if(text.len() <= 1 || !text.is_ascii());
			if *warning {
				rt(&msgs::WarningMessage { channel_id: ChannelId(*chan), data: text.clone() }, "warning", 1, true, ctx)
			} else {
				rt(&msgs::ErrorMessage { channel_id: ChannelId(*chan), data: text.clone() }, "error", 17, true, ctx)
			}
		},
		CMsg::Ping { ponglen, byteslen } => {
			ctx.nontrivial_if(*byteslen <= 1 || *byteslen > 60000);
			rt(&msgs::Ping { ponglen: *ponglen, byteslen: *byteslen }, "ping", 18, true, ctx)?;
			rt(&msgs::Pong { byteslen: *byteslen }, "pong", 19, true, ctx)
		},
		CMsg::ScidQuery { chain, scids, reply } => {
			ctx.nontrivial_if(scids.len() <= 1 || reply.is_some());
			match reply {
				None => rt(
					&msgs::QueryShortChannelIds { chain_hash: ChainHash::from(*chain), short_channel_ids: scids.clone() },
					"query_short_channel_ids",
					261,
					true,
					ctx,
				),
				Some((a, b, c)) => rt(
					&msgs::ReplyChannelRange {
						chain_hash: ChainHash::from(*chain),
						first_blocknum: *a,
						number_of_blocks: *b,
						sync_complete: *c,
						short_channel_ids: scids.clone(),
					},
					"reply_channel_range",
					264,
					true,
					ctx,
				),
			}
		},
		CMsg::StartBatch { chan, size, mtype } => {
			ctx.nontrivial_if(mtype.is_some());
			rt(&msgs::StartBatch { channel_id: ChannelId(*chan), batch_size: *size, message_type: *mtype }, "start_batch", 127, true, ctx)
		},
	}
}
