//! C13 — peer messages round-trip through the wire format and decoding is total.
//!
//! Parts (cheapest first)
//!  * `named-fields` 48 message types built field by field in BOLT order next to their expected BOLT
//!                   encoding: encode(m) == expected and decode(expected) == m (ties every *named* struct
//!                   field to its wire position).
//!  * `layout`       canonical bytes instantiated from an independent BOLT layout template (all 50 types)
//!                   must decode, re-encode to exactly the template bytes, report the right
//!                   `serialized_length`, dispatch under the BOLT type number, and never consume past the
//!                   declared length.
//!  * `destructive`  every truncation, unknown odd / even TLV, non-minimal BigSize, mis-ordered and
//!                   duplicated records, wrong-size known records, inner length descriptors off by one,
//!                   invalid points / signatures / booleans / encodings of each valid encoding, with the
//!                   expected verdict derived from the template (never from the decoder).
//!  * `totality`     arbitrary bytes, byte edits, splices, garbage tails and cross-type feeding: no panic,
//!                   and whatever decodes is stable under re-encoding; slice reader, length-limited
//!                   reader and `wire::read` agree.
//!  * `constructive` structs built directly from generated values -> encode -> decode equality.
//!  * `wire-ids`     all 65536 type numbers: unassigned ones come back as Unknown(id) whatever the
//!                   payload, assigned ones never do.

mod construct;
mod layout;
mod named;

use layout::*;
use layout::Rng;
use lightning::ln::msgs::DecodeError;
use lightning::ln::wire::verif_hooks::read_wire;
use lightning::util::ser::FixedLengthReader;
use proptest::collection::vec;
use proptest::prelude::*;
use serde::{Deserialize, Serialize};
use vcore::*;

type Decoded = Result<Box<dyn AnyMsg>, DecodeError>;

fn hx(b: &[u8]) -> String {
	if b.len() <= 120 {
		hex(b)
	} else {
		format!("{}…[{} bytes]…{}", hex(&b[..80]), b.len(), hex(&b[b.len() - 24..]))
	}
}

fn fail(oracle: &str, name: &str, detail: String) -> Failure {
	Failure::new(oracle, format!("[{}] {}", name, detail)).with_key(format!("{}/{}", oracle, name))
}

macro_rules! ens {
	($cond:expr, $oracle:expr, $name:expr, $($arg:tt)*) => {
		if !($cond) {
			return Err(fail($oracle, $name, format!($($arg)*)));
		}
	};
}

fn first_diff(a: &[u8], b: &[u8]) -> usize {
	a.iter().zip(b.iter()).position(|(x, y)| x != y).unwrap_or(a.len().min(b.len()))
}

// ---------------------------------------------------------------------------------------------
// oracles shared by all byte-level parts
// ---------------------------------------------------------------------------------------------

/// Property clause: re-encoding any successfully decoded message yields bytes that decode to the
/// same message; `serialized_length` equals the encoded length; the normal form is a fixed point.
fn stable(k: usize, name: &str, m: &dyn AnyMsg, input: &[u8]) -> CaseResult {
	let e = m.enc();
	ens!(m.slen() == e.len(), "serialized-length", name, "serialized_length()={} but encode() gives {} bytes; input {}", m.slen(), e.len(), hx(input));
	let m2 = match dec(k, &e) {
		Ok(x) => x,
		Err(err) => return Err(fail("reencode-decodes", name, format!("decoded {} from {} but its re-encoding {} is rejected with {:?}", m.dbg(), hx(input), hx(&e), err))),
	};
	ens!(m2.same(m), "reencode-roundtrip-eq", name, "decode(encode(m)) != m: m={} back={} input {}", m.dbg(), m2.dbg(), hx(input));
	let e2 = m2.enc();
	ens!(e2 == e, "reencode-stable", name, "second re-encoding differs at byte {}: {} vs {}", first_diff(&e, &e2), hx(&e), hx(&e2));
	Ok(())
}

/// Bytes placed after the declared end of the message: ascending odd TLV records, so a decoder that
/// wandered past the end would happily keep parsing.
const POISON: [u8; 24] = [0xe1, 0, 0xe3, 0, 0xe5, 0, 0xe7, 0, 0xe9, 0, 0xeb, 0, 0xed, 0, 0xef, 0, 0xf1, 0, 0xf3, 0, 0xf5, 0, 0xf7, 0];

/// "never reads past the declared length": the same input behind a length-limited reader that is
/// followed by more bytes must give the same verdict and leave the following bytes untouched.
fn length_limited(k: usize, name: &str, input: &[u8], plain: &Decoded) -> CaseResult {
	let mut buf = Vec::with_capacity(input.len() + POISON.len());
	buf.extend_from_slice(input);
	buf.extend_from_slice(&POISON);
	let mut sl = &buf[..];
	let res = {
		let mut flr = FixedLengthReader::new(&mut sl, input.len() as u64);
		decode(k, &mut flr)
	};
	let consumed = buf.len() - sl.len();
	ens!(consumed <= input.len(), "reads-past-length", name, "consumed {} bytes of a {}-byte message: {}", consumed, input.len(), hx(input));
	match (plain, &res) {
		(Ok(a), Ok(b)) => ens!(a.same(&**b), "length-limited-differential", name, "slice reader gave {} but length-limited reader gave {} for {}", a.dbg(), b.dbg(), hx(input)),
		(Err(a), Err(b)) => ens!(a == b, "length-limited-differential", name, "slice reader failed with {:?} but length-limited reader with {:?} for {}", a, b, hx(input)),
		(Ok(a), Err(b)) => return Err(fail("length-limited-differential", name, format!("slice reader gave {} but length-limited reader failed with {:?} for {}", a.dbg(), b, hx(input)))),
		(Err(a), Ok(b)) => return Err(fail("length-limited-differential", name, format!("slice reader failed with {:?} but length-limited reader gave {} for {}", a, b.dbg(), hx(input)))),
	}
	Ok(())
}

/// The type-number dispatch (`wire::read`) must hand the payload to the decoder of exactly this
/// message type: same verdict, same message (compared through its re-encoding), same type id.
fn wire_dispatch(spec: &Spec, input: &[u8], plain: &Decoded) -> CaseResult {
	if !spec.wire {
		return Ok(());
	}
	let name = spec.name;
	let mut w = spec.id.to_be_bytes().to_vec();
	w.extend_from_slice(input);
	match (read_wire(&w), plain) {
		(Ok(d), Ok(m)) => {
			ens!(!d.unknown && d.type_id == spec.id, "wire-dispatch", name, "type {} dispatched as unknown={} type_id={} ({})", spec.id, d.unknown, d.type_id, d.debug);
			let mut exp = spec.id.to_be_bytes().to_vec();
			exp.extend(m.enc());
			ens!(d.reencoded == exp, "wire-dispatch", name, "type {} decoded by wire::read as {} but the {} decoder gives {}", spec.id, d.debug, name, m.dbg());
		},
		(Err((e, t)), Err(e2)) => {
			ens!(t == Some(spec.id) && e == *e2, "wire-dispatch", name, "wire::read failed with ({:?},{:?}), typed decoder with {:?}; payload {}", e, t, e2, hx(input));
		},
		(Ok(d), Err(e)) => return Err(fail("wire-dispatch", name, format!("wire::read accepted ({}) what the {} decoder rejects with {:?}; payload {}", d.debug, name, e, hx(input)))),
		(Err((e, t)), Ok(m)) => return Err(fail("wire-dispatch", name, format!("wire::read rejected ({:?},{:?}) what the {} decoder accepts as {}; payload {}", e, t, name, m.dbg(), hx(input)))),
	}
	Ok(())
}

/// Decode `input` as message kind `k` and apply every input-independent oracle to the outcome.
/// A panic anywhere in here is caught by the runner and reported as `panic@file:line`.
fn observe(k: usize, spec: &Spec, input: &[u8]) -> Result<Decoded, Failure> {
	let r = dec(k, input);
	if let Ok(m) = &r {
		stable(k, spec.name, &**m, input)?;
	}
	length_limited(k, spec.name, input, &r)?;
	wire_dispatch(spec, input, &r)?;
	Ok(r)
}

fn observe_light(k: usize, spec: &Spec, input: &[u8]) -> Result<Decoded, Failure> {
	let r = dec(k, input);
	if let Ok(m) = &r {
		stable(k, spec.name, &**m, input)?;
	}
	Ok(r)
}

fn must_err(k: usize, spec: &Spec, input: &[u8], oracle: &str, what: &str) -> CaseResult {
	match observe(k, spec, input)? {
		Err(_) => Ok(()),
		Ok(m) => Err(fail(oracle, spec.name, format!("{}: accepted as {}; input {}", what, m.dbg(), hx(input)))),
	}
}

// ---------------------------------------------------------------------------------------------
// part 1: layout
// ---------------------------------------------------------------------------------------------

fn inst_strat() -> impl Strategy<Value = Inst> + Clone + Send + Sync + 'static {
	(any::<u16>(), any::<u8>(), vec(any::<u16>(), 0..8), any::<u64>()).prop_map(|(msg, tlv_mask, lens, seed)| Inst { msg, tlv_mask, lens, seed })
}

fn layout_oracle(inst: &Inst, ctx: &mut Ctx) -> CaseResult {
	let (k, spec, b) = build(inst);
	let name = spec.name;
	let bytes = &b.bytes[..];
	ctx.label(name);
	ctx.label_if(!b.recs.is_empty(), "has-optional-tlv");
	ctx.label_if(b.recs.len() >= 2, "has-2+-optional-tlvs");
	ctx.label_if(b.b0, "len-0");
	ctx.label_if(b.b1, "len-1");
	ctx.label_if(b.bmax, "len-max-fitting");
	ctx.label_if(bytes.len() + 2 >= MAX_PAYLOAD, "fills-frame");
	ctx.label_if(b.fallback, "generator-fallback");
	ctx.nontrivial_if(!b.recs.is_empty() || b.b0 || b.b1 || b.bmax);
	ctx.summary(serde_json::json!({ "message": name, "len": bytes.len(), "tlv_records": b.recs.iter().map(|r| r.typ).collect::<Vec<_>>(), "bytes": hx(bytes) }));

	let m = match dec(k, bytes) {
		Ok(m) => m,
		Err(e) => return Err(fail("valid-decodes", name, format!("spec-conformant encoding rejected with {:?}: {}", e, hx(bytes)))),
	};
	let e = m.enc();
	ens!(e == bytes, "encode-matches-layout", name, "encode(decode(b)) differs from the BOLT layout at byte {} (field offsets {:?}): layout {} encoder {}", first_diff(&e, bytes), b.field_offs, hx(bytes), hx(&e));
	stable(k, name, &*m, bytes)?;
	let r = Ok(m);
	length_limited(k, name, bytes, &r)?;
	wire_dispatch(spec, bytes, &r)?;
	Ok(())
}

// ---------------------------------------------------------------------------------------------
// part 2: destructive
// ---------------------------------------------------------------------------------------------

#[derive(Clone, Debug, Serialize, Deserialize)]
struct DCase {
	inst: Inst,
	mseed: u64,
}

fn unknown_type(r: &mut Rng, known: &[(u64, TK)], odd: bool, below: Option<u64>) -> Option<u64> {
	for _ in 0..64 {
		let t = match r.below(6) {
			0 | 1 => r.below(252),
			2 => 253 + r.below(65000),
			3 => 65536 + r.below(1 << 20),
			4 => (1u64 << 32) + r.below(1 << 40),
			_ => r.below(2000),
		};
		let t = if let Some(lim) = below { t % lim.max(1) } else { t };
		let t = if odd { t | 1 } else { t & !1 };
		if below.map(|l| t >= l).unwrap_or(false) {
			continue;
		}
		if !known.iter().any(|(k, _)| *k == t) {
			return Some(t);
		}
	}
	None
}

fn record(typ_enc: &[u8], len_enc: &[u8], val: &[u8]) -> Vec<u8> {
	let mut o = typ_enc.to_vec();
	o.extend_from_slice(len_enc);
	o.extend_from_slice(val);
	o
}

fn splice(bytes: &[u8], at: usize, del: usize, ins: &[u8]) -> Vec<u8> {
	let mut o = bytes[..at].to_vec();
	o.extend_from_slice(ins);
	o.extend_from_slice(&bytes[at + del..]);
	o
}

fn sorted_pos(b: &Built, typ: u64) -> usize {
	b.recs.iter().find(|r| r.typ > typ).map(|r| r.start).unwrap_or(b.bytes.len())
}

fn pick_nm(r: &mut Rng, v: u64) -> Option<Vec<u8>> {
	let forms = bigsize_non_minimal(v);
	if forms.is_empty() {
		None
	} else {
		let i = r.below(forms.len() as u64) as usize;
		Some(forms[i].clone())
	}
}

fn destructive_oracle(c: &DCase, ctx: &mut Ctx) -> CaseResult {
	let (k, spec, b) = build(&c.inst);
	let name = spec.name;
	let bytes = &b.bytes[..];
	let n = bytes.len();
	let orig = match dec(k, bytes) {
		Ok(m) => m,
		Err(e) => return Err(fail("valid-decodes", name, format!("spec-conformant encoding rejected with {:?}: {}", e, hx(bytes)))),
	};
	let mut r = Rng(c.mseed);
	let mut evals = 0u64;
	let room = MAX_PAYLOAD - n; // a peer cannot send more than one frame

	// --- truncations: Err, except exactly at the end of the mandatory part / between TLV records
	// (then: the message without the dropped records) or inside free-form signed excess data.
	let positions: Vec<usize> = if n <= 1600 {
		(0..n).collect()
	} else {
		let mut p: Vec<usize> = vec![0, 1, n - 1, n - 2];
		for o in b.field_offs.iter().chain(b.recs.iter().map(|x| &x.start)).chain(b.recs.iter().map(|x| &x.val)).chain(b.tlv_start.iter()).chain(b.rest_start.iter()) {
			p.extend_from_slice(&[o.saturating_sub(1), *o, o + 1]);
		}
		for _ in 0..48 {
			p.push(r.below(n as u64) as usize);
		}
		p.retain(|x| *x < n);
		p.sort();
		p.dedup();
		p
	};
	let mut boundary_ok = 0;
	for &t in positions.iter() {
		let expect_ok = match (b.tlv_start, b.rest_start) {
			(Some(ts), _) => t == ts || b.recs.iter().any(|x| x.end == t),
			(None, Some(rs)) => t >= rs,
			(None, None) => false,
		};
		let got = observe_light(k, spec, &bytes[..t])?;
		evals += 1;
		match (expect_ok, got) {
			(false, Err(_)) => {},
			(false, Ok(m)) => return Err(fail("truncation-accepted", name, format!("{} of {} bytes accepted as {} (a partially filled message); full encoding {}", t, n, m.dbg(), hx(bytes)))),
			(true, Ok(m)) => {
				boundary_ok += 1;
				ens!(m.enc() == bytes[..t], "truncation-at-boundary", name, "prefix of {} bytes (end of a complete record) decoded to {} which is not the message without the dropped records; full {}", t, m.dbg(), hx(bytes));
			},
			(true, Err(e)) => return Err(fail("truncation-at-boundary", name, format!("prefix of {} bytes ends exactly after the mandatory part / a complete TLV record but was rejected with {:?}; full {}", t, e, hx(bytes)))),
		}
	}
	ctx.label_if(boundary_ok > 0, "trunc/at-record-boundary-ok");
	ctx.label_if(n > 1600, "trunc/sampled");

	// --- TLV stream rules (BOLT 1)
	let uval = {
		let l = [0usize, 1, 8, 33, 300][r.below(5) as usize].min(room.saturating_sub(16));
		r.bytes(l)
	};
	if let Some(known) = spec.tlv {
		ctx.label_if(!b.recs.is_empty(), "tlv/has-known-records");
		// unknown odd record at its sorted position: ignored, message equal to the original
		if let Some(t) = unknown_type(&mut r, known, true, None) {
			let rec = record(&bigsize(t), &bigsize(uval.len() as u64), &uval);
			if rec.len() <= room {
				let inp = splice(bytes, sorted_pos(&b, t), 0, &rec);
				match observe(k, spec, &inp)? {
					Ok(m) => {
						ens!(m.same(&*orig), "unknown-odd-tlv-ignored", name, "unknown odd record type {} changed the message: {} vs {}; input {}", t, m.dbg(), orig.dbg(), hx(&inp));
						ens!(m.enc() == bytes, "unknown-odd-tlv-ignored", name, "unknown odd record type {} leaked into the re-encoding; input {}", t, hx(&inp));
					},
					Err(e) => return Err(fail("unknown-odd-tlv-ignored", name, format!("unknown odd record type {} rejected with {:?}; input {}", t, e, hx(&inp)))),
				}
				evals += 1;
				ctx.label("tlv/odd-ignored");
				// the same record twice in a row: types must strictly increase
				if 2 * rec.len() <= room {
					let mut two = rec.clone();
					two.extend_from_slice(&rec);
					let inp = splice(bytes, sorted_pos(&b, t), 0, &two);
					must_err(k, spec, &inp, "tlv-order", &format!("duplicate unknown odd record type {}", t))?;
					evals += 1;
				}
				// non-minimal BigSize in type or length of an otherwise ignorable record
				if let Some(nm) = pick_nm(&mut r, t) {
					let bad = record(&nm, &bigsize(uval.len() as u64), &uval);
					if bad.len() <= room {
						let inp = splice(bytes, sorted_pos(&b, t), 0, &bad);
						must_err(k, spec, &inp, "non-minimal-bigsize", &format!("non-minimal type encoding {} of record {}", hex(&nm), t))?;
						evals += 1;
						ctx.label("tlv/non-minimal-type");
					}
				}
				if let Some(nm) = pick_nm(&mut r, uval.len() as u64) {
					let bad = record(&bigsize(t), &nm, &uval);
					if bad.len() <= room {
						let inp = splice(bytes, sorted_pos(&b, t), 0, &bad);
						must_err(k, spec, &inp, "non-minimal-bigsize", &format!("non-minimal length encoding {} of record {}", hex(&nm), t))?;
						evals += 1;
						ctx.label("tlv/non-minimal-length");
					}
				}
			} else {
				ctx.label("skip/no-room");
			}
		}
		// unknown even record: must fail
		if let Some(t) = unknown_type(&mut r, known, false, None) {
			let rec = record(&bigsize(t), &bigsize(uval.len() as u64), &uval);
			if rec.len() <= room {
				let inp = splice(bytes, sorted_pos(&b, t), 0, &rec);
				must_err(k, spec, &inp, "unknown-even-tlv-rejected", &format!("unknown even record type {}", t))?;
				evals += 1;
				ctx.label("tlv/even-rejected");
			}
		}
		if !b.recs.is_empty() {
			let i = r.below(b.recs.len() as u64) as usize;
			let rc = &b.recs[i];
			let val = &bytes[rc.val..rc.end];
			// known record with non-minimal type / length
			if let Some(nm) = pick_nm(&mut r, rc.typ) {
				if nm.len() <= room + 1 {
					let inp = splice(bytes, rc.start, rc.end - rc.start, &record(&nm, &bigsize(val.len() as u64), val));
					must_err(k, spec, &inp, "non-minimal-bigsize", &format!("non-minimal type encoding {} of known record {}", hex(&nm), rc.typ))?;
					evals += 1;
				}
			}
			if let Some(nm) = pick_nm(&mut r, val.len() as u64) {
				if nm.len() <= room + 1 {
					let inp = splice(bytes, rc.start, rc.end - rc.start, &record(&bigsize(rc.typ), &nm, val));
					must_err(k, spec, &inp, "non-minimal-bigsize", &format!("non-minimal length encoding {} of known record {}", hex(&nm), rc.typ))?;
					evals += 1;
					ctx.label("tlv/non-minimal-known");
				}
			}
			// known record duplicated
			if rc.end - rc.start <= room {
				let inp = splice(bytes, rc.end, 0, &bytes[rc.start..rc.end]);
				must_err(k, spec, &inp, "tlv-order", &format!("known record {} present twice", rc.typ))?;
				evals += 1;
				ctx.label("tlv/dup-known");
			}
			// two adjacent known records swapped
			if b.recs.len() >= 2 {
				let j = r.below(b.recs.len() as u64 - 1) as usize;
				let (a, z) = (&b.recs[j], &b.recs[j + 1]);
				let mut sw = bytes[z.start..z.end].to_vec();
				sw.extend_from_slice(&bytes[a.start..a.end]);
				let inp = splice(bytes, a.start, z.end - a.start, &sw);
				must_err(k, spec, &inp, "tlv-order", &format!("records {} and {} in descending order", z.typ, a.typ))?;
				evals += 1;
				ctx.label("tlv/swapped");
			}
			// an (ignorable) odd record with a lower type after the last known record
			let last = b.recs.last().unwrap();
			if let Some(t) = unknown_type(&mut r, known, true, Some(last.typ)) {
				let rec = record(&bigsize(t), &bigsize(uval.len() as u64), &uval);
				if rec.len() <= room {
					let inp = splice(bytes, n, 0, &rec);
					must_err(k, spec, &inp, "tlv-order", &format!("odd record {} after record {}", t, last.typ))?;
					evals += 1;
					ctx.label("tlv/descending-odd");
				}
			}
			// known fixed-size record whose declared length is one off (content adjusted so that the
			// rest of the stream stays well-formed): "MUST fail if length is not exactly the known size"
			let fixed: Vec<&Rec> = b.recs.iter().filter(|x| x.fixed.is_some()).collect();
			if !fixed.is_empty() {
				let rc = fixed[r.below(fixed.len() as u64) as usize];
				let val = &bytes[rc.val..rc.end];
				let mut longer = val.to_vec();
				longer.push(r.next() as u8);
				if room >= 3 {
					let inp = splice(bytes, rc.start, rc.end - rc.start, &record(&bigsize(rc.typ), &bigsize(longer.len() as u64), &longer));
					must_err(k, spec, &inp, "tlv-length-mismatch", &format!("known record {} of fixed size {} sent with {} bytes", rc.typ, val.len(), longer.len()))?;
					evals += 1;
				}
				if !val.is_empty() {
					let shorter = &val[..val.len() - 1];
					let inp = splice(bytes, rc.start, rc.end - rc.start, &record(&bigsize(rc.typ), &bigsize(shorter.len() as u64), shorter));
					must_err(k, spec, &inp, "tlv-length-mismatch", &format!("known record {} of fixed size {} sent with {} bytes", rc.typ, val.len(), shorter.len()))?;
					evals += 1;
				}
				ctx.label("tlv/fixed-size-mismatch");
			}
		}
	} else {
		// Decoders that do not look at the extension at all (allowed: "MAY ignore the extension"):
		// an appended odd record must at least not disturb the message.
		for odd in [true, false] {
			if let Some(t) = unknown_type(&mut r, &[], odd, None) {
				let rec = record(&bigsize(t), &bigsize(uval.len() as u64), &uval);
				if rec.len() > room {
					continue;
				}
				let inp = splice(bytes, n, 0, &rec);
				let got = observe(k, spec, &inp)?;
				evals += 1;
				match got {
					Ok(m) => {
						if b.rest_start.is_some() {
							// signed gossip: unknown trailing data is kept verbatim for re-broadcast
							ens!(m.enc() == inp, "extension-preserved", name, "trailing data was not preserved verbatim: {} -> {}", hx(&inp), hx(&m.enc()));
							ctx.label("ext/kept-as-excess-data");
						} else {
							ens!(m.same(&*orig) && m.enc() == bytes, "extension-ignored", name, "appended record {} changed the message: {} vs {}", t, m.dbg(), orig.dbg());
							ctx.label(if odd { "ext/odd-ignored" } else { "ext/even-ignored-no-tlv-parser" });
						}
					},
					Err(e) => {
						ens!(!odd, "extension-ignored", name, "appended unknown odd record {} rejected with {:?}; input {}", t, e, hx(&inp));
						ctx.label("ext/even-rejected");
					},
				}
			}
		}
	}

	// --- out-of-range values
	if !b.pts.is_empty() {
		let o = b.pts[r.below(b.pts.len() as u64) as usize];
		let bad = invalid_point(&mut r, true);
		let inp = splice(bytes, o, 33, &bad);
		must_err(k, spec, &inp, "invalid-pubkey-rejected", &format!("invalid point {} at offset {}", hex(&bad), o))?;
		evals += 1;
		ctx.label("range/invalid-point");
	}
	if !b.pts_intro.is_empty() {
		let o = b.pts_intro[r.below(b.pts_intro.len() as u64) as usize];
		let bad = invalid_point(&mut r, false);
		let inp = splice(bytes, o, 33, &bad);
		must_err(k, spec, &inp, "invalid-pubkey-rejected", &format!("invalid introduction point {} at offset {}", hex(&bad), o))?;
		evals += 1;
	}
	if !b.sigs.is_empty() {
		let o = b.sigs[r.below(b.sigs.len() as u64) as usize] + 32 * (r.below(2) as usize);
		let inp = splice(bytes, o, 32, &[0xff; 32]);
		must_err(k, spec, &inp, "invalid-signature-rejected", &format!("signature scalar >= group order at offset {}", o))?;
		evals += 1;
		ctx.label("range/invalid-signature");
	}
	if !b.bools.is_empty() {
		let o = b.bools[r.below(b.bools.len() as u64) as usize];
		let v = 2 + r.below(254) as u8;
		let inp = splice(bytes, o, 1, &[v]);
		must_err(k, spec, &inp, "invalid-bool-rejected", &format!("boolean byte {} at offset {}", v, o))?;
		evals += 1;
		ctx.label("range/invalid-bool");
	}
	if let Some(o) = b.enc_type {
		let v = 1 + r.below(255) as u8;
		let inp = splice(bytes, o, 1, &[v]);
		must_err(k, spec, &inp, "unsupported-encoding-rejected", &format!("short-channel-id encoding type {} at offset {}", v, o))?;
		evals += 1;
		ctx.label("range/encoding-type");
	}
	// --- inner length descriptors that do not describe the data that follows (DecodeError::BadLengthDescriptor /
	// ShortRead / InvalidValue are all fine, acceptance is not): the decoder must not borrow bytes from, or
	// leave bytes to, the neighbouring field.
	if !b.inner_lens.is_empty() {
		let (o, kind) = b.inner_lens[r.below(b.inner_lens.len() as u64) as usize];
		let cur = u16::from_be_bytes([bytes[o], bytes[o + 1]]) as i64;
		let deltas: Vec<i64> = match kind {
			LenKind::AddrsKnownOnly => vec![-1],
			LenKind::PrevTx | LenKind::Witness => vec![-1, 1],
			LenKind::Scids => vec![1 + r.below(7) as i64, -(1 + r.below(7) as i64)],
			LenKind::LastVar16 => {
				if b.recs.is_empty() {
					vec![-1, 1]
				} else {
					vec![]
				}
			},
		};
		for d in deltas {
			let v = cur + d;
			if v < 0 || v > 0xffff {
				continue;
			}
			let inp = splice(bytes, o, 2, &(v as u16).to_be_bytes());
			must_err(k, spec, &inp, "bad-length-descriptor", &format!("{:?} length at offset {} changed from {} to {} with unchanged content", kind, o, cur, v))?;
			evals += 1;
			ctx.label("len/inner-length-mismatch");
		}
	}
	ctx.sub_evaluations(evals);
	ctx.nontrivial_if(evals > 0);
	ctx.summary(serde_json::json!({ "message": name, "len": n, "mutations": evals, "tlv_records": b.recs.iter().map(|x| x.typ).collect::<Vec<_>>() }));
	Ok(())
}

// ---------------------------------------------------------------------------------------------
// part 3: totality
// ---------------------------------------------------------------------------------------------

#[derive(Clone, Debug, Serialize, Deserialize)]
enum TCase {
	/// arbitrary bytes offered to one decoder
	Raw { msg: u16, bytes: Vec<u8> },
	/// a valid encoding with some bytes xor-ed
	Edit { inst: Inst, edits: Vec<(u16, u8)> },
	/// a valid encoding with a range replaced
	Splice { inst: Inst, at: u16, del: u8, ins: Vec<u8> },
	/// a valid encoding of one message offered to the decoder of another
	Cross { inst: Inst, as_msg: u16 },
	/// a valid mandatory part (or a prefix of the message) followed by arbitrary bytes
	Tail { inst: Inst, at_tlv_start: bool, at: u16, tail: Vec<u8> },
}

fn small_inst() -> impl Strategy<Value = Inst> + Clone + Send + Sync + 'static {
	// mostly small instances here: the interesting structure sits in the first few hundred bytes
	(any::<u16>(), any::<u8>(), vec(prop_oneof![4 => 0u16..0xC000, 1 => any::<u16>()], 0..8), any::<u64>())
		.prop_map(|(msg, tlv_mask, lens, seed)| Inst { msg, tlv_mask, lens, seed })
}

fn tcase_strat() -> impl Strategy<Value = TCase> + Clone + Send + Sync + 'static {
	prop_oneof![
		2 => (any::<u16>(), prop_oneof![vec(any::<u8>(), 0..64), vec(any::<u8>(), 0..400), vec(prop_oneof![Just(0u8), Just(1u8), Just(2u8), Just(0xfdu8), Just(0xffu8), any::<u8>()], 0..200)])
			.prop_map(|(msg, bytes)| TCase::Raw { msg, bytes }),
		5 => (small_inst(), vec((any::<u16>(), 1u8..=255), 1..4)).prop_map(|(inst, edits)| TCase::Edit { inst, edits }),
		2 => (small_inst(), any::<u16>(), 0u8..12, vec(any::<u8>(), 0..12)).prop_map(|(inst, at, del, ins)| TCase::Splice { inst, at, del, ins }),
		1 => (small_inst(), any::<u16>()).prop_map(|(inst, as_msg)| TCase::Cross { inst, as_msg }),
		3 => (small_inst(), prop::bool::weighted(0.7), any::<u16>(), vec(prop_oneof![3 => any::<u8>(), 2 => 0u8..12, 1 => Just(0xfdu8)], 0..24))
			.prop_map(|(inst, at_tlv_start, at, tail)| TCase::Tail { inst, at_tlv_start, at, tail }),
	]
}

fn err_label(e: &DecodeError) -> &'static str {
	match e {
		DecodeError::UnknownVersion => "err/UnknownVersion",
		DecodeError::UnknownRequiredFeature => "err/UnknownRequiredFeature",
		DecodeError::InvalidValue => "err/InvalidValue",
		DecodeError::ShortRead => "err/ShortRead",
		DecodeError::BadLengthDescriptor => "err/BadLengthDescriptor",
		DecodeError::Io(_) => "err/Io",
		DecodeError::UnsupportedCompression => "err/UnsupportedCompression",
		DecodeError::DangerousValue => "err/DangerousValue",
	}
}

fn totality_oracle(c: &TCase, ctx: &mut Ctx) -> CaseResult {
	let (k, spec, mut input, class): (usize, &Spec, Vec<u8>, &str) = match c {
		TCase::Raw { msg, bytes } => {
			let k = pick(*msg, SPECS.len());
			(k, &SPECS[k], bytes.clone(), "raw")
		},
		TCase::Edit { inst, edits } => {
			let (k, spec, b) = build(inst);
			let mut v = b.bytes;
			if !v.is_empty() {
				for (p, x) in edits.iter() {
					let i = pick(*p, v.len());
					v[i] ^= *x;
				}
			}
			(k, spec, v, "edit")
		},
		TCase::Splice { inst, at, del, ins } => {
			let (k, spec, b) = build(inst);
			let at = pick(*at, b.bytes.len() + 1);
			let del = (*del as usize).min(b.bytes.len() - at);
			(k, spec, splice(&b.bytes, at, del, ins), "splice")
		},
		TCase::Cross { inst, as_msg } => {
			let (_, _, b) = build(inst);
			let k = pick(*as_msg, SPECS.len());
			(k, &SPECS[k], b.bytes, "cross")
		},
		TCase::Tail { inst, at_tlv_start, at, tail } => {
			let (k, spec, b) = build(inst);
			let cut = match (at_tlv_start, b.tlv_start.or(b.rest_start)) {
				(true, Some(ts)) => ts,
				_ => pick(*at, b.bytes.len() + 1),
			};
			let mut v = b.bytes[..cut].to_vec();
			v.extend_from_slice(tail);
			(k, spec, v, "tail")
		},
	};
	input.truncate(MAX_PAYLOAD);
	ctx.label(class);
	let got = observe(k, spec, &input)?;
	match &got {
		Ok(_) => {
			ctx.label("decoded-ok");
			ctx.label(&format!("ok/{}", class));
		},
		Err(e) => ctx.label(err_label(e)),
	}
	// non-trivial: the input got past the first length check (decoded, or failed on content)
	ctx.nontrivial_if(!matches!(got, Err(DecodeError::ShortRead)));
	ctx.summary(serde_json::json!({ "message": spec.name, "class": class, "len": input.len(), "outcome": match &got { Ok(m) => m.dbg(), Err(e) => format!("{:?}", e) }, "bytes": hx(&input) }));
	Ok(())
}

// ---------------------------------------------------------------------------------------------
// part 5: type-number dispatch over all 65536 ids
// ---------------------------------------------------------------------------------------------

#[derive(Clone, Debug, Serialize, Deserialize)]
struct WCase {
	base: u16,
	seed: u64,
}

fn wire_ids_oracle(c: &WCase, ctx: &mut Ctx) -> CaseResult {
	let mut r = Rng(c.seed);
	let mut evals = 0;
	for id in c.base..=c.base.saturating_add(255) {
		let spec = SPECS.iter().find(|s| s.id == id);
		for plen in [0usize, 1, 2, 40, 700] {
			let mut w = id.to_be_bytes().to_vec();
			w.extend(r.bytes(plen));
			let got = read_wire(&w);
			evals += 1;
			match (spec, got) {
				// BOLT 1: an unknown type is surfaced as such (the caller ignores odd / disconnects on even),
				// whatever follows the type number
				(None, Ok(d)) => {
					ens!(d.unknown && d.type_id == id && d.reencoded.is_empty(), "unknown-type", "wire", "unassigned type {} came back as unknown={} type_id={} ({})", id, d.unknown, d.type_id, d.debug);
					ctx.label(if id & 1 == 1 { "unknown-odd" } else { "unknown-even" });
				},
				(None, Err((e, t))) => return Err(fail("unknown-type", "wire", format!("unassigned type {} with {} payload bytes produced an error ({:?},{:?}) instead of Unknown", id, plen, e, t))),
				(Some(s), Ok(d)) if s.wire => {
					ens!(!d.unknown && d.type_id == id, "assigned-type", s.name, "assigned type {} came back as unknown={} type_id={}", id, d.unknown, d.type_id);
					ctx.label("assigned-ok");
				},
				(Some(s), Err((_, t))) if s.wire => {
					ens!(t == Some(id), "assigned-type", s.name, "error for type {} reports type {:?}", id, t);
					ctx.label("assigned-err");
				},
				// closing_complete / closing_sig: dispatched only under cfg(simple_close)
				(Some(_), Ok(d)) => ens!(d.type_id == id, "assigned-type", "wire", "type id {} reported as {}", id, d.type_id),
				(Some(_), Err((_, t))) => ens!(t == Some(id), "assigned-type", "wire", "error for type {} reports type {:?}", id, t),
			}
		}
		if id == u16::MAX {
			break;
		}
	}
	// fewer than two bytes: no type number at all
	for w in [&[][..], &[r.next() as u8][..]] {
		match read_wire(w) {
			Err((_, None)) => {},
			Err((e, t)) => return Err(fail("short-type", "wire", format!("{}-byte buffer: error ({:?},{:?})", w.len(), e, t))),
			Ok(d) => return Err(fail("short-type", "wire", format!("{}-byte buffer decoded as {}", w.len(), d.debug))),
		}
	}
	ctx.sub_evaluations(evals);
	ctx.nontrivial();
	Ok(())
}

fn main() {
	let mut c = Check::new("C13", "exploration");
	// sanity of the independent table itself
	for (i, a) in SPECS.iter().enumerate() {
		for b in SPECS.iter().skip(i + 1) {
			assert!(a.id != b.id && a.name != b.name, "duplicate entry in the BOLT table");
		}
	}
	c.assume("Layout templates are written from BOLT 1/2/4/7 (incl. the dual-funding, splicing, quiescence, peer-storage and simple-close drafts) plus LDK's experimental TLV records (update_add_htlc 65537/75537/106823, open_channel2 103, revoke_and_ack 75537, attribution data); libsecp256k1 and rust-bitcoin consensus encoding are trusted.");
	c.assume("Inputs are what one BOLT-8 frame can carry: payload <= 65533 bytes after the 2-byte type.");
	c.assume("Canonical sender behaviour is assumed where the spec leaves freedom and LDK normalises: init.globalfeatures = low 13 bits of features, ping/pong padding is zero, channel_update.message_flags has must_be_one set, the accountable byte is 0 or 7, an empty release_htlc_message_paths record is not sent. Non-canonical forms are still exercised by the totality part under the weaker re-encode-stability oracle.");
	c.assume("update_add_htlc's onion ephemeral key and the gossip node ids / bitcoin keys are carried unvalidated by design (BOLT 4 failure reporting; gossip keys are checked with the signatures), so the invalid-point rule is asserted for all other points only.");
	c.assume("'unknown even TLV => error' is asserted for the 40 message types whose decoder parses an extension TLV stream; for error, warning, ping, pong, query_short_channel_ids, reply_channel_range, onion_message the decoder ignores trailing data (BOLT 1: MAY ignore the extension) and for the three signed gossip messages trailing data is preserved as excess data.");
	c.assume("The odd/even decision for unknown message types is taken in peer_handler on wire::Message::Unknown(id); this check establishes that exactly the unassigned ids (all 65536 enumerated) surface as Unknown(id) with any payload. The PeerManager-level part (iii) of the design (reference BOLT-8 peer) is not part of this binary. closing_complete/closing_sig (types 40/41) are dispatched only under cfg(simple_close); their codecs are checked directly.");

	c.part(
		PartSpec {
			name: "named-fields",
			rule: "48 of the 50 message types (all but update_fail_htlc / update_fail_malformed_htlc, whose fields are crate-private) filled field by field in BOLT wire order while the expected BOLT encoding is recorded alongside; encode(m) must equal it and decode(it) must equal m, so every *named* field is tied to its wire position (catches a consistent encoder+decoder swap of same-sized fields). Non-trivial: an optional field is set or a variable-length field has length 0/1.",
			quick_cases: 250_000,
			thorough_cases: 12_000_000,
			max_shrink: 2000,
		},
		(any::<u16>(), any::<u64>(), any::<u8>(), any::<[u16; 3]>()).prop_map(|(which, seed, opt, lens)| named::NCase { which, seed, opt, lens }),
		named::oracle,
	);
	c.part(
		PartSpec {
			name: "layout",
			rule: "message type uniform over the 50-entry BOLT table; each known optional TLV record present/absent independently (mask); each variable-length item in {0,1,small,medium,max-fitting the 65533-byte frame}; canonical bytes produced by the template, not by LDK. Non-trivial: >=1 optional record present or a 0/1/max-fitting length.",
			quick_cases: 400_000,
			thorough_cases: 20_000_000,
			max_shrink: 2000,
		},
		inst_strat(),
		layout_oracle,
	);
	c.part(
		PartSpec {
			name: "destructive",
			rule: "for a template-generated valid encoding: every truncation (sampled at field/record boundaries +-1 and 48 random cuts above 1600 bytes), unknown odd/even record at its sorted position, duplicate / swapped / descending records, non-minimal BigSize type and length (unknown and known records), known fixed-size record one byte short/long, an inner length descriptor (addrlen, prevtx_len, witness length, encoded_short_ids length, trailing u16-prefixed field) off by one, one invalid point / signature / boolean / scid-encoding; expected verdicts come from the template. Each sub-evaluation differs from the valid encoding in exactly one structural element.",
			quick_cases: 60_000,
			thorough_cases: 3_000_000,
			max_shrink: 2000,
		},
		(small_inst_or_any(), any::<u64>()).prop_map(|(inst, mseed)| DCase { inst, mseed }),
		destructive_oracle,
	);
	c.part(
		PartSpec {
			name: "totality",
			rule: "arbitrary bytes (uniform and TLV/length-biased alphabets), 1-3 byte xor edits, short splices and cross-type feeding of template encodings, each offered to one typed decoder, the length-limited reader and wire::read. Non-trivial: the outcome is not ShortRead (decoded, or rejected on content).",
			quick_cases: 500_000,
			thorough_cases: 25_000_000,
			max_shrink: 4000,
		},
		tcase_strat(),
		totality_oracle,
	);
	c.part(
		PartSpec {
			name: "constructive",
			rule: "structs built directly for 19 message types (init, update_add_htlc, channel_reestablish, node/channel announcements, channel_update, open_channel2, accept_channel, commitment_signed, tx_signatures, revoke_and_ack with blinded paths, closing_signed, error/warning, ping/pong, scid queries, start_batch) with every Option independently set and all SocketAddress variants. Non-trivial: an optional field is set or a vector has boundary length.",
			quick_cases: 150_000,
			thorough_cases: 8_000_000,
			max_shrink: 4000,
		},
		construct::strat(),
		construct::oracle,
	);
	let wcases: Vec<WCase> = (0..256u32).map(|i| WCase { base: (i * 256) as u16, seed: c.args.seed.wrapping_mul(0x9E3779B97F4A7C15) ^ (i as u64) }).collect();
	c.enumerate(
		"wire-ids",
		"all 65536 type numbers x payloads of 0/1/2/40/700 seeded bytes through wire::read; plus 0- and 1-byte buffers. Exhaustive in the type number.",
		wcases,
		true,
		wire_ids_oracle,
	);
	c.finish();
}

/// Destructive cases: three quarters small instances (all truncations tried), one quarter unrestricted
/// (boundary and frame-filling lengths, truncations sampled).
fn small_inst_or_any() -> impl Strategy<Value = Inst> + Clone + Send + Sync + 'static {
	prop_oneof![3 => small_inst().sboxed(), 1 => inst_strat().sboxed()]
}
