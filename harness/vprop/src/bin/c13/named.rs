//! Named-field half of the constructive check. Every constructible `ln::msgs` struct is filled
//! field by field *in BOLT wire order*; each drawn value is appended, in its BOLT encoding, to an
//! expected byte string at the same moment. The oracle then requires
//!   encode(m) == expected   (the encoder puts every *named* field where the BOLT says), and
//!   decode(expected) == m   (the decoder assigns every wire position to the right named field).
//! A byte-level round trip alone cannot see an encoder and decoder that agree on a wrong order of two
//! same-sized fields; this can.

use bitcoin::constants::ChainHash;
use bitcoin::hashes::Hash;
use bitcoin::secp256k1::ecdsa::Signature;
use bitcoin::secp256k1::{PublicKey, Secp256k1, SecretKey};
use bitcoin::{ScriptBuf, Txid, Witness};
use lightning::blinded_path::message::BlindedMessagePath;
use lightning::blinded_path::BlindedHop;
use lightning::ln::msgs::{self, SocketAddress};
use lightning::ln::types::ChannelId;
use lightning::onion_message::packet::Packet;
use lightning::routing::gossip::{NodeAlias, NodeId};
use lightning::types::features::{ChannelFeatures, ChannelTypeFeatures, InitFeatures, NodeFeatures};
use lightning::types::payment::{PaymentHash, PaymentPreimage};
use lightning::util::ser::{Hostname, LengthReadable, Writeable};
use serde::{Deserialize, Serialize};
use std::fmt::Debug;
use vcore::*;

use crate::layout::{bigsize, Rng, MAX_PAYLOAD};

#[derive(Clone, Debug, Serialize, Deserialize)]
pub struct NCase {
	pub which: u16,
	pub seed: u64,
	/// bit i: i-th optional field set
	pub opt: u8,
	/// sizes of up to three variable-length fields
	pub lens: [u16; 3],
}

/// Draws values and records their BOLT encoding.
struct W {
	r: Rng,
	e: Vec<u8>,
}

impl W {
	fn u8(&mut self) -> u8 {
		let v = self.r.next() as u8;
		self.e.push(v);
		v
	}
	fn u16(&mut self) -> u16 {
		let v = self.r.next() as u16;
		self.e.extend_from_slice(&v.to_be_bytes());
		v
	}
	fn u32(&mut self) -> u32 {
		let v = self.r.next() as u32;
		self.e.extend_from_slice(&v.to_be_bytes());
		v
	}
	fn u64(&mut self) -> u64 {
		let v = self.r.next();
		self.e.extend_from_slice(&v.to_be_bytes());
		v
	}
	fn i64(&mut self) -> i64 {
		self.u64() as i64 // two's complement, big-endian
	}
	fn boolean(&mut self) -> bool {
		let v = self.r.next() & 1 == 1;
		self.e.push(v as u8);
		v
	}
	fn arr<const N: usize>(&mut self) -> [u8; N] {
		let mut o = [0u8; N];
		o.copy_from_slice(&self.r.bytes(N));
		self.e.extend_from_slice(&o);
		o
	}
	fn chan(&mut self) -> ChannelId {
		ChannelId(self.arr::<32>())
	}
	fn chain(&mut self) -> ChainHash {
		ChainHash::from(self.arr::<32>())
	}
	fn txid(&mut self) -> Txid {
		Txid::from_byte_array(self.arr::<32>())
	}
	fn pk(&mut self) -> PublicKey {
		let secp = Secp256k1::signing_only();
		loop {
			if let Ok(sk) = SecretKey::from_slice(&self.r.bytes(32)) {
				let p = PublicKey::from_secret_key(&secp, &sk);
				self.e.extend_from_slice(&p.serialize());
				return p;
			}
		}
	}
	fn node_id(&mut self) -> NodeId {
		NodeId::from_pubkey(&self.pk())
	}
	fn sig(&mut self) -> Signature {
		let b = crate::layout::sig(&mut self.r);
		self.e.extend_from_slice(&b);
		Signature::from_compact(&b).expect("r,s below group order")
	}
	/// opaque bytes without any prefix
	fn raw(&mut self, n: usize) -> Vec<u8> {
		let b = self.r.bytes(n);
		self.e.extend_from_slice(&b);
		b
	}
	/// u16 length prefix + bytes
	fn bytes16(&mut self, n: usize) -> Vec<u8> {
		self.e.extend_from_slice(&(n as u16).to_be_bytes());
		self.raw(n)
	}
	fn script16(&mut self, n: usize) -> ScriptBuf {
		ScriptBuf::from(self.bytes16(n))
	}
	fn len16(&mut self, n: usize) {
		self.e.extend_from_slice(&(n as u16).to_be_bytes());
	}
	/// One TLV record (type, length, value) when `present`.
	fn tlv<T>(&mut self, typ: u64, present: bool, f: impl FnOnce(&mut W) -> T) -> Option<T> {
		let seed = self.r.next();
		if !present {
			return None;
		}
		let mut sub = W { r: Rng(seed), e: vec![] };
		let v = f(&mut sub);
		self.e.extend(bigsize(typ));
		self.e.extend(bigsize(sub.e.len() as u64));
		self.e.extend(sub.e);
		Some(v)
	}
	fn addr(&mut self) -> SocketAddress {
		match self.r.below(5) {
			0 => {
				self.e.push(1);
				SocketAddress::TcpIpV4 { addr: self.arr::<4>(), port: self.u16() }
			},
			1 => {
				self.e.push(2);
				SocketAddress::TcpIpV6 { addr: self.arr::<16>(), port: self.u16() }
			},
			2 => {
				self.e.push(3);
				SocketAddress::OnionV2(self.arr::<12>())
			},
			3 => {
				self.e.push(4);
				SocketAddress::OnionV3 { ed25519_pubkey: self.arr::<32>(), checksum: self.u16(), version: self.u8(), port: self.u16() }
			},
			_ => {
				self.e.push(5);
				let l = self.r.below(30) as usize;
				let h: String = self.r.bytes(l).into_iter().map(|b| (b"abcdefghijklmnopqrstuvwxyz0123456789.-_"[b as usize % 39]) as char).collect();
				self.e.push(l as u8);
				self.e.extend_from_slice(h.as_bytes());
				SocketAddress::Hostname { hostname: Hostname::try_from(h).expect("valid charset"), port: self.u16() }
			},
		}
	}
}

fn check<M: Writeable + LengthReadable + PartialEq + Debug>(m: &M, w: &W, name: &'static str, ctx: &mut Ctx) -> CaseResult {
	ctx.label(name);
	let exp = &w.e;
	if exp.len() > MAX_PAYLOAD {
		ctx.discard();
		return Ok(());
	}
	let fail = |o: &str, d: String| Err(Failure::new(o, format!("[{}] {}", name, d)).with_key(format!("{}/{}", o, name)));
	let enc = m.encode();
	if &enc != exp {
		let at = enc.iter().zip(exp.iter()).position(|(a, b)| a != b).unwrap_or(enc.len().min(exp.len()));
		return fail("named-encode", format!("encoder output differs from the BOLT field order at byte {}:\n value    {:?}\n expected {}\n encoded  {}", at, m, hex(exp), hex(&enc)));
	}
	let mut rd = &exp[..];
	match M::read_from_fixed_length_buffer(&mut rd) {
		Ok(back) => {
			if &back != m {
				return fail("named-decode", format!("decoder assigns wire positions to the wrong fields:\n built   {:?}\n decoded {:?}\n bytes {}", m, back, hex(exp)));
			}
		},
		Err(e) => return fail("named-decode", format!("BOLT encoding of {:?} rejected: {:?}; bytes {}", m, e, hex(exp))),
	}
	Ok(())
}

pub const N_KINDS: usize = 48;

pub fn oracle(c: &NCase, ctx: &mut Ctx) -> CaseResult {
	let mut w = W { r: Rng(c.seed), e: vec![] };
	let w = &mut w;
	let o = |i: u8| c.opt & (1 << i) != 0;
	// lengths: 0, 1 and moderate sizes
	let l = |i: usize| -> usize {
		let v = c.lens[i] as usize;
		match v % 4 {
			0 => 0,
			1 => 1,
			_ => (v / 4) % 300,
		}
	};
	ctx.nontrivial_if(c.opt != 0 || c.lens.iter().any(|x| x % 4 < 2));
	match pick(c.which, N_KINDS) {
		0 => {
			let m = msgs::FundingCreated { temporary_channel_id: w.chan(), funding_txid: w.txid(), funding_output_index: w.u16(), signature: w.sig() };
			check(&m, w, "funding_created", ctx)
		},
		1 => {
			let m = msgs::FundingSigned { channel_id: w.chan(), signature: w.sig() };
			check(&m, w, "funding_signed", ctx)
		},
		2 => {
			let m = msgs::ChannelReady { channel_id: w.chan(), next_per_commitment_point: w.pk(), short_channel_id_alias: w.tlv(1, o(0), |w| w.u64()) };
			check(&m, w, "channel_ready", ctx)
		},
		3 => {
			let m = msgs::Shutdown { channel_id: w.chan(), scriptpubkey: w.script16(l(0)) };
			check(&m, w, "shutdown", ctx)
		},
		4 => {
			let m = msgs::UpdateFee { channel_id: w.chan(), feerate_per_kw: w.u32() };
			check(&m, w, "update_fee", ctx)
		},
		5 => {
			let m = msgs::UpdateFulfillHTLC { channel_id: w.chan(), htlc_id: w.u64(), payment_preimage: PaymentPreimage(w.arr::<32>()), attribution_data: None };
			check(&m, w, "update_fulfill_htlc", ctx)
		},
		6 => {
			let m = msgs::AnnouncementSignatures { channel_id: w.chan(), short_channel_id: w.u64(), node_signature: w.sig(), bitcoin_signature: w.sig() };
			check(&m, w, "announcement_signatures", ctx)
		},
		7 => {
			let m = msgs::Stfu { channel_id: w.chan(), initiator: w.boolean() };
			check(&m, w, "stfu", ctx)
		},
		8 => {
			let m = msgs::SpliceInit {
				channel_id: w.chan(),
				funding_contribution_satoshis: w.i64(),
				funding_feerate_per_kw: w.u32(),
				locktime: w.u32(),
				funding_pubkey: w.pk(),
				require_confirmed_inputs: w.tlv(2, o(0), |_| ()),
			};
			check(&m, w, "splice_init", ctx)
		},
		9 => {
			let m = msgs::SpliceAck { channel_id: w.chan(), funding_contribution_satoshis: w.i64(), funding_pubkey: w.pk(), require_confirmed_inputs: w.tlv(2, o(0), |_| ()) };
			check(&m, w, "splice_ack", ctx)
		},
		10 => {
			let m = msgs::SpliceLocked { channel_id: w.chan(), splice_txid: w.txid() };
			check(&m, w, "splice_locked", ctx)
		},
		11 => {
			// prevtx: consensus encoding by rust-bitcoin (trusted); u16 length in front, 0 = absent
			let channel_id = w.chan();
			let serial_id = w.u64();
			let prevtx = if o(1) {
				let tx = bitcoin::Transaction {
					version: bitcoin::transaction::Version(2),
					lock_time: bitcoin::absolute::LockTime::from_consensus(w.r.next() as u32),
					input: vec![bitcoin::TxIn {
						previous_output: bitcoin::OutPoint { txid: Txid::from_byte_array([7; 32]), vout: w.r.next() as u32 },
						script_sig: ScriptBuf::from(w.r.bytes(l(0) % 40)),
						sequence: bitcoin::Sequence(w.r.next() as u32),
						witness: if o(2) { Witness::from_slice(&[w.r.bytes(l(1) % 80)]) } else { Witness::new() },
					}],
					output: vec![bitcoin::TxOut { value: bitcoin::Amount::from_sat(w.r.next() >> 20), script_pubkey: ScriptBuf::from(w.r.bytes(22)) }],
				};
				let ser = bitcoin::consensus::serialize(&tx);
				w.len16(ser.len());
				w.e.extend_from_slice(&ser);
				Some(tx)
			} else {
				w.len16(0);
				None
			};
			let m = msgs::TxAddInput { channel_id, serial_id, prevtx, prevtx_out: w.u32(), sequence: w.u32(), shared_input_txid: w.tlv(0, o(0), |w| w.txid()) };
			check(&m, w, "tx_add_input", ctx)
		},
		12 => {
			let m = msgs::TxAddOutput { channel_id: w.chan(), serial_id: w.u64(), sats: w.u64(), script: w.script16(l(0)) };
			check(&m, w, "tx_add_output", ctx)
		},
		13 => {
			let m = msgs::TxRemoveInput { channel_id: w.chan(), serial_id: w.u64() };
			check(&m, w, "tx_remove_input", ctx)
		},
		14 => {
			let m = msgs::TxRemoveOutput { channel_id: w.chan(), serial_id: w.u64() };
			check(&m, w, "tx_remove_output", ctx)
		},
		15 => {
			let m = msgs::TxComplete { channel_id: w.chan() };
			check(&m, w, "tx_complete", ctx)
		},
		16 => {
			let m = msgs::TxInitRbf { channel_id: w.chan(), locktime: w.u32(), feerate_sat_per_1000_weight: w.u32(), funding_output_contribution: w.tlv(0, o(0), |w| w.i64()) };
			check(&m, w, "tx_init_rbf", ctx)
		},
		17 => {
			let m = msgs::TxAckRbf { channel_id: w.chan(), funding_output_contribution: w.tlv(0, o(0), |w| w.i64()) };
			check(&m, w, "tx_ack_rbf", ctx)
		},
		18 => {
			let m = msgs::TxAbort { channel_id: w.chan(), data: w.bytes16(l(0)) };
			check(&m, w, "tx_abort", ctx)
		},
		19 => {
			// open_channel
			let chain_hash = w.chain();
			let temporary_channel_id = w.chan();
			let funding_satoshis = w.u64();
			let push_msat = w.u64();
			let dust_limit_satoshis = w.u64();
			let max_htlc_value_in_flight_msat = w.u64();
			let channel_reserve_satoshis = w.u64();
			let htlc_minimum_msat = w.u64();
			let commitment_feerate_sat_per_1000_weight = w.u32();
			let to_self_delay = w.u16();
			let max_accepted_htlcs = w.u16();
			let funding_pubkey = w.pk();
			let revocation_basepoint = w.pk();
			let payment_basepoint = w.pk();
			let delayed_payment_basepoint = w.pk();
			let htlc_basepoint = w.pk();
			let first_per_commitment_point = w.pk();
			let channel_flags = w.u8();
			let shutdown_scriptpubkey = w.tlv(0, o(0), |w| ScriptBuf::from(w.raw(l(0))));
			let channel_type = w.tlv(1, o(1), |w| {
				let mut be = w.raw(l(1) % 20);
				be.reverse();
				ChannelTypeFeatures::from_le_bytes(be)
			});
			let m = msgs::OpenChannel {
				common_fields: msgs::CommonOpenChannelFields {
					chain_hash,
					temporary_channel_id,
					funding_satoshis,
					dust_limit_satoshis,
					max_htlc_value_in_flight_msat,
					htlc_minimum_msat,
					commitment_feerate_sat_per_1000_weight,
					to_self_delay,
					max_accepted_htlcs,
					funding_pubkey,
					revocation_basepoint,
					payment_basepoint,
					delayed_payment_basepoint,
					htlc_basepoint,
					first_per_commitment_point,
					channel_flags,
					shutdown_scriptpubkey,
					channel_type,
				},
				push_msat,
				channel_reserve_satoshis,
			};
			check(&m, w, "open_channel", ctx)
		},
		20 => {
			// accept_channel
			let temporary_channel_id = w.chan();
			let dust_limit_satoshis = w.u64();
			let max_htlc_value_in_flight_msat = w.u64();
			let channel_reserve_satoshis = w.u64();
			let htlc_minimum_msat = w.u64();
			let minimum_depth = w.u32();
			let to_self_delay = w.u16();
			let max_accepted_htlcs = w.u16();
			let funding_pubkey = w.pk();
			let revocation_basepoint = w.pk();
			let payment_basepoint = w.pk();
			let delayed_payment_basepoint = w.pk();
			let htlc_basepoint = w.pk();
			let first_per_commitment_point = w.pk();
			let shutdown_scriptpubkey = w.tlv(0, o(0), |w| ScriptBuf::from(w.raw(l(0))));
			let channel_type = w.tlv(1, o(1), |w| {
				let mut be = w.raw(l(1) % 20);
				be.reverse();
				ChannelTypeFeatures::from_le_bytes(be)
			});
			let m = msgs::AcceptChannel {
				common_fields: msgs::CommonAcceptChannelFields {
					temporary_channel_id,
					dust_limit_satoshis,
					max_htlc_value_in_flight_msat,
					htlc_minimum_msat,
					minimum_depth,
					to_self_delay,
					max_accepted_htlcs,
					funding_pubkey,
					revocation_basepoint,
					payment_basepoint,
					delayed_payment_basepoint,
					htlc_basepoint,
					first_per_commitment_point,
					shutdown_scriptpubkey,
					channel_type,
				},
				channel_reserve_satoshis,
			};
			check(&m, w, "accept_channel", ctx)
		},
		21 => {
			// open_channel2
			let chain_hash = w.chain();
			let temporary_channel_id = w.chan();
			let funding_feerate_sat_per_1000_weight = w.u32();
			let commitment_feerate_sat_per_1000_weight = w.u32();
			let funding_satoshis = w.u64();
			let dust_limit_satoshis = w.u64();
			let max_htlc_value_in_flight_msat = w.u64();
			let htlc_minimum_msat = w.u64();
			let to_self_delay = w.u16();
			let max_accepted_htlcs = w.u16();
			let locktime = w.u32();
			let funding_pubkey = w.pk();
			let revocation_basepoint = w.pk();
			let payment_basepoint = w.pk();
			let delayed_payment_basepoint = w.pk();
			let htlc_basepoint = w.pk();
			let first_per_commitment_point = w.pk();
			let second_per_commitment_point = w.pk();
			let channel_flags = w.u8();
			let shutdown_scriptpubkey = w.tlv(0, o(0), |w| ScriptBuf::from(w.raw(l(0))));
			let channel_type = w.tlv(1, o(1), |w| {
				let mut be = w.raw(l(1) % 20);
				be.reverse();
				ChannelTypeFeatures::from_le_bytes(be)
			});
			let require_confirmed_inputs = w.tlv(2, o(2), |_| ());
			let disable_channel_reserve = w.tlv(103, o(3), |_| ());
			let m = msgs::OpenChannelV2 {
				common_fields: msgs::CommonOpenChannelFields {
					chain_hash,
					temporary_channel_id,
					funding_satoshis,
					dust_limit_satoshis,
					max_htlc_value_in_flight_msat,
					htlc_minimum_msat,
					commitment_feerate_sat_per_1000_weight,
					to_self_delay,
					max_accepted_htlcs,
					funding_pubkey,
					revocation_basepoint,
					payment_basepoint,
					delayed_payment_basepoint,
					htlc_basepoint,
					first_per_commitment_point,
					channel_flags,
					shutdown_scriptpubkey,
					channel_type,
				},
				funding_feerate_sat_per_1000_weight,
				locktime,
				second_per_commitment_point,
				require_confirmed_inputs,
				disable_channel_reserve,
			};
			check(&m, w, "open_channel2", ctx)
		},
		22 => {
			// accept_channel2
			let temporary_channel_id = w.chan();
			let funding_satoshis = w.u64();
			let dust_limit_satoshis = w.u64();
			let max_htlc_value_in_flight_msat = w.u64();
			let htlc_minimum_msat = w.u64();
			let minimum_depth = w.u32();
			let to_self_delay = w.u16();
			let max_accepted_htlcs = w.u16();
			let funding_pubkey = w.pk();
			let revocation_basepoint = w.pk();
			let payment_basepoint = w.pk();
			let delayed_payment_basepoint = w.pk();
			let htlc_basepoint = w.pk();
			let first_per_commitment_point = w.pk();
			let second_per_commitment_point = w.pk();
			let shutdown_scriptpubkey = w.tlv(0, o(0), |w| ScriptBuf::from(w.raw(l(0))));
			let channel_type = w.tlv(1, o(1), |w| {
				let mut be = w.raw(l(1) % 20);
				be.reverse();
				ChannelTypeFeatures::from_le_bytes(be)
			});
			let require_confirmed_inputs = w.tlv(2, o(2), |_| ());
			let disable_channel_reserve = w.tlv(103, o(3), |_| ());
			let m = msgs::AcceptChannelV2 {
				common_fields: msgs::CommonAcceptChannelFields {
					temporary_channel_id,
					dust_limit_satoshis,
					max_htlc_value_in_flight_msat,
					htlc_minimum_msat,
					minimum_depth,
					to_self_delay,
					max_accepted_htlcs,
					funding_pubkey,
					revocation_basepoint,
					payment_basepoint,
					delayed_payment_basepoint,
					htlc_basepoint,
					first_per_commitment_point,
					shutdown_scriptpubkey,
					channel_type,
				},
				funding_satoshis,
				second_per_commitment_point,
				require_confirmed_inputs,
				disable_channel_reserve,
			};
			check(&m, w, "accept_channel2", ctx)
		},
		23 => {
			let m = msgs::ClosingComplete {
				channel_id: w.chan(),
				closer_scriptpubkey: w.script16(l(0) % 60),
				closee_scriptpubkey: w.script16(l(1) % 60),
				fee_satoshis: w.u64(),
				locktime: w.u32(),
				closer_output_only: w.tlv(1, o(0), |w| w.sig()),
				closee_output_only: w.tlv(2, o(1), |w| w.sig()),
				closer_and_closee_outputs: w.tlv(3, o(2), |w| w.sig()),
			};
			check(&m, w, "closing_complete", ctx)
		},
		24 => {
			let m = msgs::ClosingSig {
				channel_id: w.chan(),
				closer_scriptpubkey: w.script16(l(0) % 60),
				closee_scriptpubkey: w.script16(l(1) % 60),
				fee_satoshis: w.u64(),
				locktime: w.u32(),
				closer_output_only: w.tlv(1, o(0), |w| w.sig()),
				closee_output_only: w.tlv(2, o(1), |w| w.sig()),
				closer_and_closee_outputs: w.tlv(3, o(2), |w| w.sig()),
			};
			check(&m, w, "closing_sig", ctx)
		},
		25 => {
			let m = msgs::GossipTimestampFilter { chain_hash: w.chain(), first_timestamp: w.u32(), timestamp_range: w.u32() };
			check(&m, w, "gossip_timestamp_filter", ctx)
		},
		26 => {
			let m = msgs::QueryChannelRange { chain_hash: w.chain(), first_blocknum: w.u32(), number_of_blocks: w.u32() };
			check(&m, w, "query_channel_range", ctx)
		},
		27 => {
			let m = msgs::ReplyShortChannelIdsEnd { chain_hash: w.chain(), full_information: w.boolean() };
			check(&m, w, "reply_short_channel_ids_end", ctx)
		},
		28 => {
			let blinding_point = w.pk();
			let hl = l(0);
			w.len16(66 + hl);
			let m = msgs::OnionMessage {
				blinding_point,
				onion_routing_packet: Packet { version: w.u8(), public_key: w.pk(), hop_data: w.raw(hl), hmac: w.arr::<32>() },
			};
			check(&m, w, "onion_message", ctx)
		},
		29 => {
			let m = msgs::PeerStorage { data: w.bytes16(l(0)) };
			check(&m, w, "peer_storage", ctx)
		},
		30 => {
			let m = msgs::PeerStorageRetrieval { data: w.bytes16(l(0)) };
			check(&m, w, "peer_storage_retrieval", ctx)
		},
		31 => {
			// init: globalfeatures (low 13 bits) then features, most significant byte first
			let k = l(0) % 40;
			let feat_be = w.r.bytes(k);
			let gf: Vec<u8> = match k {
				0 => vec![],
				1 => vec![feat_be[0]],
				_ => vec![feat_be[k - 2] & 0x3f, feat_be[k - 1]],
			};
			w.len16(gf.len());
			w.e.extend_from_slice(&gf);
			w.len16(k);
			w.e.extend_from_slice(&feat_be);
			let mut le = feat_be.clone();
			le.reverse();
			let m = msgs::Init {
				features: InitFeatures::from_le_bytes(le),
				networks: w.tlv(1, o(0), |w| (0..(l(1) % 4)).map(|_| w.chain()).collect()),
				remote_network_address: w.tlv(3, o(1), |w| w.addr()),
			};
			check(&m, w, "init", ctx)
		},
		32 => {
			let channel_id = w.chan();
			let n = l(0);
			w.len16(n);
			let text: String = w.r.bytes(n).into_iter().map(|b| (0x20 + b % 95) as char).collect();
			w.e.extend_from_slice(text.as_bytes());
			if o(0) {
				check(&msgs::WarningMessage { channel_id, data: text }, w, "warning", ctx)
			} else {
				check(&msgs::ErrorMessage { channel_id, data: text }, w, "error", ctx)
			}
		},
		33 => {
			let ponglen = w.u16();
			let n = l(0);
			w.len16(n);
			w.e.extend(std::iter::repeat(0u8).take(n));
			check(&msgs::Ping { ponglen, byteslen: n as u16 }, w, "ping", ctx)
		},
		34 => {
			let n = l(0);
			w.len16(n);
			w.e.extend(std::iter::repeat(0u8).take(n));
			check(&msgs::Pong { byteslen: n as u16 }, w, "pong", ctx)
		},
		35 => {
			// update_add_htlc
			let channel_id = w.chan();
			let htlc_id = w.u64();
			let amount_msat = w.u64();
			let payment_hash = PaymentHash(w.arr::<32>());
			let cltv_expiry = w.u32();
			let onion_routing_packet = msgs::OnionPacket { version: w.u8(), public_key: Ok(w.pk()), hop_data: w.arr::<1300>(), hmac: w.arr::<32>() };
			let blinding_point = w.tlv(0, o(0), |w| w.pk());
			let skimmed_fee_msat = w.tlv(65537, o(1), |w| w.u64());
			let hold_htlc = w.tlv(75537, o(2), |_| ());
			let accountable = w.tlv(106823, o(3), |w| {
				let v = w.r.next() & 1 == 1;
				w.e.push(if v { 7 } else { 0 });
				v
			});
			let m = msgs::UpdateAddHTLC { channel_id, htlc_id, amount_msat, payment_hash, cltv_expiry, skimmed_fee_msat, onion_routing_packet, blinding_point, hold_htlc, accountable };
			check(&m, w, "update_add_htlc", ctx)
		},
		36 => {
			let m = msgs::ChannelReestablish {
				channel_id: w.chan(),
				next_local_commitment_number: w.u64(),
				next_remote_commitment_number: w.u64(),
				your_last_per_commitment_secret: w.arr::<32>(),
				my_current_per_commitment_point: w.pk(),
				next_funding: w.tlv(1, o(0), |w| msgs::NextFunding { txid: w.txid(), retransmit_flags: w.u8() }),
				my_current_funding_locked: w.tlv(5, o(1), |w| msgs::FundingLocked { txid: w.txid(), retransmit_flags: w.u8() }),
			};
			check(&m, w, "channel_reestablish", ctx)
		},
		37 => {
			let channel_id = w.chan();
			let signature = w.sig();
			let n = l(0) % 40;
			w.len16(n);
			let m = msgs::CommitmentSigned { channel_id, signature, htlc_signatures: (0..n).map(|_| w.sig()).collect(), funding_txid: w.tlv(1, o(0), |w| w.txid()) };
			check(&m, w, "commitment_signed", ctx)
		},
		38 => {
			let m = msgs::RevokeAndACK {
				channel_id: w.chan(),
				per_commitment_secret: w.arr::<32>(),
				next_per_commitment_point: w.pk(),
				release_htlc_message_paths: w
					.tlv(75537, o(0), |w| {
						(0..1 + l(0) % 3)
							.map(|_| {
								let id = w.u64();
								let intro = w.pk();
								let blinding = w.pk();
								let nh = 1 + (w.r.below(3) as usize);
								w.e.push(nh as u8);
								let hops = (0..nh).map(|_| BlindedHop { blinded_node_id: w.pk(), encrypted_payload: w.bytes16(l(1) % 50) }).collect();
								(id, BlindedMessagePath::from_blinded_path(intro, blinding, hops))
							})
							.collect()
					})
					.unwrap_or_default(),
			};
			check(&m, w, "revoke_and_ack", ctx)
		},
		39 => {
			let m = msgs::ClosingSigned {
				channel_id: w.chan(),
				fee_satoshis: w.u64(),
				signature: w.sig(),
				fee_range: w.tlv(1, o(0), |w| msgs::ClosingSignedFeeRange { min_fee_satoshis: w.u64(), max_fee_satoshis: w.u64() }),
			};
			check(&m, w, "closing_signed", ctx)
		},
		40 => {
			let m = msgs::StartBatch { channel_id: w.chan(), batch_size: w.u16(), message_type: w.tlv(1, o(0), |w| w.u16()) };
			check(&m, w, "start_batch", ctx)
		},
		41 => {
			// channel_update
			let signature = w.sig();
			let chain_hash = w.chain();
			let short_channel_id = w.u64();
			let timestamp = w.u32();
			let message_flags = (w.r.next() as u8) | 1;
			w.e.push(message_flags);
			let channel_flags = w.u8();
			let cltv_expiry_delta = w.u16();
			let htlc_minimum_msat = w.u64();
			let fee_base_msat = w.u32();
			let fee_proportional_millionths = w.u32();
			let htlc_maximum_msat = w.u64();
			let excess_data = w.raw(if o(0) { l(0) } else { 0 });
			let m = msgs::ChannelUpdate {
				signature,
				contents: msgs::UnsignedChannelUpdate {
					chain_hash,
					short_channel_id,
					timestamp,
					message_flags,
					channel_flags,
					cltv_expiry_delta,
					htlc_minimum_msat,
					htlc_maximum_msat,
					fee_base_msat,
					fee_proportional_millionths,
					excess_data,
				},
			};
			check(&m, w, "channel_update", ctx)
		},
		42 => {
			// channel_announcement
			let node_signature_1 = w.sig();
			let node_signature_2 = w.sig();
			let bitcoin_signature_1 = w.sig();
			let bitcoin_signature_2 = w.sig();
			let fl = l(0) % 20;
			w.len16(fl);
			let mut le = w.raw(fl);
			le.reverse();
			let m = msgs::ChannelAnnouncement {
				node_signature_1,
				node_signature_2,
				bitcoin_signature_1,
				bitcoin_signature_2,
				contents: msgs::UnsignedChannelAnnouncement {
					features: ChannelFeatures::from_le_bytes(le),
					chain_hash: w.chain(),
					short_channel_id: w.u64(),
					node_id_1: w.node_id(),
					node_id_2: w.node_id(),
					bitcoin_key_1: w.node_id(),
					bitcoin_key_2: w.node_id(),
					excess_data: w.raw(if o(0) { l(1) } else { 0 }),
				},
			};
			check(&m, w, "channel_announcement", ctx)
		},
		43 => {
			// node_announcement
			let signature = w.sig();
			let fl = l(0) % 20;
			w.len16(fl);
			let mut le = w.raw(fl);
			le.reverse();
			let timestamp = w.u32();
			let node_id = w.node_id();
			let rgb = w.arr::<3>();
			let alias = NodeAlias(w.arr::<32>());
			// addrlen is known only after the descriptors are written
			let at = w.e.len();
			w.len16(0);
			let addresses: Vec<SocketAddress> = (0..(l(1) % 7)).map(|_| w.addr()).collect();
			let excess_address_data = if o(0) {
				let t = [0u8, 6, 99, 255][w.r.below(4) as usize];
				w.e.push(t);
				let mut v = vec![t];
				v.extend(w.raw(l(2) % 30));
				v
			} else {
				vec![]
			};
			let alen = (w.e.len() - at - 2) as u16;
			w.e[at..at + 2].copy_from_slice(&alen.to_be_bytes());
			let excess_data = w.raw(if o(1) { l(2) } else { 0 });
			let m = msgs::NodeAnnouncement {
				signature,
				contents: msgs::UnsignedNodeAnnouncement { features: NodeFeatures::from_le_bytes(le), timestamp, node_id, rgb, alias, addresses, excess_address_data, excess_data },
			};
			check(&m, w, "node_announcement", ctx)
		},
		44 => {
			let chain_hash = w.chain();
			let n = l(0) % 50;
			w.len16(1 + 8 * n);
			w.e.push(0);
			let m = msgs::QueryShortChannelIds { chain_hash, short_channel_ids: (0..n).map(|_| w.u64()).collect() };
			check(&m, w, "query_short_channel_ids", ctx)
		},
		45 => {
			let chain_hash = w.chain();
			let first_blocknum = w.u32();
			let number_of_blocks = w.u32();
			let sync_complete = w.boolean();
			let n = l(0) % 50;
			w.len16(1 + 8 * n);
			w.e.push(0);
			let m = msgs::ReplyChannelRange { chain_hash, first_blocknum, number_of_blocks, sync_complete, short_channel_ids: (0..n).map(|_| w.u64()).collect() };
			check(&m, w, "reply_channel_range", ctx)
		},
		46 => {
			// tx_signatures: per witness a u16 length and the consensus witness stack (rust-bitcoin, trusted)
			let channel_id = w.chan();
			let tx_hash = w.txid();
			let n = l(0) % 5;
			w.len16(n);
			let witnesses: Vec<Witness> = (0..n)
				.map(|_| {
					let ni = w.r.below(4);
					let items: Vec<Vec<u8>> = (0..ni)
						.map(|_| {
							let il = w.r.below(80) as usize;
							w.r.bytes(il)
						})
						.collect();
					let wit = Witness::from_slice(&items[..]);
					let ser = bitcoin::consensus::serialize(&wit);
					w.len16(ser.len());
					w.e.extend_from_slice(&ser);
					wit
				})
				.collect();
			let m = msgs::TxSignatures { channel_id, tx_hash, witnesses, shared_input_signature: w.tlv(0, o(0), |w| w.sig()) };
			check(&m, w, "tx_signatures", ctx)
		},
		_ => {
			// a second, differently shaped update_add_htlc: version 0 onion, no optional records
			let m = msgs::UpdateAddHTLC {
				channel_id: w.chan(),
				htlc_id: w.u64(),
				amount_msat: w.u64(),
				payment_hash: PaymentHash(w.arr::<32>()),
				cltv_expiry: w.u32(),
				skimmed_fee_msat: None,
				onion_routing_packet: msgs::OnionPacket { version: w.u8(), public_key: Ok(w.pk()), hop_data: w.arr::<1300>(), hmac: w.arr::<32>() },
				blinding_point: None,
				hold_htlc: None,
				accountable: None,
			};
			check(&m, w, "update_add_htlc", ctx)
		},
	}
}
