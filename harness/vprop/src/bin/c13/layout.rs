//! Independent description of the wire layout of every peer message, written from the BOLTs
//! (#1 messaging, #2 peer protocol incl. dual funding / splicing / quiescence drafts, #4 onion
//! messages, #7 gossip) plus the LDK-specific experimental TLV records that a peer running LDK
//! emits. A *template* (list of field kinds + the known optional TLV records) is instantiated
//! into canonical bytes without touching any LDK codec; only libsecp256k1 is used, to obtain
//! valid curve points. The decoder dispatch at the bottom is the only place where LDK types appear.

use bitcoin::secp256k1::{PublicKey, Secp256k1, SecretKey};
use lightning::ln::msgs::{self, DecodeError};
use lightning::util::ser::{LengthLimitedRead, LengthReadable, Writeable};
use serde::{Deserialize, Serialize};
use std::any::Any;
use std::fmt::Debug;
use std::sync::OnceLock;

/// Largest payload a peer can put behind the 2-byte type in one BOLT-8 frame (65535 - 2).
pub const MAX_PAYLOAD: usize = 65533;

// ---------------------------------------------------------------------------------------------
// deterministic byte source (splitmix64); every draw is a pure function of the seed in the Case
// ---------------------------------------------------------------------------------------------

pub struct Rng(pub u64);
impl Rng {
	pub fn next(&mut self) -> u64 {
		self.0 = self.0.wrapping_add(0x9E3779B97F4A7C15);
		let mut z = self.0;
		z = (z ^ (z >> 30)).wrapping_mul(0xBF58476D1CE4E5B9);
		z = (z ^ (z >> 27)).wrapping_mul(0x94D049BB133111EB);
		z ^ (z >> 31)
	}
	pub fn below(&mut self, n: u64) -> u64 {
		if n == 0 {
			0
		} else {
			self.next() % n
		}
	}
	pub fn bytes(&mut self, n: usize) -> Vec<u8> {
		let mut v = Vec::with_capacity(n + 8);
		while v.len() < n {
			v.extend_from_slice(&self.next().to_le_bytes());
		}
		v.truncate(n);
		v
	}
	pub fn fork(&mut self) -> Rng {
		Rng(self.next())
	}
}

fn secp() -> &'static Secp256k1<bitcoin::secp256k1::All> {
	static S: OnceLock<Secp256k1<bitcoin::secp256k1::All>> = OnceLock::new();
	S.get_or_init(Secp256k1::new)
}

/// A valid compressed secp256k1 point (33 bytes), derived from a secret scalar.
pub fn point(r: &mut Rng) -> [u8; 33] {
	loop {
		let b = r.bytes(32);
		if let Ok(sk) = SecretKey::from_slice(&b) {
			return PublicKey::from_secret_key(secp(), &sk).serialize();
		}
	}
}

/// 33 bytes that are *not* a valid compressed point (bad prefix, x >= p, or x not on the curve).
pub fn invalid_point(r: &mut Rng, allow_01_prefix: bool) -> [u8; 33] {
	let mut out = [0u8; 33];
	match r.below(4) {
		0 => {
			// uncompressed / hybrid / zero / junk prefix
			out[0] = [0x04, 0x05, 0x06, 0x07, 0xff, 0x00, 0x01][r.below(if allow_01_prefix { 7 } else { 5 }) as usize];
			if out[0] != 0 || r.below(2) == 0 {
				out[1..].copy_from_slice(&r.bytes(32));
			}
		},
		1 => {
			out[0] = 2 + (r.below(2) as u8);
			for b in out[1..].iter_mut() {
				*b = 0xff; // x >= field prime
			}
		},
		_ => loop {
			out[0] = 2 + (r.below(2) as u8);
			out[1..].copy_from_slice(&r.bytes(32));
			if PublicKey::from_slice(&out).is_err() {
				break; // about half of all x have no point on the curve
			}
		},
	}
	out
}

/// A compact ECDSA signature accepted by every parser: r and s below the group order
/// (the order starts with 0xFFFFFFFF.., so clearing the top bit is sufficient).
pub fn sig(r: &mut Rng) -> Vec<u8> {
	let mut s = r.bytes(64);
	s[0] &= 0x7f;
	s[32] &= 0x7f;
	s
}

pub fn bigsize(v: u64) -> Vec<u8> {
	// BOLT-1 BigSize: big-endian, minimal
	if v < 0xfd {
		vec![v as u8]
	} else if v <= 0xffff {
		let mut o = vec![0xfd];
		o.extend_from_slice(&(v as u16).to_be_bytes());
		o
	} else if v <= 0xffff_ffff {
		let mut o = vec![0xfe];
		o.extend_from_slice(&(v as u32).to_be_bytes());
		o
	} else {
		let mut o = vec![0xff];
		o.extend_from_slice(&v.to_be_bytes());
		o
	}
}

/// The non-minimal BigSize encodings of `v` (longer than necessary), BOLT-1 "MUST fail".
pub fn bigsize_non_minimal(v: u64) -> Vec<Vec<u8>> {
	let mut out = vec![];
	if v < 0xfd {
		let mut o = vec![0xfd];
		o.extend_from_slice(&(v as u16).to_be_bytes());
		out.push(o);
	}
	if v <= 0xffff {
		let mut o = vec![0xfe];
		o.extend_from_slice(&(v as u32).to_be_bytes());
		out.push(o);
	}
	if v <= 0xffff_ffff {
		let mut o = vec![0xff];
		o.extend_from_slice(&v.to_be_bytes());
		out.push(o);
	}
	out
}

/// Bitcoin CompactSize (little-endian, minimal) used inside consensus-encoded transactions/witnesses.
fn compact_size(v: usize) -> Vec<u8> {
	if v < 0xfd {
		vec![v as u8]
	} else if v <= 0xffff {
		let mut o = vec![0xfd];
		o.extend_from_slice(&(v as u16).to_le_bytes());
		o
	} else {
		let mut o = vec![0xfe];
		o.extend_from_slice(&(v as u32).to_le_bytes());
		o
	}
}

// ---------------------------------------------------------------------------------------------
// template vocabulary
// ---------------------------------------------------------------------------------------------

/// Kinds of mandatory fields.
#[derive(Clone, Copy, Debug, PartialEq)]
pub enum F {
	/// fixed number of opaque bytes (integers, hashes, channel ids, node ids, rgb, alias ...)
	B(usize),
	/// one byte, 0 or 1
	Bool,
	/// channel_update.message_flags: bit 0 (`must_be_one`) set
	MsgFlags,
	/// compressed secp256k1 point that the receiver must validate
	Pt,
	/// 64-byte compact signature
	Sig,
	/// u16 length + opaque bytes
	Var16,
	/// u16 length + UTF-8 text (error / warning data as LDK models it)
	Utf8,
	/// u16 length + feature bits
	Feat16,
	/// init: gflen, globalfeatures (= low 13 bits of features, as every current sender does), flen, features
	InitFeat,
	/// u16 length + that many zero bytes (ping / pong padding)
	Zeros16,
	/// u16 count + count * 64-byte signatures
	Sigs16,
	/// u16 len + encoding byte 0 + 8-byte short channel ids
	Scids,
	/// tx_signatures: u16 count, then per witness u16 len + consensus-encoded witness stack
	Witnesses,
	/// tx_add_input: u16 len + consensus-encoded transaction (len 0 = absent)
	PrevTx,
	/// update_add_htlc onion: version, ephemeral key, 1300 bytes, hmac (1366 bytes). The key is kept
	/// unvalidated by design (BOLT-4 failure reporting), so it is excluded from the invalid-key rule.
	Onion1366,
	/// onion_message: u16 len + (version, point, hop payloads, hmac)
	OnionMsg,
	/// node_announcement: u16 addrlen + address descriptors (+ optional unknown-descriptor tail)
	Addrs,
	/// everything up to the end of the message (signed excess data of gossip messages)
	Rest,
}

/// Kinds of optional TLV record values.
#[derive(Clone, Copy, Debug, PartialEq)]
pub enum TK {
	Empty,
	B(usize),
	Pt,
	Sig,
	/// opaque bytes, any length (scripts, channel_type feature bits)
	Raw,
	/// n * 32-byte chain hashes
	Chains,
	/// one address descriptor (init.remote_addr)
	Addr,
	/// experimental accountable signal: one byte, 0 or 7
	Acct,
	/// revoke_and_ack.release_htlc_message_paths: (u64 htlc id, blinded path)+
	Paths,
}

impl TK {
	pub fn fixed_len(&self) -> Option<usize> {
		match *self {
			TK::Empty => Some(0),
			TK::B(n) => Some(n),
			TK::Pt => Some(33),
			TK::Sig => Some(64),
			TK::Acct => Some(1),
			_ => None,
		}
	}
}

pub struct Spec {
	pub name: &'static str,
	/// BOLT message type number
	pub id: u16,
	/// dispatched by `wire::read` in the default build (closing_complete/closing_sig need cfg(simple_close))
	pub wire: bool,
	pub f: &'static [F],
	/// `Some(records)`: the message ends in a TLV stream and these are the records the receiver
	/// understands. `None`: the LDK decoder does not parse an extension stream for this message.
	pub tlv: Option<&'static [(u64, TK)]>,
}

// ---------------------------------------------------------------------------------------------
// instantiation
// ---------------------------------------------------------------------------------------------

/// Everything that determines one generated message (this is what replay files store).
#[derive(Clone, Debug, Serialize, Deserialize)]
pub struct Inst {
	/// message selector, mapped monotonically onto the table
	pub msg: u16,
	/// bit i set = i-th known TLV record present
	pub tlv_mask: u8,
	/// one entry per variable-length decision, mapped to {0, 1, small, medium, max-fitting}
	pub lens: Vec<u16>,
	/// content bytes
	pub seed: u64,
}

#[derive(Clone, Debug)]
pub struct Rec {
	pub start: usize,
	pub end: usize,
	pub typ: u64,
	/// offset of the value
	pub val: usize,
	pub fixed: Option<usize>,
}

#[derive(Clone, Copy, Debug, PartialEq)]
pub enum LenKind {
	/// node_announcement addrlen, block holds >= 1 known descriptor and no unknown tail
	AddrsKnownOnly,
	/// tx_add_input prevtx_len with a transaction present
	PrevTx,
	/// tx_signatures per-witness length
	Witness,
	/// encoded_short_ids length
	Scids,
	/// u16-prefixed byte string that is the last mandatory field of a message with a TLV stream
	LastVar16,
}

#[derive(Default, Clone, Debug)]
pub struct Built {
	pub bytes: Vec<u8>,
	/// start offset of every mandatory field
	pub field_offs: Vec<usize>,
	/// end of the mandatory part = start of the TLV stream (messages with a TLV stream)
	pub tlv_start: Option<usize>,
	pub recs: Vec<Rec>,
	/// offsets of points the receiver must validate
	pub pts: Vec<usize>,
	/// introduction-node points of blinded paths: a first byte of 0/1 selects the short-channel-id form
	pub pts_intro: Vec<usize>,
	pub sigs: Vec<usize>,
	pub bools: Vec<usize>,
	/// offset of the gossip-query encoding-type byte
	pub enc_type: Option<usize>,
	/// start of the free-form tail (gossip excess data)
	pub rest_start: Option<usize>,
	/// inner u16 length descriptors whose disagreement with the content has a crisp verdict
	pub inner_lens: Vec<(usize, LenKind)>,
	pub b0: bool,
	pub b1: bool,
	pub bmax: bool,
	pub fallback: bool,
}

struct G<'a> {
	main: Rng,
	lens: &'a [u16],
	li: usize,
	/// bytes that may still be spent above the minimal instantiation
	budget: usize,
	dry: bool,
	cap_small: bool,
	out: Vec<u8>,
	m: Built,
}

impl<'a> G<'a> {
	/// Number of elements for a variable-length item: `min` in the dry pass, otherwise one of the
	/// classes 0 / 1 / small / medium / max-fitting (-0..2), limited by the remaining budget.
	fn choose(&mut self, unit: usize, min: usize, hard_max: usize) -> usize {
		let c = self.lens.get(self.li).copied().unwrap_or(0) as usize;
		self.li += 1;
		if self.dry {
			return min;
		}
		let maxn = (min + self.budget / unit.max(1)).min(hard_max);
		let mut is_max = false;
		let want = if c < 0x3000 {
			0
		} else if c < 0x5000 {
			1
		} else if c < 0xC000 || self.cap_small {
			2 + c % 48
		} else if c < 0xE800 {
			50 + (c * 7) % 1500
		} else if c < 0xF400 {
			is_max = true;
			maxn.saturating_sub(c % 3)
		} else {
			is_max = true;
			maxn
		};
		let n = want.max(min).min(maxn);
		self.budget -= (n - min) * unit;
		if n == 0 {
			self.m.b0 = true;
		}
		if n == 1 {
			self.m.b1 = true;
		}
		if is_max && n + 2 >= maxn && n > 64 {
			self.m.bmax = true;
		}
		n
	}

	fn put16(&mut self, v: usize) {
		debug_assert!(v <= 0xffff);
		self.out.extend_from_slice(&(v as u16).to_be_bytes());
	}

	fn field(&mut self, f: &F) {
		let mut r = self.main.fork();
		self.m.field_offs.push(self.out.len());
		match *f {
			F::B(n) => self.out.extend(r.bytes(n)),
			F::Bool => {
				self.m.bools.push(self.out.len());
				self.out.push((r.next() & 1) as u8);
			},
			F::MsgFlags => self.out.push((r.next() as u8) | 1),
			F::Pt => {
				self.m.pts.push(self.out.len());
				self.out.extend_from_slice(&point(&mut r));
			},
			F::Sig => {
				self.m.sigs.push(self.out.len());
				self.out.extend(sig(&mut r));
			},
			F::Var16 | F::Feat16 => {
				let n = self.choose(1, 0, 0xfffe);
				self.put16(n);
				let mut b = r.bytes(n);
				if *f == F::Feat16 && r.below(3) == 0 {
					// realistic sparse vectors too, incl. leading (most significant) zero bytes
					for x in b.iter_mut() {
						*x &= 0x0a;
					}
					if n > 1 && r.below(2) == 0 {
						b[0] = 0;
					}
				}
				self.out.extend(b);
			},
			F::Utf8 => {
				let n = self.choose(1, 0, 0xfffe);
				self.put16(n);
				let mut s: Vec<u8> = r.bytes(n).into_iter().map(|b| 0x20 + b % 95).collect();
				// sprinkle a few multi-byte scalars, keeping the byte length exact
				let mut i = 0;
				while i + 4 <= s.len() && r.below(4) == 0 {
					let ch = ['é', '→', '😀', 'ß'][r.below(4) as usize];
					let mut buf = [0u8; 4];
					let e = ch.encode_utf8(&mut buf).as_bytes().to_vec();
					s[i..i + e.len()].copy_from_slice(&e);
					i += 4 + r.below(9) as usize;
				}
				self.out.extend(s);
			},
			F::InitFeat => {
				let reserve = if self.dry { 0 } else { self.budget.min(2) };
				self.budget -= reserve;
				let k = self.choose(1, 0, 0xfffe);
				let feat = r.bytes(k);
				let gf: Vec<u8> = match k {
					0 => vec![],
					1 => vec![feat[0]],
					_ => vec![feat[k - 2] & 0x3f, feat[k - 1]],
				};
				self.budget += reserve - reserve.min(gf.len());
				self.put16(gf.len());
				self.out.extend(gf);
				self.put16(k);
				self.out.extend(feat);
			},
			F::Zeros16 => {
				let n = self.choose(1, 0, 0xfffe);
				self.put16(n);
				self.out.extend(std::iter::repeat(0u8).take(n));
			},
			F::Sigs16 => {
				let n = self.choose(64, 0, 0xfffe);
				self.put16(n);
				for _ in 0..n {
					self.m.sigs.push(self.out.len());
					self.out.extend(sig(&mut r));
				}
			},
			F::Scids => {
				let n = self.choose(8, 0, 8190);
				self.m.inner_lens.push((self.out.len(), LenKind::Scids));
				self.put16(1 + 8 * n);
				self.m.enc_type = Some(self.out.len());
				self.out.push(0);
				self.out.extend(r.bytes(8 * n));
			},
			F::Witnesses => {
				const UNIT: usize = 320;
				let n = self.choose(UNIT, 0, 4000);
				self.put16(n);
				let before = self.out.len();
				for _ in 0..n {
					let mut w;
					if r.below(24) == 0 {
						let l = 253 + r.below(48) as usize;
						w = compact_size(1);
						w.extend(compact_size(l));
						w.extend(r.bytes(l));
					} else {
						let items = r.below(5) as usize;
						w = compact_size(items);
						for _ in 0..items {
							let l = match r.below(4) {
								0 => 0,
								1 => 33,
								2 => 71 + r.below(3) as usize,
								_ => r.below(40) as usize,
							};
							w.extend(compact_size(l));
							w.extend(r.bytes(l));
						}
					}
					self.m.inner_lens.push((self.out.len(), LenKind::Witness));
					self.put16(w.len());
					self.out.extend(w);
				}
				if !self.dry {
					self.budget += n * UNIT - (self.out.len() - before);
				}
			},
			F::PrevTx => {
				let req = self.choose(1, 0, 0xffff);
				if !self.dry {
					self.budget += req;
				}
				let avail = self.budget.min(0xffff);
				if self.dry || req == 0 || avail < 64 {
					self.put16(0);
				} else {
					let tx = build_tx(&mut r, req.max(64).min(avail), avail);
					self.budget -= tx.len();
					self.m.inner_lens.push((self.out.len(), LenKind::PrevTx));
					self.put16(tx.len());
					self.out.extend(tx);
				}
			},
			F::Onion1366 => {
				self.out.push(if r.below(4) == 0 { r.next() as u8 } else { 0 });
				self.out.extend_from_slice(&point(&mut r));
				self.out.extend(r.bytes(1300));
				self.out.extend(r.bytes(32));
			},
			F::OnionMsg => {
				let h = self.choose(1, 0, 0xfffe - 66);
				self.put16(66 + h);
				self.out.push(if r.below(4) == 0 { r.next() as u8 } else { 0 });
				self.m.pts.push(self.out.len());
				self.out.extend_from_slice(&point(&mut r));
				self.out.extend(r.bytes(h));
				self.out.extend(r.bytes(32));
			},
			F::Addrs => {
				let req = self.choose(1, 0, 0xffff);
				if !self.dry {
					self.budget += req;
				}
				let avail = self.budget.min(0xffff);
				let mut a: Vec<u8> = vec![];
				let mut tail = false;
				if !self.dry {
					loop {
						let d = address(&mut r);
						if a.len() + d.len() > req {
							break;
						}
						a.extend(d);
					}
					if r.below(4) == 0 && a.len() < avail {
						// descriptor type unknown to every current implementation: the rest of the
						// address block is opaque but signed, and must survive
						let t = [0u8, 6, 7, 42, 255][r.below(5) as usize];
						a.push(t);
						tail = true;
						let extra = (req.saturating_sub(a.len())).min(avail - a.len());
						let cap = 1 + r.below(300) as usize;
						a.extend(r.bytes(extra.min(cap)));
					}
					self.budget -= a.len();
				}
				if !a.is_empty() && !tail {
					self.m.inner_lens.push((self.out.len(), LenKind::AddrsKnownOnly));
				}
				self.put16(a.len());
				self.out.extend(a);
			},
			F::Rest => {
				let n = self.choose(1, 0, 0xffff);
				self.m.rest_start = Some(self.out.len());
				self.out.extend(r.bytes(n));
			},
		}
	}

	/// Variable-length TLV values: the length prefix grows by two bytes once the value reaches 253.
	fn choose_tlv(&mut self, unit: usize, min: usize) -> usize {
		let reserve = if !self.dry && self.budget > 254 { 2 } else { 0 };
		self.budget -= reserve;
		let n = self.choose(unit, min, 0xffff);
		if n * unit < 253 {
			self.budget += reserve;
		}
		n
	}

	fn tlv(&mut self, typ: u64, k: &TK) {
		let mut r = self.main.fork();
		let start = self.out.len();
		let mut rel_pts: Vec<usize> = vec![];
		let mut rel_sigs: Vec<usize> = vec![];
		let mut rel_intro: Vec<usize> = vec![];
		let v: Vec<u8> = match *k {
			TK::Empty => vec![],
			TK::B(n) => r.bytes(n),
			TK::Pt => {
				rel_pts.push(0);
				point(&mut r).to_vec()
			},
			TK::Sig => {
				rel_sigs.push(0);
				sig(&mut r)
			},
			TK::Acct => vec![if r.next() & 1 == 1 { 7 } else { 0 }],
			TK::Raw => {
				let n = self.choose_tlv(1, 0);
				r.bytes(n)
			},
			TK::Chains => {
				let n = self.choose_tlv(32, 0);
				r.bytes(32 * n)
			},
			TK::Addr => address(&mut r),
			TK::Paths => {
				const UNIT: usize = 380;
				let n = self.choose_tlv(UNIT, 1);
				let mut v = vec![];
				let mut first_len = 0;
				for i in 0..n {
					v.extend(r.bytes(8)); // htlc id
					if r.below(3) == 0 {
						v.push(r.below(2) as u8); // directed short channel id: direction + scid
						v.extend(r.bytes(8));
					} else {
						rel_intro.push(v.len());
						v.extend_from_slice(&point(&mut r));
					}
					rel_pts.push(v.len());
					v.extend_from_slice(&point(&mut r)); // first path key
					let hops = 1 + r.below(3) as usize;
					v.push(hops as u8);
					for _ in 0..hops {
						rel_pts.push(v.len());
						v.extend_from_slice(&point(&mut r));
						let pl = r.below(61) as usize;
						v.extend_from_slice(&(pl as u16).to_be_bytes());
						v.extend(r.bytes(pl));
					}
					if i == 0 {
						first_len = v.len();
					}
				}
				if !self.dry {
					self.budget += (n - 1) * UNIT - (v.len() - first_len);
				}
				v
			},
		};
		self.out.extend(bigsize(typ));
		self.out.extend(bigsize(v.len() as u64));
		let val = self.out.len();
		self.out.extend(v);
		for p in rel_pts {
			self.m.pts.push(val + p);
		}
		for p in rel_sigs {
			self.m.sigs.push(val + p);
		}
		for p in rel_intro {
			self.m.pts_intro.push(val + p);
		}
		self.m.recs.push(Rec { start, end: self.out.len(), typ, val, fixed: k.fixed_len() });
	}
}

/// One BOLT-7 address descriptor of a type every implementation knows (1..=5).
fn address(r: &mut Rng) -> Vec<u8> {
	let mut d = vec![];
	match r.below(5) {
		0 => {
			d.push(1);
			d.extend(r.bytes(4 + 2));
		},
		1 => {
			d.push(2);
			d.extend(r.bytes(16 + 2));
		},
		2 => {
			d.push(3);
			d.extend(r.bytes(10 + 2));
		},
		3 => {
			d.push(4);
			d.extend(r.bytes(32 + 2 + 1 + 2));
		},
		_ => {
			d.push(5);
			let l = match r.below(8) {
				0 => 0,
				1 => 255,
				2 => 1,
				_ => 3 + r.below(40) as usize,
			};
			d.push(l as u8);
			const CS: &[u8] = b"abcdefghijklmnopqrstuvwxyzABCDEFGHIJKLMNOPQRSTUVWXYZ0123456789.-_";
			d.extend(r.bytes(l).into_iter().map(|b| CS[b as usize % CS.len()]));
			d.extend(r.bytes(2));
		},
	}
	d
}

/// A consensus-encoded transaction of roughly `target` bytes and at most `hard` bytes.
fn build_tx(r: &mut Rng, target: usize, hard: usize) -> Vec<u8> {
	let segwit = r.below(2) == 0;
	let n_in = 1 + r.below(3) as usize;
	let n_out = r.below(3) as usize;
	let mut ins: Vec<Vec<u8>> = vec![];
	let mut wits: Vec<Vec<u8>> = vec![];
	for i in 0..n_in {
		let mut t = r.bytes(36);
		let sl = if r.below(2) == 0 { 0 } else { r.below(30) as usize };
		t.extend(compact_size(sl));
		t.extend(r.bytes(sl));
		t.extend(r.bytes(4));
		ins.push(t);
		let items = if i == 0 { 1 + r.below(3) as usize } else { r.below(3) as usize };
		let mut w = compact_size(items);
		for _ in 0..items {
			let l = r.below(24) as usize;
			w.extend(compact_size(l));
			w.extend(r.bytes(l));
		}
		wits.push(w);
	}
	let mut outs: Vec<Vec<u8>> = vec![];
	for _ in 0..n_out {
		let mut t = r.bytes(8);
		let sl = r.below(40) as usize;
		t.extend(compact_size(sl));
		t.extend(r.bytes(sl));
		outs.push(t);
	}
	let ser = |outs: &Vec<Vec<u8>>| -> Vec<u8> {
		let mut t = vec![];
		t.extend_from_slice(&[if segwit { 2 } else { 1 }, 0, 0, 0]);
		if segwit {
			t.extend_from_slice(&[0, 1]);
		}
		t.extend(compact_size(ins.len()));
		for i in ins.iter() {
			t.extend_from_slice(i);
		}
		t.extend(compact_size(outs.len()));
		for o in outs.iter() {
			t.extend_from_slice(o);
		}
		if segwit {
			for w in wits.iter() {
				t.extend_from_slice(w);
			}
		}
		t.extend_from_slice(&[0, 0, 0, 0]);
		t
	};
	let base = ser(&outs).len();
	if target > base + 16 && target <= hard {
		let p = target - base - 11;
		let mut t = r.bytes(8);
		t.extend(compact_size(p));
		t.extend(r.bytes(p));
		outs.push(t);
	}
	let tx = ser(&outs);
	if tx.len() <= hard {
		return tx;
	}
	// minimal legacy transaction: one input, no outputs (51 bytes)
	let mut t = vec![1, 0, 0, 0, 1];
	t.extend(r.bytes(36));
	t.push(0);
	t.extend(r.bytes(4));
	t.push(0);
	t.extend_from_slice(&[0, 0, 0, 0]);
	t
}

fn run_once(spec: &Spec, inst: &Inst, budget: usize, dry: bool, cap_small: bool) -> Built {
	let mut g = G { main: Rng(inst.seed), lens: &inst.lens, li: 0, budget, dry, cap_small, out: vec![], m: Built::default() };
	for f in spec.f.iter() {
		g.field(f);
	}
	if spec.tlv.is_some() && spec.f.last() == Some(&F::Var16) {
		let o = *g.m.field_offs.last().unwrap();
		g.m.inner_lens.push((o, LenKind::LastVar16));
	}
	if let Some(tlvs) = spec.tlv {
		g.m.tlv_start = Some(g.out.len());
		for (i, (typ, k)) in tlvs.iter().enumerate() {
			if inst.tlv_mask & (1 << i) != 0 {
				g.tlv(*typ, k);
			} else {
				let _ = g.main.fork(); // keep the main stream independent of the mask
			}
		}
	}
	let mut m = g.m;
	m.bytes = g.out;
	m
}

pub fn spec_of(inst: &Inst) -> (usize, &'static Spec) {
	let k = ((inst.msg as usize) * SPECS.len()) >> 16;
	(k, &SPECS[k])
}

/// Instantiate the template selected by `inst` into canonical bytes plus structural metadata.
pub fn build(inst: &Inst) -> (usize, &'static Spec, Built) {
	let (k, spec) = spec_of(inst);
	let dry = run_once(spec, inst, 0, true, false);
	let budget = MAX_PAYLOAD.saturating_sub(dry.bytes.len());
	let mut b = run_once(spec, inst, budget, false, false);
	if b.bytes.len() > MAX_PAYLOAD {
		b = run_once(spec, inst, budget, false, true);
		b.fallback = true;
	}
	assert!(b.bytes.len() <= MAX_PAYLOAD, "template generator bug: {} bytes for {}", b.bytes.len(), spec.name);
	(k, spec, b)
}

// ---------------------------------------------------------------------------------------------
// the table (BOLT numbers and layouts) and the typed decoder dispatch
// ---------------------------------------------------------------------------------------------

/// Type-erased decoded message.
pub trait AnyMsg: Any {
	fn enc(&self) -> Vec<u8>;
	fn slen(&self) -> usize;
	fn same(&self, o: &dyn AnyMsg) -> bool;
	fn dbg(&self) -> String;
	fn any(&self) -> &dyn Any;
}
impl<M: Writeable + PartialEq + Debug + 'static> AnyMsg for M {
	fn enc(&self) -> Vec<u8> {
		self.encode()
	}
	fn slen(&self) -> usize {
		self.serialized_length()
	}
	fn same(&self, o: &dyn AnyMsg) -> bool {
		o.any().downcast_ref::<M>().map(|x| x == self).unwrap_or(false)
	}
	fn dbg(&self) -> String {
		let s = format!("{:?}", self);
		if s.len() > 600 {
			format!("{}…", &s[..s.char_indices().take_while(|(i, _)| *i < 600).count()])
		} else {
			s
		}
	}
	fn any(&self) -> &dyn Any {
		self
	}
}

macro_rules! table {
	($( ($name:literal, $ty:ty, $id:expr, $wire:expr, [$($f:expr),*], $tlv:expr) ),* $(,)?) => {
		pub static SPECS: &[Spec] = &[ $( Spec { name: $name, id: $id, wire: $wire, f: &[$($f),*], tlv: $tlv } ),* ];
		#[allow(unused_assignments)]
		pub fn decode<R: LengthLimitedRead>(kind: usize, r: &mut R) -> Result<Box<dyn AnyMsg>, DecodeError> {
			let mut i = 0usize;
			$(
				if kind == i {
					return Ok(Box::new(<$ty as LengthReadable>::read_from_fixed_length_buffer(r)?));
				}
				i += 1;
			)*
			unreachable!("no such message kind")
		}
	};
}

const U8: F = F::B(1);
const U16: F = F::B(2);
const U32: F = F::B(4);
const U64: F = F::B(8);
const H: F = F::B(32); // channel id / chain hash / txid / sha256 / secret
const NID: F = F::B(33); // gossip node ids and bitcoin keys are carried unvalidated (checked with the signatures)
use F::{Addrs, Bool, Feat16, InitFeat, MsgFlags, Onion1366, OnionMsg, PrevTx, Pt, Rest, Scids, Sig, Sigs16, Utf8, Var16, Witnesses, Zeros16};

const NO_TLVS: Option<&'static [(u64, TK)]> = Some(&[]);
const OPEN1_TLVS: Option<&'static [(u64, TK)]> = Some(&[(0, TK::Raw), (1, TK::Raw)]);
const OPEN2_TLVS: Option<&'static [(u64, TK)]> = Some(&[(0, TK::Raw), (1, TK::Raw), (2, TK::Empty), (103, TK::Empty)]);
const CLOSING_TLVS: Option<&'static [(u64, TK)]> = Some(&[(1, TK::Sig), (2, TK::Sig), (3, TK::Sig)]);

table! {
	// BOLT 1
	("init", msgs::Init, 16, true, [InitFeat], Some(&[(1, TK::Chains), (3, TK::Addr)])),
	("error", msgs::ErrorMessage, 17, true, [H, Utf8], None),
	("warning", msgs::WarningMessage, 1, true, [H, Utf8], None),
	("ping", msgs::Ping, 18, true, [U16, Zeros16], None),
	("pong", msgs::Pong, 19, true, [Zeros16], None),
	("peer_storage", msgs::PeerStorage, 7, true, [Var16], NO_TLVS),
	("peer_storage_retrieval", msgs::PeerStorageRetrieval, 9, true, [Var16], NO_TLVS),
	// BOLT 2: quiescence, channel establishment v1
	("stfu", msgs::Stfu, 2, true, [H, Bool], NO_TLVS),
	("open_channel", msgs::OpenChannel, 32, true,
		[H, H, U64, U64, U64, U64, U64, U64, U32, U16, U16, Pt, Pt, Pt, Pt, Pt, Pt, U8], OPEN1_TLVS),
	("accept_channel", msgs::AcceptChannel, 33, true,
		[H, U64, U64, U64, U64, U32, U16, U16, Pt, Pt, Pt, Pt, Pt, Pt], OPEN1_TLVS),
	("funding_created", msgs::FundingCreated, 34, true, [H, H, U16, Sig], NO_TLVS),
	("funding_signed", msgs::FundingSigned, 35, true, [H, Sig], NO_TLVS),
	("channel_ready", msgs::ChannelReady, 36, true, [H, Pt], Some(&[(1, TK::B(8))])),
	// closing
	("shutdown", msgs::Shutdown, 38, true, [H, Var16], NO_TLVS),
	("closing_signed", msgs::ClosingSigned, 39, true, [H, U64, Sig], Some(&[(1, TK::B(16))])),
	("closing_complete", msgs::ClosingComplete, 40, false, [H, Var16, Var16, U64, U32], CLOSING_TLVS),
	("closing_sig", msgs::ClosingSig, 41, false, [H, Var16, Var16, U64, U32], CLOSING_TLVS),
	// channel establishment v2 and interactive transaction construction
	("open_channel2", msgs::OpenChannelV2, 64, true,
		[H, H, U32, U32, U64, U64, U64, U64, U16, U16, U32, Pt, Pt, Pt, Pt, Pt, Pt, Pt, U8], OPEN2_TLVS),
	("accept_channel2", msgs::AcceptChannelV2, 65, true,
		[H, U64, U64, U64, U64, U32, U16, U16, Pt, Pt, Pt, Pt, Pt, Pt, Pt], OPEN2_TLVS),
	("tx_add_input", msgs::TxAddInput, 66, true, [H, U64, PrevTx, U32, U32], Some(&[(0, TK::B(32))])),
	("tx_add_output", msgs::TxAddOutput, 67, true, [H, U64, U64, Var16], NO_TLVS),
	("tx_remove_input", msgs::TxRemoveInput, 68, true, [H, U64], NO_TLVS),
	("tx_remove_output", msgs::TxRemoveOutput, 69, true, [H, U64], NO_TLVS),
	("tx_complete", msgs::TxComplete, 70, true, [H], NO_TLVS),
	("tx_signatures", msgs::TxSignatures, 71, true, [H, H, Witnesses], Some(&[(0, TK::Sig)])),
	("tx_init_rbf", msgs::TxInitRbf, 72, true, [H, U32, U32], Some(&[(0, TK::B(8))])),
	("tx_ack_rbf", msgs::TxAckRbf, 73, true, [H], Some(&[(0, TK::B(8))])),
	("tx_abort", msgs::TxAbort, 74, true, [H, Var16], NO_TLVS),
	// splicing (draft numbers as deployed)
	("splice_locked", msgs::SpliceLocked, 77, true, [H, H], NO_TLVS),
	("splice_init", msgs::SpliceInit, 80, true, [H, U64, U32, U32, Pt], Some(&[(2, TK::Empty)])),
	("splice_ack", msgs::SpliceAck, 81, true, [H, U64, Pt], Some(&[(2, TK::Empty)])),
	// normal operation
	("start_batch", msgs::StartBatch, 127, true, [H, U16], Some(&[(1, TK::B(2))])),
	("update_add_htlc", msgs::UpdateAddHTLC, 128, true, [H, U64, U64, H, U32, Onion1366],
		Some(&[(0, TK::Pt), (65537, TK::B(8)), (75537, TK::Empty), (106823, TK::Acct)])),
	("update_fulfill_htlc", msgs::UpdateFulfillHTLC, 130, true, [H, U64, H], Some(&[(1, TK::B(920))])),
	("update_fail_htlc", msgs::UpdateFailHTLC, 131, true, [H, U64, Var16], Some(&[(1, TK::B(920))])),
	("commitment_signed", msgs::CommitmentSigned, 132, true, [H, Sig, Sigs16], Some(&[(1, TK::B(32))])),
	("revoke_and_ack", msgs::RevokeAndACK, 133, true, [H, H, Pt], Some(&[(75537, TK::Paths)])),
	("update_fee", msgs::UpdateFee, 134, true, [H, U32], NO_TLVS),
	("update_fail_malformed_htlc", msgs::UpdateFailMalformedHTLC, 135, true, [H, U64, H, U16], NO_TLVS),
	("channel_reestablish", msgs::ChannelReestablish, 136, true, [H, U64, U64, H, Pt],
		Some(&[(1, TK::B(33)), (5, TK::B(33))])),
	// BOLT 7
	("announcement_signatures", msgs::AnnouncementSignatures, 259, true, [H, U64, Sig, Sig], NO_TLVS),
	("channel_announcement", msgs::ChannelAnnouncement, 256, true,
		[Sig, Sig, Sig, Sig, Feat16, H, U64, NID, NID, NID, NID, Rest], None),
	("node_announcement", msgs::NodeAnnouncement, 257, true,
		[Sig, Feat16, U32, NID, F::B(3), H, Addrs, Rest], None),
	("channel_update", msgs::ChannelUpdate, 258, true,
		[Sig, H, U64, U32, MsgFlags, U8, U16, U64, U32, U32, U64, Rest], None),
	("query_short_channel_ids", msgs::QueryShortChannelIds, 261, true, [H, Scids], None),
	("reply_short_channel_ids_end", msgs::ReplyShortChannelIdsEnd, 262, true, [H, Bool], NO_TLVS),
	("query_channel_range", msgs::QueryChannelRange, 263, true, [H, U32, U32], NO_TLVS),
	("reply_channel_range", msgs::ReplyChannelRange, 264, true, [H, U32, U32, Bool, Scids], None),
	("gossip_timestamp_filter", msgs::GossipTimestampFilter, 265, true, [H, U32, U32], NO_TLVS),
	// BOLT 4
	("onion_message", msgs::OnionMessage, 513, true, [Pt, OnionMsg], None),
}

pub fn dec(kind: usize, b: &[u8]) -> Result<Box<dyn AnyMsg>, DecodeError> {
	let mut r = b;
	decode(kind, &mut r)
}
