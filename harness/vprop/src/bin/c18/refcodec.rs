//! Independent reference codecs used by the C18 oracles. Nothing in here calls into
//! `lightning-invoice`, `lightning::offers` or the `bech32` crate:
//!  * BIP-173 bech32 (charset, HRP expansion, polymod, checksum creation / verification),
//!  * BOLT-11 framing on top of it (timestamp, tagged fields, 104-symbol signature, signing hash),
//!  * BOLT-12 TLV stream framing (BigSize) and the BOLT-12 signature merkle root.

use bitcoin::hashes::{sha256, Hash, HashEngine};

pub const CHARSET: &[u8; 32] = b"qpzry9x8gf2tvdw0s3jn54khce6mua7l";
const GEN: [u32; 5] = [0x3b6a57b2, 0x26508e6d, 0x1ea119fa, 0x3d4233dd, 0x2a1462b3];

fn polymod(values: impl Iterator<Item = u8>) -> u32 {
	let mut chk: u32 = 1;
	for v in values {
		let b = chk >> 25;
		chk = ((chk & 0x1ff_ffff) << 5) ^ (v as u32);
		for (i, g) in GEN.iter().enumerate() {
			if (b >> i) & 1 == 1 {
				chk ^= g;
			}
		}
	}
	chk
}

fn hrp_expand(hrp: &str) -> Vec<u8> {
	let mut v: Vec<u8> = hrp.bytes().map(|c| c >> 5).collect();
	v.push(0);
	v.extend(hrp.bytes().map(|c| c & 31));
	v
}

/// The six checksum symbols for `hrp` and `data` (BIP-173 `bech32_create_checksum`).
pub fn checksum(hrp: &str, data: &[u8]) -> [u8; 6] {
	let pm = polymod(hrp_expand(hrp).into_iter().chain(data.iter().copied()).chain([0u8; 6])) ^ 1;
	let mut out = [0u8; 6];
	for i in 0..6 {
		out[i] = ((pm >> (5 * (5 - i))) & 31) as u8;
	}
	out
}

/// Serialize `hrp` + data symbols (without checksum) to a checksummed bech32 string.
pub fn encode(hrp: &str, data: &[u8]) -> String {
	let mut s = String::with_capacity(hrp.len() + 1 + data.len() + 6);
	s.push_str(hrp);
	s.push('1');
	for d in data.iter().chain(checksum(hrp, data).iter()) {
		s.push(CHARSET[*d as usize] as char);
	}
	s
}

/// BIP-173 decode of a checksummed string: (lower-case hrp, data symbols *without* checksum).
pub fn decode(s: &str) -> Result<(String, Vec<u8>), &'static str> {
	if !s.is_ascii() {
		return Err("non-ascii");
	}
	let has_lower = s.bytes().any(|c| c.is_ascii_lowercase());
	let has_upper = s.bytes().any(|c| c.is_ascii_uppercase());
	if has_lower && has_upper {
		return Err("mixed case");
	}
	let s = s.to_ascii_lowercase();
	let pos = s.rfind('1').ok_or("no separator")?;
	if pos == 0 || s.len() - pos - 1 < 6 {
		return Err("bad separator position");
	}
	let hrp = &s[..pos];
	if hrp.bytes().any(|c| !(33..=126).contains(&c)) {
		return Err("bad hrp char");
	}
	let mut data = Vec::with_capacity(s.len() - pos - 1);
	for c in s[pos + 1..].bytes() {
		match CHARSET.iter().position(|x| *x == c) {
			Some(i) => data.push(i as u8),
			None => return Err("bad data char"),
		}
	}
	if polymod(hrp_expand(hrp).into_iter().chain(data.iter().copied())) != 1 {
		return Err("checksum");
	}
	data.truncate(data.len() - 6);
	Ok((hrp.to_string(), data))
}

/// Pack 5-bit symbols into bytes, most significant bit first. With `pad` the trailing partial
/// byte is completed with zero bits (BOLT-11 signing rule); without it the partial bits are dropped.
pub fn symbols_to_bytes(sym: &[u8], pad: bool) -> Vec<u8> {
	let mut out = Vec::with_capacity(sym.len() * 5 / 8 + 1);
	let (mut acc, mut bits) = (0u32, 0u32);
	for s in sym {
		acc = (acc << 5) | (*s as u32 & 31);
		bits += 5;
		if bits >= 8 {
			bits -= 8;
			out.push((acc >> bits) as u8);
			acc &= (1 << bits) - 1;
		}
	}
	if pad && bits > 0 {
		out.push((acc << (8 - bits)) as u8);
	}
	out
}

/// Bytes to 5-bit symbols, zero-padding the last symbol.
pub fn bytes_to_symbols(bytes: &[u8]) -> Vec<u8> {
	let mut out = Vec::with_capacity(bytes.len() * 8 / 5 + 1);
	let (mut acc, mut bits) = (0u32, 0u32);
	for b in bytes {
		acc = (acc << 8) | *b as u32;
		bits += 8;
		while bits >= 5 {
			bits -= 5;
			out.push(((acc >> bits) & 31) as u8);
		}
		acc &= (1 << bits) - 1;
	}
	if bits > 0 {
		out.push(((acc << (5 - bits)) & 31) as u8);
	}
	out
}

/// Big-endian integer to the minimal number of 5-bit symbols (empty for 0).
pub fn int_to_symbols(mut v: u64) -> Vec<u8> {
	let mut out = vec![];
	while v != 0 {
		out.push((v & 31) as u8);
		v >>= 5;
	}
	out.reverse();
	out
}

pub fn symbols_to_int(sym: &[u8]) -> Option<u64> {
	let mut v: u64 = 0;
	for s in sym {
		v = v.checked_mul(32)?.checked_add(*s as u64)?;
	}
	Some(v)
}

pub const B11_SIG_SYMBOLS: usize = 104;
pub const B11_TS_SYMBOLS: usize = 7;

/// One BOLT-11 tagged field as laid out in the data part: symbols `start..end` of the data,
/// `tag`, and the payload `start+3..end`.
#[derive(Clone, Debug)]
pub struct B11Field {
	pub tag: u8,
	pub start: usize,
	pub end: usize,
}

/// Walk the tagged fields between the timestamp and the signature. `None` if the framing is broken.
pub fn b11_fields(data: &[u8]) -> Option<Vec<B11Field>> {
	if data.len() < B11_TS_SYMBOLS + B11_SIG_SYMBOLS {
		return None;
	}
	let end_all = data.len() - B11_SIG_SYMBOLS;
	let mut i = B11_TS_SYMBOLS;
	let mut out = vec![];
	while i < end_all {
		if i + 3 > end_all {
			return None;
		}
		let len = (data[i + 1] as usize) * 32 + data[i + 2] as usize;
		if i + 3 + len > end_all {
			return None;
		}
		out.push(B11Field { tag: data[i], start: i, end: i + 3 + len });
		i += 3 + len;
	}
	Some(out)
}

/// BOLT-11: the signature covers SHA256(hrp as utf-8 || data part without the signature, packed to
/// bytes with zero bits appended up to a byte boundary).
pub fn b11_signing_hash(hrp: &str, data_without_sig: &[u8]) -> [u8; 32] {
	let mut e = sha256::Hash::engine();
	e.input(hrp.as_bytes());
	e.input(&symbols_to_bytes(data_without_sig, true));
	sha256::Hash::from_engine(e).to_byte_array()
}

/// Parse the amount of a BOLT-11 HRP ("ln" + currency + [digits [multiplier]]) into
/// (currency prefix, amount in pico-BTC). Independent of the library's state machine.
pub fn b11_hrp_amount(hrp: &str) -> Option<(String, Option<u128>)> {
	let rest = hrp.strip_prefix("ln")?;
	let cur_len = rest.bytes().take_while(|c| !c.is_ascii_digit()).count();
	let (cur, amt) = rest.split_at(cur_len);
	if amt.is_empty() {
		return Some((cur.to_string(), None));
	}
	let digits_len = amt.bytes().take_while(|c| c.is_ascii_digit()).count();
	let (digits, mult) = amt.split_at(digits_len);
	let n: u128 = digits.parse().ok()?;
	let pico = match mult {
		"" => n.checked_mul(1_000_000_000_000)?,
		"m" => n.checked_mul(1_000_000_000)?,
		"u" => n.checked_mul(1_000_000)?,
		"n" => n.checked_mul(1_000)?,
		"p" => n,
		_ => return None,
	};
	Some((cur.to_string(), Some(pico)))
}

// ------------------------------------------------------------------------------------------
// BOLT-12 TLV streams
// ------------------------------------------------------------------------------------------

#[derive(Clone, Debug, PartialEq, Eq)]
pub struct Tlv {
	pub typ: u64,
	pub value: Vec<u8>,
}

fn read_bigsize(b: &[u8], i: &mut usize) -> Option<u64> {
	let first = *b.get(*i)?;
	*i += 1;
	let (n, min) = match first {
		0xff => (8, 0x1_0000_0000u64),
		0xfe => (4, 0x1_0000),
		0xfd => (2, 0xfd),
		x => return Some(x as u64),
	};
	if *i + n > b.len() {
		return None;
	}
	let mut v = 0u64;
	for k in 0..n {
		v = (v << 8) | b[*i + k] as u64;
	}
	*i += n;
	if v < min {
		return None;
	}
	Some(v)
}

pub fn write_bigsize(v: u64, out: &mut Vec<u8>) {
	if v < 0xfd {
		out.push(v as u8);
	} else if v < 0x1_0000 {
		out.push(0xfd);
		out.extend_from_slice(&(v as u16).to_be_bytes());
	} else if v < 0x1_0000_0000 {
		out.push(0xfe);
		out.extend_from_slice(&(v as u32).to_be_bytes());
	} else {
		out.push(0xff);
		out.extend_from_slice(&v.to_be_bytes());
	}
}

/// Split a well-formed TLV stream into records (`None` on truncated / non-minimal encodings).
pub fn tlv_parse(b: &[u8]) -> Option<Vec<Tlv>> {
	let mut i = 0;
	let mut out = vec![];
	while i < b.len() {
		let typ = read_bigsize(b, &mut i)?;
		let len = read_bigsize(b, &mut i)? as usize;
		if i.checked_add(len)? > b.len() {
			return None;
		}
		out.push(Tlv { typ, value: b[i..i + len].to_vec() });
		i += len;
	}
	Some(out)
}

pub fn tlv_record_bytes(t: &Tlv) -> Vec<u8> {
	let mut out = vec![];
	write_bigsize(t.typ, &mut out);
	write_bigsize(t.value.len() as u64, &mut out);
	out.extend_from_slice(&t.value);
	out
}

pub fn tlv_serialize(ts: &[Tlv]) -> Vec<u8> {
	ts.iter().flat_map(tlv_record_bytes).collect()
}

fn tagged(tag: &[u8], msg: &[&[u8]]) -> [u8; 32] {
	let th = sha256::Hash::hash(tag).to_byte_array();
	let mut e = sha256::Hash::engine();
	e.input(&th);
	e.input(&th);
	for m in msg {
		e.input(m);
	}
	sha256::Hash::from_engine(e).to_byte_array()
}

fn branch(a: [u8; 32], b: [u8; 32]) -> [u8; 32] {
	// BOLT-12: H("LnBranch", lesser-SHA256 || greater-SHA256)
	if a < b {
		tagged(b"LnBranch", &[&a, &b])
	} else {
		tagged(b"LnBranch", &[&b, &a])
	}
}

fn subtree(leaves: &[[u8; 32]]) -> [u8; 32] {
	if leaves.len() == 1 {
		return leaves[0];
	}
	// the deepest (complete) subtree holds the lowest-order leaves
	let mut p = 1;
	while p * 2 < leaves.len() {
		p *= 2;
	}
	branch(subtree(&leaves[..p]), subtree(&leaves[p..]))
}

/// BOLT-12 "Signature Calculation": merkle root over all TLV records except the signature
/// range 240..=1000; each leaf is H("LnLeaf", tlv) paired with H("LnNonce"||first-tlv, type).
pub fn b12_merkle_root(records: &[Tlv]) -> Option<[u8; 32]> {
	let first = tlv_record_bytes(records.first()?);
	let mut nonce_tag = b"LnNonce".to_vec();
	nonce_tag.extend_from_slice(&first);
	let mut leaves = vec![];
	for r in records.iter().filter(|r| !(240..=1000).contains(&r.typ)) {
		let leaf = tagged(b"LnLeaf", &[&tlv_record_bytes(r)]);
		let mut tb = vec![];
		write_bigsize(r.typ, &mut tb);
		let nonce = tagged(&nonce_tag, &[&tb]);
		leaves.push(branch(leaf, nonce));
	}
	if leaves.is_empty() {
		return None;
	}
	Some(subtree(&leaves))
}

/// The message a BOLT-12 signature commits to: H("lightning" || messagename || fieldname, root).
pub fn b12_sig_digest(messagename: &str, root: [u8; 32]) -> [u8; 32] {
	let tag = format!("lightning{}signature", messagename);
	tagged(tag.as_bytes(), &[&root])
}
