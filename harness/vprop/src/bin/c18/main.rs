//! C18 — payment requests round-trip and cannot be forged or altered.
//!
//! Parts (see DESIGN.md "### C18"):
//!  * `b11`  BOLT-11: build over the builder's input space, round trip against the inputs and an
//!           independent bech32 / signing-hash implementation, single-character substitutions
//!           (must fail), recomputed-checksum mutations (fail, or unrelated recovered key, or the
//!           signed content is unchanged).
//!  * `b12`  BOLT-12: offer / invoice request / invoice / refund / static invoice through the public
//!           builders; round trip (==, deep Debug equality, accessors vs inputs, independent merkle
//!           root + BIP-340 check); every sampled single-bit flip of a signed stream is rejected;
//!           structural alterations never yield a verifying object with different signed content;
//!           stateless metadata verifies for the originator only.
//!  * `b1x_parse_arbitrary`  totality of every parser.
//!  * `finding_*`  two narrow sub-claims that fail on the pinned tree (reported, not weakened);
//!           they run last so that the parts above always produce their evidence.
mod arb;
mod b11;
mod b12;
mod refcodec;

use vcore::*;

fn main() {
	let mut c = Check::new("C18", "exploration");
	let thorough = c.tier() == Tier::Thorough;
	c.assume("BOLT-11 fallbacks carry BIP-141-valid witness programs (2..=40 bytes); route-hint htlc_minimum/maximum_msat are documented as not encodable and expected to be stripped; strings above MAX_LENGTH (7089) are documented as rejected");
	c.assume("BOLT-12 blinded paths have >=1 hop and payloads < 64 KiB; offers / refunds that a request or invoice is built against expire after the year 2200 or never (builders consult the wall clock); durations in the main parts are whole seconds");
	c.assume("the secp256k1 / sha256 primitives of the bitcoin crate are trusted; bech32, the BOLT-11 signing hash, TLV framing and the BOLT-12 merkle root are re-implemented in the harness");
	c.assume("a BOLT-11 string whose *encoding* differs from the signed one but decodes to identical content (upper case, padding bits, leading zeros) may be accepted: LDK hashes the re-serialized content; counted under 'accepted same content'");
	c.part(
		PartSpec {
			name: "b11",
			rule: "InvoiceBuilder inputs generated over all fields; non-trivial = >=3 optional fields set and >=1 checksum-fixed mutation inside the signed part",
			quick_cases: 8_000,
			thorough_cases: 400_000,
			max_shrink: 3000,
		},
		b11::strat(if thorough { 48 } else { 64 }, if thorough { 40 } else { 8 }),
		b11::oracle,
	);
	c.part(
		PartSpec {
			name: "b12",
			rule: "offer / request / invoice / refund / static-invoice flows through the public builders; non-trivial = offer has >=3 optional fields and >=1 bit flip or alteration landed in signed content",
			quick_cases: 6_000,
			thorough_cases: 100_000,
			max_shrink: 3000,
		},
		b12::strat(if thorough { 64 } else { 64 }, if thorough { 30 } else { 4 }),
		b12::oracle,
	);
	c.part(
		PartSpec {
			name: "b1x_parse_arbitrary",
			rule: "arbitrary / bech32-looking strings, random TLV streams and byte edits of valid encodings into every parser; non-trivial = non-empty input that differs from a valid encoding",
			quick_cases: 120_000,
			thorough_cases: 3_000_000,
			max_shrink: 3000,
		},
		arb::strat(),
		arb::oracle,
	);
	c.part(
		PartSpec {
			name: "finding_offer_metadata_injection",
			rule: "derived-signing-key offers with an injected offer_metadata record; every case is non-trivial",
			quick_cases: 200,
			thorough_cases: 2_000,
			max_shrink: 4000,
		},
		b12::strat_metadata_injection(),
		b12::oracle_metadata_injection,
	);
	// Observation outside the property's resolution (wire format carries whole seconds): opt-in only.
	if std::env::var("VERIF_C18_SUBSECOND").is_ok() {
	c.part(
		PartSpec {
			name: "finding_subsecond_expiry",
			rule: "offers / invoices built from Durations with a sub-second part; every case is non-trivial",
			quick_cases: 200,
			thorough_cases: 2_000,
			max_shrink: 4000,
		},
		b12::strat_subsec(),
		b12::oracle_subsec,
	);
	}
	c.finish();
}
