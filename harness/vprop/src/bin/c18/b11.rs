//! BOLT-11 half of C18: build invoices over the builder's whole input space, round-trip them,
//! and tamper with the serialized string (with and without recomputing the bech32 checksum).

use crate::refcodec as rc;
use bitcoin::hashes::{sha256, Hash};
use bitcoin::secp256k1::ecdsa::{RecoverableSignature, RecoveryId};
use bitcoin::secp256k1::{Message, PublicKey, Secp256k1, SecretKey};
use bitcoin::{PubkeyHash, ScriptHash, WitnessVersion};
use lightning_invoice::{
	Bolt11Invoice, Bolt11InvoiceDescriptionRef, Currency, Fallback, InvoiceBuilder, PaymentHash, PaymentSecret, RouteHint, RouteHintHop,
	RoutingFees, SignedRawBolt11Invoice, MAX_LENGTH, MAX_TIMESTAMP,
};
use lightning_types::features::Bolt11InvoiceFeatures;
use proptest::collection::vec as pvec;
use proptest::prelude::*;
use serde::{Deserialize, Serialize};
use std::sync::OnceLock;
use std::time::Duration;
use vcore::*;

// ------------------------------------------------------------------------------------------
// keys
// ------------------------------------------------------------------------------------------

pub struct KeyPool {
	pub secp: Secp256k1<bitcoin::secp256k1::All>,
	pub keys: Vec<(SecretKey, PublicKey)>,
}

/// 64 fixed key pairs (sk = SHA256("c18-key" || i)); cases refer to them by index.
pub fn pool() -> &'static KeyPool {
	static P: OnceLock<KeyPool> = OnceLock::new();
	P.get_or_init(|| {
		let secp = Secp256k1::new();
		let keys = (0..64u8)
			.map(|i| {
				let mut m = b"c18-key".to_vec();
				m.push(i);
				let sk = SecretKey::from_slice(&sha256::Hash::hash(&m).to_byte_array()).expect("valid scalar");
				(sk, PublicKey::from_secret_key(&secp, &sk))
			})
			.collect();
		KeyPool { secp, keys }
	})
}

pub fn key(i: u8) -> &'static (SecretKey, PublicKey) {
	&pool().keys[(i & 63) as usize]
}

// ------------------------------------------------------------------------------------------
// case
// ------------------------------------------------------------------------------------------

#[derive(Clone, Debug, Serialize, Deserialize)]
pub struct Hop {
	pub key: u8,
	pub scid: u64,
	pub base: u32,
	pub prop: u32,
	pub cltv: u16,
	/// htlc_minimum_msat / htlc_maximum_msat: not representable in BOLT 11 (documented as stripped)
	pub bounds: Option<(u64, u64)>,
}

#[derive(Clone, Debug, Serialize, Deserialize)]
pub enum Fb {
	Wit { ver: u8, prog: Vec<u8> },
	Pkh(Vec<u8>),
	Sh(Vec<u8>),
}

#[derive(Clone, Debug, Serialize, Deserialize)]
pub enum Desc {
	Text(String),
	Hash(Vec<u8>),
}

#[derive(Clone, Debug, Serialize, Deserialize)]
pub struct Inv {
	pub key: u8,
	pub currency: u8,
	pub amount: Option<u64>,
	pub desc: Desc,
	pub phash: Vec<u8>,
	pub psecret: Vec<u8>,
	pub ts: u64,
	pub expiry: Option<u64>,
	pub cltv: u64,
	pub fallbacks: Vec<Fb>,
	pub routes: Vec<Vec<Hop>>,
	/// payment metadata and whether it is marked required
	pub metadata: Option<(Vec<u8>, bool)>,
	pub mpp: bool,
	pub explicit_n: bool,
	/// which of the three builder call orders is used, and where the un-typed setters are cut in
	pub order: u8,
	pub cuts: (u8, u8),
}

#[derive(Clone, Debug, Serialize, Deserialize)]
pub enum HrpMut {
	/// replace the amount by digits + multiplier (0 none, 1 m, 2 u, 3 n, 4 p)
	Amount { n: u64, si: u8 },
	Drop,
	LeadingZero,
	Currency(u8),
	/// same value expressed with the next smaller multiplier (x1000)
	Equivalent,
	/// last digit +1 / multiplier rotated
	Nudge(u8),
}

#[derive(Clone, Debug, Serialize, Deserialize)]
pub enum FieldOp {
	Xor { pos: u16, xor: u8 },
	Tag(u8),
	Remove,
	Dup,
	SwapNext,
	Shrink,
	Grow(u8),
	/// re-encode an integer field (x / c) with one leading zero symbol: same value, different symbols
	IntLeadingZero,
	SetInt(u64),
}

#[derive(Clone, Debug, Serialize, Deserialize)]
pub enum Mut {
	/// replace one character of the string, checksum NOT recomputed
	Subst { pos: u16, ch: u32 },
	/// everything below recomputes the checksum with the harness's own polymod
	Sym { pos: u16, xor: u8 },
	SignedSym { pos: u16, xor: u8 },
	Hrp(HrpMut),
	Ts(u64),
	Field { idx: u16, op: FieldOp },
	Insert { idx: u16, tag: u8, payload: Vec<u8> },
	RecId(u8),
	SigMalleate,
	Upper,
	/// rewrite the `n` field with another valid key, or add an `n` field (the signer's own key when
	/// `key` is even) to an invoice that identifies its payee by recovery
	PayeeField { key: u8, at: u16 },
}

#[derive(Clone, Debug, Serialize, Deserialize)]
pub struct Case {
	pub inv: Inv,
	pub muts: Vec<Mut>,
	/// Some(salt): additionally substitute every character position once (no checksum fix) and
	/// mutate every data symbol once (checksum fixed)
	pub sweep: Option<u8>,
}

// ------------------------------------------------------------------------------------------
// strategies
// ------------------------------------------------------------------------------------------

fn text(max_chars: usize) -> impl Strategy<Value = String> + Clone {
	pvec(prop_oneof![6 => 0x20u32..0x7f, 1 => any::<char>().prop_map(|c| c as u32), 1 => Just(0xe9u32), 1 => Just(0x1f600u32)], 0..max_chars).prop_map(|v| {
		let mut s = String::new();
		for c in v {
			let ch = char::from_u32(c).unwrap_or('?');
			if s.len() + ch.len_utf8() > 639 {
				break;
			}
			s.push(ch);
		}
		s
	})
}

fn bytes(n: usize) -> impl Strategy<Value = Vec<u8>> + Clone {
	prop_oneof![3 => pvec(any::<u8>(), n), 1 => Just(vec![0u8; n]), 1 => Just(vec![0xffu8; n])]
}

fn amount() -> impl Strategy<Value = Option<u64>> + Clone {
	const TOP: u64 = u64::MAX / 10;
	prop_oneof![
		24 => Just(None),
		16 => (0u64..=11).prop_map(Some),
		24 => any::<u64>().prop_map(|v| Some(v % (TOP + 1))),
		// SI multiplier edges: 10^k and neighbours (10 pico-BTC = 1 msat, so every power of ten of msat)
		24 => (0u32..19, 0u64..3).prop_map(|(k, d)| Some((10u64.pow(k) + d).saturating_sub(1).min(TOP))),
		16 => (0u32..16, 1u64..1000).prop_map(|(k, m)| Some((10u64.pow(k)).saturating_mul(m).min(TOP))),
		8 => Just(Some(TOP)),
		8 => Just(Some(2_100_000_000_000_000_000u64.min(TOP))),
		// beyond the representable maximum: the builder must reject, never panic
		1 => (TOP + 1..=u64::MAX).prop_map(Some),
	]
}

fn timestamp() -> impl Strategy<Value = u64> + Clone {
	prop_oneof![
		8 => Just(0u64),
		8 => Just(MAX_TIMESTAMP),
		16 => 0u64..100,
		32 => 1_500_000_000u64..2_000_000_000,
		32 => any::<u64>().prop_map(|v| v % (MAX_TIMESTAMP + 1)),
		// 32^k boundaries of the 7-symbol big-endian field
		16 => (0u32..7, 0u64..3).prop_map(|(k, d)| (32u64.pow(k) + d).saturating_sub(1).min(MAX_TIMESTAMP)),
		1 => MAX_TIMESTAMP + 1..MAX_TIMESTAMP + 1000,
	]
}

fn wide_u64() -> impl Strategy<Value = u64> + Clone {
	prop_oneof![
		1 => Just(0u64),
		1 => Just(u64::MAX),
		3 => 0u64..5000,
		2 => any::<u64>(),
		2 => (0u32..13, 0u64..3).prop_map(|(k, d)| (32u64.checked_pow(k).unwrap_or(u64::MAX).saturating_add(d)).saturating_sub(1)),
	]
}

fn hop() -> impl Strategy<Value = Hop> + Clone {
	(any::<u8>(), wide_u64(), any::<u32>(), any::<u32>(), any::<u16>(), prop_oneof![9 => Just(None), 1 => (any::<u64>(), any::<u64>()).prop_map(Some)])
		.prop_map(|(key, scid, base, prop, cltv, bounds)| Hop { key, scid, base, prop, cltv, bounds })
}

fn fallback() -> impl Strategy<Value = Fb> + Clone {
	prop_oneof![
		// BIP-141 witness programs are 2..=40 bytes; v0 programs are 20 or 32 in practice
		2 => (0u8..=16, prop_oneof![Just(20usize), Just(32usize), 2usize..=40]).prop_flat_map(|(ver, n)| pvec(any::<u8>(), n).prop_map(move |prog| Fb::Wit { ver, prog })),
		1 => bytes(20).prop_map(Fb::Pkh),
		1 => bytes(20).prop_map(Fb::Sh),
	]
}

fn inv() -> impl Strategy<Value = Inv> + Clone {
	let desc = prop_oneof![
		40 => text(60).prop_map(Desc::Text),
		8 => Just(Desc::Text(String::new())),
		8 => Just(Desc::Text("d".repeat(639))),
		8 => text(700).prop_map(Desc::Text),
		30 => bytes(32).prop_map(Desc::Hash),
		// too long: builder must reject
		1 => Just(Desc::Text("e".repeat(640))),
	];
	let routes = prop_oneof![
		40 => Just(vec![]),
		40 => pvec(pvec(hop(), 1..=4), 1..=4),
		10 => pvec(pvec(hop(), 0..=12), 1..=2),
		1 => pvec(pvec(hop(), 13..=14), 1..=1),
	];
	let metadata = prop_oneof![
		50 => Just(None),
		40 => (pvec(any::<u8>(), 0..40), any::<bool>()).prop_map(Some),
		8 => (pvec(any::<u8>(), 600..=639), any::<bool>()).prop_map(Some),
		1 => (pvec(any::<u8>(), 640..=641), any::<bool>()).prop_map(Some),
	];
	(
		(any::<u8>(), 0u8..5, amount(), desc, bytes(32), bytes(32)),
		(timestamp(), proptest::option::weighted(0.6, wide_u64()), wide_u64(), pvec(fallback(), 0..=3), routes, metadata),
		(any::<bool>(), any::<bool>(), 0u8..3, (any::<u8>(), any::<u8>())),
	)
		.prop_map(|((key, currency, amount, desc, phash, psecret), (ts, expiry, cltv, fallbacks, routes, metadata), (mpp, explicit_n, order, cuts))| Inv {
			key,
			currency,
			amount,
			desc,
			phash,
			psecret,
			ts,
			expiry,
			cltv,
			fallbacks,
			routes,
			metadata,
			mpp,
			explicit_n,
			order,
			cuts,
		})
}

fn subst_char() -> impl Strategy<Value = u32> + Clone {
	prop_oneof![
		// another character of the bech32 alphabet (the common typo / bit error)
		8 => (0usize..32).prop_map(|i| rc::CHARSET[i] as u32),
		2 => (0usize..32).prop_map(|i| (rc::CHARSET[i] as char).to_ascii_uppercase() as u32),
		1 => prop_oneof![Just('1' as u32), Just('b' as u32), Just('i' as u32), Just('o' as u32), Just(' ' as u32), Just('+' as u32)],
		1 => 0u32..128,
		1 => any::<char>().prop_map(|c| c as u32),
	]
}

fn mutation() -> impl Strategy<Value = Mut> + Clone {
	let hrp = prop_oneof![
		3 => (wide_u64(), 0u8..5).prop_map(|(n, si)| HrpMut::Amount { n, si }),
		1 => Just(HrpMut::Drop),
		1 => Just(HrpMut::LeadingZero),
		2 => (0u8..5).prop_map(HrpMut::Currency),
		1 => Just(HrpMut::Equivalent),
		3 => any::<u8>().prop_map(HrpMut::Nudge),
	];
	let fop = prop_oneof![
		6 => (any::<u16>(), 1u8..32).prop_map(|(pos, xor)| FieldOp::Xor { pos, xor }),
		2 => (0u8..32).prop_map(FieldOp::Tag),
		1 => Just(FieldOp::Remove),
		1 => Just(FieldOp::Dup),
		1 => Just(FieldOp::SwapNext),
		1 => Just(FieldOp::Shrink),
		1 => (0u8..32).prop_map(FieldOp::Grow),
		1 => Just(FieldOp::IntLeadingZero),
		1 => wide_u64().prop_map(FieldOp::SetInt),
	];
	prop_oneof![
		10 => (any::<u16>(), subst_char()).prop_map(|(pos, ch)| Mut::Subst { pos, ch }),
		3 => (any::<u16>(), 1u8..32).prop_map(|(pos, xor)| Mut::Sym { pos, xor }),
		5 => (any::<u16>(), 1u8..32).prop_map(|(pos, xor)| Mut::SignedSym { pos, xor }),
		4 => hrp.prop_map(Mut::Hrp),
		3 => timestamp().prop_map(|t| Mut::Ts(t & MAX_TIMESTAMP)),
		8 => (any::<u16>(), fop).prop_map(|(idx, op)| Mut::Field { idx, op }),
		1 => (any::<u16>(), 0u8..32, pvec(0u8..32, 0..8)).prop_map(|(idx, tag, payload)| Mut::Insert { idx, tag, payload }),
		// (nested: prop_oneof! boxes its arms beyond ten alternatives, and a boxed strategy is not Send)
		5 => prop_oneof![
			1 => prop_oneof![3 => 0u8..4, 1 => any::<u8>()].prop_map(Mut::RecId),
			1 => Just(Mut::SigMalleate),
			1 => Just(Mut::Upper),
			2 => (any::<u8>(), any::<u16>()).prop_map(|(key, at)| Mut::PayeeField { key, at }),
		],
	]
}

/// `sweep_permille`: share of cases in which every character / symbol position is mutated once.
pub fn strat(muts: usize, sweep_permille: u32) -> impl Strategy<Value = Case> + Clone + Send + Sync + 'static {
	(inv(), pvec(mutation(), muts..=muts), (any::<u8>(), 0u32..1000)).prop_map(move |(inv, muts, (salt, r))| Case { inv, muts, sweep: if r < sweep_permille { Some(salt) } else { None } })
}

// ------------------------------------------------------------------------------------------
// building
// ------------------------------------------------------------------------------------------

fn currency(i: u8) -> Currency {
	match i % 5 {
		0 => Currency::Bitcoin,
		1 => Currency::BitcoinTestnet,
		2 => Currency::Regtest,
		3 => Currency::Simnet,
		_ => Currency::Signet,
	}
}

fn currency_prefix(i: u8) -> &'static str {
	["bc", "tb", "bcrt", "sb", "tbs"][(i % 5) as usize]
}

fn arr32(v: &[u8]) -> [u8; 32] {
	let mut a = [0u8; 32];
	let n = v.len().min(32);
	a[..n].copy_from_slice(&v[..n]);
	a
}

fn arr20(v: &[u8]) -> [u8; 20] {
	let mut a = [0u8; 20];
	let n = v.len().min(20);
	a[..n].copy_from_slice(&v[..n]);
	a
}

pub fn to_fallback(f: &Fb) -> Fallback {
	match f {
		Fb::Wit { ver, prog } => Fallback::SegWitProgram { version: WitnessVersion::try_from(*ver % 17).expect("0..=16"), program: prog.clone() },
		Fb::Pkh(h) => Fallback::PubKeyHash(PubkeyHash::from_byte_array(arr20(h))),
		Fb::Sh(h) => Fallback::ScriptHash(ScriptHash::from_byte_array(arr20(h))),
	}
}

pub fn to_hint(r: &[Hop], with_bounds: bool) -> RouteHint {
	RouteHint(
		r.iter()
			.map(|h| RouteHintHop {
				src_node_id: key(h.key).1,
				short_channel_id: h.scid,
				fees: RoutingFees { base_msat: h.base, proportional_millionths: h.prop },
				cltv_expiry_delta: h.cltv,
				htlc_minimum_msat: if with_bounds { h.bounds.map(|b| b.0) } else { None },
				htlc_maximum_msat: if with_bounds { h.bounds.map(|b| b.1) } else { None },
			})
			.collect(),
	)
}

enum Opt<'a> {
	Amount(u64),
	Payee(PublicKey),
	Expiry(u64),
	Fallback(&'a Fb),
	Route(&'a [Hop]),
}

/// Apply the setters that exist in every type state. A macro because the builder's type-state
/// marker trait is private to `lightning-invoice` (no generic helper can be written outside).
macro_rules! opts {
	($b:expr, $ops:expr) => {{
		let mut b = $b;
		for o in $ops {
			b = match o {
				Opt::Amount(a) => b.amount_milli_satoshis(*a),
				Opt::Payee(k) => b.payee_pub_key(*k),
				Opt::Expiry(e) => b.expiry_time(Duration::from_secs(*e)),
				Opt::Fallback(f) => b.fallback(to_fallback(f)),
				Opt::Route(r) => b.private_route(to_hint(r, true)),
			};
		}
		b
	}};
}

macro_rules! with_md {
	($b:expr, $md:expr, |$x:ident| $rest:expr) => {
		match $md {
			Some((m, true)) => {
				let $x = $b.payment_metadata(m.clone());
				$rest
			},
			Some((m, false)) => {
				let $x = $b.optional_payment_metadata(m.clone());
				$rest
			},
			None => {
				let $x = $b;
				$rest
			},
		}
	};
}

macro_rules! with_desc {
	($b:expr, $d:expr, |$x:ident| $rest:expr) => {
		match $d {
			Desc::Text(t) => {
				let $x = $b.description(t.clone());
				$rest
			},
			Desc::Hash(h) => {
				let $x = $b.description_hash(sha256::Hash::from_byte_array(arr32(h)));
				$rest
			},
		}
	};
}

pub fn build(c: &Inv) -> Result<Bolt11Invoice, lightning_invoice::CreationError> {
	let (sk, pk) = key(c.key);
	let secp = &pool().secp;
	let mut ops: Vec<Opt> = vec![];
	if let Some(a) = c.amount {
		ops.push(Opt::Amount(a));
	}
	if c.explicit_n {
		ops.push(Opt::Payee(*pk));
	}
	if let Some(e) = c.expiry {
		ops.push(Opt::Expiry(e));
	}
	for f in c.fallbacks.iter() {
		ops.push(Opt::Fallback(f));
	}
	for r in c.routes.iter() {
		ops.push(Opt::Route(r));
	}
	let n = ops.len();
	let c1 = pick((c.cuts.0 as u16) << 8, n + 1);
	let c2 = c1 + pick((c.cuts.1 as u16) << 8, n - c1 + 1);
	let (o1, o2, o3) = (&ops[..c1], &ops[c1..c2], &ops[c2..]);
	let sign = |h: &Message| secp.sign_ecdsa_recoverable(h, sk);
	let ph = PaymentHash(arr32(&c.phash));
	let ps = PaymentSecret(arr32(&c.psecret));
	let ts = Duration::from_secs(c.ts);
	let b = InvoiceBuilder::new(currency(c.currency));
	let b = opts!(b, o1);
	match c.order % 3 {
		0 => {
			with_desc!(b, &c.desc, |b| {
				let b = b.payment_hash(ph).duration_since_epoch(ts);
				let b = opts!(b, o2);
				let b = b.min_final_cltv_expiry_delta(c.cltv).payment_secret(ps);
				with_md!(b, &c.metadata, |b| {
					let b = if c.mpp { b.basic_mpp() } else { b };
					let b = opts!(b, o3);
					b.build_signed(sign)
				})
			})
		},
		1 => {
			let b = b.payment_secret(ps);
			let b = if c.mpp { b.basic_mpp() } else { b };
			with_md!(b, &c.metadata, |b| {
				let b = opts!(b, o2);
				let b = b.duration_since_epoch(ts).payment_hash(ph);
				with_desc!(b, &c.desc, |b| {
					let b = opts!(b, o3);
					b.min_final_cltv_expiry_delta(c.cltv).build_signed(sign)
				})
			})
		},
		_ => {
			with_md!(b, &c.metadata, |b| {
				let b = b.payment_hash(ph).payment_secret(ps);
				let b = opts!(b, o2);
				let b = b.min_final_cltv_expiry_delta(c.cltv);
				with_desc!(b, &c.desc, |b| {
					let b = opts!(b, o3);
					let b = b.duration_since_epoch(ts);
					let b = if c.mpp { b.basic_mpp() } else { b };
					b.build_signed(sign)
				})
			})
		},
	}
}

/// What the builder documents as rejected.
fn builder_must_reject(c: &Inv) -> bool {
	c.amount.map_or(false, |a| a > u64::MAX / 10)
		|| c.ts > MAX_TIMESTAMP
		|| matches!(&c.desc, Desc::Text(t) if t.len() > 639)
		|| c.routes.iter().any(|r| r.len() > 12)
		|| c.metadata.as_ref().map_or(false, |m| m.0.len() > 639)
}

fn expected_features(c: &Inv) -> Bolt11InvoiceFeatures {
	// BOLT 11 / builder contract: payment_secret() requires var_onion_optin + payment_secret,
	// metadata sets bit 48/49, basic_mpp() sets the optional bit.
	let mut f = Bolt11InvoiceFeatures::empty();
	f.set_variable_length_onion_required();
	f.set_payment_secret_required();
	if let Some((_, req)) = &c.metadata {
		f.set_payment_metadata_optional();
		if *req {
			f.set_payment_metadata_required();
		}
	}
	if c.mpp {
		f.set_basic_mpp_optional();
	}
	f
}

/// Accessors of `inv` against the generated inputs (the model is the case itself).
fn check_accessors(c: &Inv, inv: &Bolt11Invoice, parsed: bool, what: &str) -> CaseResult {
	let pk = key(c.key).1;
	macro_rules! acc {
		($name:expr, $got:expr, $exp:expr) => {
			let (g, e) = ($got, $exp);
			if g != e {
				return Err(Failure::new("accessor", format!("{} {}: got {:?} expected {:?}", what, $name, g, e)).with_key(format!("b11/accessor/{}", $name)));
			}
		};
	}
	acc!("currency", inv.currency(), currency(c.currency));
	acc!("amount_milli_satoshis", inv.amount_milli_satoshis(), c.amount);
	acc!("payment_hash", inv.payment_hash(), PaymentHash(arr32(&c.phash)));
	acc!("payment_secret", *inv.payment_secret(), PaymentSecret(arr32(&c.psecret)));
	acc!("duration_since_epoch", inv.duration_since_epoch(), Duration::from_secs(c.ts));
	// BOLT 11: default expiry 3600 s when no `x` field
	acc!("expiry_time", inv.expiry_time(), Duration::from_secs(c.expiry.unwrap_or(3600)));
	acc!("expires_at", inv.expires_at(), c.ts.checked_add(c.expiry.unwrap_or(3600)).map(Duration::from_secs));
	acc!("min_final_cltv_expiry_delta", inv.min_final_cltv_expiry_delta(), c.cltv);
	match (&c.desc, inv.description()) {
		(Desc::Text(t), Bolt11InvoiceDescriptionRef::Direct(d)) => {
			acc!("description", d.as_inner().0.clone(), t.clone());
		},
		(Desc::Hash(h), Bolt11InvoiceDescriptionRef::Hash(g)) => {
			acc!("description_hash", g.0.to_byte_array(), arr32(h));
		},
		(_, g) => return Err(Failure::new("accessor", format!("{} description kind differs: {:?}", what, g)).with_key("b11/accessor/description-kind")),
	}
	acc!("fallbacks", inv.fallbacks().into_iter().cloned().collect::<Vec<_>>(), c.fallbacks.iter().map(to_fallback).collect::<Vec<_>>());
	// htlc_minimum/maximum_msat of a hop are documented as not encodable: a parsed invoice has None
	acc!("route_hints", inv.route_hints(), c.routes.iter().map(|r| to_hint(r, !parsed)).collect::<Vec<_>>());
	acc!("payment_metadata", inv.payment_metadata().cloned(), c.metadata.as_ref().map(|m| m.0.clone()));
	acc!("features", inv.features().cloned(), Some(expected_features(c)));
	acc!("payee_pub_key", inv.payee_pub_key().cloned(), if c.explicit_n { Some(pk) } else { None });
	acc!("get_payee_pub_key", inv.get_payee_pub_key(), pk);
	acc!("recover_payee_pub_key", inv.recover_payee_pub_key(), Some(pk));
	Ok(())
}

fn recover(hash: [u8; 32], sig65: &[u8]) -> Option<PublicKey> {
	let rid = RecoveryId::from_i32(sig65[64] as i32).ok()?;
	let sig = RecoverableSignature::from_compact(&sig65[..64], rid).ok()?;
	pool().secp.recover_ecdsa(&Message::from_digest(hash), &sig).ok()
}

// ------------------------------------------------------------------------------------------
// mutations
// ------------------------------------------------------------------------------------------

struct Decoded {
	hrp: String,
	data: Vec<u8>,
	fields: Vec<rc::B11Field>,
}

fn field_splice(d: &Decoded, idx: usize, replacement: Vec<u8>) -> Vec<u8> {
	let f = &d.fields[idx];
	let mut out = d.data[..f.start].to_vec();
	out.extend(replacement);
	out.extend_from_slice(&d.data[f.end..]);
	out
}

fn mk_field(tag: u8, payload: &[u8]) -> Vec<u8> {
	let mut v = vec![tag & 31, ((payload.len() / 32) & 31) as u8, (payload.len() % 32) as u8];
	v.extend_from_slice(payload);
	v
}

/// Apply a recomputed-checksum mutation to (hrp, data). `None` = not applicable to this invoice.
fn apply(d: &Decoded, m: &Mut) -> Option<(String, Vec<u8>)> {
	let sig_start = d.data.len() - rc::B11_SIG_SYMBOLS;
	match m {
		Mut::Subst { .. } | Mut::Upper => None,
		Mut::Sym { pos, xor } => {
			let mut data = d.data.clone();
			let i = pick(*pos, data.len());
			data[i] ^= (*xor & 31).max(1);
			Some((d.hrp.clone(), data))
		},
		Mut::SignedSym { pos, xor } => {
			let mut data = d.data.clone();
			let i = pick(*pos, sig_start);
			data[i] ^= (*xor & 31).max(1);
			Some((d.hrp.clone(), data))
		},
		Mut::Ts(t) => {
			let mut data = d.data.clone();
			let mut sym = rc::int_to_symbols(*t & MAX_TIMESTAMP);
			while sym.len() < 7 {
				sym.insert(0, 0);
			}
			data[..7].copy_from_slice(&sym);
			Some((d.hrp.clone(), data))
		},
		Mut::Hrp(h) => {
			let (cur, pico) = rc::b11_hrp_amount(&d.hrp)?;
			let digits_start = 2 + cur.len();
			let amt = &d.hrp[digits_start..];
			let hrp = match h {
				HrpMut::Amount { n, si } => format!("ln{}{}{}", cur, n, ["", "m", "u", "n", "p"][(*si % 5) as usize]),
				HrpMut::Drop => {
					pico?;
					format!("ln{}", cur)
				},
				HrpMut::LeadingZero => {
					pico?;
					format!("ln{}0{}", cur, amt)
				},
				HrpMut::Currency(c) => format!("ln{}{}", currency_prefix(*c), amt),
				HrpMut::Equivalent => {
					let dl = amt.bytes().take_while(|c| c.is_ascii_digit()).count();
					let next = match &amt[dl..] {
						"m" => "u",
						"u" => "n",
						"n" => "p",
						_ => return None,
					};
					format!("ln{}{}000{}", cur, &amt[..dl], next)
				},
				HrpMut::Nudge(k) => {
					pico?;
					let dl = amt.bytes().take_while(|c| c.is_ascii_digit()).count();
					if k % 2 == 0 {
						// change one digit
						let i = (*k as usize / 2) % dl;
						let mut b = amt.as_bytes().to_vec();
						b[i] = b'0' + ((b[i] - b'0' + 1 + (*k / 64)) % 10);
						format!("ln{}{}", cur, String::from_utf8(b).ok()?)
					} else {
						let mults = ["m", "u", "n", "p"];
						let cur_i = mults.iter().position(|x| *x == &amt[dl..]);
						let new = mults[(cur_i.map_or(0, |i| i + 1) + (*k as usize / 2) % 3) % 4];
						format!("ln{}{}{}", cur, &amt[..dl], new)
					}
				},
			};
			Some((hrp, d.data.clone()))
		},
		Mut::Field { idx, op } => {
			if d.fields.is_empty() {
				return None;
			}
			let i = pick(*idx, d.fields.len());
			let f = &d.fields[i];
			let payload = &d.data[f.start + 3..f.end];
			let data = match op {
				FieldOp::Xor { pos, xor } => {
					if payload.is_empty() {
						return None;
					}
					let mut data = d.data.clone();
					data[f.start + 3 + pick(*pos, payload.len())] ^= (*xor & 31).max(1);
					data
				},
				FieldOp::Tag(t) => {
					let mut data = d.data.clone();
					data[f.start] = if *t & 31 == f.tag { (f.tag + 1) & 31 } else { *t & 31 };
					data
				},
				FieldOp::Remove => field_splice(d, i, vec![]),
				FieldOp::Dup => {
					let mut r = d.data[f.start..f.end].to_vec();
					r.extend_from_slice(&d.data[f.start..f.end]);
					field_splice(d, i, r)
				},
				FieldOp::SwapNext => {
					if i + 1 >= d.fields.len() {
						return None;
					}
					let g = &d.fields[i + 1];
					let mut out = d.data[..f.start].to_vec();
					out.extend_from_slice(&d.data[g.start..g.end]);
					out.extend_from_slice(&d.data[f.start..f.end]);
					out.extend_from_slice(&d.data[g.end..]);
					out
				},
				FieldOp::Shrink => {
					if payload.is_empty() {
						return None;
					}
					field_splice(d, i, mk_field(f.tag, &payload[..payload.len() - 1]))
				},
				FieldOp::Grow(s) => {
					if payload.len() >= 1023 {
						return None;
					}
					let mut p = payload.to_vec();
					p.push(*s & 31);
					field_splice(d, i, mk_field(f.tag, &p))
				},
				FieldOp::IntLeadingZero => {
					// only the integer-valued fields: x (6) and c (24)
					if f.tag != 6 && f.tag != 24 {
						return None;
					}
					let mut p = vec![0u8];
					p.extend_from_slice(payload);
					field_splice(d, i, mk_field(f.tag, &p))
				},
				FieldOp::SetInt(v) => {
					if f.tag != 6 && f.tag != 24 {
						return None;
					}
					field_splice(d, i, mk_field(f.tag, &rc::int_to_symbols(*v)))
				},
			};
			Some((d.hrp.clone(), data))
		},
		Mut::Insert { idx, tag, payload } => {
			let at = if d.fields.is_empty() { 7 } else { let i = pick(*idx, d.fields.len() + 1); if i == d.fields.len() { sig_start } else { d.fields[i].start } };
			let mut data = d.data[..at].to_vec();
			data.extend(mk_field(*tag, &payload.iter().map(|x| x & 31).collect::<Vec<_>>()));
			data.extend_from_slice(&d.data[at..]);
			Some((d.hrp.clone(), data))
		},
		Mut::RecId(r) => {
			// the 65th signature byte lives in the low 3 bits of symbol 102 and in symbol 103
			let mut sig = rc::symbols_to_bytes(&d.data[sig_start..], false);
			sig[64] = if *r == sig[64] { (*r + 1) % 4 } else { *r };
			let mut data = d.data[..sig_start].to_vec();
			data.extend(rc::bytes_to_symbols(&sig));
			Some((d.hrp.clone(), data))
		},
		Mut::PayeeField { key: k, at } => {
			let signer_sym = |i: u8| rc::bytes_to_symbols(&key(i).1.serialize());
			match d.fields.iter().position(|f| f.tag == 19 && f.end - f.start == 3 + 53) {
				Some(i) => {
					let cur = d.data[d.fields[i].start + 3..d.fields[i].end].to_vec();
					let mut new = signer_sym(*k);
					if new == cur {
						new = signer_sym(k.wrapping_add(1));
					}
					Some((d.hrp.clone(), field_splice(d, i, mk_field(19, &new))))
				},
				None => {
					let pos = if d.fields.is_empty() { 7 } else { let i = pick(*at, d.fields.len() + 1); if i == d.fields.len() { sig_start } else { d.fields[i].start } };
					let mut data = d.data[..pos].to_vec();
					// even: the original signer's key (recovered from nothing here: use the key of this index)
					data.extend(mk_field(19, &signer_sym(*k)));
					data.extend_from_slice(&d.data[pos..]);
					Some((d.hrp.clone(), data))
				},
			}
		},
		Mut::SigMalleate => {
			// (r, s, v) -> (r, n - s, v ^ 1): the other valid ECDSA encoding of the same signature
			let mut sig = rc::symbols_to_bytes(&d.data[sig_start..], false);
			let s = SecretKey::from_slice(&sig[32..64]).ok()?.negate();
			sig[32..64].copy_from_slice(&s.secret_bytes());
			sig[64] ^= 1;
			let mut data = d.data[..sig_start].to_vec();
			data.extend(rc::bytes_to_symbols(&sig));
			Some((d.hrp.clone(), data))
		},
	}
}

fn mut_label(m: &Mut) -> &'static str {
	match m {
		Mut::Subst { .. } => "subst",
		Mut::Sym { .. } => "sym",
		Mut::SignedSym { .. } => "signed-sym",
		Mut::Hrp(_) => "hrp",
		Mut::Ts(_) => "timestamp",
		Mut::Field { op, .. } => match op {
			FieldOp::Xor { .. } => "field-xor",
			FieldOp::Tag(_) => "field-tag",
			FieldOp::Remove => "field-remove",
			FieldOp::Dup => "field-dup",
			FieldOp::SwapNext => "field-swap",
			FieldOp::Shrink => "field-shrink",
			FieldOp::Grow(_) => "field-grow",
			FieldOp::IntLeadingZero => "field-int-leading-zero",
			FieldOp::SetInt(_) => "field-set-int",
		},
		Mut::Insert { .. } => "field-insert",
		Mut::RecId(_) => "recid",
		Mut::SigMalleate => "sig-malleate",
		Mut::Upper => "upper",
		Mut::PayeeField { .. } => "payee-field",
	}
}

struct Orig<'a> {
	inv: &'a Bolt11Invoice,
	raw: &'a lightning_invoice::RawBolt11Invoice,
	signer: PublicKey,
	s: &'a str,
	d: &'a Decoded,
}

/// Oracle (d): a string derived from a valid invoice by a mutation with a *recomputed* checksum
/// must fail to parse, or name a different payee key (only possible when the parsed invoice has no
/// `n` field, i.e. the payee is identified by recovery), or carry exactly the content the signer signed.
fn check_recomputed(o: &Orig, m: &str, kind: &str, ctx: &mut Ctx, signed_part_changed: bool) -> CaseResult {
	match m.parse::<Bolt11Invoice>() {
		Err(_) => {
			ctx.label(if signed_part_changed { "d:rejected(signed part changed)" } else { "d:rejected(signature part changed)" });
			Ok(())
		},
		Ok(p) => {
			let praw = p.clone().into_signed_raw();
			let same_content = praw.raw_invoice() == o.raw;
			if same_content {
				vensure!(p.signable_hash() == o.inv.signable_hash(), "d:hash-of-equal-content", "equal raw invoice but different signable hash; kind={} mutated={}", kind, m);
				if p.payee_pub_key().is_some() || p.recover_payee_pub_key() == Some(o.signer) {
					ctx.label(if signed_part_changed { "d:accepted same content (non-canonical encoding of signed part)" } else { "d:accepted same content (signature re-encoded)" });
				} else {
					ctx.label("d:accepted same content, other recovered key");
				}
				return Ok(());
			}
			let other_key = p.payee_pub_key().is_none() && p.recover_payee_pub_key() != Some(o.signer) && p.get_payee_pub_key() != o.signer;
			if other_key {
				ctx.label("d:accepted, names an unrelated recovered key");
				return Ok(());
			}
			Err(Failure::new(
				"d:altered-content-keeps-signer",
				format!(
					"mutation kind={} produced an invoice that parses, differs from what was signed, and still names the signer {} (explicit n: {}).\n original: {}\n mutated:  {}\n parsed: {:?}",
					kind,
					o.signer,
					p.payee_pub_key().is_some(),
					o.s,
					m,
					p
				),
			)
			.with_key(format!("b11/forged/{}", kind)))
		},
	}
}

/// Oracle (c): one substituted character, checksum untouched ⇒ parse error.
fn check_subst(o: &Orig, pos: usize, ch: char, ctx: &mut Ctx) -> CaseResult {
	let chars: Vec<char> = o.s.chars().collect();
	let i = pos.min(chars.len() - 1);
	let mut ch = ch;
	if ch == chars[i] {
		// make it a real change: next character of the alphabet
		let k = rc::CHARSET.iter().position(|x| *x as char == ch).unwrap_or(0);
		ch = rc::CHARSET[(k + 1) % 32] as char;
	}
	let mut m = String::with_capacity(o.s.len() + 4);
	for (k, c) in chars.iter().enumerate() {
		m.push(if k == i { ch } else { *c });
	}
	let hrp_len = o.d.hrp.len();
	ctx.label(if i < hrp_len { "c:subst in hrp" } else if i == hrp_len { "c:subst separator" } else if i >= chars.len() - 6 { "c:subst in checksum" } else { "c:subst in data" });
	match m.parse::<Bolt11Invoice>() {
		Err(_) => Ok(()),
		Ok(p) => Err(Failure::new("c:single-char-substitution-accepted", format!("position {} '{}' -> '{}' still parses.\n original: {}\n mutated:  {}\n parsed: {:?}", i, chars[i], ch, o.s, m, p))
			.with_key("b11/subst-accepted")),
	}
}

pub fn oracle(c: &Case, ctx: &mut Ctx) -> CaseResult {
	let inv_c = &c.inv;
	let built = build(inv_c);
	let must_reject = builder_must_reject(inv_c);
	let inv = match built {
		Err(e) => {
			vensure!(must_reject, "builder-rejects-valid-input", "builder returned {:?} for an input inside its documented domain", e);
			ctx.label("builder rejected (out-of-domain input)");
			return Ok(());
		},
		Ok(i) => i,
	};
	vensure!(!must_reject, "builder-accepts-invalid-input", "builder accepted an input it documents as rejected");
	let signer = key(inv_c.key).1;
	let s = inv.to_string();

	let optional = inv_c.amount.is_some() as usize
		+ inv_c.expiry.is_some() as usize
		+ (!inv_c.fallbacks.is_empty()) as usize
		+ (!inv_c.routes.is_empty()) as usize
		+ inv_c.metadata.is_some() as usize
		+ inv_c.mpp as usize
		+ inv_c.explicit_n as usize;
	ctx.label(if inv_c.explicit_n { "payee: explicit n" } else { "payee: recovery" });
	ctx.label_if(inv_c.amount.is_some(), "has amount");
	ctx.label_if(!inv_c.routes.is_empty(), "has route hints");
	ctx.label_if(!inv_c.fallbacks.is_empty(), "has fallbacks");
	ctx.label_if(inv_c.metadata.is_some(), "has metadata");
	ctx.label_if(matches!(inv_c.desc, Desc::Hash(_)), "description hash");

	// (a) built object exposes the inputs
	check_accessors(inv_c, &inv, false, "built")?;

	if s.len() > MAX_LENGTH {
		// documented: strings above 7089 characters are rejected by the parser
		ctx.label("over MAX_LENGTH");
		vensure!(s.parse::<Bolt11Invoice>().is_err(), "max-length", "string of {} chars parsed", s.len());
		return Ok(());
	}

	// independent decode of what the library wrote
	let (hrp, data) = match rc::decode(&s) {
		Ok(x) => x,
		Err(e) => vfail!("a:own-bech32-decode", "library output does not decode with the reference bech32: {} / {}", e, s),
	};
	vensure!(data.len() >= rc::B11_TS_SYMBOLS + rc::B11_SIG_SYMBOLS, "a:framing", "data part too short: {}", s);
	let sig_start = data.len() - rc::B11_SIG_SYMBOLS;
	let (cur, pico) = match rc::b11_hrp_amount(&hrp) {
		Some(x) => x,
		None => vfail!("a:hrp", "HRP {} is not ln+currency+amount", hrp),
	};
	vensure!(cur == currency_prefix(inv_c.currency), "a:hrp-currency", "hrp {} for currency {}", hrp, inv_c.currency);
	// BOLT 11: amount is in the currency's base unit times the multiplier; 1 msat = 10 pico-BTC
	vensure!(pico == inv_c.amount.map(|a| a as u128 * 10), "a:hrp-amount", "hrp {} encodes {:?} pico-BTC, input was {:?} msat", hrp, pico, inv_c.amount);
	vensure!(rc::symbols_to_int(&data[..7]) == Some(inv_c.ts), "a:timestamp-symbols", "timestamp symbols {:?} for {}", &data[..7], inv_c.ts);
	let fields = match rc::b11_fields(&data) {
		Some(f) => f,
		None => vfail!("a:framing", "tagged fields do not tile the data part: {}", s),
	};
	// the signature the library wrote must be the signer's over the BOLT-11 signing hash
	let spec_hash = rc::b11_signing_hash(&hrp, &data[..sig_start]);
	vensure!(spec_hash == inv.signable_hash(), "a:signable-hash", "library signable_hash {} != SHA256(hrp||data) {}", hex(&inv.signable_hash()), hex(&spec_hash));
	let sig65 = rc::symbols_to_bytes(&data[sig_start..], false);
	vensure!(sig65.len() == 65 && recover(spec_hash, &sig65) == Some(signer), "a:signature-on-wire", "serialized signature does not recover the signer over the BOLT-11 hash: {}", s);

	// (a) parse back
	let parsed = match s.parse::<Bolt11Invoice>() {
		Ok(p) => p,
		Err(e) => return Err(Failure::new("a:roundtrip-parse", format!("built invoice does not parse back: {:?}\n {}", e, s)).with_key(format!("b11/roundtrip-parse/{:?}", e).chars().take(80).collect::<String>())),
	};
	check_accessors(inv_c, &parsed, true, "parsed")?;
	let has_bounds = inv_c.routes.iter().any(|r| r.iter().any(|h| h.bounds.is_some()));
	if !has_bounds {
		vensure!(parsed == inv, "a:roundtrip-eq", "parsed != built\n built:  {:?}\n parsed: {:?}", inv, parsed);
	} else {
		ctx.label("route hint with htlc bounds (documented lossy)");
	}
	vensure!(parsed.to_string() == s, "a:reserialize", "parsed invoice re-serializes differently\n {}\n {}", s, parsed.to_string());
	vensure!(parsed.signable_hash() == spec_hash, "a:parsed-hash", "parsed signable hash differs");
	match s.parse::<SignedRawBolt11Invoice>() {
		Ok(sr) => {
			vensure!(sr.check_signature(), "a:signed-raw", "SignedRawBolt11Invoice::check_signature false on a valid invoice");
			vensure!(Bolt11Invoice::from_signed(sr).as_ref() == Ok(&parsed), "a:from-signed", "from_signed(parse) != parse");
		},
		Err(e) => vfail!("a:signed-raw", "SignedRawBolt11Invoice parse failed: {:?}", e),
	}

	// tampering
	let d = Decoded { hrp, data, fields };
	let praw = parsed.clone().into_signed_raw();
	let o = Orig { inv: &parsed, raw: praw.raw_invoice(), signer, s: &s, d: &d };
	let mut evals = 0u64;
	let mut signed_hits = 0u64;
	let nchars = s.chars().count();
	for m in c.muts.iter() {
		evals += 1;
		match m {
			Mut::Subst { pos, ch } => {
				check_subst(&o, pick(*pos, nchars), char::from_u32(*ch).unwrap_or('q'), ctx)?;
			},
			Mut::Upper => {
				let up = s.to_ascii_uppercase();
				ctx.label("m:upper");
				check_recomputed(&o, &up, "upper", ctx, true)?;
			},
			m => {
				// fall back to a signed-symbol mutation when the drawn one does not apply / changes nothing
				let fallback = Mut::SignedSym { pos: (evals as u16).wrapping_mul(7919), xor: 1 + (evals % 31) as u8 };
				// an even PayeeField key stands for "the signer's own key"
				let own;
				let m = match m {
					Mut::PayeeField { key: k, at } if k % 2 == 0 => {
						own = Mut::PayeeField { key: inv_c.key & 63, at: *at };
						&own
					},
					m => m,
				};
				let (kind, (h2, d2)) = match apply(&d, m).filter(|(h2, d2)| *h2 != d.hrp || *d2 != d.data) {
					Some(x) => (mut_label(m), x),
					None => ("signed-sym", apply(&d, &fallback).expect("always applicable")),
				};
				ctx.label(&format!("m:{}", kind));
				let ms = rc::encode(&h2, &d2);
				let changed = h2 != d.hrp || d2.len() != d.data.len() || d2[..d2.len() - rc::B11_SIG_SYMBOLS] != d.data[..sig_start];
				signed_hits += changed as u64;
				check_recomputed(&o, &ms, kind, ctx, changed)?;
			},
		}
	}
	if let Some(salt) = c.sweep {
		ctx.label("sweep: every char substituted, every symbol mutated");
		let salt = salt as usize;
		let chars: Vec<char> = s.chars().collect();
		for i in 0..chars.len() {
			let k = rc::CHARSET.iter().position(|x| *x as char == chars[i]).unwrap_or(0);
			let ch = rc::CHARSET[(k + 1 + (salt + i * 7) % 31) % 32] as char;
			check_subst(&o, i, ch, ctx)?;
			// and the case flip of the same position where it has one
			if chars[i].is_ascii_lowercase() && (salt + i) % 4 == 0 {
				check_subst(&o, i, chars[i].to_ascii_uppercase(), ctx)?;
				evals += 1;
			}
			evals += 1;
		}
		for i in 0..d.data.len() {
			let mut d2 = d.data.clone();
			d2[i] ^= 1 + ((salt + i * 11) % 31) as u8;
			let ms = rc::encode(&d.hrp, &d2);
			signed_hits += (i < sig_start) as u64;
			check_recomputed(&o, &ms, if i < sig_start { "sweep-signed" } else { "sweep-sig" }, ctx, i < sig_start)?;
			evals += 1;
		}
	}
	ctx.sub_evaluations(evals);
	// non-trivial: >= 3 optional fields set and at least one checksum-fixed mutation inside the signed part
	ctx.nontrivial_if(optional >= 3 && signed_hits > 0);
	Ok(())
}
