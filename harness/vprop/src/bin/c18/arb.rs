//! Oracle (b): every parser is total. Arbitrary strings / byte streams, bech32-looking strings,
//! random TLV streams and byte-level edits of valid encodings go into every public parser.
//! A panic is caught by the runner and reported with its source location.

use crate::refcodec as rc;
use crate::{b11, b12};
use lightning::offers::invoice::{Bolt12Invoice, UnsignedBolt12Invoice};
use lightning::offers::invoice_request::{InvoiceRequest, UnsignedInvoiceRequest};
use lightning::offers::offer::Offer;
use lightning::offers::refund::Refund;
use lightning::offers::static_invoice::StaticInvoice;
use lightning::util::ser::Writeable;
use lightning_invoice::{Bolt11Invoice, SignedRawBolt11Invoice};
use proptest::collection::vec as pvec;
use proptest::prelude::*;
use serde::{Deserialize, Serialize};
use std::panic::{catch_unwind, AssertUnwindSafe};
use vcore::*;

#[derive(Clone, Debug, Serialize, Deserialize)]
pub enum Edit {
	Set { pos: u16, val: u8 },
	Xor { pos: u16, val: u8 },
	Insert { pos: u16, val: u8 },
	Delete { pos: u16 },
	Truncate { pos: u16 },
	DupRange { pos: u16, len: u8 },
}

#[derive(Clone, Debug, Serialize, Deserialize)]
pub enum Input {
	Str(String),
	/// prefix index + bech32 symbols (+ upper-casing, '+' continuations at the given positions)
	Bech { prefix: u8, body: Vec<u8>, upper: bool, plus: Vec<u16> },
	Bytes(Vec<u8>),
	Tlvs(Vec<(u64, Vec<u8>)>),
	EditB11 { inv: b11::Inv, edits: Vec<Edit> },
	EditB12 { case: b12::Case, which: u8, as_string: bool, edits: Vec<Edit> },
}

fn edit() -> impl Strategy<Value = Edit> + Clone {
	prop_oneof![
		3 => (any::<u16>(), any::<u8>()).prop_map(|(pos, val)| Edit::Set { pos, val }),
		3 => (any::<u16>(), 1u8..=255).prop_map(|(pos, val)| Edit::Xor { pos, val }),
		2 => (any::<u16>(), any::<u8>()).prop_map(|(pos, val)| Edit::Insert { pos, val }),
		2 => any::<u16>().prop_map(|pos| Edit::Delete { pos }),
		1 => any::<u16>().prop_map(|pos| Edit::Truncate { pos }),
		1 => (any::<u16>(), 1u8..40).prop_map(|(pos, len)| Edit::DupRange { pos, len }),
	]
}

const PREFIXES: [&str; 10] = ["lno1", "lnr1", "lnbc1", "lntb1", "lnbcrt1", "lnbc10u1", "lnbc2500p1", "lntbs1", "lni1", "lnp1"];

pub fn strat() -> impl Strategy<Value = Input> + Clone + Send + Sync + 'static {
	// TLV types concentrated on the ranges the BOLT-12 readers know
	let typ = prop_oneof![4 => 0u64..260, 1 => 999_999_990u64..1_000_000_010, 1 => 1_999_999_990u64..2_000_000_010, 1 => 2_999_999_990u64..3_000_000_010, 1 => any::<u64>()];
	prop_oneof![
		2 => pvec(any::<char>(), 0..200).prop_map(|v| Input::Str(v.into_iter().collect())),
		1 => pvec(prop_oneof![0x20u32..0x7f, 0x20u32..0x7f, any::<char>().prop_map(|c| c as u32)], 0..300).prop_map(|v| Input::Str(v.into_iter().map(|c| char::from_u32(c).unwrap_or(' ')).collect())),
		4 => (0u8..10, pvec(0u8..32, 0..400), prop::bool::weighted(0.1), pvec(any::<u16>(), 0..3)).prop_map(|(prefix, body, upper, plus)| Input::Bech { prefix, body, upper, plus }),
		2 => pvec(any::<u8>(), 0..300).prop_map(Input::Bytes),
		4 => pvec((typ, pvec(any::<u8>(), 0..70)), 0..14).prop_map(Input::Tlvs),
		6 => (b11::strat(0, 0), pvec(edit(), 1..6)).prop_map(|(c, edits)| Input::EditB11 { inv: c.inv, edits }),
		10 => (b12::strat(0, 0), any::<u8>(), any::<bool>(), pvec(edit(), 1..6)).prop_map(|(case, which, as_string, edits)| Input::EditB12 { case, which, as_string, edits }),
	]
}

fn apply_edits(mut b: Vec<u8>, edits: &[Edit], alphabet: Option<&[u8]>) -> Vec<u8> {
	let sym = |v: u8| alphabet.map_or(v, |a| a[v as usize % a.len()]);
	for e in edits {
		let n = b.len();
		match e {
			Edit::Set { pos, val } if n > 0 => b[pick(*pos, n)] = sym(*val),
			Edit::Xor { pos, val } if n > 0 => {
				let i = pick(*pos, n);
				b[i] = if alphabet.is_some() { sym(b[i] ^ *val) } else { b[i] ^ *val };
			},
			Edit::Insert { pos, val } => b.insert(pick(*pos, n + 1), sym(*val)),
			Edit::Delete { pos } if n > 0 => {
				b.remove(pick(*pos, n));
			},
			Edit::Truncate { pos } => b.truncate(pick(*pos, n + 1)),
			Edit::DupRange { pos, len } if n > 0 => {
				let i = pick(*pos, n);
				let j = (i + *len as usize).min(n);
				let r = b[i..j].to_vec();
				for (k, x) in r.into_iter().enumerate() {
					b.insert(j + k, x);
				}
			},
			_ => {},
		}
	}
	b
}

fn ser<W: Writeable>(w: &W) -> Vec<u8> {
	let mut v = vec![];
	w.write(&mut v).expect("vec");
	v
}

/// Run `f` (post-parse use of an accepted object); a panic there is reported under its own key.
fn post<R>(what: &str, f: impl FnOnce() -> R) -> Result<R, Failure> {
	catch_unwind(AssertUnwindSafe(f)).map_err(|_| {
		let (msg, loc) = take_last_panic().unwrap_or_default();
		Failure::new("b:panic-using-parsed-object", format!("{}: panic at {}: {}", what, loc, msg)).with_key(format!("post-parse-panic/{}@{}", what, loc))
	})
}

fn feed_str(s: &str, ctx: &mut Ctx) -> CaseResult {
	if let Ok(i) = s.parse::<Bolt11Invoice>() {
		ctx.label("accepted: Bolt11Invoice");
		// an accepted invoice must be usable: accessors and Display do not panic, and what it displays parses to itself
		let again = post("bolt11", || {
			let _ = (i.amount_milli_satoshis(), i.expires_at(), i.route_hints(), i.fallback_addresses(), i.get_payee_pub_key(), i.features().cloned(), i.would_expire(std::time::Duration::from_secs(1)));
			i.to_string()
		})?;
		vensure!(again.parse::<Bolt11Invoice>().as_ref() == Ok(&i), "b:accepted-not-roundtrip", "accepted BOLT-11 string re-serializes to something that is not the same invoice:\n in:  {}\n out: {}", s, again);
	}
	if let Ok(sr) = s.parse::<SignedRawBolt11Invoice>() {
		ctx.label("accepted: SignedRawBolt11Invoice");
		post("signed-raw-bolt11", || {
			let _ = (sr.check_signature(), sr.recover_payee_pub_key().is_ok(), sr.to_string());
			let _ = Bolt11Invoice::from_signed(sr.clone());
		})?;
	}
	if let Ok(o) = s.parse::<Offer>() {
		ctx.label("accepted: Offer (string)");
		let again = post("offer", || o.to_string())?;
		vensure!(again.parse::<Offer>().as_ref() == Ok(&o), "b:accepted-not-roundtrip", "accepted offer string does not round-trip");
	}
	if let Ok(r) = s.parse::<Refund>() {
		ctx.label("accepted: Refund (string)");
		let again = post("refund", || r.to_string())?;
		vensure!(again.parse::<Refund>().as_ref() == Ok(&r), "b:accepted-not-roundtrip", "accepted refund string does not round-trip");
	}
	Ok(())
}

fn feed_bytes(b: &[u8], ctx: &mut Ctx) -> CaseResult {
	macro_rules! one {
		($t:ty, $name:expr) => {
			if let Ok(o) = <$t>::try_from(b.to_vec()) {
				ctx.label(concat!("accepted: ", $name));
				vensure!(post($name, || ser(&o))? == b, "b:accepted-not-roundtrip", "{} accepted a stream but serializes it differently: {}", $name, hex(b));
			}
		};
	}
	one!(Offer, "Offer");
	one!(Refund, "Refund");
	one!(InvoiceRequest, "InvoiceRequest");
	one!(UnsignedInvoiceRequest, "UnsignedInvoiceRequest");
	one!(Bolt12Invoice, "Bolt12Invoice");
	one!(UnsignedBolt12Invoice, "UnsignedBolt12Invoice");
	one!(StaticInvoice, "StaticInvoice");
	if let Ok(i) = Bolt12Invoice::try_from(b.to_vec()) {
		post("bolt12-invoice-accessors", || {
			let _ = (i.fallbacks(), i.is_expired_no_std(std::time::Duration::from_secs(5)), i.amount_msats(), i.payment_paths().len(), i.signable_hash());
		})?;
	}
	Ok(())
}

pub fn oracle(inp: &Input, ctx: &mut Ctx) -> CaseResult {
	match inp {
		Input::Str(s) => {
			ctx.label("arbitrary string");
			ctx.nontrivial_if(!s.is_empty());
			feed_str(s, ctx)?;
			feed_bytes(s.as_bytes(), ctx)
		},
		Input::Bech { prefix, body, upper, plus } => {
			ctx.label("bech32-looking string");
			let mut s: String = PREFIXES[*prefix as usize % PREFIXES.len()].to_string();
			s.extend(body.iter().map(|x| rc::CHARSET[(*x & 31) as usize] as char));
			if *upper {
				s = s.to_ascii_uppercase();
			}
			for p in plus {
				let at = pick(*p, s.len() + 1);
				s.insert_str(at, if p % 2 == 0 { "+" } else { "+\n  " });
			}
			ctx.nontrivial_if(body.len() > 8);
			feed_str(&s, ctx)?;
			// the same symbols as a TLV stream
			feed_bytes(&rc::symbols_to_bytes(body, false), ctx)
		},
		Input::Bytes(b) => {
			ctx.label("arbitrary bytes");
			ctx.nontrivial_if(!b.is_empty());
			feed_bytes(b, ctx)?;
			feed_str(&format!("lno1{}", rc::bytes_to_symbols(b).iter().map(|x| rc::CHARSET[*x as usize] as char).collect::<String>()), ctx)
		},
		Input::Tlvs(ts) => {
			ctx.label("random TLV stream");
			let recs: Vec<rc::Tlv> = ts.iter().map(|(typ, value)| rc::Tlv { typ: *typ, value: value.clone() }).collect();
			let mut sorted = recs.clone();
			sorted.sort_by_key(|r| r.typ);
			sorted.dedup_by_key(|r| r.typ);
			ctx.nontrivial_if(recs.len() >= 2);
			feed_bytes(&rc::tlv_serialize(&recs), ctx)?;
			feed_bytes(&rc::tlv_serialize(&sorted), ctx)
		},
		Input::EditB11 { inv, edits } => {
			ctx.label("edited valid BOLT-11 string");
			let Ok(i) = b11::build(inv) else {
				ctx.label("(base invoice not buildable)");
				return Ok(());
			};
			let s = i.to_string();
			// edits stay inside the bech32 alphabet half of the time so that the structure survives
			let alpha: Option<&[u8]> = if edits.len() % 2 == 0 { Some(&rc::CHARSET[..]) } else { None };
			let e = apply_edits(s.clone().into_bytes(), edits, alpha);
			let es = String::from_utf8_lossy(&e).to_string();
			ctx.nontrivial_if(es != s);
			feed_str(&es, ctx)?;
			// and with a repaired checksum, so that the tagged-field parser is reached
			if let Some(pos) = es.rfind('1') {
				let (hrp, data) = (&es[..pos], &es[pos + 1..]);
				let sym: Option<Vec<u8>> = data.bytes().map(|c| rc::CHARSET.iter().position(|x| *x == c.to_ascii_lowercase()).map(|p| p as u8)).collect();
				if let (Some(sym), true) = (sym, hrp.is_ascii() && !hrp.is_empty()) {
					let body = &sym[..sym.len().saturating_sub(6)];
					let fixed = rc::encode(&hrp.to_ascii_lowercase(), body);
					ctx.label("edited BOLT-11 string, checksum repaired");
					feed_str(&fixed, ctx)?;
				}
			}
			Ok(())
		},
		Input::EditB12 { case, which, as_string, edits } => {
			let streams = b12::streams(case);
			if streams.is_empty() {
				ctx.label("(base objects not buildable)");
				return Ok(());
			}
			let (name, bytes, string) = &streams[*which as usize % streams.len()];
			ctx.label(&format!("edited valid {}", name));
			match (as_string, string) {
				(true, Some(s)) => {
					let e = apply_edits(s.clone().into_bytes(), edits, Some(&rc::CHARSET[..]));
					let es = String::from_utf8_lossy(&e).to_string();
					ctx.nontrivial_if(&es != s);
					feed_str(&es, ctx)
				},
				_ => {
					let e = apply_edits(bytes.clone(), edits, None);
					ctx.nontrivial_if(&e != bytes);
					feed_bytes(&e, ctx)
				},
			}
		},
	}
}
