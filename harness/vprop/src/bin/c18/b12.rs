//! BOLT-12 half of C18: offers, invoice requests, invoices (for offers and refunds), refunds and
//! static invoices built through the public builders; round trips; bit flips and structural TLV
//! mutations of the signed streams; stateless-metadata verification cases (i)-(iv).

use crate::b11::{key, pool};
use crate::refcodec as rc;
use bitcoin::constants::ChainHash;
use bitcoin::hashes::Hash;
use bitcoin::key::TweakedPublicKey;
use bitcoin::secp256k1::schnorr::Signature;
use bitcoin::secp256k1::{Keypair, PublicKey, XOnlyPublicKey};
use bitcoin::{Address, Network, WPubkeyHash, WScriptHash, WitnessProgram, WitnessVersion};
use lightning::blinded_path::message::BlindedMessagePath;
use lightning::blinded_path::payment::{BlindedPayInfo, BlindedPaymentPath};
use lightning::blinded_path::BlindedHop;
use lightning::ln::channelmanager::PaymentId;
use lightning::ln::inbound_payment::ExpandedKey;
use lightning::offers::invoice::{Bolt12Invoice, InvoiceBuilder, SigningPubkeyStrategy, UnsignedBolt12Invoice};
use lightning::offers::invoice_request::{InvoiceRequest, InvoiceRequestVerifiedFromOffer};
use lightning::offers::nonce::Nonce;
use lightning::offers::offer::{Amount, MetadataStrategy, Offer, OfferBuilder, Quantity};
use lightning::offers::refund::{Refund, RefundBuilder};
use lightning::offers::static_invoice::{StaticInvoice, StaticInvoiceBuilder};
use lightning::sign::EntropySource;
use lightning::types::features::{BlindedHopFeatures, Bolt12InvoiceFeatures};
use lightning::types::payment::PaymentHash;
use lightning::util::ser::{Readable, Writeable};
use proptest::collection::vec as pvec;
use proptest::prelude::*;
use serde::{Deserialize, Serialize};
use std::num::NonZeroU64;
use std::time::Duration;
use vcore::*;

pub const MAX_VALUE_MSAT: u64 = 2_100_000_000_000_000_000;
/// 2200-01-01: any offer / refund expiry that an invoice request or invoice is built against is
/// either absent or later than this, so no oracle depends on the wall clock.
pub const FAR_FUTURE: u64 = 7_258_118_400;

// ------------------------------------------------------------------------------------------
// case
// ------------------------------------------------------------------------------------------

#[derive(Clone, Debug, Serialize, Deserialize)]
pub struct MsgPath {
	/// introduction node: key index, or (direction, scid) when `scid` is set
	pub intro: u8,
	pub scid: Option<(bool, u64)>,
	pub blinding: u8,
	pub hops: Vec<(u8, Vec<u8>)>,
}

#[derive(Clone, Debug, Serialize, Deserialize)]
pub struct PayPath {
	pub path: MsgPath,
	pub fee_base: u32,
	pub fee_prop: u32,
	pub cltv: u16,
	pub hmin: u64,
	pub hmax: u64,
}

#[derive(Clone, Debug, Serialize, Deserialize, PartialEq)]
pub enum Qty {
	One,
	Unbounded,
	Bounded(u64),
}

#[derive(Clone, Debug, Serialize, Deserialize)]
pub struct OfferSpec {
	/// false: OfferBuilder::new(node key) (+ optional explicit metadata); true: deriving_signing_pubkey
	pub derived: bool,
	pub chains: Vec<u8>,
	pub amount: Option<u64>,
	pub description: Option<String>,
	pub issuer: Option<String>,
	pub expiry: Option<u64>,
	pub paths: Vec<MsgPath>,
	pub qty: Qty,
	pub metadata: Option<Vec<u8>>,
}

#[derive(Clone, Debug, Serialize, Deserialize)]
pub struct ReqSpec {
	pub chain_pick: u16,
	pub set_chain: bool,
	pub amount_extra: Option<u64>,
	pub qty_pick: u64,
	pub payer_note: Option<String>,
	pub payment_id: Vec<u8>,
}

#[derive(Clone, Debug, Serialize, Deserialize)]
pub enum Fb12 {
	P2wsh(Vec<u8>),
	P2wpkh(Vec<u8>),
	P2tr(u8),
}

#[derive(Clone, Debug, Serialize, Deserialize)]
pub struct InvSpec {
	pub paths: Vec<PayPath>,
	pub payment_hash: Vec<u8>,
	pub created_at: u64,
	pub rel_expiry: Option<u32>,
	pub fallbacks: Vec<Fb12>,
	/// 0: untouched, 1: allow_mpp, 2: allow_mpp then disallow_mpp
	pub mpp: u8,
}

#[derive(Clone, Debug, Serialize, Deserialize)]
pub struct RefundSpec {
	pub derived: bool,
	pub metadata: Vec<u8>,
	pub amount: u64,
	pub description: String,
	pub expiry: Option<u64>,
	pub issuer: Option<String>,
	pub paths: Vec<MsgPath>,
	pub chain: Option<u8>,
	pub quantity: Option<u64>,
	pub payer_note: Option<String>,
	pub payment_id: Vec<u8>,
}

#[derive(Clone, Debug, Serialize, Deserialize)]
pub enum Flow {
	OfferOnly,
	Request { req: ReqSpec, inv: InvSpec },
	Refund { refund: RefundSpec, inv: InvSpec, derived_signing: bool },
	Static { inv: InvSpec, held: Vec<MsgPath> },
}

/// One alteration of a TLV stream (used for "altered copy of an offer" and for structural tampering).
#[derive(Clone, Debug, Serialize, Deserialize)]
pub enum Alter {
	ValueXor { rec: u16, byte: u16, xor: u8 },
	SetU64 { typ: u8, v: u64 },
	SetBytes { typ: u8, v: Vec<u8> },
	Remove { rec: u16 },
	Dup { rec: u16 },
	Swap { rec: u16 },
	Insert { typ: u64, v: Vec<u8> },
	ReplaceKey { typ: u8, key: u8 },
	/// replace a public key by its negation (same x coordinate, other parity byte)
	NegateKey { typ: u8 },
	/// keep only some records: 0 = only the signature-range records, 1 = the signature-range records and the
	/// records selected by `mask` (bit i = i-th record), 2 = only the records selected by `mask`
	Keep { mode: u8, mask: u32 },
}

#[derive(Clone, Debug, Serialize, Deserialize)]
pub struct Case {
	pub r_node: u8,
	pub r_ek: u8,
	pub p_node: u8,
	pub p_ek: u8,
	pub other_ek: u8,
	pub nonce_o: Vec<u8>,
	pub nonce_p: Vec<u8>,
	pub nonce_x: Vec<u8>,
	pub offer: OfferSpec,
	pub flow: Flow,
	/// bit positions (scaled onto the stream length) flipped in every signed stream of the case
	pub flips: Vec<u32>,
	/// flip every bit of one signed stream of the case (1: the first one built, 2: the last one; 0: none)
	pub flip_all: u8,
	pub structural: Vec<Alter>,
	pub offer_alter: Vec<Alter>,
}

// ------------------------------------------------------------------------------------------
// strategies
// ------------------------------------------------------------------------------------------

fn text(max_chars: usize) -> impl Strategy<Value = String> + Clone {
	pvec(prop_oneof![6 => 0x20u32..0x7f, 1 => any::<char>().prop_map(|c| c as u32), 1 => Just(0x1f600u32)], 0..max_chars)
		.prop_map(|v| v.into_iter().map(|c| char::from_u32(c).unwrap_or('?')).collect())
}

fn msg_path() -> impl Strategy<Value = MsgPath> + Clone {
	(any::<u8>(), prop_oneof![5 => Just(None), 1 => (any::<bool>(), any::<u64>()).prop_map(Some)], any::<u8>(), pvec((any::<u8>(), pvec(any::<u8>(), 0..60)), 1..=3))
		.prop_map(|(intro, scid, blinding, hops)| MsgPath { intro, scid, blinding, hops })
}

fn pay_path() -> impl Strategy<Value = PayPath> + Clone {
	(msg_path(), any::<u32>(), any::<u32>(), any::<u16>(), big_u64(), big_u64()).prop_map(|(mut path, fee_base, fee_prop, cltv, hmin, hmax)| {
		path.scid = None; // payment paths are only constructible with a node-id introduction point
		PayPath { path, fee_base, fee_prop, cltv, hmin, hmax }
	})
}

fn big_u64() -> impl Strategy<Value = u64> + Clone {
	prop_oneof![
		1 => Just(0u64),
		1 => Just(u64::MAX),
		3 => 0u64..100_000,
		2 => any::<u64>(),
		// tu64 length boundaries (256^k and neighbours)
		2 => (0u32..8, 0u64..3).prop_map(|(k, d)| (256u64.pow(k) + d).saturating_sub(1)),
	]
}

fn msat() -> impl Strategy<Value = u64> + Clone {
	prop_oneof![
		1 => Just(1u64),
		1 => Just(MAX_VALUE_MSAT),
		4 => 1u64..10_000_000,
		2 => 1u64..=MAX_VALUE_MSAT,
		2 => (0u32..8, 0u64..3).prop_map(|(k, d)| (256u64.pow(k) + d).saturating_sub(1).clamp(1, MAX_VALUE_MSAT)),
	]
}

fn expiry() -> impl Strategy<Value = Option<u64>> + Clone {
	prop_oneof![
		3 => Just(None),
		1 => Just(Some(0u64)),
		1 => Just(Some(u64::MAX)),
		2 => (0u64..2_000_000_000).prop_map(Some),
		3 => (FAR_FUTURE..FAR_FUTURE * 4).prop_map(Some),
		1 => big_u64().prop_map(Some),
	]
}

fn offer_spec() -> impl Strategy<Value = OfferSpec> + Clone {
	(
		any::<bool>(),
		prop_oneof![3 => Just(vec![]), 3 => pvec(0u8..5, 1..=3)],
		proptest::option::weighted(0.6, msat()),
		proptest::option::weighted(0.6, text(40)),
		proptest::option::weighted(0.4, text(20)),
		expiry(),
		prop_oneof![1 => Just(vec![]), 1 => pvec(msg_path(), 1..=3)],
		prop_oneof![3 => Just(Qty::One), 2 => Just(Qty::Unbounded), 3 => prop_oneof![Just(1u64), 2u64..20, big_u64().prop_map(|v| v.max(1))].prop_map(Qty::Bounded)],
		proptest::option::weighted(0.5, prop_oneof![3 => pvec(any::<u8>(), 0..50), 1 => pvec(any::<u8>(), 16..=16), 1 => pvec(any::<u8>(), 48..=48)]),
	)
		.prop_map(|(derived, chains, amount, description, issuer, expiry, paths, qty, metadata)| OfferSpec { derived, chains, amount, description, issuer, expiry, paths, qty, metadata })
}

fn inv_spec() -> impl Strategy<Value = InvSpec> + Clone {
	let fb = prop_oneof![pvec(any::<u8>(), 32).prop_map(Fb12::P2wsh), pvec(any::<u8>(), 20).prop_map(Fb12::P2wpkh), any::<u8>().prop_map(Fb12::P2tr)];
	(pvec(pay_path(), 1..=3), pvec(any::<u8>(), 32), big_u64(), proptest::option::weighted(0.6, prop_oneof![Just(0u32), Just(u32::MAX), any::<u32>(), 1u32..100_000]), pvec(fb, 0..=3), 0u8..3)
		.prop_map(|(paths, payment_hash, created_at, rel_expiry, fallbacks, mpp)| InvSpec { paths, payment_hash, created_at, rel_expiry, fallbacks, mpp })
}

fn alter() -> impl Strategy<Value = Alter> + Clone {
	prop_oneof![
		6 => (any::<u16>(), any::<u16>(), 1u8..=255).prop_map(|(rec, byte, xor)| Alter::ValueXor { rec, byte, xor }),
		// amount (8 / 82 / 170), expiry (14), quantity_max (20), quantity (86), created_at (164), relative expiry (166)
		3 => (prop_oneof![Just(8u8), Just(14), Just(20), Just(82), Just(86), Just(164), Just(166), Just(170)], big_u64()).prop_map(|(typ, v)| Alter::SetU64 { typ, v }),
		// metadata (4), description (10), issuer (18), payer note (89), payer metadata (0)
		3 => (prop_oneof![Just(4u8), Just(10), Just(18), Just(89), Just(0)], pvec(any::<u8>(), 0..50)).prop_map(|(typ, v)| Alter::SetBytes { typ, v }),
		2 => any::<u16>().prop_map(|rec| Alter::Remove { rec }),
		2 => (0u8..3, prop_oneof![Just(0u32), Just(1u32), any::<u32>()]).prop_map(|(mode, mask)| Alter::Keep { mode, mask }),
		1 => any::<u16>().prop_map(|rec| Alter::Dup { rec }),
		1 => any::<u16>().prop_map(|rec| Alter::Swap { rec }),
		3 => (
			prop_oneof![
				3 => 1u64..80,
				2 => 80u64..160,
				2 => 160u64..240,
				2 => 240u64..1002,
				1 => 1_000_000_000u64..1_000_000_100,
				1 => 2_000_000_000u64..2_000_000_100,
				1 => 3_000_000_000u64..3_000_000_100,
				1 => any::<u64>(),
			],
			pvec(any::<u8>(), 0..40)
		)
			.prop_map(|(typ, v)| Alter::Insert { typ, v }),
		// issuer id (22), payer id (88), invoice node id (176)
		2 => (prop_oneof![Just(22u8), Just(88), Just(176)], any::<u8>()).prop_map(|(typ, key)| Alter::ReplaceKey { typ, key }),
		2 => prop_oneof![Just(22u8), Just(88), Just(176)].prop_map(|typ| Alter::NegateKey { typ }),
	]
}

fn flow() -> impl Strategy<Value = Flow> + Clone {
	let req = (any::<u16>(), any::<bool>(), proptest::option::weighted(0.5, big_u64()), any::<u64>(), proptest::option::weighted(0.4, text(30)), pvec(any::<u8>(), 32))
		.prop_map(|(chain_pick, set_chain, amount_extra, qty_pick, payer_note, payment_id)| ReqSpec { chain_pick, set_chain, amount_extra, qty_pick, payer_note, payment_id });
	let refund = (
		(any::<bool>(), pvec(any::<u8>(), 0..60), prop_oneof![1 => Just(0u64), 6 => msat()], text(30), expiry(), proptest::option::weighted(0.4, text(20))),
		(
			prop_oneof![1 => Just(vec![]), 1 => pvec(msg_path(), 1..=2)],
			proptest::option::weighted(0.5, 0u8..5),
			proptest::option::weighted(0.4, big_u64()),
			proptest::option::weighted(0.4, text(30)),
			pvec(any::<u8>(), 32),
		),
	)
		.prop_map(|((derived, metadata, amount, description, expiry, issuer), (paths, chain, quantity, payer_note, payment_id))| RefundSpec {
			derived,
			metadata,
			amount,
			description,
			expiry,
			issuer,
			paths,
			chain,
			quantity,
			payer_note,
			payment_id,
		});
	prop_oneof![
		1 => Just(Flow::OfferOnly),
		5 => (req, inv_spec()).prop_map(|(req, inv)| Flow::Request { req, inv }),
		3 => (refund, inv_spec(), any::<bool>()).prop_map(|(refund, inv, derived_signing)| Flow::Refund { refund, inv, derived_signing }),
		2 => (inv_spec(), pvec(msg_path(), 1..=2)).prop_map(|(inv, held)| Flow::Static { inv, held }),
	]
}

/// `flip_all_permille`: share of cases in which every bit of every signed stream is flipped once.
pub fn strat(flips: usize, flip_all_permille: u32) -> impl Strategy<Value = Case> + Clone + Send + Sync + 'static {
	(
		(any::<u8>(), any::<u8>(), any::<u8>(), any::<u8>(), any::<u8>()),
		(pvec(any::<u8>(), 16), pvec(any::<u8>(), 16), pvec(any::<u8>(), 16)),
		offer_spec(),
		flow(),
		(pvec(any::<u32>(), flips..=flips), (0u32..1000, 1u8..=2).prop_map(move |(r, w)| if r < flip_all_permille { w } else { 0 }), pvec(alter(), 6..=6), pvec(alter(), 4..=4)),
	)
		.prop_map(|((r_node, r_ek, p_node, p_ek, other_ek), (nonce_o, nonce_p, nonce_x), mut offer, mut flow, (flips, flip_all, structural, offer_alter))| {
			// construction over rejection: shape the offer so that the chosen flow is buildable
			let far = |e: &mut Option<u64>| {
				if let Some(v) = e {
					if *v < FAR_FUTURE {
						*v = FAR_FUTURE + *v % FAR_FUTURE;
					}
				}
			};
			match &mut flow {
				Flow::OfferOnly => {},
				Flow::Request { .. } => far(&mut offer.expiry),
				Flow::Refund { refund, .. } => far(&mut refund.expiry),
				Flow::Static { .. } => {
					far(&mut offer.expiry);
					offer.derived = true;
					offer.chains.truncate(1);
					if offer.paths.is_empty() {
						offer.paths.push(MsgPath { intro: r_node ^ 1, scid: None, blinding: r_ek, hops: vec![(p_node, vec![1, 2, 3])] });
					}
				},
			}
			Case { r_node, r_ek, p_node, p_ek, other_ek, nonce_o, nonce_p, nonce_x, offer, flow, flips, flip_all, structural, offer_alter }
		})
}

// ------------------------------------------------------------------------------------------
// construction helpers
// ------------------------------------------------------------------------------------------

fn network(i: u8) -> Network {
	match i % 5 {
		0 => Network::Bitcoin,
		1 => Network::Testnet,
		2 => Network::Signet,
		3 => Network::Regtest,
		_ => Network::Testnet4,
	}
}

pub fn ek(seed: u8) -> ExpandedKey {
	let mut m = [0x5au8; 32];
	m[0] = seed;
	m[31] = seed.wrapping_mul(31);
	ExpandedKey::new(m)
}

fn nonce(v: &[u8]) -> Nonce {
	let mut b = [0u8; 16];
	let n = v.len().min(16);
	b[..n].copy_from_slice(&v[..n]);
	Nonce::try_from(&b[..]).expect("16 bytes")
}

struct FixedEntropy([u8; 32]);
impl EntropySource for FixedEntropy {
	fn get_secure_random_bytes(&self) -> [u8; 32] {
		self.0
	}
}

fn arr<const N: usize>(v: &[u8]) -> [u8; N] {
	let mut a = [0u8; N];
	let n = v.len().min(N);
	a[..n].copy_from_slice(&v[..n]);
	a
}

fn hops(p: &MsgPath) -> Vec<BlindedHop> {
	p.hops.iter().map(|(k, payload)| BlindedHop { blinded_node_id: key(*k).1, encrypted_payload: payload.clone() }).collect()
}

pub fn msg_path_of(p: &MsgPath) -> BlindedMessagePath {
	match p.scid {
		None => BlindedMessagePath::from_blinded_path(key(p.intro).1, key(p.blinding).1, hops(p)),
		Some((dir, scid)) => {
			// BOLT 4 `sciddir_or_pubkey`: only reachable through the wire encoding
			let mut b = vec![dir as u8];
			b.extend_from_slice(&scid.to_be_bytes());
			b.extend_from_slice(&key(p.blinding).1.serialize());
			b.push(p.hops.len() as u8);
			for h in hops(p) {
				b.extend_from_slice(&h.blinded_node_id.serialize());
				b.extend_from_slice(&(h.encrypted_payload.len() as u16).to_be_bytes());
				b.extend_from_slice(&h.encrypted_payload);
			}
			BlindedMessagePath::read(&mut &b[..]).expect("well-formed blinded path")
		},
	}
}

pub fn pay_path_of(p: &PayPath) -> BlindedPaymentPath {
	BlindedPaymentPath::from_blinded_path_and_payinfo(
		key(p.path.intro).1,
		key(p.path.blinding).1,
		hops(&p.path),
		BlindedPayInfo {
			fee_base_msat: p.fee_base,
			fee_proportional_millionths: p.fee_prop,
			cltv_expiry_delta: p.cltv,
			htlc_minimum_msat: p.hmin,
			htlc_maximum_msat: p.hmax,
			features: BlindedHopFeatures::empty(),
		},
	)
}

fn chains_of(spec: &[u8]) -> Vec<ChainHash> {
	// the builder de-duplicates; no chain at all means bitcoin mainnet (BOLT 12)
	let mut out: Vec<ChainHash> = vec![];
	for c in spec {
		let h = ChainHash::using_genesis_block(network(*c));
		if !out.contains(&h) {
			out.push(h);
		}
	}
	if out.is_empty() {
		out.push(ChainHash::using_genesis_block(Network::Bitcoin));
	}
	out
}

fn quantity_of(q: &Qty) -> Quantity {
	match q {
		Qty::One => Quantity::One,
		Qty::Unbounded => Quantity::Unbounded,
		Qty::Bounded(n) => Quantity::Bounded(NonZeroU64::new((*n).max(1)).unwrap()),
	}
}

fn apply_offer<'a, M: MetadataStrategy, T: bitcoin::secp256k1::Signing>(mut b: OfferBuilder<'a, M, T>, s: &OfferSpec) -> Result<Offer, String> {
	for c in s.chains.iter() {
		b = b.chain(network(*c));
	}
	if let Some(a) = s.amount {
		b = b.amount_msats(a);
	}
	if let Some(d) = &s.description {
		b = b.description(d.clone());
	}
	if let Some(i) = &s.issuer {
		b = b.issuer(i.clone());
	}
	if let Some(e) = s.expiry {
		b = b.absolute_expiry(Duration::from_secs(e));
	}
	for p in s.paths.iter() {
		b = b.path(msg_path_of(p));
	}
	b = b.supported_quantity(quantity_of(&s.qty));
	b.build().map_err(|e| format!("{:?}", e))
}

pub fn build_offer(c: &Case) -> Result<Offer, String> {
	let secp = &pool().secp;
	let node = key(c.r_node).1;
	if c.offer.derived {
		apply_offer(OfferBuilder::deriving_signing_pubkey(node, &ek(c.r_ek), nonce(&c.nonce_o), secp), &c.offer)
	} else {
		let mut b = OfferBuilder::new(node);
		if let Some(m) = &c.offer.metadata {
			b = b.metadata(m.clone()).map_err(|e| format!("{:?}", e))?;
		}
		apply_offer(b, &c.offer)
	}
}

fn apply_inv<'a, S: SigningPubkeyStrategy>(mut b: InvoiceBuilder<'a, S>, s: &InvSpec) -> InvoiceBuilder<'a, S> {
	if let Some(r) = s.rel_expiry {
		b = b.relative_expiry(r);
	}
	match s.mpp {
		1 => b = b.allow_mpp(),
		2 => b = b.allow_mpp().disallow_mpp(),
		_ => {},
	}
	for f in s.fallbacks.iter() {
		b = match f {
			Fb12::P2wsh(h) => b.fallback_v0_p2wsh(&WScriptHash::from_byte_array(arr::<32>(h))),
			Fb12::P2wpkh(h) => b.fallback_v0_p2wpkh(&WPubkeyHash::from_byte_array(arr::<20>(h))),
			Fb12::P2tr(k) => b.fallback_v1_p2tr_tweaked(&TweakedPublicKey::dangerous_assume_tweaked(XOnlyPublicKey::from(key(*k).1))),
		};
	}
	b
}

fn fallback_addresses(s: &InvSpec, chain: ChainHash) -> Option<Vec<Address>> {
	let net = [Network::Bitcoin, Network::Testnet, Network::Signet, Network::Regtest].into_iter().find(|n| ChainHash::using_genesis_block(*n) == chain)?;
	Some(
		s.fallbacks
			.iter()
			.map(|f| {
				let (v, prog) = match f {
					Fb12::P2wsh(h) => (WitnessVersion::V0, arr::<32>(h).to_vec()),
					Fb12::P2wpkh(h) => (WitnessVersion::V0, arr::<20>(h).to_vec()),
					Fb12::P2tr(k) => (WitnessVersion::V1, XOnlyPublicKey::from(key(*k).1).serialize().to_vec()),
				};
				Address::from_witness_program(WitnessProgram::new(v, &prog).expect("valid program"), net)
			})
			.collect(),
	)
}

fn sign_with(kp: &Keypair) -> impl Fn(&UnsignedBolt12Invoice) -> Result<Signature, ()> + '_ {
	move |m: &UnsignedBolt12Invoice| Ok(pool().secp.sign_schnorr_no_aux_rand(m.as_ref().as_digest(), kp))
}

fn keypair(i: u8) -> Keypair {
	Keypair::from_secret_key(&pool().secp, &key(i).0)
}

fn ser<W: Writeable>(w: &W) -> Vec<u8> {
	let mut v = vec![];
	w.write(&mut v).expect("vec write");
	v
}

// ------------------------------------------------------------------------------------------
// independent checks on serialized streams
// ------------------------------------------------------------------------------------------

/// The stream parses with the reference TLV reader, types strictly increase, and the 64-byte
/// record of type 240 is a valid BIP-340 signature by `signer` over the BOLT-12 digest computed
/// with the reference merkle implementation.
fn check_signed_stream(bytes: &[u8], messagename: &str, signer: PublicKey, what: &str) -> Result<[u8; 32], Failure> {
	let recs = rc::tlv_parse(bytes).ok_or_else(|| Failure::new("a:tlv-framing", format!("{}: library output is not a well-formed TLV stream: {}", what, hex(bytes))))?;
	vensure_f(recs.windows(2).all(|w| w[0].typ < w[1].typ), "a:tlv-order", || format!("{}: TLV types not strictly increasing", what))?;
	let root = rc::b12_merkle_root(&recs).ok_or_else(|| Failure::new("a:merkle", "no signable record"))?;
	let sig = recs.iter().find(|r| r.typ == 240).ok_or_else(|| Failure::new("a:signature-missing", format!("{}: no signature record", what)))?;
	let digest = rc::b12_sig_digest(messagename, root);
	let ok = Signature::from_slice(&sig.value)
		.ok()
		.map(|s| pool().secp.verify_schnorr(&s, &bitcoin::secp256k1::Message::from_digest(digest), &XOnlyPublicKey::from(signer)).is_ok())
		.unwrap_or(false);
	vensure_f(ok, "a:signature-on-wire", || format!("{}: signature record does not verify for {} over the reference merkle root {}", what, signer, hex(&root)))?;
	Ok(root)
}

fn vensure_f(c: bool, oracle: &str, f: impl FnOnce() -> String) -> CaseResult {
	if c {
		Ok(())
	} else {
		Err(Failure::new(oracle, f()))
	}
}

macro_rules! eq {
	($what:expr, $name:expr, $got:expr, $exp:expr) => {{
		let (g, e) = ($got, $exp);
		if g != e {
			return Err(Failure::new("a:accessor", format!("{} {}: got {:?} expected {:?}", $what, $name, g, e)).with_key(format!("b12/accessor/{}/{}", $what, $name)));
		}
	}};
}

/// Accessors generated by LDK's `offer_accessors!` exist under the same names on Offer,
/// InvoiceRequest and the verified wrappers.
macro_rules! offer_fields {
	($o:expr) => {
		(
			$o.chains(),
			$o.metadata().cloned(),
			$o.amount(),
			$o.description().map(|d| d.0.to_string()),
			$o.offer_features().clone(),
			$o.absolute_expiry(),
			$o.issuer().map(|d| d.0.to_string()),
			$o.paths().to_vec(),
			$o.supported_quantity(),
			$o.issuer_signing_pubkey(),
		)
	};
}

fn check_offer_model(c: &Case, o: &Offer, what: &str) -> CaseResult {
	let s = &c.offer;
	eq!(what, "chains", o.chains(), chains_of(&s.chains));
	eq!(what, "amount", o.amount(), s.amount.map(|a| Amount::Bitcoin { amount_msats: a }));
	// BOLT 12: offer_description is mandatory when offer_amount is set; the builder supplies ""
	eq!(what, "description", o.description().map(|d| d.0.to_string()), s.description.clone().or(s.amount.map(|_| String::new())));
	eq!(what, "issuer", o.issuer().map(|d| d.0.to_string()), s.issuer.clone());
	eq!(what, "absolute_expiry", o.absolute_expiry(), s.expiry.map(Duration::from_secs));
	eq!(what, "paths", o.paths().to_vec(), s.paths.iter().map(msg_path_of).collect::<Vec<_>>());
	eq!(what, "supported_quantity", o.supported_quantity(), quantity_of(&s.qty));
	eq!(what, "offer_features", o.offer_features().clone(), lightning::types::features::OfferFeatures::empty());
	if let Some(e) = s.expiry {
		if e < u64::MAX {
			eq!(what, "is_expired_no_std(after)", o.is_expired_no_std(Duration::from_secs(e + 1)), true);
		}
		eq!(what, "is_expired_no_std(at)", o.is_expired_no_std(Duration::from_secs(e)), false);
	}
	let node = key(c.r_node).1;
	match (s.derived, s.paths.is_empty()) {
		(false, _) => {
			eq!(what, "metadata", o.metadata().cloned(), s.metadata.clone());
			eq!(what, "issuer_signing_pubkey", o.issuer_signing_pubkey(), Some(node));
		},
		(true, true) => {
			// documented: without paths the node id is used and the metadata carries nonce || HMAC
			eq!(what, "issuer_signing_pubkey", o.issuer_signing_pubkey(), Some(node));
			let m = o.metadata().cloned().unwrap_or_default();
			eq!(what, "metadata-len", m.len(), 48usize);
			eq!(what, "metadata-nonce", m[..16].to_vec(), arr::<16>(&c.nonce_o).to_vec());
		},
		(true, false) => {
			// documented: with paths the signing pubkey is derived and no metadata is set
			eq!(what, "metadata", o.metadata().cloned(), None::<Vec<u8>>);
			vensure_f(o.issuer_signing_pubkey().is_some() && o.issuer_signing_pubkey() != Some(node), "a:accessor", || format!("{}: derived signing pubkey equals the node id", what))?;
		},
	}
	Ok(())
}

// ------------------------------------------------------------------------------------------
// tampering helpers
// ------------------------------------------------------------------------------------------

fn tu64(v: u64) -> Vec<u8> {
	let b = v.to_be_bytes();
	let skip = b.iter().take_while(|x| **x == 0).count();
	b[skip..].to_vec()
}

/// Apply one alteration to a parsed record list. `None` = not applicable (no such record).
fn apply_alter(recs: &[rc::Tlv], a: &Alter) -> Option<Vec<rc::Tlv>> {
	let mut out = recs.to_vec();
	let set = |out: &mut Vec<rc::Tlv>, typ: u64, value: Vec<u8>| match out.iter_mut().find(|r| r.typ == typ) {
		Some(r) => r.value = value,
		None => {
			let at = out.iter().position(|r| r.typ > typ).unwrap_or(out.len());
			out.insert(at, rc::Tlv { typ, value });
		},
	};
	match a {
		Alter::ValueXor { rec, byte, xor } => {
			let i = pick(*rec, out.len());
			if out[i].value.is_empty() {
				return None;
			}
			let j = pick(*byte, out[i].value.len());
			out[i].value[j] ^= (*xor).max(1);
		},
		Alter::SetU64 { typ, v } => set(&mut out, *typ as u64, tu64(*v)),
		// description / issuer / payer note are UTF-8 strings: keep the replacement printable so it parses
		Alter::SetBytes { typ, v } if [10u8, 18, 89].contains(typ) => set(&mut out, *typ as u64, v.iter().map(|b| b % 95 + 32).collect()),
		Alter::SetBytes { typ, v } => set(&mut out, *typ as u64, v.clone()),
		Alter::Remove { rec } => {
			out.remove(pick(*rec, out.len()));
		},
		Alter::Keep { mode, mask } => {
			let n = out.len();
			let mut i = 0;
			out.retain(|r| {
				let sel = mask & (1 << (i % 32)) != 0;
				i += 1;
				let sig = (240..=1000).contains(&r.typ);
				match mode {
					0 => sig,
					1 => sig || sel,
					_ => sel,
				}
			});
			if out.len() == n {
				return None;
			}
		},
		Alter::Dup { rec } => {
			let i = pick(*rec, out.len());
			let r = out[i].clone();
			out.insert(i, r);
		},
		Alter::Swap { rec } => {
			if out.len() < 2 {
				return None;
			}
			let i = pick(*rec, out.len() - 1);
			out.swap(i, i + 1);
		},
		Alter::Insert { typ, v } => {
			if out.iter().any(|r| r.typ == *typ) {
				return None;
			}
			let at = out.iter().position(|r| r.typ > *typ).unwrap_or(out.len());
			out.insert(at, rc::Tlv { typ: *typ, value: v.clone() });
		},
		Alter::ReplaceKey { typ, key: k } => {
			let r = out.iter_mut().find(|r| r.typ == *typ as u64)?;
			r.value = key(*k).1.serialize().to_vec();
		},
		Alter::NegateKey { typ } => {
			let r = out.iter_mut().find(|r| r.typ == *typ as u64)?;
			if r.value.len() != 33 || (r.value[0] != 2 && r.value[0] != 3) {
				return None;
			}
			r.value[0] ^= 1;
		},
	}
	if out == recs {
		return None;
	}
	Some(out)
}

/// The two record lists are equal once the offer_metadata record (type 4) is ignored.
pub fn only_metadata_differs(a: &[rc::Tlv], b: &[rc::Tlv]) -> bool {
	a.iter().filter(|r| r.typ != 4).eq(b.iter().filter(|r| r.typ != 4))
}

fn alter_label(a: &Alter) -> String {
	match a {
		Alter::ValueXor { .. } => "value-xor".into(),
		Alter::SetU64 { typ, .. } => format!("set-u64({})", typ),
		Alter::SetBytes { typ, .. } => format!("set-bytes({})", typ),
		Alter::Remove { .. } => "remove".into(),
		Alter::Keep { mode, .. } => format!("keep-subset({})", match mode { 0 => "signature records only", 1 => "signature records and some others", _ => "some records" }),
		Alter::Dup { .. } => "dup".into(),
		Alter::Swap { .. } => "swap".into(),
		Alter::Insert { typ, .. } => format!(
			"insert({})",
			match typ {
				1..=79 => "offer range",
				80..=159 => "invreq range",
				160..=239 => "invoice range",
				240..=1000 => "signature range",
				1_000_000_000..=3_999_999_999 => "experimental",
				_ => "other",
			}
		),
		Alter::ReplaceKey { typ, .. } => format!("replace-key({})", typ),
		Alter::NegateKey { typ } => format!("negate-key({})", typ),
	}
}

#[derive(Clone, Copy, PartialEq)]
enum Kind {
	Request,
	Invoice,
	Static,
}

impl Kind {
	fn name(&self) -> &'static str {
		match self {
			Kind::Request => "invoice_request",
			Kind::Invoice => "invoice",
			Kind::Static => "static_invoice",
		}
	}
	/// Parse `bytes` as this kind of signed object; Ok(re-serialization) when the library accepts it.
	fn parse(&self, bytes: Vec<u8>) -> Result<Vec<u8>, String> {
		match self {
			Kind::Request => InvoiceRequest::try_from(bytes).map(|r| ser(&r)).map_err(|e| format!("{:?}", e)),
			Kind::Invoice => Bolt12Invoice::try_from(bytes).map(|r| ser(&r)).map_err(|e| format!("{:?}", e)),
			Kind::Static => StaticInvoice::try_from(bytes).map(|r| ser(&r)).map_err(|e| format!("{:?}", e)),
		}
	}
}

/// Oracle (e): every single-bit change of a signed stream must be rejected; structural changes
/// must be rejected unless the signed content (reference merkle root) is unchanged.
fn tamper_signed(c: &Case, kind: Kind, bytes: &[u8], root: [u8; 32], ctx: &mut Ctx, evals: &mut u64, in_signed: &mut u64) -> CaseResult {
	// which signed stream of the flow this is: the request is the first, an invoice after a request the second
	let sweep = match (c.flip_all, kind, &c.flow) {
		(0, _, _) => false,
		(1, Kind::Invoice, Flow::Request { .. }) | (2, Kind::Request, _) => false,
		_ => true,
	};
	let recs = rc::tlv_parse(bytes).expect("checked before");
	// byte ranges of signature-range records (the only bytes a signature does not cover)
	let mut sig_ranges = vec![];
	let mut off = 0;
	for r in recs.iter() {
		let l = rc::tlv_record_bytes(r).len();
		if (240..=1000).contains(&r.typ) {
			sig_ranges.push(off..off + l);
		}
		off += l;
	}
	let nbits = bytes.len() * 8;
	let mut flip = |bit: usize, ctx: &mut Ctx| -> CaseResult {
		let mut b = bytes.to_vec();
		b[bit / 8] ^= 1 << (bit % 8);
		*evals += 1;
		let in_sig = sig_ranges.iter().any(|r| r.contains(&(bit / 8)));
		*in_signed += (!in_sig) as u64;
		match kind.parse(b) {
			Err(_) => Ok(()),
			Ok(_) => {
				ctx.label("VIOLATION bitflip accepted");
				Err(Failure::new(
					"e:bit-flip-accepted",
					format!("{}: flipping bit {} (byte {} of {}, {}) still parses.\n stream: {}", kind.name(), bit, bit / 8, bytes.len(), if in_sig { "inside the signature record" } else { "inside signed content" }, hex(bytes)),
				)
				.with_key(format!("b12/bitflip/{}", kind.name())))
			},
		}
	};
	if sweep {
		ctx.label(&format!("e:{} all bits flipped", kind.name()));
		for bit in 0..nbits {
			flip(bit, ctx)?;
		}
	} else {
		for f in c.flips.iter() {
			flip(((*f as u64 * nbits as u64) >> 32) as usize, ctx)?;
		}
	}
	for a in c.structural.iter() {
		let Some(alt) = apply_alter(&recs, a) else { continue };
		let b = rc::tlv_serialize(&alt);
		*evals += 1;
		let new_root = rc::b12_merkle_root(&alt);
		match kind.parse(b.clone()) {
			Err(_) => {
				ctx.label(&format!("e:{} structural alteration rejected", kind.name()));
				ctx.label(&format!("alt:{}", alter_label(a)));
			},
			Ok(_) if new_root == Some(root) => ctx.label(&format!("e:{} structural alteration accepted, signed content unchanged [{}]", kind.name(), alter_label(a))),
			Ok(_) => {
				return Err(Failure::new(
					"e:altered-stream-accepted",
					format!("{}: alteration {:?} changes the signed content but still parses.\n original: {}\n altered:  {}", kind.name(), a, hex(bytes), hex(&b)),
				)
				.with_key(format!("b12/altered/{}/{}", kind.name(), alter_label(a))))
			},
		}
	}
	Ok(())
}

// ------------------------------------------------------------------------------------------
// the oracle
// ------------------------------------------------------------------------------------------

fn build_request<'a>(offer: &'a Offer, c: &Case, r: &ReqSpec, payer_ek: &ExpandedKey) -> Result<InvoiceRequest, String> {
	let secp = &pool().secp;
	let mut b = offer.request_invoice(payer_ek, nonce(&c.nonce_p), secp, PaymentId(arr::<32>(&r.payment_id))).map_err(|e| format!("request_invoice: {:?}", e))?;
	let (chain, qty, amount) = request_params(offer, r);
	if let Some(n) = chain {
		b = b.chain(n).map_err(|e| format!("chain: {:?}", e))?;
	}
	if let Some(q) = qty {
		b = b.quantity(q).map_err(|e| format!("quantity: {:?}", e))?;
	}
	if let Some(a) = amount {
		b = b.amount_msats(a).map_err(|e| format!("amount_msats: {:?}", e))?;
	}
	if let Some(n) = &r.payer_note {
		b = b.payer_note(n.clone());
	}
	b.build_and_sign().map_err(|e| format!("build_and_sign: {:?}", e))
}

/// Compute request parameters that are valid for `offer` (construction, not rejection):
/// a supported chain, a quantity inside the offer's bound with amount*quantity <= 21M BTC, and an
/// amount that is absent or >= the expected amount.
fn request_params(offer: &Offer, r: &ReqSpec) -> (Option<Network>, Option<u64>, Option<u64>) {
	let chains = offer.chains();
	let nets = [Network::Bitcoin, Network::Testnet, Network::Signet, Network::Regtest, Network::Testnet4];
	let supported: Vec<Network> = nets.into_iter().filter(|n| chains.contains(&ChainHash::using_genesis_block(*n))).collect();
	let chain = if supported.is_empty() {
		None
	} else {
		let n = supported[pick(r.chain_pick, supported.len())];
		// leaving the chain unset means bitcoin; only possible when the offer supports it
		if n == Network::Bitcoin && !r.set_chain {
			None
		} else {
			Some(n)
		}
	};
	let unit = match offer.amount() {
		Some(Amount::Bitcoin { amount_msats }) => Some(amount_msats),
		_ => None,
	};
	let qmax_by_amount = unit.map_or(u64::MAX, |a| MAX_VALUE_MSAT / a.max(1));
	let qty = match offer.supported_quantity() {
		Quantity::One => None,
		Quantity::Unbounded => Some(1 + r.qty_pick % qmax_by_amount.min(1000)),
		Quantity::Bounded(n) => Some(1 + r.qty_pick % n.get().min(qmax_by_amount)),
	};
	let expected = unit.map(|a| a * qty.unwrap_or(1));
	let amount = match (expected, r.amount_extra) {
		(None, x) => Some(x.unwrap_or(1000) % (MAX_VALUE_MSAT + 1)),
		(Some(_), None) => None,
		(Some(e), Some(x)) => Some(e + x % (MAX_VALUE_MSAT - e + 1)),
	};
	(chain, qty, amount)
}

pub fn oracle(c: &Case, ctx: &mut Ctx) -> CaseResult {
	let secp = &pool().secp;
	let r_ek = ek(c.r_ek);
	let p_ek = ek(c.p_ek);
	// "another node's key material": guaranteed different from both parties
	let mut other = c.other_ek;
	while other == c.r_ek || other == c.p_ek {
		other = other.wrapping_add(1);
	}
	let other_ek = ek(other);
	let mut nonce_x = nonce(&c.nonce_x);
	if nonce_x == nonce(&c.nonce_o) || nonce_x == nonce(&c.nonce_p) {
		let mut b = arr::<16>(&c.nonce_x);
		b[0] ^= 0x80;
		b[15] ^= 1;
		nonce_x = nonce(&b);
	}
	let mut evals = 0u64;
	let mut in_signed = 0u64;

	// ---------------- offer ----------------
	let offer = match build_offer(c) {
		Ok(o) => o,
		Err(e) => vfail!("builder-rejects-valid-input", "OfferBuilder::build failed for an input inside its domain: {}", e),
	};
	let mode = match (c.offer.derived, c.offer.paths.is_empty()) {
		(false, _) => "offer: explicit key",
		(true, true) => "offer: derived metadata",
		(true, false) => "offer: derived signing key (paths)",
	};
	ctx.label(mode);
	check_offer_model(c, &offer, "offer(built)")?;
	let ob = ser(&offer);
	let oparsed = match Offer::try_from(ob.clone()) {
		Ok(o) => o,
		Err(e) => return Err(Failure::new("a:roundtrip-parse", format!("offer bytes do not parse back: {:?} / {}", e, hex(&ob))).with_key("b12/roundtrip-parse/offer")),
	};
	vensure!(oparsed == offer, "a:roundtrip-eq", "offer != parsed offer");
	vensure!(format!("{:?}", oparsed) == format!("{:?}", offer), "a:roundtrip-deep-eq", "offer and parsed offer differ in a field:\n built:  {:?}\n parsed: {:?}", offer, oparsed);
	check_offer_model(c, &oparsed, "offer(parsed)")?;
	vensure!(oparsed.id() == offer.id(), "a:offer-id", "offer id changes over the round trip");
	let ostr = offer.to_string();
	match ostr.parse::<Offer>() {
		Ok(o) => vensure!(o == offer && ser(&o) == ob, "a:roundtrip-eq", "offer string round trip differs"),
		Err(e) => return Err(Failure::new("a:roundtrip-parse", format!("offer string does not parse back: {:?} / {}", e, ostr)).with_key("b12/roundtrip-parse/offer-str")),
	}
	// the reference bech32 (no checksum for BOLT 12) agrees on the string form
	vensure!(
		ostr.strip_prefix("lno1").map(|d| d.bytes().map(|ch| rc::CHARSET.iter().position(|x| *x == ch).unwrap_or(99) as u8).collect::<Vec<u8>>()).map(|sym| rc::symbols_to_bytes(&sym, false)) == Some(ob.clone()),
		"a:offer-bech32",
		"offer string is not lno1 + bech32(data): {}",
		ostr
	);
	let orecs = match rc::tlv_parse(&ob) {
		Some(r) => r,
		None => vfail!("a:tlv-framing", "offer bytes are not a TLV stream: {}", hex(&ob)),
	};
	vensure!(orecs.windows(2).all(|w| w[0].typ < w[1].typ), "a:tlv-order", "offer TLV types not increasing");
	let offer_optional = c.offer.amount.is_some() as usize
		+ c.offer.description.is_some() as usize
		+ c.offer.issuer.is_some() as usize
		+ c.offer.expiry.is_some() as usize
		+ (!c.offer.paths.is_empty()) as usize
		+ (c.offer.qty != Qty::One) as usize
		+ (!c.offer.chains.is_empty()) as usize;

	// unsigned offer: a bit flip may or may not parse; it must not panic and, if accepted, must round-trip
	for f in c.flips.iter().take(16) {
		let bit = ((*f as u64 * (ob.len() as u64 * 8)) >> 32) as usize;
		let mut b = ob.clone();
		b[bit / 8] ^= 1 << (bit % 8);
		evals += 1;
		if let Ok(o) = Offer::try_from(b.clone()) {
			vensure!(ser(&o) == b, "b:accepted-not-roundtrip", "bit-flipped offer parses but re-serializes differently");
			ctx.label("offer bit flip accepted (unsigned object)");
		}
	}

	match &c.flow {
		Flow::OfferOnly => {
			ctx.label("flow: offer only");
		},
		// ---------------- offer -> invoice request -> invoice ----------------
		Flow::Request { req, inv } => {
			ctx.label("flow: offer -> request -> invoice");
			let request = match build_request(&offer, c, req, &p_ek) {
				Ok(r) => r,
				Err(e) => vfail!("builder-rejects-valid-input", "invoice request for a compatible offer failed: {}", e),
			};
			let (chain, qty, amount) = request_params(&offer, req);
			let rb = ser(&request);
			let payer_pk = request.payer_signing_pubkey();
			let rroot = check_signed_stream(&rb, "invoice_request", payer_pk, "invoice_request")?;
			let rparsed = match InvoiceRequest::try_from(rb.clone()) {
				Ok(r) => r,
				Err(e) => return Err(Failure::new("a:roundtrip-parse", format!("invoice request does not parse back: {:?} / {}", e, hex(&rb))).with_key("b12/roundtrip-parse/invoice_request")),
			};
			vensure!(rparsed == request, "a:roundtrip-eq", "invoice request != parsed");
			vensure!(format!("{:?}", rparsed) == format!("{:?}", request), "a:roundtrip-deep-eq", "invoice request and parsed differ in a field:\n built:  {:?}\n parsed: {:?}", request, rparsed);
			for (what, r) in [("invreq(built)", &request), ("invreq(parsed)", &rparsed)] {
				eq!(what, "offer-fields", offer_fields!(r), offer_fields!(offer));
				eq!(what, "chain", r.chain(), ChainHash::using_genesis_block(chain.unwrap_or(Network::Bitcoin)));
				let unit = c.offer.amount;
				eq!(what, "amount_msats", r.amount_msats(), amount.or(unit.map(|a| a * qty.unwrap_or(1))));
				eq!(what, "has_amount_msats", r.has_amount_msats(), amount.is_some());
				eq!(what, "quantity", r.quantity(), qty);
				eq!(what, "payer_note", r.payer_note().map(|n| n.0.to_string()), req.payer_note.clone());
				// documented: payer metadata = encrypted payment id (32) || nonce (16)
				eq!(what, "payer_metadata-len", r.payer_metadata().len(), 48usize);
				eq!(what, "payer_metadata-nonce", r.payer_metadata()[32..].to_vec(), arr::<16>(&c.nonce_p).to_vec());
				eq!(what, "signature", r.signature(), request.signature());
			}
			// the offer's records are carried verbatim
			let rrecs = rc::tlv_parse(&rb).expect("checked");
			vensure!(rrecs.iter().filter(|r| (1..80).contains(&r.typ) || (1_000_000_000..2_000_000_000).contains(&r.typ)).cloned().collect::<Vec<_>>() == orecs, "a:offer-records", "request does not carry the offer's records verbatim");
			tamper_signed(c, Kind::Request, &rb, rroot, ctx, &mut evals, &mut in_signed)?;

			// (f) recipient-side metadata verification
			let derived_keys = c.offer.derived && !c.offer.paths.is_empty();
			let derived_meta = c.offer.derived && c.offer.paths.is_empty();
			let via_meta = request.clone().verify_using_metadata(&r_ek, secp);
			let via_data = request.clone().verify_using_recipient_data(nonce(&c.nonce_o), &r_ek, secp);
			evals += 2;
			vensure!(via_meta.is_ok() == derived_meta, "f:originator-metadata", "verify_using_metadata(originator key) = {} for {}", via_meta.is_ok(), mode);
			vensure!(via_data.is_ok() == derived_keys, "f:originator-recipient-data", "verify_using_recipient_data(originator key, nonce) = {} for {}", via_data.is_ok(), mode);
			let verified = via_meta.ok().or(via_data.ok());
			if let Some(v) = &verified {
				vensure!(v.offer_id() == offer.id(), "f:offer-id", "verified request reports another offer id");
				vensure!(matches!(v, InvoiceRequestVerifiedFromOffer::DerivedKeys(_)) == derived_keys, "f:key-kind", "wrong kind of verified request for {}", mode);
			}
			// (ii) another node's key material, (iv) another nonce
			for (what, res) in [
				("other-key/metadata", request.clone().verify_using_metadata(&other_ek, secp).is_ok()),
				("other-key/recipient-data", request.clone().verify_using_recipient_data(nonce(&c.nonce_o), &other_ek, secp).is_ok()),
				("payer-key/metadata", request.clone().verify_using_metadata(&p_ek, secp).is_ok()),
				("other-nonce/recipient-data", request.clone().verify_using_recipient_data(nonce_x, &r_ek, secp).is_ok()),
			] {
				evals += 1;
				if res && !(c.p_ek == c.r_ek && what.starts_with("payer-key")) {
					return Err(Failure::new("f:foreign-material-accepted", format!("{} verified a request for {}", what, mode)).with_key(format!("b12/meta/{}", what)));
				}
			}
			// (iii) altered copies of the offer
			for a in c.offer_alter.iter() {
				let Some(alt) = apply_alter(&orecs, a) else { continue };
				let ab = rc::tlv_serialize(&alt);
				let Ok(aoffer) = Offer::try_from(ab.clone()) else {
					ctx.label("f:altered offer does not parse");
					continue;
				};
				let Ok(areq) = build_request(&aoffer, c, req, &p_ek) else {
					ctx.label("f:altered offer not requestable");
					continue;
				};
				evals += 1;
				let m = areq.clone().verify_using_metadata(&r_ek, secp).is_ok();
				let d = areq.clone().verify_using_recipient_data(nonce(&c.nonce_o), &r_ek, secp).is_ok();
				if derived_keys && only_metadata_differs(&orecs, &alt) {
					// asserted (and currently failing) in the dedicated part `finding_offer_metadata_injection`
					ctx.label(if d { "f:offer_metadata injected into derived-key offer: ACCEPTED (see finding part)" } else { "f:offer_metadata injected into derived-key offer: refused" });
					continue;
				}
				if m || d {
					return Err(Failure::new(
						"f:altered-offer-accepted",
						format!(
							"a request built against an altered copy of the offer ({:?}) verifies as the originator's ({}; metadata={} recipient_data={}).\n offer:   {}\n altered: {}",
							a,
							mode,
							m,
							d,
							hex(&ob),
							hex(&ab)
						),
					)
					.with_key(format!("b12/meta/altered-offer/{}", alter_label(a))));
				}
				ctx.label("f:request against altered offer refused");
				ctx.label(&format!("alt-offer:{}", alter_label(a)));
			}

			// (iii-b) single-bit changes of the offer's bytes (sampled positions): the altered copy either does
			// not parse, cannot be requested, or the request built against it is refused
			if derived_keys || derived_meta {
				let nbits = ob.len() * 8;
				for f in c.flips.iter().take(24) {
					let bit = ((*f as u64 * nbits as u64) >> 32) as usize;
					let mut ab = ob.clone();
					ab[bit / 8] ^= 1 << (bit % 8);
					let Ok(aoffer) = Offer::try_from(ab.clone()) else { continue };
					let Some(arecs) = rc::tlv_parse(&ab) else { continue };
					if derived_keys && arecs.iter().any(|r| r.typ == 4) {
						// a record type turned into offer_metadata: the class asserted in `finding_offer_metadata_injection`
						ctx.label("f:offer bit flip creates an offer_metadata record (see finding part)");
						continue;
					}
					let Ok(areq) = build_request(&aoffer, c, req, &p_ek) else { continue };
					evals += 1;
					let m = areq.clone().verify_using_metadata(&r_ek, secp).is_ok();
					let d = areq.clone().verify_using_recipient_data(nonce(&c.nonce_o), &r_ek, secp).is_ok();
					if m || d {
						return Err(Failure::new(
							"f:altered-offer-accepted",
							format!(
								"a request built against a copy of the offer with bit {} flipped (byte {}) verifies as the originator's ({}; metadata={} recipient_data={}).\n offer:   {}\n altered: {}",
								bit,
								bit / 8,
								mode,
								m,
								d,
								hex(&ob),
								hex(&ab)
							),
						)
						.with_key("b12/meta/altered-offer/bit-flip"));
					}
					ctx.label("f:request against bit-flipped offer refused");
				}
			}

			// invoice
			let paths: Vec<BlindedPaymentPath> = inv.paths.iter().map(pay_path_of).collect();
			let ph = PaymentHash(arr::<32>(&inv.payment_hash));
			let created = Duration::from_secs(inv.created_at);
			let node_kp = keypair(c.r_node);
			let invoice = match &verified {
				Some(InvoiceRequestVerifiedFromOffer::DerivedKeys(v)) => v
					.respond_using_derived_keys_no_std(paths.clone(), ph, created)
					.map_err(|e| format!("{:?}", e))
					.and_then(|b| apply_inv(b, inv).build_and_sign(secp).map_err(|e| format!("{:?}", e))),
				Some(InvoiceRequestVerifiedFromOffer::ExplicitKeys(v)) => v
					.respond_with_no_std(paths.clone(), ph, created)
					.map_err(|e| format!("{:?}", e))
					.and_then(|b| apply_inv(b, inv).build().map_err(|e| format!("{:?}", e)))
					.and_then(|u| u.sign(sign_with(&node_kp)).map_err(|e| format!("{:?}", e))),
				None => request
					.respond_with_no_std(paths.clone(), ph, created)
					.map_err(|e| format!("{:?}", e))
					.and_then(|b| apply_inv(b, inv).build().map_err(|e| format!("{:?}", e)))
					.and_then(|u| u.sign(sign_with(&node_kp)).map_err(|e| format!("{:?}", e))),
			};
			let invoice = match invoice {
				Ok(i) => i,
				Err(e) => vfail!("builder-rejects-valid-input", "invoice for a valid request failed: {}", e),
			};
			vensure!(invoice.is_for_offer() && !invoice.is_for_refund(), "a:accessor", "is_for_offer wrong");
			eq!("invoice", "offer_id", invoice.offer_id().map(|i| i.0), Some(offer.id().0));
			eq!("invoice", "signing_pubkey", Some(invoice.signing_pubkey()), offer.issuer_signing_pubkey());
			eq!("invoice", "payer_signing_pubkey", invoice.payer_signing_pubkey(), payer_pk);
			eq!("invoice", "amount_msats", Some(invoice.amount_msats()), request.amount_msats());
			eq!("invoice", "quantity", invoice.quantity(), qty);
			eq!("invoice", "payer_note", invoice.payer_note().map(|n| n.0.to_string()), req.payer_note.clone());
			eq!("invoice", "chain", invoice.chain(), request.chain());
			eq!("invoice", "absolute_expiry", invoice.absolute_expiry(), c.offer.expiry.map(Duration::from_secs));
			eq!("invoice", "amount", invoice.amount(), offer.amount());
			eq!("invoice", "message_paths", invoice.message_paths().to_vec(), offer.paths().to_vec());

			// (f) payer side
			let pid = invoice.verify_using_metadata(&p_ek, secp);
			evals += 1;
			vensure!(pid == Ok(PaymentId(arr::<32>(&req.payment_id))), "f:payer-metadata", "payer cannot verify the invoice for its own request: {:?}", pid.map(|p| hex(&p.0)));
			for (what, k) in [("other", &other_ek), ("recipient", &r_ek)] {
				evals += 1;
				if invoice.verify_using_metadata(k, secp).is_ok() && !(what == "recipient" && c.r_ek == c.p_ek) {
					return Err(Failure::new("f:foreign-material-accepted", format!("invoice verifies under the {} key", what)).with_key(format!("b12/meta/invoice-{}-key", what)));
				}
			}
			// the issuer re-signs an invoice whose mirrored request fields were altered: the payer must refuse it
			if !derived_keys {
				let ib = ser(&invoice);
				let irecs: Vec<rc::Tlv> = rc::tlv_parse(&ib).expect("tlv").into_iter().filter(|r| r.typ != 240).collect();
				for a in c.offer_alter.iter() {
					let Some(alt) = apply_alter(&irecs, a) else { continue };
					// only alterations of what the payer authored / saw: offer and request ranges
					let touched_payer_part = alt.iter().filter(|r| r.typ < 160 || (1_000_000_000..3_000_000_000u64).contains(&r.typ)).ne(irecs.iter().filter(|r| r.typ < 160 || (1_000_000_000..3_000_000_000u64).contains(&r.typ)));
					if !touched_payer_part {
						continue;
					}
					let Ok(u) = UnsignedBolt12Invoice::try_from(rc::tlv_serialize(&alt)) else { continue };
					let Ok(forged) = u.sign(sign_with(&node_kp)) else { continue };
					evals += 1;
					if forged.verify_using_metadata(&p_ek, secp).is_ok() {
						return Err(Failure::new("f:altered-request-accepted", format!("payer accepts an invoice whose request part was altered ({:?}) and re-signed by the issuer", a)).with_key(format!("b12/meta/altered-invoice/{}", alter_label(a))));
					}
					ctx.label("f:re-signed altered invoice refused by payer");
				}
			}
			check_invoice(c, &invoice, inv, ctx, &mut evals, &mut in_signed)?;
		},
		// ---------------- refund -> invoice ----------------
		Flow::Refund { refund: rs, inv, derived_signing } => {
			ctx.label("flow: refund -> invoice");
			let p_node = key(c.p_node).1;
			fn apply_refund<'a, T: bitcoin::secp256k1::Signing>(mut b: RefundBuilder<'a, T>, s: &RefundSpec) -> Result<Refund, String> {
				b = b.description(s.description.clone());
				if let Some(e) = s.expiry {
					b = b.absolute_expiry(Duration::from_secs(e));
				}
				if let Some(i) = &s.issuer {
					b = b.issuer(i.clone());
				}
				for p in s.paths.iter() {
					b = b.path(msg_path_of(p));
				}
				if let Some(n) = s.chain {
					b = b.chain(network(n));
				}
				if let Some(q) = s.quantity {
					b = b.quantity(q);
				}
				if let Some(n) = &s.payer_note {
					b = b.payer_note(n.clone());
				}
				b.build().map_err(|e| format!("{:?}", e))
			}
			let refund = if rs.derived {
				RefundBuilder::deriving_signing_pubkey(p_node, &p_ek, nonce(&c.nonce_p), secp, rs.amount, PaymentId(arr::<32>(&rs.payment_id))).map_err(|e| format!("{:?}", e)).and_then(|b| apply_refund(b, rs))
			} else {
				RefundBuilder::new(rs.metadata.clone(), p_node, rs.amount).map_err(|e| format!("{:?}", e)).and_then(|b| apply_refund(b, rs))
			};
			let refund = match refund {
				Ok(r) => r,
				Err(e) => vfail!("builder-rejects-valid-input", "RefundBuilder failed: {}", e),
			};
			ctx.label(if rs.derived { if rs.paths.is_empty() { "refund: derived metadata" } else { "refund: derived payer key (paths)" } } else { "refund: explicit" });
			let fb = ser(&refund);
			let fparsed = match Refund::try_from(fb.clone()) {
				Ok(r) => r,
				Err(e) => return Err(Failure::new("a:roundtrip-parse", format!("refund does not parse back: {:?} / {}", e, hex(&fb))).with_key("b12/roundtrip-parse/refund")),
			};
			vensure!(fparsed == refund, "a:roundtrip-eq", "refund != parsed");
			vensure!(format!("{:?}", fparsed) == format!("{:?}", refund), "a:roundtrip-deep-eq", "refund and parsed differ in a field:\n built:  {:?}\n parsed: {:?}", refund, fparsed);
			match refund.to_string().parse::<Refund>() {
				Ok(r) => vensure!(r == refund, "a:roundtrip-eq", "refund string round trip differs"),
				Err(e) => return Err(Failure::new("a:roundtrip-parse", format!("refund string does not parse back: {:?}", e)).with_key("b12/roundtrip-parse/refund-str")),
			}
			for (what, r) in [("refund(built)", &refund), ("refund(parsed)", &fparsed)] {
				eq!(what, "description", r.description().0.to_string(), rs.description.clone());
				eq!(what, "absolute_expiry", r.absolute_expiry(), rs.expiry.map(Duration::from_secs));
				eq!(what, "issuer", r.issuer().map(|i| i.0.to_string()), rs.issuer.clone());
				eq!(what, "paths", r.paths().to_vec(), rs.paths.iter().map(msg_path_of).collect::<Vec<_>>());
				eq!(what, "chain", r.chain(), ChainHash::using_genesis_block(rs.chain.map(network).unwrap_or(Network::Bitcoin)));
				eq!(what, "amount_msats", r.amount_msats(), rs.amount);
				eq!(what, "quantity", r.quantity(), rs.quantity);
				eq!(what, "payer_note", r.payer_note().map(|i| i.0.to_string()), rs.payer_note.clone());
				if !rs.derived {
					eq!(what, "payer_metadata", r.payer_metadata().to_vec(), rs.metadata.clone());
				}
				if !(rs.derived && !rs.paths.is_empty()) {
					eq!(what, "payer_signing_pubkey", r.payer_signing_pubkey(), p_node);
				}
			}
			for f in c.flips.iter().take(16) {
				let bit = ((*f as u64 * (fb.len() as u64 * 8)) >> 32) as usize;
				let mut b = fb.clone();
				b[bit / 8] ^= 1 << (bit % 8);
				evals += 1;
				if let Ok(o) = Refund::try_from(b.clone()) {
					vensure!(ser(&o) == b, "b:accepted-not-roundtrip", "bit-flipped refund parses but re-serializes differently");
				}
			}
			let paths: Vec<BlindedPaymentPath> = inv.paths.iter().map(pay_path_of).collect();
			let ph = PaymentHash(arr::<32>(&inv.payment_hash));
			let created = Duration::from_secs(inv.created_at);
			let node_kp = keypair(c.r_node);
			let invoice = if *derived_signing {
				refund
					.respond_using_derived_keys_no_std(paths, ph, created, &r_ek, FixedEntropy(arr::<32>(&c.nonce_x)))
					.map_err(|e| format!("{:?}", e))
					.and_then(|b| apply_inv(b, inv).build_and_sign(secp).map_err(|e| format!("{:?}", e)))
			} else {
				refund
					.respond_with_no_std(paths, ph, key(c.r_node).1, created)
					.map_err(|e| format!("{:?}", e))
					.and_then(|b| apply_inv(b, inv).build().map_err(|e| format!("{:?}", e)))
					.and_then(|u| u.sign(sign_with(&node_kp)).map_err(|e| format!("{:?}", e)))
			};
			let invoice = match invoice {
				Ok(i) => i,
				Err(e) => vfail!("builder-rejects-valid-input", "invoice for a refund failed: {}", e),
			};
			vensure!(invoice.is_for_refund() && !invoice.is_for_offer() && invoice.offer_id().is_none(), "a:accessor", "is_for_refund wrong");
			eq!("refund-invoice", "amount_msats", invoice.amount_msats(), rs.amount);
			eq!("refund-invoice", "payer_signing_pubkey", invoice.payer_signing_pubkey(), refund.payer_signing_pubkey());
			eq!("refund-invoice", "chain", invoice.chain(), refund.chain());
			eq!("refund-invoice", "description", invoice.description().map(|d| d.0.to_string()), Some(rs.description.clone()));
			eq!("refund-invoice", "message_paths", invoice.message_paths().to_vec(), refund.paths().to_vec());
			if !*derived_signing {
				eq!("refund-invoice", "signing_pubkey", invoice.signing_pubkey(), key(c.r_node).1);
			}
			// (f) payer side: only a refund whose metadata was derived from the payer's key verifies
			let pid = invoice.verify_using_metadata(&p_ek, secp);
			evals += 1;
			if rs.derived {
				vensure!(pid == Ok(PaymentId(arr::<32>(&rs.payment_id))), "f:payer-metadata", "payer cannot verify the invoice for its own refund");
			} else {
				vensure!(pid.is_err(), "f:foreign-material-accepted", "invoice for a refund with explicit metadata verifies as derived");
			}
			for (what, k) in [("other", &other_ek), ("recipient", &r_ek)] {
				evals += 1;
				if invoice.verify_using_metadata(k, secp).is_ok() && !(what == "recipient" && c.r_ek == c.p_ek) {
					return Err(Failure::new("f:foreign-material-accepted", format!("refund invoice verifies under the {} key", what)).with_key(format!("b12/meta/refund-invoice-{}-key", what)));
				}
			}
			if rs.derived && !*derived_signing {
				let ib = ser(&invoice);
				let irecs: Vec<rc::Tlv> = rc::tlv_parse(&ib).expect("tlv").into_iter().filter(|r| r.typ != 240).collect();
				for a in c.offer_alter.iter() {
					let Some(alt) = apply_alter(&irecs, a) else { continue };
					let part = |v: &[rc::Tlv]| v.iter().filter(|r| r.typ < 160 || (1_000_000_000..3_000_000_000u64).contains(&r.typ)).cloned().collect::<Vec<_>>();
					if part(&alt) == part(&irecs) {
						continue;
					}
					let Ok(u) = UnsignedBolt12Invoice::try_from(rc::tlv_serialize(&alt)) else { continue };
					let Ok(forged) = u.sign(sign_with(&node_kp)) else { continue };
					evals += 1;
					if forged.verify_using_metadata(&p_ek, secp).is_ok() {
						return Err(Failure::new("f:altered-request-accepted", format!("payer accepts an invoice whose refund part was altered ({:?}) and re-signed by the issuer", a)).with_key(format!("b12/meta/altered-refund-invoice/{}", alter_label(a))));
					}
					ctx.label("f:re-signed altered refund invoice refused by payer");
				}
			}
			check_invoice(c, &invoice, inv, ctx, &mut evals, &mut in_signed)?;
		},
		// ---------------- offer -> static invoice ----------------
		Flow::Static { inv, held } => {
			ctx.label("flow: offer -> static invoice");
			let paths: Vec<BlindedPaymentPath> = inv.paths.iter().map(pay_path_of).collect();
			let held_paths: Vec<BlindedMessagePath> = held.iter().map(msg_path_of).collect();
			let created = Duration::from_secs(inv.created_at);
			let mk = |offer: &Offer, k: &ExpandedKey, n: Nonce| -> Result<StaticInvoice, String> {
				let mut b = StaticInvoiceBuilder::for_offer_using_derived_keys(offer, paths.clone(), held_paths.clone(), created, k, n, secp).map_err(|e| format!("{:?}", e))?;
				if let Some(r) = inv.rel_expiry {
					b = b.relative_expiry(r);
				}
				match inv.mpp {
					1 => b = b.allow_mpp(),
					2 => b = b.allow_mpp().disallow_mpp(),
					_ => {},
				}
				b.build_and_sign(secp).map_err(|e| format!("{:?}", e))
			};
			let si = match mk(&offer, &r_ek, nonce(&c.nonce_o)) {
				Ok(i) => i,
				Err(e) => vfail!("builder-rejects-valid-input", "static invoice for own offer failed: {}", e),
			};
			// (f) only the originator's key material and nonce can produce a static invoice for the offer
			evals += 2;
			if mk(&offer, &other_ek, nonce(&c.nonce_o)).is_ok() {
				return Err(Failure::new("f:foreign-material-accepted", "static invoice built for the offer with another node's key material").with_key("b12/meta/static-other-key"));
			}
			if mk(&offer, &r_ek, nonce_x).is_ok() {
				return Err(Failure::new("f:foreign-material-accepted", "static invoice built for the offer with another nonce").with_key("b12/meta/static-other-nonce"));
			}
			for a in c.offer_alter.iter() {
				let Some(alt) = apply_alter(&orecs, a) else { continue };
				let Ok(aoffer) = Offer::try_from(rc::tlv_serialize(&alt)) else { continue };
				evals += 1;
				if only_metadata_differs(&orecs, &alt) {
					continue; // see part `finding_offer_metadata_injection`
				}
				if aoffer.chains().len() <= 1 && !aoffer.paths().is_empty() && aoffer.absolute_expiry().map_or(true, |e| e.as_secs() >= FAR_FUTURE) && mk(&aoffer, &r_ek, nonce(&c.nonce_o)).is_ok() {
					return Err(Failure::new("f:altered-offer-accepted", format!("static invoice builder accepts an altered copy of the offer ({:?}) as the originator's", a)).with_key(format!("b12/meta/static-altered-offer/{}", alter_label(a))));
				}
			}
			let sb = ser(&si);
			let sroot = check_signed_stream(&sb, "static_invoice", si.signing_pubkey(), "static_invoice")?;
			let sparsed = match StaticInvoice::try_from(sb.clone()) {
				Ok(r) => r,
				Err(e) => return Err(Failure::new("a:roundtrip-parse", format!("static invoice does not parse back: {:?} / {}", e, hex(&sb))).with_key("b12/roundtrip-parse/static_invoice")),
			};
			vensure!(sparsed == si, "a:roundtrip-eq", "static invoice != parsed");
			vensure!(format!("{:?}", sparsed) == format!("{:?}", si), "a:roundtrip-deep-eq", "static invoice and parsed differ in a field:\n built:  {:?}\n parsed: {:?}", si, sparsed);
			for (what, s) in [("static(built)", &si), ("static(parsed)", &sparsed)] {
				eq!(what, "payment_paths", s.payment_paths().to_vec(), paths.clone());
				eq!(what, "held_htlc_available_paths", s.held_htlc_available_paths().to_vec(), held_paths.clone());
				eq!(what, "offer_message_paths", s.offer_message_paths().to_vec(), offer.paths().to_vec());
				eq!(what, "created_at", s.created_at(), created);
				// documented: static invoices default to two weeks
				eq!(what, "relative_expiry", s.relative_expiry(), Duration::from_secs(inv.rel_expiry.map_or(14 * 24 * 3600, |r| r as u64)));
				eq!(what, "signing_pubkey", Some(s.signing_pubkey()), offer.issuer_signing_pubkey());
				eq!(what, "amount", s.amount(), offer.amount());
				eq!(what, "absolute_expiry", s.absolute_expiry(), offer.absolute_expiry());
				eq!(what, "offer_id", s.offer_id().0, offer.id().0);
				eq!(what, "invoice_features", s.invoice_features().clone(), expected_inv_features(inv));
				eq!(what, "signature", s.signature(), si.signature());
			}
			tamper_signed(c, Kind::Static, &sb, sroot, ctx, &mut evals, &mut in_signed)?;
		},
	}
	ctx.sub_evaluations(evals);
	// non-trivial: the offer carries >= 3 optional fields (round trip) and, where a signed stream
	// exists, at least one mutation landed inside signed content
	ctx.nontrivial_if(offer_optional >= 3 && (matches!(c.flow, Flow::OfferOnly) || in_signed > 0));
	Ok(())
}

fn expected_inv_features(inv: &InvSpec) -> Bolt12InvoiceFeatures {
	let mut f = Bolt12InvoiceFeatures::empty();
	if inv.mpp == 1 {
		f.set_basic_mpp_optional();
	}
	f
}

/// Round trip, accessors and tampering of a signed Bolt12Invoice (for an offer or a refund).
fn check_invoice(c: &Case, invoice: &Bolt12Invoice, inv: &InvSpec, ctx: &mut Ctx, evals: &mut u64, in_signed: &mut u64) -> CaseResult {
	let ib = ser(invoice);
	let root = check_signed_stream(&ib, "invoice", invoice.signing_pubkey(), "invoice")?;
	// the library's own digest accessor agrees with the reference computation
	vensure!(invoice.signable_hash() == rc::b12_sig_digest("invoice", root), "a:signable-hash", "Bolt12Invoice::signable_hash differs from the reference BOLT-12 digest");
	let parsed = match Bolt12Invoice::try_from(ib.clone()) {
		Ok(r) => r,
		Err(e) => return Err(Failure::new("a:roundtrip-parse", format!("invoice does not parse back: {:?} / {}", e, hex(&ib))).with_key("b12/roundtrip-parse/invoice")),
	};
	vensure!(&parsed == invoice, "a:roundtrip-eq", "invoice != parsed");
	vensure!(format!("{:?}", parsed) == format!("{:?}", invoice), "a:roundtrip-deep-eq", "invoice and parsed differ in a field:\n built:  {:?}\n parsed: {:?}", invoice, parsed);
	let paths: Vec<BlindedPaymentPath> = inv.paths.iter().map(pay_path_of).collect();
	for (what, i) in [("invoice(built)", invoice), ("invoice(parsed)", &parsed)] {
		eq!(what, "payment_hash", i.payment_hash(), PaymentHash(arr::<32>(&inv.payment_hash)));
		eq!(what, "payment_paths", i.payment_paths().to_vec(), paths.clone());
		eq!(what, "created_at", i.created_at(), Duration::from_secs(inv.created_at));
		// BOLT 12: default relative expiry is 7200 s
		eq!(what, "relative_expiry", i.relative_expiry(), Duration::from_secs(inv.rel_expiry.map_or(7200, |r| r as u64)));
		eq!(what, "invoice_features", i.invoice_features().clone(), expected_inv_features(inv));
		if let Some(addrs) = fallback_addresses(inv, i.chain()) {
			eq!(what, "fallbacks", i.fallbacks(), addrs);
		}
		let expires = inv.created_at.saturating_add(inv.rel_expiry.map_or(7200, |r| r as u64));
		eq!(what, "is_expired_no_std(at)", i.is_expired_no_std(Duration::from_secs(expires)), false);
		if expires < u64::MAX {
			eq!(what, "is_expired_no_std(after)", i.is_expired_no_std(Duration::from_secs(expires + 1)), true);
		}
		eq!(what, "amount_msats", i.amount_msats(), invoice.amount_msats());
		eq!(what, "signing_pubkey", i.signing_pubkey(), invoice.signing_pubkey());
		eq!(what, "signature", i.signature(), invoice.signature());
		eq!(what, "payer_metadata", i.payer_metadata().to_vec(), invoice.payer_metadata().to_vec());
		eq!(what, "fallbacks(built=parsed)", i.fallbacks(), invoice.fallbacks());
		eq!(what, "offer_id", i.offer_id().map(|x| x.0), invoice.offer_id().map(|x| x.0));
	}
	// An invoice for an offer must be signed by the offer's issuer key (or the final hop of one of its
	// paths): swapping invoice_node_id for another key and re-signing with that key - a perfectly valid
	// BIP-340 signature over the reference merkle root - must not parse.
	if invoice.is_for_offer() {
		let attacker = (c.r_node & 63) ^ 1 ^ ((c.other_ek & 31) << 1);
		let mut recs: Vec<rc::Tlv> = rc::tlv_parse(&ib).expect("tlv").into_iter().filter(|r| r.typ != 240).collect();
		if let Some(r) = recs.iter_mut().find(|r| r.typ == 176) {
			r.value = key(attacker).1.serialize().to_vec();
		}
		if key(attacker).1 != invoice.signing_pubkey() {
			let digest = rc::b12_sig_digest("invoice", rc::b12_merkle_root(&recs).expect("root"));
			let sig = pool().secp.sign_schnorr_no_aux_rand(&bitcoin::secp256k1::Message::from_digest(digest), &keypair(attacker));
			let at = recs.iter().position(|r| r.typ > 240).unwrap_or(recs.len());
			recs.insert(at, rc::Tlv { typ: 240, value: sig.as_ref().to_vec() });
			*evals += 1;
			if Bolt12Invoice::try_from(rc::tlv_serialize(&recs)).is_ok() {
				return Err(Failure::new("e:resigned-by-other-key", format!("an invoice for an offer re-signed under another node id parses: {}", hex(&rc::tlv_serialize(&recs)))).with_key("b12/forged/invoice-node-id-replaced"));
			}
			ctx.label("e:invoice re-signed under another node id rejected");
		}
	}
	tamper_signed(c, Kind::Invoice, &ib, root, ctx, evals, in_signed)
}

// ------------------------------------------------------------------------------------------
// serialized streams of a case (seed material for the arbitrary-input part)
// ------------------------------------------------------------------------------------------

/// Build whatever the case's flow describes and return the serialized objects
/// (name, bytes, bech32 string form where one exists). Failures to build are skipped.
pub fn streams(c: &Case) -> Vec<(&'static str, Vec<u8>, Option<String>)> {
	let secp = &pool().secp;
	let mut out = vec![];
	let Ok(offer) = build_offer(c) else { return out };
	out.push(("offer", ser(&offer), Some(offer.to_string())));
	let node_kp = keypair(c.r_node);
	match &c.flow {
		Flow::OfferOnly => {},
		Flow::Request { req, inv } => {
			let Ok(request) = build_request(&offer, c, req, &ek(c.p_ek)) else { return out };
			out.push(("invoice_request", ser(&request), None));
			let paths: Vec<BlindedPaymentPath> = inv.paths.iter().map(pay_path_of).collect();
			let b = request.respond_with_no_std(paths, PaymentHash(arr::<32>(&inv.payment_hash)), Duration::from_secs(inv.created_at));
			if let Ok(u) = b.map_err(|_| ()).and_then(|b| apply_inv(b, inv).build().map_err(|_| ())) {
				out.push(("unsigned_invoice", ser(&u), None));
				// the node key only matches the offer's signing key when it was not derived
				if let Ok(i) = u.sign(sign_with(&node_kp)) {
					out.push(("invoice", ser(&i), None));
				}
			}
		},
		Flow::Refund { refund: rs, inv, .. } => {
			let Ok(b) = RefundBuilder::new(rs.metadata.clone(), key(c.p_node).1, rs.amount) else { return out };
			let mut b = b.description(rs.description.clone());
			for p in rs.paths.iter() {
				b = b.path(msg_path_of(p));
			}
			if let Some(n) = &rs.payer_note {
				b = b.payer_note(n.clone());
			}
			let Ok(refund) = b.build() else { return out };
			out.push(("refund", ser(&refund), Some(refund.to_string())));
			let paths: Vec<BlindedPaymentPath> = inv.paths.iter().map(pay_path_of).collect();
			let b = refund.respond_with_no_std(paths, PaymentHash(arr::<32>(&inv.payment_hash)), key(c.r_node).1, Duration::from_secs(inv.created_at));
			if let Ok(i) = b.map_err(|_| ()).and_then(|b| apply_inv(b, inv).build().map_err(|_| ())).and_then(|u| u.sign(sign_with(&node_kp)).map_err(|_| ())) {
				out.push(("invoice", ser(&i), None));
			}
		},
		Flow::Static { inv, held } => {
			let paths: Vec<BlindedPaymentPath> = inv.paths.iter().map(pay_path_of).collect();
			let held: Vec<BlindedMessagePath> = held.iter().map(msg_path_of).collect();
			if let Ok(si) = StaticInvoiceBuilder::for_offer_using_derived_keys(&offer, paths, held, Duration::from_secs(inv.created_at), &ek(c.r_ek), nonce(&c.nonce_o), secp).and_then(|b| b.build_and_sign(secp)) {
				out.push(("static_invoice", ser(&si), None));
			}
		},
	}
	out
}

// ------------------------------------------------------------------------------------------
// finding: offer_metadata injected into an offer whose signing key is derived
// ------------------------------------------------------------------------------------------

/// The property: "a valid request built against an altered copy of an offer ... is refused".
/// Alteration here: an `offer_metadata` record (type 4) is added to an offer that was created with
/// `OfferBuilder::deriving_signing_pubkey` + paths (such offers carry no metadata; the nonce travels
/// in the blinded path). The verification HMAC skips record type 4 unconditionally.
pub fn oracle_metadata_injection(c: &Case, ctx: &mut Ctx) -> CaseResult {
	let secp = &pool().secp;
	let r_ek = ek(c.r_ek);
	let Flow::Request { req, .. } = &c.flow else {
		ctx.discard();
		return Ok(());
	};
	let offer = match build_offer(c) {
		Ok(o) => o,
		Err(e) => vfail!("builder-rejects-valid-input", "{}", e),
	};
	vensure!(offer.metadata().is_none(), "setup", "derived-key offer unexpectedly carries metadata");
	let ob = ser(&offer);
	let orecs = rc::tlv_parse(&ob).expect("tlv");
	let injected: Vec<u8> = c.nonce_x.iter().chain(c.nonce_p.iter()).cloned().take(1 + (c.other_ek as usize % 40)).collect();
	let alt = apply_alter(&orecs, &Alter::SetBytes { typ: 4, v: injected.clone() }).expect("applicable");
	let ab = rc::tlv_serialize(&alt);
	let aoffer = match Offer::try_from(ab.clone()) {
		Ok(o) => o,
		Err(e) => vfail!("setup", "offer with injected metadata does not parse: {:?}", e),
	};
	vensure!(aoffer != offer && aoffer.id() != offer.id(), "setup", "alteration did not change the offer");
	// sanity: the untouched offer verifies
	let good = match build_request(&offer, c, req, &ek(c.p_ek)) {
		Ok(r) => r,
		Err(e) => vfail!("builder-rejects-valid-input", "{}", e),
	};
	vensure!(good.verify_using_recipient_data(nonce(&c.nonce_o), &r_ek, secp).is_ok(), "f:originator-recipient-data", "request for the genuine offer does not verify");
	let areq = match build_request(&aoffer, c, req, &ek(c.p_ek)) {
		Ok(r) => r,
		Err(e) => vfail!("setup", "request against altered offer failed: {}", e),
	};
	ctx.nontrivial();
	ctx.label("request built against offer + injected offer_metadata");
	match areq.verify_using_recipient_data(nonce(&c.nonce_o), &r_ek, secp) {
		Err(()) => Ok(()),
		Ok(v) => Err(Failure::new(
			"f:altered-offer-accepted",
			format!(
				"InvoiceRequest::verify_using_recipient_data accepts a request built against an altered copy of the offer: an offer_metadata record ({} bytes) was added; the verified request reports offer id {} while the originator created {}.\n offer:   {}\n altered: {}",
				injected.len(),
				hex(&v.offer_id().0),
				hex(&offer.id().0),
				hex(&ob),
				hex(&ab)
			),
		)
		.with_key("b12/meta/offer-metadata-injection")),
	}
}

pub fn strat_metadata_injection() -> impl Strategy<Value = Case> + Clone + Send + Sync + 'static {
	strat(0, 0).prop_map(|mut c| {
		c.offer.derived = true;
		if c.offer.paths.is_empty() {
			c.offer.paths.push(MsgPath { intro: 3, scid: None, blinding: 4, hops: vec![(5, vec![9; 20])] });
		}
		if let Some(v) = &mut c.offer.expiry {
			if *v < FAR_FUTURE {
				*v = FAR_FUTURE + *v % FAR_FUTURE;
			}
		}
		if !matches!(c.flow, Flow::Request { .. }) {
			c.flow = Flow::Request {
				req: ReqSpec { chain_pick: 0, set_chain: false, amount_extra: Some(5), qty_pick: 1, payer_note: None, payment_id: vec![7; 32] },
				inv: InvSpec { paths: vec![], payment_hash: vec![1; 32], created_at: 0, rel_expiry: None, fallbacks: vec![], mpp: 0 },
			};
		}
		c.structural.clear();
		c.offer_alter.clear();
		c
	})
}

// ------------------------------------------------------------------------------------------
// finding: sub-second parts of expiry / creation times
// ------------------------------------------------------------------------------------------

#[derive(Clone, Debug, Serialize, Deserialize)]
pub struct SubsecCase {
	pub base: Case,
	pub expiry_nanos: u32,
	pub created_nanos: u32,
	/// true: sub-second offer expiry; false: sub-second invoice creation time
	pub offer_side: bool,
}

pub fn strat_subsec() -> impl Strategy<Value = SubsecCase> + Clone + Send + Sync + 'static {
	(strat(0, 0), 1u32..1_000_000_000, 1u32..1_000_000_000, any::<bool>()).prop_map(|(mut base, expiry_nanos, created_nanos, offer_side)| {
		base.offer.derived = false;
		base.offer.metadata = None;
		let e = base.offer.expiry.unwrap_or(FAR_FUTURE);
		base.offer.expiry = Some(if e < FAR_FUTURE { FAR_FUTURE + e % FAR_FUTURE } else { e.min(u64::MAX - 1) });
		base.structural.clear();
		base.offer_alter.clear();
		if !offer_side && !matches!(base.flow, Flow::Request { .. }) {
			base.flow = Flow::Request {
				req: ReqSpec { chain_pick: 0, set_chain: false, amount_extra: Some(5), qty_pick: 1, payer_note: None, payment_id: vec![7; 32] },
				inv: InvSpec { paths: vec![PayPath { path: MsgPath { intro: 1, scid: None, blinding: 2, hops: vec![(3, vec![4; 10])] }, fee_base: 1, fee_prop: 2, cltv: 3, hmin: 4, hmax: 5 }], payment_hash: vec![1; 32], created_at: 1_700_000_000, rel_expiry: None, fallbacks: vec![], mpp: 0 },
			};
		}
		SubsecCase { base, expiry_nanos, created_nanos, offer_side }
	})
}

/// A caller passes `Duration`s taken from a clock (with a sub-second part) to
/// `OfferBuilder::absolute_expiry` and `respond_with_no_std(.., created_at)` - exactly what the
/// `std` convenience wrappers `respond_with` do with `SystemTime::now()`. The object it gets back
/// must expose the same expiry as the object a peer parses from its serialization.
pub fn oracle_subsec(sc: &SubsecCase, ctx: &mut Ctx) -> CaseResult {
	let c = &sc.base;
	let node = key(c.r_node).1;
	let exp = Duration::new(c.offer.expiry.unwrap(), if sc.offer_side { sc.expiry_nanos } else { 0 });
	let mut spec = c.offer.clone();
	spec.expiry = None;
	let offer = match apply_offer(OfferBuilder::new(node).absolute_expiry(exp), &spec) {
		Ok(o) => o,
		Err(e) => vfail!("builder-rejects-valid-input", "{}", e),
	};
	let parsed = match Offer::try_from(ser(&offer)) {
		Ok(o) => o,
		Err(e) => vfail!("a:roundtrip-parse", "{:?}", e),
	};
	ctx.nontrivial();
	vensure!(parsed == offer, "a:roundtrip-eq", "offer != parsed");
	if parsed.absolute_expiry() != offer.absolute_expiry() {
		return Err(Failure::new(
			"a:accessor",
			format!(
				"offer built with absolute_expiry({:?}) exposes {:?}, the offer parsed from its own serialization exposes {:?} (objects compare equal); is_expired_no_std({:?}) = {} vs {}",
				exp,
				offer.absolute_expiry(),
				parsed.absolute_expiry(),
				Duration::new(exp.as_secs(), sc.expiry_nanos / 2),
				offer.is_expired_no_std(Duration::new(exp.as_secs(), sc.expiry_nanos / 2)),
				parsed.is_expired_no_std(Duration::new(exp.as_secs(), sc.expiry_nanos / 2))
			),
		)
		.with_key("b12/subsecond/offer-absolute-expiry"));
	}
	if let (false, Flow::Request { req, inv }) = (sc.offer_side, &c.flow) {
		let request = match build_request(&offer, c, req, &ek(c.p_ek)) {
			Ok(r) => r,
			Err(e) => vfail!("builder-rejects-valid-input", "{}", e),
		};
		let paths: Vec<BlindedPaymentPath> = inv.paths.iter().map(pay_path_of).collect();
		let created = Duration::new(inv.created_at.min(u64::MAX - 1), sc.created_nanos);
		let kp = keypair(c.r_node);
		let invoice = request
			.respond_with_no_std(paths, PaymentHash(arr::<32>(&inv.payment_hash)), created)
			.map_err(|e| format!("{:?}", e))
			.and_then(|b| apply_inv(b, inv).build().map_err(|e| format!("{:?}", e)))
			.and_then(|u| u.sign(sign_with(&kp)).map_err(|e| format!("{:?}", e)));
		let invoice = match invoice {
			Ok(i) => i,
			Err(e) => vfail!("builder-rejects-valid-input", "{}", e),
		};
		let iparsed = match Bolt12Invoice::try_from(ser(&invoice)) {
			Ok(i) => i,
			Err(e) => vfail!("a:roundtrip-parse", "{:?}", e),
		};
		if iparsed.created_at() != invoice.created_at() {
			return Err(Failure::new("a:accessor", format!("invoice built with created_at {:?} exposes {:?}, parsed exposes {:?}", created, invoice.created_at(), iparsed.created_at())).with_key("b12/subsecond/invoice-created-at"));
		}
	}
	Ok(())
}
