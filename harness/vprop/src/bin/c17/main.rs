//! C17 — the network graph holds only authentic, current gossip, whatever the order.
//!
//! Parts
//!  * `model`      one graph driven by a generated script (deliveries of valid / forged / stale /
//!                 conflicting messages through `NetworkGraph::update_*`, `P2PGossipSync::handle_*` and the
//!                 unsigned `NetworkGraph::update_*_unsigned*` entry points,
//!                 permanent failures, pruning at generated times, write->read) and compared with the
//!                 reference interpreter in model.rs after every single operation.
//!  * `confluence` the same message universe delivered in 2-4 generated orders with duplication
//!                 (announcements before their dependants, distinct timestamps) must give equal
//!                 normalized graphs, equal to the reference, and survive serialization.
//!  * `tamper`     every generated single-bit alteration of a signed message that would otherwise be
//!                 accepted must be rejected and leave the graph untouched.
//!  * `rgs`        (thorough tier) a rapid-gossip-sync v1 snapshot produced by the harness's own
//!                 encoder is applied on top of a gossip-built graph.

mod asyncpart;
mod model;
mod rgs;
mod uni;

use lightning::ln::msgs::RoutingMessageHandler;
use lightning::routing::gossip::{NetworkUpdate, P2PGossipSync};
use lightning::util::ser::{LengthReadable, ReadableArgs, Writeable};
use model::Model;
use proptest::prelude::*;
use serde::{Deserialize, Serialize};
use std::collections::{BTreeMap, BTreeSet};
use std::sync::Arc;
use uni::*;
use vcore::*;

// ---------------------------------------------------------------------------------------------
// driving the library
// ---------------------------------------------------------------------------------------------

/// Entry point a message is handed to the library through.
#[derive(Clone, Copy, Debug, PartialEq, Eq)]
pub enum Via {
	/// `NetworkGraph::update_channel_from_announcement / update_channel / update_node_from_announcement`
	Graph,
	/// `P2PGossipSync::handle_*`
	P2p,
	/// `update_channel_from_unsigned_announcement / update_channel_unsigned / update_node_from_unsigned_announcement`:
	/// the API for trusted sources. No signature is checked and nothing is kept for relay; every other rule applies.
	Unsigned,
}
impl Via {
	fn name(&self) -> &'static str {
		match self {
			Via::Graph => "NetworkGraph (signed)",
			Via::P2p => "P2PGossipSync",
			Via::Unsigned => "NetworkGraph (unsigned)",
		}
	}
	fn signed(p2p: bool) -> Via {
		if p2p {
			Via::P2p
		} else {
			Via::Graph
		}
	}
}

/// deliveries / acceptances per [entry point][message kind], over the whole run (evidence note)
static DELIVERIES: [[[std::sync::atomic::AtomicU64; 2]; 3]; 3] = [D_KIND; 3];
const D_ZERO: std::sync::atomic::AtomicU64 = std::sync::atomic::AtomicU64::new(0);
const D_PAIR: [std::sync::atomic::AtomicU64; 2] = [D_ZERO; 2];
const D_KIND: [[std::sync::atomic::AtomicU64; 2]; 3] = [D_PAIR; 3];

pub struct Lib {
	pub g: Arc<Graph>,
	pub lookup: Option<Arc<Lookup>>,
	pub log: Arc<NullLogger>,
}

impl Lib {
	pub fn new(w: &World) -> Lib {
		let log = Arc::new(NullLogger);
		let lookup = if w.uni.lookup { Some(Arc::new(Lookup { answers: w.utxo.clone() })) } else { None };
		Lib { g: Arc::new(Graph::new(bitcoin::Network::Testnet, log.clone())), lookup, log }
	}
	/// Deliver one message with signature verification requested; true = the library accepted it.
	pub fn deliver(&self, m: &Msg, via: Via) -> bool {
		let ok = match via {
			Via::P2p => {
				let sync = P2PGossipSync::new(self.g.clone(), self.lookup.clone(), self.log.clone());
				match m {
					Msg::Ann(a) => sync.handle_channel_announcement(None, a).is_ok(),
					Msg::Upd(u) => sync.handle_channel_update(None, u).is_ok(),
					Msg::Node(n) => sync.handle_node_announcement(None, n).is_ok(),
				}
			},
			Via::Graph => match m {
				Msg::Ann(a) => self.g.update_channel_from_announcement(a, &self.lookup).is_ok(),
				Msg::Upd(u) => self.g.update_channel(u).is_ok(),
				Msg::Node(n) => self.g.update_node_from_announcement(n).is_ok(),
			},
			Via::Unsigned => match m {
				Msg::Ann(a) => self.g.update_channel_from_unsigned_announcement(&a.contents, &self.lookup).is_ok(),
				Msg::Upd(u) => self.g.update_channel_unsigned(&u.contents).is_ok(),
				Msg::Node(n) => self.g.update_node_from_unsigned_announcement(&n.contents).is_ok(),
			},
		};
		let kind = match m {
			Msg::Ann(_) => 0,
			Msg::Upd(_) => 1,
			Msg::Node(_) => 2,
		};
		DELIVERIES[via as usize][kind][0].fetch_add(1, std::sync::atomic::Ordering::Relaxed);
		if ok {
			DELIVERIES[via as usize][kind][1].fetch_add(1, std::sync::atomic::Ordering::Relaxed);
		}
		ok
	}
	/// write -> read; checks `==` and view equality, returns the graph that was read back.
	pub fn roundtrip(&self) -> Result<Graph, Failure> {
		let bytes = self.g.encode();
		let g2 = match Graph::read(&mut &bytes[..], self.log.clone()) {
			Ok(g) => g,
			Err(e) => return Err(Failure::new("serialization", format!("a graph written by the library does not read back: {:?}", e)).with_key("serialization/read-error")),
		};
		if g2 != *self.g {
			return Err(Failure::new("serialization", "graph read from its own serialization is != the original").with_key("serialization/ne"));
		}
		let (a, b) = (lib_view(&self.g), lib_view(&g2));
		if a != b {
			return Err(Failure::new("serialization", format!("view after write->read differs: {}", view_diff(&b, &a))).with_key("serialization/view"));
		}
		Ok(g2)
	}
}

fn model_deliver(model: &mut Model, w: &World, m: &Msg, via: Via) -> model::Verdict {
	match (m, via) {
		(Msg::Ann(a), Via::Unsigned) => model.ann_inner(&a.contents, None, &|scid| w.utxo_answer(scid)),
		(Msg::Upd(u), Via::Unsigned) => model.upd_inner(&u.contents, None),
		(Msg::Node(n), Via::Unsigned) => model.node_inner(&n.contents, None),
		(Msg::Ann(a), _) => model.ann(a, &|scid| w.utxo_answer(scid)),
		(Msg::Upd(u), _) => model.upd(u, via == Via::P2p),
		(Msg::Node(n), _) => model.node(n),
	}
}

/// Variants whose signature(s) do not match their contents: only meaningful where signatures are
/// checked, so they are never handed to the unsigned entry points.
fn is_forged_variant(uni: &Uni, spec: &MsgSpec) -> bool {
	let ann = |v: &AnnVar| matches!(v, AnnVar::BadSig { .. } | AnnVar::Altered { .. });
	match spec {
		MsgSpec::Ann { chan } => ann(&uni.chans[pick(*chan, uni.chans.len())].var),
		MsgSpec::AnnVariant { var, .. } => ann(var),
		MsgSpec::Upd { var, .. } => matches!(var, UpdVar::SignedBy { .. } | UpdVar::Altered { .. }),
		MsgSpec::Node { var, .. } => matches!(var, NodeVar::SignedBy { .. } | NodeVar::Altered { .. }),
	}
}

fn describe(m: &Msg) -> String {
	match m {
		Msg::Ann(a) => format!("channel_announcement scid={} n1={} n2={}", a.contents.short_channel_id, hex(&a.contents.node_id_1.as_slice()[..6]), hex(&a.contents.node_id_2.as_slice()[..6])),
		Msg::Upd(u) => format!(
			"channel_update scid={} dir={} ts={} flags={:#x}/{:#x} htlc_max={}",
			u.contents.short_channel_id,
			u.contents.channel_flags & 1,
			u.contents.timestamp,
			u.contents.message_flags,
			u.contents.channel_flags,
			u.contents.htlc_maximum_msat
		),
		Msg::Node(n) => format!("node_announcement node={} ts={}", hex(&n.contents.node_id.as_slice()[..6]), n.contents.timestamp),
	}
}

fn is_forged(reason: &str) -> bool {
	reason.ends_with("-bad-sig")
}
fn is_not_current(reason: &str) -> bool {
	matches!(reason, "upd-same-timestamp" | "upd-same-timestamp-conflict" | "upd-older" | "node-same-timestamp" | "node-same-timestamp-conflict" | "node-older" | "ann-duplicate")
}

/// One delivery against library and reference; compares the accept/reject verdict.
fn step_deliver(lib: &Lib, model: &mut Model, w: &World, m: &Msg, via: Via, at: &str, seen: &mut BTreeSet<String>) -> Result<bool, Failure> {
	// `verify_channel_update` is documented to tell whether `update_channel` would currently apply the message
	let dry_run = match m {
		Msg::Upd(u) if via == Via::Graph => Some(lib.g.verify_channel_update(u).is_ok()),
		_ => None,
	};
	let lib_ok = lib.deliver(m, via);
	let verdict = model_deliver(model, w, m, via);
	let reason = verdict.err().unwrap_or("accepted");
	seen.insert(match (verdict.is_ok(), m) {
		(true, Msg::Ann(_)) => "acc:ann".to_string(),
		(true, Msg::Upd(_)) => "acc:upd".to_string(),
		(true, Msg::Node(_)) => "acc:node".to_string(),
		(false, _) => format!("rej:{}", reason),
	});
	if via == Via::Unsigned {
		seen.insert(if verdict.is_ok() { "unsigned:accepted".to_string() } else { format!("unsigned:rej:{}", reason) });
	}
	if lib_ok != verdict.is_ok() {
		let what = if lib_ok { "library ACCEPTED a message the reference rejects" } else { "library REJECTED a message the reference accepts" };
		return Err(Failure::new("accept", format!("{}: {} ({}; via {}); reference verdict: {}", at, what, describe(m), via.name(), reason))
			.with_key(format!("accept/{}/{}", reason, if lib_ok { "lib-accepted" } else { "lib-rejected" })));
	}
	if let Some(v) = dry_run {
		if v != lib_ok {
			return Err(Failure::new("accept", format!("{}: verify_channel_update said {} but update_channel then said {} ({})", at, v, lib_ok, describe(m))).with_key("accept/verify-vs-update"));
		}
	}
	Ok(lib_ok)
}

fn compare_views(lib: &Lib, model: &Model, at: &str, what: &str) -> Result<View, Failure> {
	let (lv, mv) = (lib_view(&lib.g), model.view());
	if lv != mv {
		return Err(Failure::new("state", format!("{}: after {} the library graph differs from the reference: {}", at, what, view_diff(&lv, &mv))).with_key("state"));
	}
	check_structure(&lv, at)?;
	Ok(lv)
}

/// Internal consistency of the library's graph on its own: channels and nodes reference each other
/// exactly, and no node is kept without channels.
fn check_structure(v: &View, at: &str) -> CaseResult {
	for (scid, c) in v.chans.iter() {
		for n in [&c.n1, &c.n2] {
			if !v.nodes.get(n).map(|x| x.chans.contains(scid)).unwrap_or(false) {
				return Err(Failure::new("structure", format!("{}: channel {} names node {} which does not list it", at, scid, hex(&n[..6]))).with_key("structure/channel-node"));
			}
		}
	}
	for (id, n) in v.nodes.iter() {
		if n.chans.is_empty() {
			return Err(Failure::new("structure", format!("{}: node {} is kept without channels", at, hex(&id[..6]))).with_key("structure/empty-node"));
		}
		for (i, scid) in n.chans.iter().enumerate() {
			let ok = v.chans.get(scid).map(|c| c.n1 == *id || c.n2 == *id).unwrap_or(false);
			if !ok || (i > 0 && n.chans[i - 1] == *scid) {
				return Err(Failure::new("structure", format!("{}: node {} lists channel {} which is unknown, not its own, or listed twice", at, hex(&id[..6]), scid)).with_key("structure/node-channel"));
			}
		}
	}
	Ok(())
}

/// Reference-free form of "never replaces information with an older or equal timestamp": across the
/// delivery of one channel_update / node_announcement every direction and node record that existed
/// before still exists and is either untouched or carries a strictly larger timestamp.
fn check_currency(before: &View, after: &View, at: &str) -> CaseResult {
	for (scid, b) in before.chans.iter() {
		let Some(a) = after.chans.get(scid) else {
			return Err(Failure::new("currency", format!("{}: channel {} vanished on a message delivery", at, scid)).with_key("currency/channel-vanished"));
		};
		for d in 0..2 {
			if let Some(bd) = &b.dirs[d] {
				let ok = match &a.dirs[d] {
					Some(ad) => ad == bd || ad.last_update > bd.last_update,
					None => false,
				};
				if !ok {
					return Err(Failure::new("currency", format!("{}: channel {} direction {} went from timestamp {} to {:?} with changed content", at, scid, d, bd.last_update, a.dirs[d].as_ref().map(|x| x.last_update)))
						.with_key("currency/direction"));
				}
			}
		}
	}
	for (id, b) in before.nodes.iter() {
		let Some(a) = after.nodes.get(id) else {
			return Err(Failure::new("currency", format!("{}: node {} vanished on a message delivery", at, hex(&id[..6]))).with_key("currency/node-vanished"));
		};
		if let Some(bi) = &b.info {
			let ok = match &a.info {
				Some(ai) => ai == bi || ai.last_update > bi.last_update,
				None => false,
			};
			if !ok {
				return Err(Failure::new("currency", format!("{}: node {} info went from timestamp {} to {:?} with changed content", at, hex(&id[..6]), bi.last_update, a.info.as_ref().map(|x| x.last_update))).with_key("currency/node"));
			}
		}
	}
	Ok(())
}

// ---------------------------------------------------------------------------------------------
// part `model`
// ---------------------------------------------------------------------------------------------

#[derive(Clone, Debug, Serialize, Deserialize)]
pub enum Op {
	/// `unsigned`: through the unsigned (trusted source) entry point, unless the message is a forged variant
	Deliver {
		msg: u16,
		p2p: bool,
		#[serde(default)]
		unsigned: bool,
	},
	FailChan { chan: u16, via_update: bool, permanent: bool },
	FailNode { node: u16, via_update: bool, permanent: bool },
	/// remove_stale_channels_and_tracking_with_time(base + offset(band, frac))
	Prune { band: u8, frac: u16 },
	/// write -> read; `adopt`: continue on the graph that was read back
	Reload { adopt: bool },
	Rgs(rgs::Snapshot),
}

/// Pruning times relative to process start. The library compares them with its own clock readings
/// (announcement receive time: edge at +2 weeks; tombstone age: edge at +1 week), so the bands stay
/// 2 h clear of both edges. Directions are compared with exact message timestamps (no clock involved).
pub fn prune_offset(band: u8, frac: u16) -> i64 {
	let (lo, hi) = match band % 4 {
		0 => (-3 * DAY, WEEK - 2 * HOUR),
		1 => (WEEK + 2 * HOUR, 2 * WEEK - 2 * HOUR),
		2 => (2 * WEEK + 2 * HOUR, 2 * WEEK + 12 * HOUR),
		_ => (2 * WEEK + 12 * HOUR, 60 * DAY),
	};
	lo + ((hi - lo) * frac as i64 >> 16)
}

fn op_strat(with_rgs: bool) -> impl Strategy<Value = Op> + Clone + Send + Sync {
	let rgs_w = if with_rgs { 3 } else { 0 };
	prop_oneof![
		180 => (any::<u16>(), any::<bool>(), prop::bool::weighted(0.25)).prop_map(|(msg, p2p, unsigned)| Op::Deliver { msg, p2p, unsigned }),
		5 => (any::<u16>(), any::<bool>(), prop::bool::weighted(0.8)).prop_map(|(chan, via_update, permanent)| Op::FailChan { chan, via_update, permanent }),
		2 => (any::<u16>(), any::<bool>(), prop::bool::weighted(0.8)).prop_map(|(node, via_update, permanent)| Op::FailNode { node, via_update, permanent }),
		5 => (prop_oneof![6 => Just(0u8), 10 => Just(1u8), 1 => Just(2u8), 1 => Just(3u8)], any::<u16>()).prop_map(|(band, frac)| Op::Prune { band, frac }),
		4 => any::<bool>().prop_map(|adopt| Op::Reload { adopt }),
		rgs_w => rgs::snapshot_strat().prop_map(Op::Rgs),
	]
}

#[derive(Clone, Debug, Serialize, Deserialize)]
struct MCase {
	uni: Uni,
	/// number of leading channel announcements delivered up front (in index order)
	warm: u16,
	ops: Vec<Op>,
}

fn mcase_strat(with_rgs: bool) -> impl Strategy<Value = MCase> + Clone + Send + Sync + 'static {
	(uni_strat(14, 70, true), any::<u16>(), prop::collection::vec(op_strat(with_rgs), 10..200)).prop_map(|(uni, warm, ops)| MCase { uni, warm, ops })
}

fn model_oracle(c: &MCase, ctx: &mut Ctx) -> CaseResult {
	let mut w = World::new(&c.uni);
	let msgs = c.uni.all_msgs();
	let mut lib = Lib::new(&w);
	let mut model = Model::new(c.uni.lookup);
	let mut seen = BTreeSet::new();
	let nch = c.uni.chans.len();
	let mut steps = 0u64;
	let mut applied_updates = 0u32;
	let mut prev = View::default();

	for i in 0..pick(c.warm, nch + 1) {
		let m = w.msg(&msgs, i, None);
		let at = format!("warm-up #{}", i);
		step_deliver(&lib, &mut model, &w, &m, Via::Graph, &at, &mut seen)?;
		prev = compare_views(&lib, &model, &at, "the delivery")?;
		steps += 1;
	}
	for (i, op) in c.ops.iter().enumerate() {
		let at = format!("op #{} {:?}", i, if let Op::Rgs(_) = op { "Rgs(..)".to_string() } else { format!("{:?}", op) });
		match op {
			Op::Deliver { msg, p2p, unsigned } => {
				let idx = pick(*msg, msgs.len());
				let m = w.msg(&msgs, idx, None);
				let via = if *unsigned && !is_forged_variant(&c.uni, &msgs[idx]) { Via::Unsigned } else { Via::signed(*p2p) };
				if step_deliver(&lib, &mut model, &w, &m, via, &at, &mut seen)? && matches!(m, Msg::Upd(_)) {
					applied_updates += 1;
				}
			},
			Op::FailChan { chan, via_update, permanent } => {
				let scid = c.uni.scid(pick(*chan, nch));
				if *via_update {
					lib.g.handle_network_update(&NetworkUpdate::ChannelFailure { short_channel_id: scid, is_permanent: *permanent });
				} else {
					lib.g.channel_failed_permanent(scid);
				}
				if (!*via_update || *permanent) && model.fail_chan(scid) {
					seen.insert("op:chan-failed-removed".into());
				}
			},
			Op::FailNode { node, via_update, permanent } => {
				let n = pick(*node, c.uni.n());
				if *via_update {
					lib.g.handle_network_update(&NetworkUpdate::NodeFailure { node_id: w.node_pk[n], is_permanent: *permanent });
				} else {
					lib.g.node_failed_permanent(&w.node_pk[n]);
				}
				if (!*via_update || *permanent) && model.fail_node(w.node_id[n].as_array()) {
					seen.insert("op:node-failed-removed".into());
				}
			},
			Op::Prune { band, frac } => {
				let off = prune_offset(*band, *frac);
				lib.g.remove_stale_channels_and_tracking_with_time((base() as i64 + off) as u64);
				let (dropped, removed) = model.prune(off);
				if dropped > 0 {
					seen.insert("op:prune-dropped-direction".into());
				}
				if removed > 0 {
					seen.insert("op:prune-removed-channel".into());
				}
				if dropped > 0 && !model.chans.is_empty() {
					seen.insert("op:prune-partial".into());
				}
			},
			Op::Reload { adopt } => {
				let g2 = lib.roundtrip()?;
				seen.insert("op:reload".into());
				if *adopt {
					lib.g = Arc::new(g2);
					model.reloaded();
				}
			},
			Op::Rgs(snap) => {
				rgs::apply(snap, &c.uni, &w, &lib, &mut model, &at, &mut seen)?;
			},
		}
		let now_view = compare_views(&lib, &model, &at, "the operation")?;
		if let Op::Deliver { msg, .. } = op {
			if !matches!(msgs[pick(*msg, msgs.len())], MsgSpec::Ann { .. } | MsgSpec::AnnVariant { .. }) {
				check_currency(&prev, &now_view, &at)?;
			}
		}
		prev = now_view;
		steps += 1;
	}
	lib.roundtrip()?;
	ctx.sub_evaluations(steps);
	let forged = seen.iter().any(|s| s.starts_with("rej:") && is_forged(&s[4..]));
	let stale = seen.iter().any(|s| s.starts_with("rej:") && is_not_current(&s[4..]));
	ctx.nontrivial_if(forged && stale && seen.contains("acc:upd"));
	ctx.label_if(model.replacements > 0, "acc:ann-replacing-known-channel");
	ctx.label_if(model.comebacks > 0, "acc:ann-after-removal-forgotten");
	ctx.label_if(applied_updates >= 5, "depth:5+updates-applied");
	ctx.label_if(applied_updates >= 15, "depth:15+updates-applied");
	for s in seen.iter() {
		ctx.label(s);
	}
	Ok(())
}

// ---------------------------------------------------------------------------------------------
// part `confluence`
// ---------------------------------------------------------------------------------------------

#[derive(Clone, Debug, Serialize, Deserialize)]
struct CCase {
	uni: Uni,
	/// per order and message index: (priority of first copy, priority of second copy, deliver a second copy)
	orders: Vec<Vec<(u16, u16, bool)>>,
	/// per delivery position: through P2PGossipSync (bit set) or NetworkGraph
	route_bits: u64,
	/// per message content (index, or channel for announcements; mod 64): every copy in every order goes through the unsigned entry point
	/// (forged variants excepted). Fixed per message because a signed delivery keeps the message for
	/// relay and an unsigned one cannot, which is visible in the graph.
	#[serde(default)]
	unsigned_bits: u64,
}

fn ccase_strat() -> impl Strategy<Value = CCase> + Clone + Send + Sync + 'static {
	(
		uni_strat(12, 60, false),
		prop::collection::vec(prop::collection::vec((any::<u16>(), any::<u16>(), prop::bool::weighted(0.35)), 72), 2..=4),
		any::<u64>(),
		(any::<u64>(), any::<u64>()).prop_map(|(a, b)| a & b),
	)
		.prop_map(|(uni, orders, route_bits, unsigned_bits)| CCase { uni, orders, route_bits, unsigned_bits })
}

#[derive(Clone, Copy, PartialEq, Eq, PartialOrd, Ord, Debug)]
enum Dep {
	None,
	Chan(usize),
	Node(usize),
}

/// Delivery order for one permutation: sorted by generated priority, with every copy of a dependant
/// postponed until right after the first copy of (one of) the announcement(s) it refers to.
fn build_order(prios: &[(u16, u16, bool)], deps: &[Dep], unlocks: &[Vec<Dep>]) -> Vec<usize> {
	let n = deps.len();
	let mut items: Vec<(u16, usize, u8)> = vec![];
	for i in 0..n {
		let (p1, p2, dup) = prios.get(i).cloned().unwrap_or((i as u16 * 500, 0, false));
		items.push((p1, i, 0));
		if dup {
			items.push((p2, i, 1));
		}
	}
	items.sort();
	let mut open: BTreeSet<Dep> = BTreeSet::new();
	open.insert(Dep::None);
	let mut waiting: BTreeMap<Dep, Vec<usize>> = BTreeMap::new();
	let mut out = vec![];
	fn emit(i: usize, out: &mut Vec<usize>, open: &mut BTreeSet<Dep>, waiting: &mut BTreeMap<Dep, Vec<usize>>, unlocks: &[Vec<Dep>]) {
		out.push(i);
		for d in unlocks[i].iter() {
			if open.insert(*d) {
				for j in waiting.remove(d).unwrap_or_default() {
					emit(j, out, open, waiting, unlocks);
				}
			}
		}
	}
	for (_, i, _) in items {
		if open.contains(&deps[i]) {
			emit(i, &mut out, &mut open, &mut waiting, unlocks);
		} else {
			waiting.entry(deps[i]).or_default().push(i);
		}
	}
	out
}

/// Sensitivity-testing knob: with VERIF_C17_CONFLUENCE_ONLY=1 the confluence part drops its
/// per-delivery comparison with the reference, leaving only "all orders give the same graph".
static CONFLUENCE_ONLY: std::sync::atomic::AtomicBool = std::sync::atomic::AtomicBool::new(false);

fn confluence_oracle(c: &CCase, ctx: &mut Ctx) -> CaseResult {
	let confluence_only = CONFLUENCE_ONLY.load(std::sync::atomic::Ordering::Relaxed);
	let mut w = World::new(&c.uni);
	let msgs = c.uni.all_msgs();
	let n = msgs.len().min(127);
	let nch = c.uni.chans.len();
	// pairwise distinct timestamps, decorrelated from the message index (37 is invertible mod 127)
	let stamp = |i: usize| Some(ts_distinct((i * 37) % 127));

	// what each message depends on / unlocks
	let mut deps = vec![Dep::None; n];
	let mut unlocks: Vec<Vec<Dep>> = vec![vec![]; n];
	let mut chan_of: Vec<Option<usize>> = vec![None; n];
	let mut has_valid_ann = vec![false; nch];
	let mut node_reachable = vec![false; c.uni.n()];
	for i in 0..n {
		let (ch, var) = match &msgs[i] {
			MsgSpec::Ann { chan } => (pick(*chan, nch), c.uni.chans[pick(*chan, nch)].var.clone()),
			MsgSpec::AnnVariant { chan, var } => (pick(*chan, nch), var.clone()),
			_ => continue,
		};
		chan_of[i] = Some(ch);
		if var == AnnVar::Valid {
			has_valid_ann[ch] = true;
			unlocks[i].push(Dep::Chan(ch));
			if !c.uni.lookup || c.uni.chans[ch].utxo == 0 {
				let (a, b) = c.uni.chan_nodes(ch);
				unlocks[i].push(Dep::Node(a));
				unlocks[i].push(Dep::Node(b));
				node_reachable[a] = true;
				node_reachable[b] = true;
			}
		}
	}
	for i in 0..n {
		match &msgs[i] {
			MsgSpec::Upd { chan, .. } => {
				let ch = pick(*chan, nch);
				chan_of[i] = Some(ch);
				if has_valid_ann[ch] {
					deps[i] = Dep::Chan(ch);
				}
			},
			MsgSpec::Node { node, .. } => {
				let x = pick(*node, c.uni.n());
				if node_reachable[x] {
					deps[i] = Dep::Node(x);
				}
			},
			_ => {},
		}
	}

	let mut seen = BTreeSet::new();
	let mut views: Vec<View> = vec![];
	let mut sequences: Vec<Vec<usize>> = vec![];
	let mut steps = 0u64;
	for (k, prios) in c.orders.iter().enumerate() {
		let seq = build_order(prios, &deps, &unlocks);
		let lib = Lib::new(&w);
		let mut model = Model::new(c.uni.lookup);
		for (pos, i) in seq.iter().enumerate() {
			let m = w.msg(&msgs, *i, stamp(*i));
			let mut p2p = (c.route_bits.rotate_left(k as u32 * 7) >> (pos % 64)) & 1 == 1;
			if let Msg::Upd(u) = &m {
				// the two entry points differ (only) on dont_forward updates; such a message keeps one
				// entry point across all orders and copies, otherwise the orders would not deliver "the same"
				if u.contents.message_flags & 2 != 0 {
					p2p = *i % 2 == 0;
				}
			}
			// The choice is tied to the message *content*: all acceptable announcements of one channel are
			// the same message (whatever their index), updates / node announcements are distinct per index.
			let content_id = match chan_of[*i] {
				Some(ch) if matches!(m, Msg::Ann(_)) => 40 + ch,
				_ => *i,
			};
			let via = if (c.unsigned_bits >> (content_id % 64)) & 1 == 1 && !is_forged_variant(&c.uni, &msgs[*i]) { Via::Unsigned } else { Via::signed(p2p) };
			let r = step_deliver(&lib, &mut model, &w, &m, via, &format!("order {} position {} (message #{})", k, pos, i), &mut seen);
			if !confluence_only {
				r?;
			}
			steps += 1;
		}
		if !confluence_only {
			compare_views(&lib, &model, &format!("order {}", k), "all deliveries")?;
		}
		lib.roundtrip()?;
		views.push(lib_view(&lib.g));
		sequences.push(seq);
	}
	for k in 1..views.len() {
		if views[k] != views[0] {
			return Err(Failure::new(
				"confluence",
				format!("orders 0 and {} of the same messages give different graphs: {} (order0={:?} order{}={:?})", k, view_diff(&views[k], &views[0]), sequences[0], k, sequences[k]),
			)
			.with_key("confluence"));
		}
	}
	ctx.sub_evaluations(steps);
	// non-trivial: two messages touching the same channel appear in different relative order
	// (first copies) in orders 0 and 1, and both a forgery and a not-newer message were turned down
	let first_pos = |seq: &Vec<usize>| {
		let mut p = vec![usize::MAX; n];
		for (pos, i) in seq.iter().enumerate() {
			if p[*i] == usize::MAX {
				p[*i] = pos;
			}
		}
		p
	};
	let mut swapped = false;
	if sequences.len() >= 2 {
		let (p0, p1) = (first_pos(&sequences[0]), first_pos(&sequences[1]));
		'outer: for i in 0..n {
			for j in (i + 1)..n {
				if chan_of[i].is_some() && chan_of[i] == chan_of[j] && ((p0[i] < p0[j]) != (p1[i] < p1[j])) {
					swapped = true;
					break 'outer;
				}
			}
		}
	}
	let forged = seen.iter().any(|s| s.starts_with("rej:") && is_forged(&s[4..]));
	let stale = seen.iter().any(|s| matches!(s.as_str(), "rej:upd-older" | "rej:node-older"));
	ctx.nontrivial_if(swapped && forged && stale);
	ctx.label_if(swapped, "same-channel-messages-swapped");
	ctx.label(&format!("orders:{}", c.orders.len()));
	for s in seen.iter() {
		ctx.label(s);
	}
	Ok(())
}

// ---------------------------------------------------------------------------------------------
// part `tamper`
// ---------------------------------------------------------------------------------------------

#[derive(Clone, Debug, Serialize, Deserialize)]
struct TCase {
	key_seed: u32,
	lookup: bool,
	chan: ChanSpec,
	pol: Pol,
	body: NodeBody,
	/// 0 channel_announcement, 1 channel_update, 2 node_announcement
	kind: u8,
	dir: bool,
	/// an older message of the same kind is already in the graph
	prior: bool,
	/// bit positions (mod message length) flipped one at a time
	flips: Vec<u32>,
}

fn tcase_strat() -> impl Strategy<Value = TCase> + Clone + Send + Sync + 'static {
	(any::<u32>(), prop::bool::weighted(0.7), chan_strat(), pol_strat(), body_strat(), 0u8..3, any::<bool>(), any::<bool>(), prop::collection::vec(any::<u32>(), 24..48)).prop_map(
		|(key_seed, lookup, mut chan, mut pol, mut body, kind, dir, prior, flips)| {
			// the untampered message must be acceptable
			chan.var = AnnVar::Valid;
			chan.utxo = 0;
			chan.excess = chan.excess.min(1);
			pol.excess = pol.excess.min(1);
			body.excess = body.excess.min(1);
			body.excess_addr = body.excess_addr.min(1);
			TCase { key_seed, lookup, chan, pol, body, kind, dir, prior, flips }
		},
	)
}

fn wire(m: &Msg) -> Vec<u8> {
	match m {
		Msg::Ann(a) => a.encode(),
		Msg::Upd(u) => u.encode(),
		Msg::Node(n) => n.encode(),
	}
}

fn unwire(kind: u8, mut b: &[u8]) -> Option<Msg> {
	let r = &mut b;
	match kind {
		0 => LengthReadable::read_from_fixed_length_buffer(r).ok().map(Msg::Ann),
		1 => LengthReadable::read_from_fixed_length_buffer(r).ok().map(Msg::Upd),
		_ => LengthReadable::read_from_fixed_length_buffer(r).ok().map(Msg::Node),
	}
}

fn tamper_oracle(c: &TCase, ctx: &mut Ctx) -> CaseResult {
	let uni = Uni { key_seed: c.key_seed, n_nodes: 3, lookup: c.lookup, chans: vec![c.chan.clone()], extra: vec![] };
	let mut w = World::new(&uni);
	let lib = Lib::new(&w);
	let kind = c.kind % 3;
	let ann = Msg::Ann(w.build_ann(0, &AnnVar::Valid));
	let (owner, _) = w.dir_node(0, c.dir);
	let target = match kind {
		0 => ann.clone(),
		1 => Msg::Upd(w.build_upd(0, c.dir, ts(9), &c.pol, &UpdVar::Valid, 1)),
		_ => Msg::Node(w.build_node(owner, ts(9), &c.body, &NodeVar::Valid, 1)),
	};
	if kind != 0 {
		vensure!(lib.deliver(&ann, Via::Graph), "tamper-setup", "valid channel_announcement was rejected");
		if c.prior {
			let older = match kind {
				1 => Msg::Upd(w.build_upd(0, c.dir, ts(2), &c.pol, &UpdVar::Valid, 2)),
				_ => Msg::Node(w.build_node(owner, ts(2), &c.body, &NodeVar::Valid, 2)),
			};
			vensure!(lib.deliver(&older, Via::Graph), "tamper-setup", "valid older message was rejected");
		}
	}
	let before = lib_view(&lib.g);
	let bytes = wire(&target);
	let sig_len = if kind == 0 { 256 } else { 64 };
	let (mut in_sig, mut in_body, mut undecodable) = (0u64, 0u64, 0u64);
	for (k, f) in c.flips.iter().enumerate() {
		let bit = *f as usize % (bytes.len() * 8);
		let mut mutated = bytes.clone();
		mutated[bit / 8] ^= 1 << (bit % 8);
		let Some(m) = unwire(kind, &mutated) else {
			undecodable += 1; // never reaches the graph: the peer handler drops undecodable messages
			continue;
		};
		if wire(&m) == bytes {
			continue; // decodes to the very same message
		}
		if bit / 8 < sig_len {
			in_sig += 1;
		} else {
			in_body += 1;
		}
		let via = Via::signed(k % 2 == 1);
		let accepted = lib.deliver(&m, via);
		let after = lib_view(&lib.g);
		if accepted || after != before {
			return Err(Failure::new(
				"tamper",
				format!(
					"{} with bit {} of byte {} flipped ({} part) was {} via {}; graph {}",
					describe(&target),
					bit % 8,
					bit / 8,
					if bit / 8 < sig_len { "signature" } else { "signed" },
					if accepted { "ACCEPTED" } else { "rejected" },
					via.name(),
					if after != before { format!("changed (lib = after, reference = before the delivery): {}", view_diff(&after, &before)) } else { "unchanged".into() }
				),
			)
			.with_key(format!("tamper/{}/{}", ["ann", "upd", "node"][kind as usize], if bit / 8 < sig_len { "sig" } else { "body" })));
		}
	}
	// the untampered message is what the graph then takes
	vensure!(lib.deliver(&target, Via::Graph), "tamper-setup", "the untampered message was rejected: {}", describe(&target));
	let after = lib_view(&lib.g);
	let landed = match &target {
		Msg::Ann(a) => after.chans.contains_key(&a.contents.short_channel_id),
		Msg::Upd(u) => after.chans.get(&u.contents.short_channel_id).and_then(|ch| ch.dirs[c.dir as usize].as_ref()).map(|d| d.last_update) == Some(ts(9)),
		Msg::Node(n) => after.nodes.get(n.contents.node_id.as_array()).and_then(|x| x.info.as_ref()).map(|i| i.last_update) == Some(ts(9)),
	};
	vensure!(landed, "tamper-setup", "the untampered message was accepted but is not visible");
	ctx.sub_evaluations(in_sig + in_body);
	ctx.nontrivial_if(in_sig > 0 && in_body > 0);
	ctx.label(["kind:ann", "kind:upd", "kind:node"][kind as usize]);
	ctx.label_if(undecodable > 0, "some-flips-undecodable");
	ctx.label_if(c.prior && kind != 0, "older-message-in-place");
	Ok(())
}

// ---------------------------------------------------------------------------------------------

fn main() {
	let mut c = Check::new("C17", "exploration");
	base();
	c.assume("the harness is built with lightning's `_test_utils` feature, which disables the wall-clock staleness/future checks on channel_update timestamps; generated timestamps nevertheless stay inside the window a production build accepts (now-13d .. now+9h)");
	c.assume("times compared with the library's own clock readings (announcement receive time, removal tombstones) keep >= 2 h distance from the 1-week / 2-week edges; a case is assumed to finish within 2 h of process start");
	c.assume("the unsigned entry points (update_channel_from_unsigned_announcement, update_channel_unsigned, update_node_from_unsigned_announcement) are expected to apply every rule of the signed ones except the signature check and keeping the message for relay, as their documentation states; forged variants are never delivered through them");
	c.assume("UTXO lookups answer synchronously in the model / confluence / tamper parts; part async-lookup answers through UtxoFuture (resolved at generated moments, processed when the gossip handler is polled) and checks the authenticity clause on the resulting graph without a reference for the holding rules; gossip queries / back-pressure are not exercised");
	c.assume("signature validity in the reference is decided by an independent secp256k1 verification over sha256d of the re-serialized signed part against the keys named in the message / stored for the channel");
	c.assume("the relay limit for unknown trailing data (1024 bytes: larger messages are applied but not stored) and the 'same scid, other endpoints is re-validated against the chain' rule are taken from the library's documented behaviour, not from BOLT 7");
	c.assume("messages are canonical structs a wire decoder could have produced (must_be_one flag set, unknown address data starting with an unknown descriptor type)");
	let thorough = c.tier() == Tier::Thorough;
	CONFLUENCE_ONLY.store(std::env::var("VERIF_C17_CONFLUENCE_ONLY").map(|v| v == "1").unwrap_or(false), std::sync::atomic::Ordering::Relaxed);
	c.part(
		PartSpec {
			name: "model",
			rule: "universe of 3-15 nodes, 2-14 channels with generated UTXO answers, 4-70 further messages (valid, wrong signer, altered after signing, wrong chain, unknown scid, htlc_max above capacity, equal/older timestamps, second announcement with other endpoints); script of 10-200 operations (deliveries via the signed NetworkGraph::update_* / P2PGossipSync::handle_* entry points and, for a quarter of the not-forged messages, the unsigned NetworkGraph entry points where the same rules minus the signature check are expected; permanent channel/node failures direct and via NetworkUpdate, pruning at generated times, write->read, RGS snapshots in the thorough tier); library compared with the reference interpreter after every operation. Non-trivial: at least one forged message, one not-newer message and one accepted channel_update in the case",
			quick_cases: 14_000,
			thorough_cases: 600_000,
			max_shrink: 1500,
		},
		mcase_strat(thorough),
		model_oracle,
	);
	c.part(
		PartSpec {
			name: "confluence",
			rule: "universe as above without conflicting announcements, all timestamps pairwise distinct; 2-4 delivery orders with duplication, each announcement before its dependants, a quarter of the not-forged messages through the unsigned entry points (fixed per message); final graphs must be equal to each other, equal to the reference and survive write->read. Non-trivial: orders 0 and 1 swap two messages of the same channel and a forgery and an older message were turned down",
			quick_cases: 8_000,
			thorough_cases: 300_000,
			max_shrink: 1500,
		},
		ccase_strat(),
		confluence_oracle,
	);
	c.part(
		PartSpec {
			name: "tamper",
			rule: "one acceptable channel_announcement / channel_update / node_announcement; 24-48 single-bit flips over signature(s) and signed part, each delivered alone: must be rejected and leave the view unchanged; then the original is accepted. Non-trivial: flips hit both the signature and the signed part",
			quick_cases: 16_000,
			thorough_cases: 500_000,
			max_shrink: 2000,
		},
		tcase_strat(),
		tamper_oracle,
	);
	c.part(
		PartSpec {
			name: "async-lookup",
			rule: "universe as in part model with the chain answering asynchronously (UtxoResult::Async) for all or a generated subset of the channels; 10-160 operations: deliveries through P2PGossipSync::handle_* only (valid and forged messages, also while the channel they belong to still awaits its lookup), completion of a pending lookup with the chain's true answer, polls of the gossip handler; after every completion and at the end everything the graph reflects (channel, each direction's policy, node data) must be backed by a delivered message with valid signature(s) against the announced keys carrying exactly that content, a channel also by a chain answer for its announced 2-of-2. Non-trivial: a lookup completed asynchronously after a channel_update for that channel had arrived, and the graph ends with channels",
			quick_cases: 5_000,
			thorough_cases: 150_000,
			max_shrink: 1500,
		},
		asyncpart::acase_strat(),
		asyncpart::async_oracle,
	);
	// deliveries (and acceptances) per entry point and message kind over all parts of this run
	let mut note = serde_json::Map::new();
	let mut line = String::from("  deliveries delivered/accepted:");
	for (r, rn) in ["graph_signed", "p2p", "graph_unsigned"].iter().enumerate() {
		let mut per = serde_json::Map::new();
		let (mut d, mut a) = (0, 0);
		for (k, kn) in ["channel_announcement", "channel_update", "node_announcement"].iter().enumerate() {
			let (dk, ak) = (DELIVERIES[r][k][0].load(std::sync::atomic::Ordering::Relaxed), DELIVERIES[r][k][1].load(std::sync::atomic::Ordering::Relaxed));
			per.insert(kn.to_string(), serde_json::json!({ "delivered": dk, "accepted": ak }));
			d += dk;
			a += ak;
		}
		line += &format!(" {}={}/{}", rn, d, a);
		note.insert(rn.to_string(), serde_json::Value::Object(per));
	}
	c.note("deliveries_per_entry_point", serde_json::Value::Object(note));
	if c.args.replay.is_none() {
		report(&line);
	}
	c.finish();
}
