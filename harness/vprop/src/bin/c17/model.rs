//! Reference interpreter of the gossip acceptance rules (property statement + BOLT 7), written
//! against the message structs only. Signatures are checked by an own call into secp256k1 over the
//! double-SHA256 of the re-serialized signed part and the keys *announced in the message / stored
//! for the channel*. It keeps the same observable state as the library's read-only view plus the
//! removal tombstones, and is compared with the library after every operation.

use crate::uni::*;
use bitcoin::secp256k1::ecdsa::Signature;
use bitcoin::secp256k1::{PublicKey, Secp256k1, VerifyOnly};
use lightning::ln::msgs::{ChannelAnnouncement, ChannelUpdate, NodeAnnouncement};
use lightning::util::ser::Writeable;
use std::collections::{BTreeMap, BTreeSet};

/// The library refuses to relay (and therefore does not keep) messages with more unknown trailing
/// data than this; the parsed fields are still applied.
const MAX_EXCESS_BYTES_FOR_RELAY: usize = 1024;
const MAX_MSAT: u64 = 21_000_000 * 100_000_000 * 1000;
const TWO_WEEKS: u64 = 14 * 24 * 3600;
const ONE_WEEK: u64 = 7 * 24 * 3600;

/// A time stamped by the library from its own clock (`Now`, within minutes after `base()`), or an
/// exact caller-supplied value.
#[derive(Clone, Copy, Debug, PartialEq)]
pub enum Tm {
	Now,
	At(u64),
}

#[derive(Clone, Debug)]
pub struct MChan {
	pub v: VChan,
	pub recv: Tm,
}
#[derive(Clone, Debug, Default)]
pub struct MNode {
	pub chans: BTreeSet<u64>,
	pub info: Option<VNodeInfo>,
}

pub struct Model {
	pub lookup: bool,
	pub chans: BTreeMap<u64, MChan>,
	pub nodes: BTreeMap<[u8; 33], MNode>,
	pub rm_chans: BTreeMap<u64, Tm>,
	pub rm_nodes: BTreeMap<[u8; 33], Tm>,
	secp: Secp256k1<VerifyOnly>,
	pub verifications: u64,
	/// announcements that replaced a known channel (same scid, other endpoints / not yet chain-validated)
	pub replacements: u64,
	/// announcements accepted for an scid or node that had been removed earlier (tombstone expired or lost on reload)
	pub comebacks: u64,
	ever_removed: BTreeSet<u64>,
}

pub type Verdict = Result<(), &'static str>;

impl Model {
	pub fn new(lookup: bool) -> Model {
		Model { lookup, chans: BTreeMap::new(), nodes: BTreeMap::new(), rm_chans: BTreeMap::new(), rm_nodes: BTreeMap::new(), secp: Secp256k1::verification_only(), verifications: 0, replacements: 0, comebacks: 0, ever_removed: BTreeSet::new() }
	}

	pub fn view(&self) -> View {
		View {
			chans: self.chans.iter().map(|(k, c)| (*k, c.v.clone())).collect(),
			nodes: self.nodes.iter().map(|(k, n)| (*k, VNode { chans: n.chans.iter().cloned().collect(), info: n.info.clone() })).collect(),
		}
	}

	fn sig_ok(&mut self, signed_part: &[u8], sig: &Signature, key: &[u8; 33]) -> bool {
		self.verifications += 1;
		match PublicKey::from_slice(key) {
			Ok(pk) => self.secp.verify_ecdsa(&digest(signed_part), sig, &pk).is_ok(),
			Err(_) => false,
		}
	}

	fn unlink(&mut self, scid: u64, n1: &[u8; 33], n2: &[u8; 33]) {
		for n in [n1, n2] {
			if let Some(node) = self.nodes.get_mut(n) {
				node.chans.remove(&scid);
				// "together with nodes left without channels"
				if node.chans.is_empty() {
					self.nodes.remove(n);
				}
			}
		}
	}

	pub fn ann(&mut self, msg: &ChannelAnnouncement, utxo: &dyn Fn(u64) -> UtxoAns) -> Verdict {
		self.ann_inner(&msg.contents, Some(msg), utxo)
	}

	/// `full`: the signed message (signatures verified, message kept for relay); None for the trusted
	/// unsigned entry point, where every other rule applies unchanged and nothing is kept for relay.
	pub fn ann_inner(&mut self, c: &lightning::ln::msgs::UnsignedChannelAnnouncement, full: Option<&ChannelAnnouncement>, utxo: &dyn Fn(u64) -> UtxoAns) -> Verdict {
		let (n1, n2) = (*c.node_id_1.as_array(), *c.node_id_2.as_array());
		// BOLT 7: node_id_1 is the lexicographically lesser of the two
		if n1 >= n2 {
			return Err("ann-unsorted");
		}
		if c.chain_hash != our_chain() {
			return Err("ann-wrong-chain");
		}
		let existing = self.chans.get(&c.short_channel_id).map(|e| (e.v.n1, e.v.n2, e.v.cap));
		if let Some((e1, e2, ecap)) = existing {
			// A known channel is only re-examined when the chain can be consulted and the
			// announcement names other endpoints (or the known entry was never chain-validated).
			if !self.lookup || (ecap.is_some() && (e1, e2) == (n1, n2)) {
				return Err("ann-duplicate");
			}
		}
		if let Some(msg) = full {
			let signed = c.encode();
			let ok = self.sig_ok(&signed, &msg.node_signature_1, &n1)
				& self.sig_ok(&signed, &msg.node_signature_2, &n2)
				& self.sig_ok(&signed, &msg.bitcoin_signature_1, c.bitcoin_key_1.as_array())
				& self.sig_ok(&signed, &msg.bitcoin_signature_2, c.bitcoin_key_2.as_array());
			if !ok {
				return Err("ann-bad-sig");
			}
		}
		if self.rm_chans.contains_key(&c.short_channel_id) || self.rm_nodes.contains_key(&n1) || self.rm_nodes.contains_key(&n2) {
			return Err("ann-removed-recently");
		}
		let mut cap = None;
		if self.lookup {
			match utxo(c.short_channel_id) {
				UtxoAns::Ok(txo) => {
					// BOLT 7: the output must be the P2WSH 2-of-2 of bitcoin_key_1 / bitcoin_key_2 (BOLT 3 order)
					if txo.script_pubkey != funding_spk(c.bitcoin_key_1.as_array(), c.bitcoin_key_2.as_array()) {
						return Err("ann-utxo-wrong-script");
					}
					cap = Some(txo.value.to_sat());
				},
				_ => return Err("ann-utxo-missing"),
			}
		}
		if let Some((e1, e2, _)) = existing {
			self.unlink(c.short_channel_id, &e1, &e2);
			self.replacements += 1;
		}
		if self.ever_removed.contains(&c.short_channel_id) {
			self.comebacks += 1;
		}
		let stored = match full {
			Some(msg) if c.excess_data.len() <= MAX_EXCESS_BYTES_FOR_RELAY => Some(msg.encode()),
			_ => None,
		};
		self.chans.insert(
			c.short_channel_id,
			MChan { v: VChan { n1, n2, cap, features: trim_features(c.features.le_flags()), dirs: [None, None], ann: stored }, recv: Tm::Now },
		);
		for n in [n1, n2] {
			self.nodes.entry(n).or_default().chans.insert(c.short_channel_id);
		}
		Ok(())
	}

	pub fn upd(&mut self, msg: &ChannelUpdate, via_p2p: bool) -> Verdict {
		let u = &msg.contents;
		// the peer-message handler refuses updates marked dont_forward (they belong to unannounced channels)
		if via_p2p && u.message_flags & 2 != 0 {
			return Err("upd-dont-forward");
		}
		self.upd_inner(u, Some(msg))
	}

	/// `full`: the signed message (verified and kept); None for trusted unsigned input (RGS).
	pub fn upd_inner(&mut self, u: &lightning::ln::msgs::UnsignedChannelUpdate, full: Option<&ChannelUpdate>) -> Verdict {
		if u.chain_hash != our_chain() {
			return Err("upd-wrong-chain");
		}
		if u.htlc_maximum_msat > MAX_MSAT {
			return Err("upd-htlc-max-over-total");
		}
		let dir = (u.channel_flags & 1) as usize;
		let Some(ch) = self.chans.get(&u.short_channel_id) else { return Err("upd-unknown-channel") };
		if let Some(cap) = ch.v.cap {
			if u.htlc_maximum_msat > cap * 1000 {
				return Err("upd-htlc-max-over-capacity");
			}
		}
		if let Some(d) = &ch.v.dirs[dir] {
			if d.last_update == u.timestamp {
				// "the first one accepted wins": same timestamp never replaces, whatever the content
				let same = (d.enabled, d.cltv, d.hmin, d.hmax, d.fee_base, d.fee_prop) == (u.channel_flags & 2 == 0, u.cltv_expiry_delta, u.htlc_minimum_msat, u.htlc_maximum_msat, u.fee_base_msat, u.fee_proportional_millionths);
				return Err(if same { "upd-same-timestamp" } else { "upd-same-timestamp-conflict" });
			}
			if d.last_update > u.timestamp {
				return Err("upd-older");
			}
		}
		let signer = if dir == 1 { ch.v.n2 } else { ch.v.n1 };
		if let Some(m) = full {
			if !self.sig_ok(&u.encode(), &m.signature, &signer) {
				return Err("upd-bad-sig");
			}
		}
		let stored = match full {
			Some(m) if u.excess_data.len() <= MAX_EXCESS_BYTES_FOR_RELAY => Some(m.encode()),
			_ => None,
		};
		self.chans.get_mut(&u.short_channel_id).unwrap().v.dirs[dir] = Some(VDir {
			last_update: u.timestamp,
			enabled: u.channel_flags & 2 == 0,
			cltv: u.cltv_expiry_delta,
			hmin: u.htlc_minimum_msat,
			hmax: u.htlc_maximum_msat,
			fee_base: u.fee_base_msat,
			fee_prop: u.fee_proportional_millionths,
			msg: stored,
		});
		Ok(())
	}

	pub fn node(&mut self, msg: &NodeAnnouncement) -> Verdict {
		self.node_inner(&msg.contents, Some(msg))
	}

	/// `full` as for `ann_inner`.
	pub fn node_inner(&mut self, c: &lightning::ln::msgs::UnsignedNodeAnnouncement, full: Option<&NodeAnnouncement>) -> Verdict {
		let id = *c.node_id.as_array();
		// a node is only known through its channels
		let Some(n) = self.nodes.get(&id) else { return Err("node-unknown") };
		if let Some(i) = &n.info {
			if i.last_update == c.timestamp {
				let same = (i.alias, i.rgb, &i.addresses) == (c.alias.0, c.rgb, &encode_addrs(&c.addresses));
				return Err(if same { "node-same-timestamp" } else { "node-same-timestamp-conflict" });
			}
			if i.last_update > c.timestamp {
				return Err("node-older");
			}
		}
		if let Some(msg) = full {
			if !self.sig_ok(&c.encode(), &msg.signature, &id) {
				return Err("node-bad-sig");
			}
		}
		let relay = c.excess_data.len() + c.excess_address_data.len() <= MAX_EXCESS_BYTES_FOR_RELAY;
		self.nodes.get_mut(&id).unwrap().info = Some(VNodeInfo {
			last_update: c.timestamp,
			alias: c.alias.0,
			rgb: c.rgb,
			features: trim_features(c.features.le_flags()),
			addresses: encode_addrs(&c.addresses),
			msg: match full {
				Some(msg) if relay => Some(msg.encode()),
				_ => None,
			},
		});
		Ok(())
	}

	/// Channel reported permanently failed: removed, remembered so that replayed gossip does not re-add it.
	pub fn fail_chan(&mut self, scid: u64) -> bool {
		if let Some(ch) = self.chans.remove(&scid) {
			self.rm_chans.insert(scid, Tm::Now);
			self.ever_removed.insert(scid);
			self.unlink(scid, &ch.v.n1, &ch.v.n2);
			true
		} else {
			false
		}
	}

	/// Node reported permanently failed: the node and all its channels go.
	pub fn fail_node(&mut self, id: &[u8; 33]) -> bool {
		if let Some(n) = self.nodes.remove(id) {
			for scid in n.chans {
				if let Some(ch) = self.chans.remove(&scid) {
					let other = if ch.v.n1 == *id { ch.v.n2 } else { ch.v.n1 };
					self.unlink(scid, &other, &other);
					self.rm_chans.insert(scid, Tm::Now);
					self.ever_removed.insert(scid);
				}
			}
			self.rm_nodes.insert(*id, Tm::Now);
			true
		} else {
			false
		}
	}

	/// Pruning at caller time `t = base() + off`. `off` keeps >= 2 h distance from 1 and 2 weeks (see uni::base).
	/// Returns (directions dropped, channels removed).
	pub fn prune(&mut self, off: i64) -> (usize, usize) {
		let t = (base() as i64 + off) as u64;
		let min = (t - TWO_WEEKS) as u32;
		let mut dropped = 0;
		let mut remove = vec![];
		for (scid, ch) in self.chans.iter_mut() {
			for d in ch.v.dirs.iter_mut() {
				// a direction whose latest update is more than two weeks old has gone stale
				if d.as_ref().map(|x| x.last_update < min).unwrap_or(false) {
					*d = None;
					dropped += 1;
				}
			}
			if ch.v.dirs[0].is_none() || ch.v.dirs[1].is_none() {
				// ...and a channel without current updates in both directions is pruned, unless its
				// announcement itself is younger than two weeks (updates may still be on their way)
				let ann_old = match ch.recv {
					Tm::Now => off > TWO_WEEKS as i64,
					Tm::At(x) => x < min as u64,
				};
				if ann_old {
					remove.push(*scid);
				}
			}
		}
		for scid in remove.iter() {
			let ch = self.chans.remove(scid).unwrap();
			self.unlink(*scid, &ch.v.n1, &ch.v.n2);
			self.rm_chans.insert(*scid, Tm::At(t));
			self.ever_removed.insert(*scid);
		}
		// tombstones are forgotten one week after the removal
		let keep = |tm: &Tm| match tm {
			Tm::Now => off < ONE_WEEK as i64,
			Tm::At(x) => t.saturating_sub(*x) < ONE_WEEK,
		};
		self.rm_chans.retain(|_, tm| keep(tm));
		self.rm_nodes.retain(|_, tm| keep(tm));
		(dropped, remove.len())
	}

	/// The serialized form carries channels and nodes (incl. announcement receive times), not the tombstones.
	pub fn reloaded(&mut self) {
		self.rm_chans.clear();
		self.rm_nodes.clear();
	}

	/// A channel learnt from a (trusted) rapid-gossip-sync snapshot: no signatures, no capacity, no
	/// stored message, receive time given by the snapshot. Duplicates are ignored; tombstones are not consulted.
	pub fn rgs_chan(&mut self, scid: u64, n1: [u8; 33], n2: [u8; 33], features: Vec<u8>, recv: u64) -> Verdict {
		if n1 >= n2 {
			return Err("rgs-unsorted");
		}
		if self.chans.contains_key(&scid) {
			return Err("rgs-duplicate");
		}
		self.chans.insert(scid, MChan { v: VChan { n1, n2, cap: None, features, dirs: [None, None], ann: None }, recv: Tm::At(recv) });
		for n in [n1, n2] {
			self.nodes.entry(n).or_default().chans.insert(scid);
		}
		Ok(())
	}
}
