//! Rapid-gossip-sync v1 snapshots produced by an own encoder (format: lightning-rapid-gossip-sync
//! lib.rs / processing.rs docs) from a delta over the universe, applied to library and reference.
//! The snapshot source is trusted (no signatures), but its data still goes through the "newer
//! timestamp wins" and htlc_maximum rules, with every timestamp backdated by one week.

use crate::model::Model;
use crate::uni::*;
use crate::Lib;
use lightning::ln::msgs::UnsignedChannelUpdate;
use lightning_rapid_gossip_sync::RapidGossipSync;
use proptest::prelude::*;
use serde::{Deserialize, Serialize};
use std::collections::BTreeSet;
use vcore::*;

#[derive(Clone, Debug, Serialize, Deserialize)]
pub struct RAnn {
	pub chan: u16,
	/// a channel the gossip universe does not contain (own scid, generated endpoints)
	pub fresh: Option<(u16, u16)>,
	pub feat: u8,
}

#[derive(Clone, Debug, Serialize, Deserialize)]
pub struct RUpd {
	pub chan: u16,
	pub fresh: bool,
	pub dir: bool,
	pub disabled: bool,
	/// start from the stored direction (skip when there is none) instead of the snapshot defaults
	pub incremental: bool,
	/// which of cltv / htlc_min / fee_base / fee_prop / htlc_max are given explicitly (bits 4..0)
	pub fields: u8,
	pub pol: Pol,
}

#[derive(Clone, Debug, Serialize, Deserialize)]
pub struct Snapshot {
	/// latest_seen_timestamp = base - 6d + frac * 7d
	pub latest_frac: u16,
	pub anns: Vec<RAnn>,
	pub upds: Vec<RUpd>,
	pub defaults: Pol,
	/// current time handed to the library (pruning afterwards), as a prune band/frac; None = no time
	pub now: Option<(u8, u16)>,
}

pub fn snapshot_strat() -> impl Strategy<Value = Snapshot> + Clone + Send + Sync {
	let rann = (any::<u16>(), prop::option::weighted(0.3, (any::<u16>(), any::<u16>())), 0u8..4).prop_map(|(chan, fresh, feat)| RAnn { chan, fresh, feat });
	let rupd = (any::<u16>(), prop::bool::weighted(0.2), any::<bool>(), any::<bool>(), any::<bool>(), 0u8..32, pol_strat())
		.prop_map(|(chan, fresh, dir, disabled, incremental, fields, pol)| RUpd { chan, fresh, dir, disabled, incremental, fields, pol });
	(
		any::<u16>(),
		prop::collection::vec(rann, 0..6),
		prop::collection::vec(rupd, 0..10),
		pol_strat(),
		prop::option::weighted(0.5, (prop_oneof![4 => Just(0u8), 4 => Just(1u8), 1 => Just(2u8)], any::<u16>())),
	)
		.prop_map(|(latest_frac, anns, upds, defaults, now)| Snapshot { latest_frac, anns, upds, defaults, now })
}

fn bigsize(x: u64, out: &mut Vec<u8>) {
	if x < 0xfd {
		out.push(x as u8);
	} else if x <= 0xffff {
		out.push(0xfd);
		out.extend_from_slice(&(x as u16).to_be_bytes());
	} else if x <= 0xffff_ffff {
		out.push(0xfe);
		out.extend_from_slice(&(x as u32).to_be_bytes());
	} else {
		out.push(0xff);
		out.extend_from_slice(&x.to_be_bytes());
	}
}

fn fresh_scid(uni: &Uni, c: usize) -> u64 {
	uni.scid(c) | (1 << 22)
}

/// msat value of a policy's htlc_maximum relative to a nominal capacity
fn hmax_of(pol: &Pol, cap_sat: u64) -> u64 {
	((cap_sat as u128 * 1000 * (pol.hmax_frac as u128 + 1)) >> 16) as u64
}

pub fn apply(s: &Snapshot, uni: &Uni, w: &World, lib: &Lib, model: &mut Model, at: &str, seen: &mut BTreeSet<String>) -> CaseResult {
	let nch = uni.chans.len();
	let latest = (base() as i64 - 6 * DAY + ((7 * DAY * s.latest_frac as i64) >> 16)) as u32;
	let backdated = latest.saturating_sub(7 * 24 * 3600);
	let now = s.now.map(|(band, frac)| crate::prune_offset(band, frac));

	// --- resolve the delta --------------------------------------------------------------------
	// announcements: (scid, node idx 1, node idx 2, feature bytes le), ascending scid
	let mut anns: Vec<(u64, usize, usize, Vec<u8>)> = s
		.anns
		.iter()
		.map(|a| {
			let c = pick(a.chan, nch);
			let (scid, (x, y)) = match a.fresh {
				Some((p, q)) => (fresh_scid(uni, c), two_distinct(p, q, uni.n())),
				None => (uni.scid(c), uni.chan_nodes(c)),
			};
			let (n1, n2) = if w.node_id[x] < w.node_id[y] { (x, y) } else { (y, x) };
			let feat = match a.feat % 4 {
				0 => vec![],
				1 => vec![0x02],
				2 => vec![0x00, 0x80],
				_ => vec![0x0a, 0x00, 0x21],
			};
			(scid, n1, n2, feat)
		})
		.collect();
	anns.sort();
	let mut upds: Vec<(u64, &RUpd, usize)> = s
		.upds
		.iter()
		.map(|u| {
			let c = pick(u.chan, nch);
			(if u.fresh { fresh_scid(uni, c) } else { uni.scid(c) }, u, c)
		})
		.collect();
	upds.sort_by_key(|x| x.0); // stable: same-scid entries keep their generated order

	// --- encode (v1) --------------------------------------------------------------------------
	let mut b: Vec<u8> = vec![76, 68, 75, 1];
	b.extend_from_slice(&our_chain().to_bytes());
	b.extend_from_slice(&latest.to_be_bytes());
	b.extend_from_slice(&(uni.n() as u32).to_be_bytes());
	for id in w.node_id.iter() {
		b.extend_from_slice(id.as_slice());
	}
	b.extend_from_slice(&(anns.len() as u32).to_be_bytes());
	let mut prev = 0u64;
	for (scid, n1, n2, feat) in anns.iter() {
		b.extend_from_slice(&(feat.len() as u16).to_be_bytes());
		b.extend(feat.iter().rev());
		bigsize(scid - prev, &mut b);
		prev = *scid;
		bigsize(*n1 as u64, &mut b);
		bigsize(*n2 as u64, &mut b);
	}
	b.extend_from_slice(&(upds.len() as u32).to_be_bytes());
	let nominal_cap = 1_000_000u64;
	let d_hmax = hmax_of(&s.defaults, nominal_cap);
	if !upds.is_empty() {
		b.extend_from_slice(&s.defaults.cltv.to_be_bytes());
		b.extend_from_slice(&s.defaults.hmin.to_be_bytes());
		b.extend_from_slice(&s.defaults.fee_base.to_be_bytes());
		b.extend_from_slice(&s.defaults.fee_prop.to_be_bytes());
		b.extend_from_slice(&d_hmax.to_be_bytes());
	}
	prev = 0;
	for (scid, u, c) in upds.iter() {
		bigsize(scid - prev, &mut b);
		prev = *scid;
		let flags = (u.dir as u8) | ((u.disabled as u8) << 1) | ((u.fields & 0x1f) << 2) | ((u.incremental as u8) << 7);
		b.push(flags);
		if flags & 0x40 != 0 {
			b.extend_from_slice(&u.pol.cltv.to_be_bytes());
		}
		if flags & 0x20 != 0 {
			b.extend_from_slice(&u.pol.hmin.to_be_bytes());
		}
		if flags & 0x10 != 0 {
			b.extend_from_slice(&u.pol.fee_base.to_be_bytes());
		}
		if flags & 0x08 != 0 {
			b.extend_from_slice(&u.pol.fee_prop.to_be_bytes());
		}
		if flags & 0x04 != 0 {
			b.extend_from_slice(&hmax_of(&u.pol, uni.chans[*c].cap_sat).to_be_bytes());
		}
	}

	// --- library --------------------------------------------------------------------------------
	let sync = RapidGossipSync::new(lib.g.clone(), lib.log.clone());
	let res = sync.update_network_graph_no_std(&b, now.map(|off| (base() as i64 + off) as u64));

	// --- reference ------------------------------------------------------------------------------
	let too_old = match now {
		Some(off) => (latest as u64) < ((base() as i64 + off) as u64).saturating_sub(14 * 24 * 3600),
		None => false,
	};
	if too_old {
		seen.insert("rgs:refused-too-old".into());
	} else {
		for (scid, n1, n2, feat) in anns.iter() {
			match model.rgs_chan(*scid, *w.node_id[*n1].as_array(), *w.node_id[*n2].as_array(), feat.clone(), backdated as u64) {
				Ok(()) => {
					seen.insert("rgs:channel-added".into());
				},
				Err(_) => {
					seen.insert("rgs:channel-known".into());
				},
			}
		}
		for (scid, u, c) in upds.iter() {
			let mut syn = UnsignedChannelUpdate {
				chain_hash: our_chain(),
				short_channel_id: *scid,
				timestamp: backdated,
				message_flags: 1,
				channel_flags: (u.dir as u8) | ((u.disabled as u8) << 1),
				cltv_expiry_delta: s.defaults.cltv,
				htlc_minimum_msat: s.defaults.hmin,
				htlc_maximum_msat: d_hmax,
				fee_base_msat: s.defaults.fee_base,
				fee_proportional_millionths: s.defaults.fee_prop,
				excess_data: vec![],
			};
			if u.incremental {
				match model.chans.get(scid).and_then(|ch| ch.v.dirs[u.dir as usize].as_ref()) {
					Some(d) => {
						syn.cltv_expiry_delta = d.cltv;
						syn.htlc_minimum_msat = d.hmin;
						syn.htlc_maximum_msat = d.hmax;
						syn.fee_base_msat = d.fee_base;
						syn.fee_proportional_millionths = d.fee_prop;
					},
					None => {
						seen.insert("rgs:incremental-without-base-skipped".into());
						continue;
					},
				}
			}
			let f = u.fields & 0x1f;
			if f & 0x10 != 0 {
				syn.cltv_expiry_delta = u.pol.cltv;
			}
			if f & 0x08 != 0 {
				syn.htlc_minimum_msat = u.pol.hmin;
			}
			if f & 0x04 != 0 {
				syn.fee_base_msat = u.pol.fee_base;
			}
			if f & 0x02 != 0 {
				syn.fee_proportional_millionths = u.pol.fee_prop;
			}
			if f & 0x01 != 0 {
				syn.htlc_maximum_msat = hmax_of(&u.pol, uni.chans[*c].cap_sat);
			}
			match model.upd_inner(&syn, None) {
				Ok(()) => {
					seen.insert("rgs:update-applied".into());
				},
				Err(r) => {
					// in particular: a gossip update newer than the backdated snapshot is not overwritten
					seen.insert(format!("rgs:update-ignored:{}", r));
				},
			}
		}
		// Library quirk (not part of the property): a snapshot without any update entry returns right
		// after the announcements; neither the sync timestamp is recorded nor the pruning run.
		if let (Some(off), false) = (now, upds.is_empty()) {
			model.prune(off);
		}
	}
	if res.is_ok() == too_old {
		return Err(Failure::new("rgs", format!("{}: snapshot with latest_seen={} now={:?}: library returned {:?}, reference expects {}", at, latest, now, res.as_ref().map_err(|_| "Err"), if too_old { "refusal (older than two weeks)" } else { "success" }))
			.with_key("rgs/result"));
	}
	if !too_old && !upds.is_empty() && lib.g.get_last_rapid_gossip_sync_timestamp() != Some(latest) {
		return Err(Failure::new("rgs", format!("{}: last_rapid_gossip_sync_timestamp is {:?}, expected {}", at, lib.g.get_last_rapid_gossip_sync_timestamp(), latest)).with_key("rgs/last-sync-timestamp"));
	}
	Ok(())
}
