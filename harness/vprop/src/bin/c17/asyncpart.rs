//! `async-lookup` part: the chain is consulted asynchronously (`UtxoResult::Async`), so that channel
//! announcements wait for their lookup while updates and node announcements for them keep arriving and are held
//! by the library until the lookup resolves.
//!
//! No reference interpreter is kept for the holding rules; the oracle is the authenticity clause itself, evaluated
//! on the graph after every resolution and at the end: with only signed entry points in use, everything the graph
//! reflects must be backed by a message whose signature(s) verify (independent secp256k1 verification) against the
//! announced keys — for a channel additionally by a chain answer naming the announced 2-of-2 — and must carry that
//! message's content.
use crate::uni::*;
use bitcoin::secp256k1::ecdsa::Signature;
use bitcoin::secp256k1::{PublicKey, Secp256k1};
use lightning::ln::msgs::{BaseMessageHandler, ChannelAnnouncement, ChannelUpdate, NodeAnnouncement, RoutingMessageHandler};
use lightning::routing::gossip::P2PGossipSync;
use lightning::routing::utxo::{UtxoFuture, UtxoLookup, UtxoLookupError, UtxoResult};
use lightning::util::ser::{LengthReadable, Writeable};
use lightning::util::wakers::Notifier;
use proptest::prelude::*;
use serde::{Deserialize, Serialize};
use std::collections::HashMap;
use std::sync::{Arc, Mutex};
use vcore::*;

pub struct AsyncLookup {
	pub answers: HashMap<u64, UtxoAns>,
	/// scids answered synchronously (bit = scid mod 16)
	pub sync_mask: u16,
	pub pending: Mutex<Vec<(u64, UtxoFuture)>>,
	pub asked: Mutex<u64>,
}

fn answer_of(a: Option<&UtxoAns>) -> Result<bitcoin::TxOut, UtxoLookupError> {
	match a {
		Some(UtxoAns::Ok(o)) => Ok(o.clone()),
		Some(UtxoAns::UnknownChain) => Err(UtxoLookupError::UnknownChain),
		_ => Err(UtxoLookupError::UnknownTx),
	}
}

impl UtxoLookup for AsyncLookup {
	fn get_utxo(&self, chain_hash: &bitcoin::constants::ChainHash, scid: u64, notifier: Arc<Notifier>) -> UtxoResult {
		*self.asked.lock().unwrap() += 1;
		if *chain_hash != our_chain() {
			return UtxoResult::Sync(Err(UtxoLookupError::UnknownChain));
		}
		if self.sync_mask & (1 << (scid % 16)) != 0 {
			return UtxoResult::Sync(answer_of(self.answers.get(&scid)));
		}
		let f = UtxoFuture::new(notifier);
		self.pending.lock().unwrap().push((scid, f.clone()));
		UtxoResult::Async(f)
	}
}

#[derive(Clone, Debug, Serialize, Deserialize)]
pub enum AOp {
	Deliver { idx: u16 },
	/// the `which`-th oldest pending lookup completes with the chain's true answer
	Resolve { which: u16 },
	/// the peer handler polls the gossip handler (this is when completed lookups are processed)
	Poll,
}

#[derive(Clone, Debug, Serialize, Deserialize)]
pub struct ACase {
	pub uni: Uni,
	pub sync_mask: u16,
	pub ops: Vec<AOp>,
}

pub fn acase_strat() -> impl Strategy<Value = ACase> + Clone + Send + Sync + 'static {
	(
		uni_strat(10, 60, true),
		prop_oneof![Just(0u16), any::<u16>()],
		prop::collection::vec(prop_oneof![12 => any::<u16>().prop_map(|idx| AOp::Deliver { idx }), 3 => any::<u16>().prop_map(|which| AOp::Resolve { which }), 1 => Just(AOp::Poll)], 10..160),
	)
		.prop_map(|(mut uni, sync_mask, ops)| {
			uni.lookup = true;
			ACase { uni, sync_mask, ops }
		})
}

fn sig_ok(secp: &Secp256k1<bitcoin::secp256k1::All>, signed_part: &[u8], sig: &Signature, key: &[u8; 33]) -> bool {
	match PublicKey::from_slice(key) {
		Ok(pk) => secp.verify_ecdsa(&digest(signed_part), sig, &pk).is_ok(),
		Err(_) => false,
	}
}

fn bad(what: &str, detail: String) -> Failure {
	Failure::new("authenticity", detail).with_key(format!("async/{}", what))
}

/// Everything in the view is backed by an authentic message.
fn check_view(v: &View, w: &World, delivered: &[Msg], at: &str) -> CaseResult {
	let secp = &w.secp;
	for (scid, c) in v.chans.iter() {
		// the announcement: the stored one, or (not stored when its trailing data is too large to relay) a
		// delivered one for this scid and these endpoints
		let stored: Option<ChannelAnnouncement> = c.ann.as_ref().and_then(|b| ChannelAnnouncement::read_from_fixed_length_buffer(&mut &b[..]).ok());
		let cands: Vec<ChannelAnnouncement> = match stored {
			Some(a) => vec![a],
			None => delivered.iter().filter_map(|m| if let Msg::Ann(a) = m { Some(a.clone()) } else { None }).filter(|a| a.contents.short_channel_id == *scid).collect(),
		};
		let authentic = cands.iter().any(|a| {
			let k = &a.contents;
			let signed = k.encode();
			*k.node_id_1.as_array() == c.n1
				&& *k.node_id_2.as_array() == c.n2
				&& sig_ok(secp, &signed, &a.node_signature_1, k.node_id_1.as_array())
				&& sig_ok(secp, &signed, &a.node_signature_2, k.node_id_2.as_array())
				&& sig_ok(secp, &signed, &a.bitcoin_signature_1, k.bitcoin_key_1.as_array())
				&& sig_ok(secp, &signed, &a.bitcoin_signature_2, k.bitcoin_key_2.as_array())
				&& match w.utxo_answer(*scid) {
					UtxoAns::Ok(txo) => txo.script_pubkey == funding_spk(k.bitcoin_key_1.as_array(), k.bitcoin_key_2.as_array()) && c.cap == Some(txo.value.to_sat()),
					_ => false,
				}
		});
		if !authentic {
			return Err(bad("channel", format!("{}: the graph holds channel {} ({} <-> {}, capacity {:?}) but no delivered channel_announcement for it has four valid signatures and a chain answer paying to its 2-of-2", at, scid, hex(&c.n1[..4]), hex(&c.n2[..4]), c.cap)));
		}
		for (di, d) in c.dirs.iter().enumerate() {
			let Some(d) = d else { continue };
			let key = if di == 0 { &c.n1 } else { &c.n2 };
			let stored: Option<ChannelUpdate> = d.msg.as_ref().and_then(|b| ChannelUpdate::read_from_fixed_length_buffer(&mut &b[..]).ok());
			let cands: Vec<ChannelUpdate> = match stored {
				Some(u) => vec![u],
				None => delivered.iter().filter_map(|m| if let Msg::Upd(u) = m { Some(u.clone()) } else { None }).filter(|u| u.contents.short_channel_id == *scid && (u.contents.channel_flags & 1) as usize == di).collect(),
			};
			let authentic = cands.iter().any(|u| {
				let k = &u.contents;
				k.timestamp == d.last_update
					&& (k.channel_flags & 2 == 0) == d.enabled
					&& k.cltv_expiry_delta == d.cltv
					&& k.htlc_minimum_msat == d.hmin
					&& k.htlc_maximum_msat == d.hmax
					&& k.fee_base_msat == d.fee_base
					&& k.fee_proportional_millionths == d.fee_prop
					&& sig_ok(secp, &k.encode(), &u.signature, key)
			});
			if !authentic {
				return Err(bad(
					"channel-update",
					format!("{}: direction {} of channel {} carries a policy (timestamp {}, fee {}/{}, cltv {}, htlc {}..{}, enabled {}; relayable message stored: {}) that no delivered channel_update signed by {} has", at, di, scid, d.last_update, d.fee_base, d.fee_prop, d.cltv, d.hmin, d.hmax, d.enabled, d.msg.is_some(), hex(&key[..4])),
				));
			}
		}
	}
	for (id, n) in v.nodes.iter() {
		let Some(info) = &n.info else { continue };
		let stored: Option<NodeAnnouncement> = info.msg.as_ref().and_then(|b| NodeAnnouncement::read_from_fixed_length_buffer(&mut &b[..]).ok());
		let cands: Vec<NodeAnnouncement> = match stored {
			Some(a) => vec![a],
			None => delivered.iter().filter_map(|m| if let Msg::Node(a) = m { Some(a.clone()) } else { None }).filter(|a| a.contents.node_id.as_array() == id).collect(),
		};
		let authentic = cands.iter().any(|a| {
			let k = &a.contents;
			k.node_id.as_array() == id && k.timestamp == info.last_update && k.alias.0 == info.alias && k.rgb == info.rgb && encode_addrs(&k.addresses) == info.addresses && sig_ok(secp, &k.encode(), &a.signature, id)
		});
		if !authentic {
			return Err(bad("node-announcement", format!("{}: node {} carries announcement data (timestamp {}) that no delivered node_announcement signed by that node has", at, hex(&id[..4]), info.last_update)));
		}
	}
	Ok(())
}

pub fn async_oracle(c: &ACase, ctx: &mut Ctx) -> CaseResult {
	let mut w = World::new(&c.uni);
	let msgs = c.uni.all_msgs();
	let log = Arc::new(NullLogger);
	let g = Arc::new(Graph::new(bitcoin::Network::Testnet, log.clone()));
	let lookup = Arc::new(AsyncLookup { answers: w.utxo.clone(), sync_mask: c.sync_mask, pending: Mutex::new(vec![]), asked: Mutex::new(0) });
	let sync = P2PGossipSync::new(g.clone(), Some(lookup.clone()), log.clone());
	let mut delivered: Vec<Msg> = vec![];
	let (mut resolved, mut held_while_pending, mut forged_while_pending, mut accepted) = (0u64, 0u64, 0u64, 0u64);
	let mut pending_scids: Vec<u64> = vec![];
	let resolve = |which: usize, pending_scids: &mut Vec<u64>| {
		let (scid, f) = {
			let mut p = lookup.pending.lock().unwrap();
			if p.is_empty() {
				return false;
			}
			let i = which % p.len();
			p.remove(i)
		};
		f.resolve(answer_of(lookup.answers.get(&scid)));
		pending_scids.retain(|s| *s != scid);
		true
	};
	for (oi, op) in c.ops.iter().enumerate() {
		match op {
			AOp::Deliver { idx } => {
				let i = pick(*idx, msgs.len());
				let m = w.msg(&msgs, i, None);
				let ok = match &m {
					Msg::Ann(a) => sync.handle_channel_announcement(None, a).is_ok(),
					Msg::Upd(u) => sync.handle_channel_update(None, u).is_ok(),
					Msg::Node(n) => sync.handle_node_announcement(None, n).is_ok(),
				};
				if ok {
					accepted += 1;
				}
				pending_scids = lookup.pending.lock().unwrap().iter().map(|(s, _)| *s).collect();
				if let Msg::Upd(u) = &m {
					if pending_scids.contains(&u.contents.short_channel_id) {
						held_while_pending += 1;
						let (c_i, dir) = (c.uni.chans.iter().position(|_| true), u.contents.channel_flags & 1);
						let _ = (c_i, dir);
						// is it one of the forged variants? (its signature does not verify against either endpoint)
						let signed = u.contents.encode();
						let any_ok = w.node_pk.iter().any(|pk| sig_ok(&w.secp, &signed, &u.signature, &pk.serialize()));
						if !any_ok {
							forged_while_pending += 1;
						}
					}
				}
				delivered.push(m);
			},
			AOp::Resolve { which } => {
				if resolve(*which as usize, &mut pending_scids) {
					resolved += 1;
					let _ = sync.get_and_clear_pending_msg_events();
					check_view(&lib_view(&g), &w, &delivered, &format!("after resolving a lookup (op {})", oi))?;
				}
			},
			AOp::Poll => {
				let _ = sync.get_and_clear_pending_msg_events();
			},
		}
	}
	// every lookup completes in the end
	while resolve(0, &mut pending_scids) {
		resolved += 1;
		let _ = sync.get_and_clear_pending_msg_events();
	}
	let _ = sync.get_and_clear_pending_msg_events();
	let v = lib_view(&g);
	check_view(&v, &w, &delivered, "at the end")?;
	ctx.label_if(resolved > 0, "lookup-resolved-asynchronously");
	ctx.label_if(held_while_pending > 0, "channel_update-arrived-while-its-channel-awaited-the-chain");
	ctx.label_if(forged_while_pending > 0, "forged-update-arrived-while-its-channel-awaited-the-chain");
	ctx.label_if(!v.chans.is_empty(), "graph-has-channels");
	ctx.label_if(v.chans.values().any(|c| c.dirs.iter().any(|d| d.is_some())), "graph-has-policies");
	ctx.sub_evaluations(resolved + 1);
	ctx.nontrivial_if(resolved > 0 && held_while_pending > 0 && !v.chans.is_empty());
	ctx.summary(serde_json::json!({"channels": c.uni.chans.len(), "ops": c.ops.len(), "lookups_resolved": resolved, "updates_while_pending": held_while_pending, "forged_updates_while_pending": forged_while_pending, "accepted_at_once": accepted, "channels_in_graph": v.chans.len()}));
	Ok(())
}
