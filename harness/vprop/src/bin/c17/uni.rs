//! The generated gossip *universe*: node keys, channels with their UTXO-lookup answers, and
//! message specifications (valid and forged variants) that are turned into signed LDK message
//! structs on demand. Everything here is a pure function of the (serializable) specs plus the
//! process-start time `base()`; see `ts()` for how wall-clock sensitivity is avoided.

use bitcoin::constants::ChainHash;
use bitcoin::hashes::{sha256, sha256d, Hash};
use bitcoin::script::Builder;
use bitcoin::secp256k1::ecdsa::Signature;
use bitcoin::secp256k1::{All, Message, PublicKey, Secp256k1, SecretKey};
use bitcoin::{opcodes, Amount, Network, ScriptBuf, TxOut};
use lightning::ln::msgs::{
	ChannelAnnouncement, ChannelUpdate, NodeAnnouncement, SocketAddress, UnsignedChannelAnnouncement,
	UnsignedChannelUpdate, UnsignedNodeAnnouncement,
};
use lightning::routing::gossip::{NetworkGraph, NodeAlias, NodeId};
use lightning::routing::utxo::{UtxoLookup, UtxoLookupError, UtxoResult};
use lightning::types::features::{ChannelFeatures, NodeFeatures};
use lightning::util::logger::{Logger, Record};
use lightning::util::ser::{Hostname, Writeable};
use lightning::util::wakers::Notifier;
use proptest::prelude::*;
use serde::{Deserialize, Serialize};
use std::collections::{BTreeMap, HashMap};
use std::sync::{Arc, OnceLock};
use vcore::pick;

pub const HOUR: i64 = 3600;
pub const DAY: i64 = 24 * HOUR;
pub const WEEK: i64 = 7 * DAY;

static BASE: OnceLock<u64> = OnceLock::new();
/// Process start time (unix seconds), read once. The library stamps wall-clock "now" on accepted
/// announcements and on removal tombstones; every generated time that is compared against such a
/// stamp keeps >= 2 h distance from the decision edge, so the verdict of a case is the same in
/// every process (replays included) although `base()` differs between processes.
pub fn base() -> u64 {
	*BASE.get_or_init(|| std::time::SystemTime::now().duration_since(std::time::UNIX_EPOCH).unwrap().as_secs())
}
/// Update / node-announcement timestamps: 17 coarse slots inside (now-13d, now+9h], i.e. inside the
/// window a production (non-`_test_utils`) build accepts as neither stale nor from the future.
pub fn ts(slot: u8) -> u32 {
	(base() as i64 - 13 * DAY + HOUR + (slot.min(16) as i64) * 20 * HOUR + (slot as i64 * 977) % 3571) as u32
}
/// Pairwise distinct timestamps (used by the confluence part), same window.
pub fn ts_distinct(k: usize) -> u32 {
	(base() as i64 - 13 * DAY + HOUR + (k.min(1500) as i64) * 601) as u32
}

pub struct NullLogger;
impl Logger for NullLogger {
	fn log(&self, _r: Record) {}
}
pub type Graph = NetworkGraph<Arc<NullLogger>>;

pub fn our_chain() -> ChainHash {
	ChainHash::using_genesis_block(Network::Testnet)
}
pub fn other_chain() -> ChainHash {
	ChainHash::using_genesis_block(Network::Bitcoin)
}

// ---------------------------------------------------------------------------------------------
// specs (plain data, part of the replay file)
// ---------------------------------------------------------------------------------------------

#[derive(Clone, Debug, Serialize, Deserialize, PartialEq)]
pub enum AnnVar {
	Valid,
	/// signature `which` (0 node1, 1 node2, 2 btc1, 3 btc2) made by another key of the universe
	BadSig { which: u8, by: u16 },
	/// contents changed after signing
	Altered { how: u8 },
	/// node_id_1 > node_id_2 (validly signed)
	Unsorted,
	/// validly signed announcement for another chain
	WrongChain,
	/// a second, fully valid announcement for the same scid and funding keys but other node ids
	OtherNodes { a: u16, b: u16 },
}

#[derive(Clone, Debug, Serialize, Deserialize, PartialEq)]
pub struct ChanSpec {
	pub a: u16,
	pub b: u16,
	pub cap_sat: u64,
	/// UTXO lookup answer: 0 correct script+amount, 1 wrong script, 2 unknown tx (spent/none), 3 unknown chain
	pub utxo: u8,
	pub feat: u8,
	/// excess-data class of the announcement: 0 none, 1 short, 2 above the relay limit
	pub excess: u8,
	pub var: AnnVar,
}

#[derive(Clone, Debug, Serialize, Deserialize, PartialEq)]
pub struct Pol {
	pub disabled: bool,
	pub cltv: u16,
	pub hmin: u64,
	/// htlc_maximum as a fraction of the capacity (65535 = exactly the capacity)
	pub hmax_frac: u16,
	pub fee_base: u32,
	pub fee_prop: u32,
	pub excess: u8,
}

#[derive(Clone, Debug, Serialize, Deserialize, PartialEq)]
pub enum UpdVar {
	Valid,
	/// signed by another node key; `by` < 32768 selects the channel counterparty
	SignedBy { by: u16 },
	Altered { how: u8 },
	WrongChain,
	UnknownScid,
	/// htlc_maximum_msat = capacity + 1 + extra msat
	OverCap { extra: u16 },
	/// htlc_maximum_msat above 21M BTC
	OverTotal,
	/// message_flags dont_forward bit set
	DontForward,
}

#[derive(Clone, Debug, Serialize, Deserialize, PartialEq)]
pub enum AddrSpec {
	V4(u32, u16),
	V6(u8, u16),
	OnionV3(u8, u16),
	Host(u8, u16),
}

#[derive(Clone, Debug, Serialize, Deserialize, PartialEq)]
pub struct NodeBody {
	pub alias: u8,
	pub rgb: u8,
	pub feat: u8,
	pub addrs: Vec<AddrSpec>,
	pub excess_addr: u8,
	pub excess: u8,
}

#[derive(Clone, Debug, Serialize, Deserialize, PartialEq)]
pub enum NodeVar {
	Valid,
	SignedBy { by: u16 },
	Altered { how: u8 },
}

#[derive(Clone, Debug, Serialize, Deserialize, PartialEq)]
pub enum MsgSpec {
	/// the announcement of channel `chan` exactly as its ChanSpec describes it
	Ann { chan: u16 },
	/// an announcement for channel `chan` with an explicit variant
	AnnVariant { chan: u16, var: AnnVar },
	Upd { chan: u16, dir: bool, slot: u8, pol: Pol, var: UpdVar },
	Node { node: u16, slot: u8, body: NodeBody, var: NodeVar },
}

#[derive(Clone, Debug, Serialize, Deserialize)]
pub struct Uni {
	pub key_seed: u32,
	pub n_nodes: u8,
	/// graph is driven with a UTXO lookup (Some) or without (None)
	pub lookup: bool,
	pub chans: Vec<ChanSpec>,
	/// messages beyond the per-channel announcements (which come first in `all_msgs`)
	pub extra: Vec<MsgSpec>,
}

impl Uni {
	pub fn n(&self) -> usize {
		(self.n_nodes as usize).clamp(3, 15)
	}
	pub fn all_msgs(&self) -> Vec<MsgSpec> {
		let mut v: Vec<MsgSpec> = (0..self.chans.len()).map(|c| MsgSpec::Ann { chan: c as u16 }).collect();
		v.extend(self.extra.iter().cloned());
		v
	}
	/// (node index a, node index b), a != b
	pub fn chan_nodes(&self, c: usize) -> (usize, usize) {
		two_distinct(self.chans[c].a, self.chans[c].b, self.n())
	}
	pub fn scid(&self, c: usize) -> u64 {
		((700_000 + c as u64) << 40) | ((c as u64 * 3 + 1) << 16) | (c as u64 & 1)
	}
}

pub fn two_distinct(a: u16, b: u16, n: usize) -> (usize, usize) {
	let a = pick(a, n);
	let mut b = pick(b, n - 1);
	if b >= a {
		b += 1;
	}
	(a, b)
}

// ---------------------------------------------------------------------------------------------
// strategies
// ---------------------------------------------------------------------------------------------

fn excess_class() -> impl Strategy<Value = u8> + Clone + Send + Sync {
	prop_oneof![12 => Just(0u8), 2 => Just(1u8), 1 => Just(2u8)]
}

pub fn ann_var_strat(allow_other_nodes: bool) -> impl Strategy<Value = AnnVar> + Clone + Send + Sync {
	let other = if allow_other_nodes { 2 } else { 0 };
	prop_oneof![
		14 => Just(AnnVar::Valid),
		3 => (0u8..4, any::<u16>()).prop_map(|(which, by)| AnnVar::BadSig { which, by }),
		2 => (0u8..5).prop_map(|how| AnnVar::Altered { how }),
		1 => Just(AnnVar::Unsorted),
		1 => Just(AnnVar::WrongChain),
		other => (any::<u16>(), any::<u16>()).prop_map(|(a, b)| AnnVar::OtherNodes { a, b }),
	]
}

pub fn chan_strat() -> impl Strategy<Value = ChanSpec> + Clone + Send + Sync {
	(
		any::<u16>(),
		any::<u16>(),
		prop_oneof![4 => 1_000u64..20_000_000, 1 => 20_000_000u64..5_000_000_000],
		prop_oneof![12 => Just(0u8), 1 => Just(1u8), 1 => Just(2u8), 1 => Just(3u8)],
		0u8..4,
		excess_class(),
		prop_oneof![9 => Just(AnnVar::Valid), 1 => ann_var_strat(false)],
	)
		.prop_map(|(a, b, cap_sat, utxo, feat, excess, var)| ChanSpec { a, b, cap_sat, utxo, feat, excess, var })
}

pub fn pol_strat() -> impl Strategy<Value = Pol> + Clone + Send + Sync {
	(
		any::<bool>(),
		any::<u16>(),
		prop_oneof![Just(0u64), Just(1u64), 0u64..100_000],
		prop_oneof![3 => any::<u16>(), 1 => Just(65535u16), 1 => Just(0u16)],
		prop_oneof![Just(0u32), Just(1000u32), any::<u32>()],
		prop_oneof![Just(0u32), Just(100u32), any::<u32>()],
		excess_class(),
	)
		.prop_map(|(disabled, cltv, hmin, hmax_frac, fee_base, fee_prop, excess)| Pol { disabled, cltv, hmin, hmax_frac, fee_base, fee_prop, excess })
}

pub fn upd_var_strat() -> impl Strategy<Value = UpdVar> + Clone + Send + Sync {
	prop_oneof![
		20 => Just(UpdVar::Valid),
		5 => any::<u16>().prop_map(|by| UpdVar::SignedBy { by }),
		4 => (0u8..6).prop_map(|how| UpdVar::Altered { how }),
		1 => Just(UpdVar::WrongChain),
		1 => Just(UpdVar::UnknownScid),
		3 => prop_oneof![Just(0u16), any::<u16>()].prop_map(|extra| UpdVar::OverCap { extra }),
		1 => Just(UpdVar::OverTotal),
		1 => Just(UpdVar::DontForward),
	]
}

fn addr_strat() -> impl Strategy<Value = AddrSpec> + Clone + Send + Sync {
	prop_oneof![
		(any::<u32>(), any::<u16>()).prop_map(|(a, p)| AddrSpec::V4(a, p)),
		(any::<u8>(), any::<u16>()).prop_map(|(a, p)| AddrSpec::V6(a, p)),
		(any::<u8>(), any::<u16>()).prop_map(|(a, p)| AddrSpec::OnionV3(a, p)),
		(any::<u8>(), any::<u16>()).prop_map(|(a, p)| AddrSpec::Host(a, p)),
	]
}

pub fn body_strat() -> impl Strategy<Value = NodeBody> + Clone + Send + Sync {
	(any::<u8>(), any::<u8>(), 0u8..4, prop::collection::vec(addr_strat(), 0..3), excess_class(), excess_class())
		.prop_map(|(alias, rgb, feat, addrs, excess_addr, excess)| NodeBody { alias, rgb, feat, addrs, excess_addr, excess })
}

pub fn node_var_strat() -> impl Strategy<Value = NodeVar> + Clone + Send + Sync {
	prop_oneof![
		6 => Just(NodeVar::Valid),
		2 => any::<u16>().prop_map(|by| NodeVar::SignedBy { by }),
		2 => (0u8..4).prop_map(|how| NodeVar::Altered { how }),
	]
}

/// few slots most of the time, so that equal-timestamp conflicts and older/newer races are common
fn slot_strat() -> impl Strategy<Value = u8> + Clone + Send + Sync {
	prop_oneof![3 => 0u8..6, 1 => 0u8..17]
}

pub fn msg_strat(allow_other_nodes: bool) -> impl Strategy<Value = MsgSpec> + Clone + Send + Sync {
	prop_oneof![
		1 => any::<u16>().prop_map(|chan| MsgSpec::Ann { chan }),
		2 => (any::<u16>(), ann_var_strat(allow_other_nodes)).prop_map(|(chan, var)| MsgSpec::AnnVariant { chan, var }),
		12 => (any::<u16>(), any::<bool>(), slot_strat(), pol_strat(), upd_var_strat())
			.prop_map(|(chan, dir, slot, pol, var)| MsgSpec::Upd { chan, dir, slot, pol, var }),
		4 => (any::<u16>(), slot_strat(), body_strat(), node_var_strat())
			.prop_map(|(node, slot, body, var)| MsgSpec::Node { node, slot, body, var }),
	]
}

pub fn uni_strat(max_chans: usize, max_extra: usize, allow_other_nodes: bool) -> impl Strategy<Value = Uni> + Clone + Send + Sync {
	(
		any::<u32>(),
		3u8..=15,
		prop::bool::weighted(0.8),
		// small universes concentrate many messages on few channels / nodes, large ones exercise the bookkeeping
		prop_oneof![3 => prop::collection::vec(chan_strat(), 2..=4), 2 => prop::collection::vec(chan_strat(), 5..=max_chans)],
		prop::collection::vec(msg_strat(allow_other_nodes), 4..=max_extra),
	)
		.prop_map(|(key_seed, n_nodes, lookup, chans, extra)| Uni { key_seed, n_nodes, lookup, chans, extra })
}

// ---------------------------------------------------------------------------------------------
// keys, signing, message construction
// ---------------------------------------------------------------------------------------------

fn derive_sk(seed: u32, idx: u32) -> SecretKey {
	let mut pre = b"verif-c17-key".to_vec();
	pre.extend_from_slice(&seed.to_le_bytes());
	pre.extend_from_slice(&idx.to_le_bytes());
	let mut h = sha256::Hash::hash(&pre).to_byte_array();
	loop {
		if let Ok(k) = SecretKey::from_slice(&h) {
			return k;
		}
		h = sha256::Hash::hash(&h).to_byte_array();
	}
}

/// Signed-part digest of BOLT 7: double-SHA256 of the serialized message after the signature(s).
pub fn digest(unsigned_bytes: &[u8]) -> Message {
	Message::from_digest(sha256d::Hash::hash(unsigned_bytes).to_byte_array())
}

/// BOLT 3 funding output: P2WSH of `2 <key_lo> <key_hi> 2 OP_CHECKMULTISIG`, keys in lexicographic order.
pub fn funding_spk(k1: &[u8; 33], k2: &[u8; 33]) -> ScriptBuf {
	let (lo, hi) = if k1[..] < k2[..] { (k1, k2) } else { (k2, k1) };
	Builder::new()
		.push_opcode(opcodes::all::OP_PUSHNUM_2)
		.push_slice(lo)
		.push_slice(hi)
		.push_opcode(opcodes::all::OP_PUSHNUM_2)
		.push_opcode(opcodes::all::OP_CHECKMULTISIG)
		.into_script()
		.to_p2wsh()
}

#[derive(Clone, Debug)]
pub enum UtxoAns {
	Ok(TxOut),
	UnknownTx,
	UnknownChain,
}

#[derive(Clone)]
pub enum Msg {
	Ann(ChannelAnnouncement),
	Upd(ChannelUpdate),
	Node(NodeAnnouncement),
}

pub struct World {
	pub secp: Secp256k1<All>,
	pub uni: Uni,
	pub node_sk: Vec<SecretKey>,
	pub node_pk: Vec<PublicKey>,
	pub node_id: Vec<NodeId>,
	/// per channel: funding secret keys of side a / side b
	pub btc_sk: Vec<(SecretKey, SecretKey)>,
	pub utxo: HashMap<u64, UtxoAns>,
	cache: BTreeMap<(usize, u32), Msg>,
	/// signatures made so far (cost accounting only)
	pub sigs: u64,
}

fn excess_bytes(class: u8, salt: usize) -> Vec<u8> {
	let len = match class {
		0 => 0,
		1 => 1 + salt % 32,
		_ => 1100 + salt % 7,
	};
	(0..len).map(|i| (i * 31 + salt * 7 + 5) as u8).collect()
}

fn feat_bytes(f: u8) -> Vec<u8> {
	// little-endian flag bytes, last byte non-zero (canonical: what a decoder would hand back)
	match f % 4 {
		0 => vec![],
		1 => vec![0x02],
		2 => vec![0x00, 0x80],
		_ => vec![0x0a, 0x00, 0x21],
	}
}

impl World {
	pub fn new(uni: &Uni) -> World {
		let secp = Secp256k1::new();
		let n = uni.n();
		let node_sk: Vec<SecretKey> = (0..n).map(|i| derive_sk(uni.key_seed, i as u32)).collect();
		let node_pk: Vec<PublicKey> = node_sk.iter().map(|k| PublicKey::from_secret_key(&secp, k)).collect();
		let node_id: Vec<NodeId> = node_pk.iter().map(NodeId::from_pubkey).collect();
		let btc_sk: Vec<(SecretKey, SecretKey)> =
			(0..uni.chans.len()).map(|c| (derive_sk(uni.key_seed, 1000 + 2 * c as u32), derive_sk(uni.key_seed, 1001 + 2 * c as u32))).collect();
		let mut w = World { secp, uni: uni.clone(), node_sk, node_pk, node_id, btc_sk, utxo: HashMap::new(), cache: BTreeMap::new(), sigs: 0 };
		for c in 0..uni.chans.len() {
			let (ka, kb) = (w.btc_pk(c, false).serialize(), w.btc_pk(c, true).serialize());
			let ans = match uni.chans[c].utxo {
				0 => UtxoAns::Ok(TxOut { value: Amount::from_sat(uni.chans[c].cap_sat), script_pubkey: funding_spk(&ka, &kb) }),
				// an output that exists but pays to a different 2-of-2 (one key is not the announced one)
				1 => UtxoAns::Ok(TxOut { value: Amount::from_sat(uni.chans[c].cap_sat), script_pubkey: funding_spk(&ka, &w.node_pk[0].serialize()) }),
				2 => UtxoAns::UnknownTx,
				_ => UtxoAns::UnknownChain,
			};
			w.utxo.insert(uni.scid(c), ans);
		}
		w
	}

	fn btc_pk(&self, c: usize, side_b: bool) -> PublicKey {
		let k = if side_b { &self.btc_sk[c].1 } else { &self.btc_sk[c].0 };
		PublicKey::from_secret_key(&self.secp, k)
	}

	pub fn utxo_answer(&self, scid: u64) -> UtxoAns {
		self.utxo.get(&scid).cloned().unwrap_or(UtxoAns::UnknownTx)
	}

	fn sign(&mut self, m: &Message, k: &SecretKey) -> Signature {
		self.sigs += 1;
		self.secp.sign_ecdsa(m, k)
	}

	/// any universe key other than `not`: node keys and the funding keys of channel `c`
	fn other_key(&self, by: u16, c: usize, not: &SecretKey) -> SecretKey {
		let mut pool: Vec<SecretKey> = self.node_sk.clone();
		pool.push(self.btc_sk[c].0);
		pool.push(self.btc_sk[c].1);
		pool.retain(|k| k != not);
		pool[pick(by, pool.len())]
	}

	/// The channel's endpoints in announcement order: ((node idx 1, funding sk 1), (node idx 2, funding sk 2))
	fn sorted_sides(&self, na: usize, nb: usize, c: usize) -> ((usize, SecretKey), (usize, SecretKey)) {
		if self.node_id[na] < self.node_id[nb] {
			((na, self.btc_sk[c].0), (nb, self.btc_sk[c].1))
		} else {
			((nb, self.btc_sk[c].1), (na, self.btc_sk[c].0))
		}
	}

	pub fn build_ann(&mut self, c: usize, var: &AnnVar) -> ChannelAnnouncement {
		let spec = self.uni.chans[c].clone();
		let (mut na, mut nb) = self.uni.chan_nodes(c);
		if let AnnVar::OtherNodes { a, b } = var {
			let (oa, ob) = two_distinct(*a, *b, self.uni.n());
			// make sure the pair really differs from the channel's own pair
			if (oa.min(ob), oa.max(ob)) == (na.min(nb), na.max(nb)) {
				nb = (0..self.uni.n()).find(|x| *x != na && *x != nb).unwrap();
			} else {
				na = oa;
				nb = ob;
			}
		}
		let ((i1, b1), (i2, b2)) = self.sorted_sides(na, nb, c);
		let (mut i1, mut b1, mut i2, mut b2) = (i1, b1, i2, b2);
		if *var == AnnVar::Unsorted {
			std::mem::swap(&mut i1, &mut i2);
			std::mem::swap(&mut b1, &mut b2);
		}
		let mut contents = UnsignedChannelAnnouncement {
			features: ChannelFeatures::from_le_bytes(feat_bytes(spec.feat)),
			chain_hash: if *var == AnnVar::WrongChain { other_chain() } else { our_chain() },
			short_channel_id: self.uni.scid(c),
			node_id_1: self.node_id[i1],
			node_id_2: self.node_id[i2],
			bitcoin_key_1: NodeId::from_pubkey(&PublicKey::from_secret_key(&self.secp, &b1)),
			bitcoin_key_2: NodeId::from_pubkey(&PublicKey::from_secret_key(&self.secp, &b2)),
			excess_data: excess_bytes(spec.excess, c),
		};
		let m = digest(&contents.encode());
		let keys = [self.node_sk[i1], self.node_sk[i2], b1, b2];
		let mut sigs = [self.sign(&m, &keys[0]), self.sign(&m, &keys[1]), self.sign(&m, &keys[2]), self.sign(&m, &keys[3])];
		match var {
			AnnVar::BadSig { which, by } => {
				let w = (*which % 4) as usize;
				let k = self.other_key(*by, c, &keys[w]);
				sigs[w] = self.sign(&m, &k);
			},
			AnnVar::Altered { how } => match how % 5 {
				0 => contents.short_channel_id ^= 1 << 20,
				1 => contents.features = ChannelFeatures::from_le_bytes(feat_bytes(spec.feat.wrapping_add(1))),
				2 => std::mem::swap(&mut contents.bitcoin_key_1, &mut contents.bitcoin_key_2),
				3 => {
					// graft a third party in as node 2 (keeps the ordering valid when possible)
					let third = (0..self.uni.n()).rev().find(|x| *x != i1 && *x != i2).unwrap();
					contents.node_id_2 = self.node_id[third];
				},
				_ => contents.excess_data.push(0x42),
			},
			_ => {},
		}
		ChannelAnnouncement { node_signature_1: sigs[0], node_signature_2: sigs[1], bitcoin_signature_1: sigs[2], bitcoin_signature_2: sigs[3], contents }
	}

	/// node index that owns direction `dir` (false: node_1 -> node_2) of channel c as announced by its ChanSpec
	pub fn dir_node(&self, c: usize, dir: bool) -> (usize, usize) {
		let (na, nb) = self.uni.chan_nodes(c);
		let ((i1, _), (i2, _)) = self.sorted_sides(na, nb, c);
		if dir {
			(i2, i1)
		} else {
			(i1, i2)
		}
	}

	pub fn build_upd(&mut self, c: usize, dir: bool, timestamp: u32, pol: &Pol, var: &UpdVar, salt: usize) -> ChannelUpdate {
		let spec = self.uni.chans[c].clone();
		let cap_msat = spec.cap_sat * 1000;
		let (owner, counterparty) = self.dir_node(c, dir);
		let mut hmax = ((cap_msat as u128 * (pol.hmax_frac as u128 + 1)) >> 16) as u64;
		let mut message_flags = 1u8;
		let mut scid = self.uni.scid(c);
		let mut chain = our_chain();
		match var {
			UpdVar::OverCap { extra } => hmax = cap_msat + 1 + *extra as u64,
			UpdVar::OverTotal => hmax = 21_000_000 * 100_000_000 * 1000 + 1,
			UpdVar::DontForward => message_flags |= 2,
			UpdVar::UnknownScid => scid ^= 1 << 21,
			UpdVar::WrongChain => chain = other_chain(),
			_ => {},
		}
		let mut contents = UnsignedChannelUpdate {
			chain_hash: chain,
			short_channel_id: scid,
			timestamp,
			message_flags,
			channel_flags: (dir as u8) | ((pol.disabled as u8) << 1),
			cltv_expiry_delta: pol.cltv,
			htlc_minimum_msat: pol.hmin,
			htlc_maximum_msat: hmax,
			fee_base_msat: pol.fee_base,
			fee_proportional_millionths: pol.fee_prop,
			excess_data: excess_bytes(pol.excess, salt),
		};
		let m = digest(&contents.encode());
		let signer = match var {
			UpdVar::SignedBy { by } => {
				if *by < 32768 {
					self.node_sk[counterparty]
				} else {
					let pool: Vec<usize> = (0..self.uni.n()).filter(|x| *x != owner).collect();
					self.node_sk[pool[pick((*by - 32768) * 2, pool.len())]]
				}
			},
			_ => self.node_sk[owner],
		};
		let signature = self.sign(&m, &signer);
		if let UpdVar::Altered { how } = var {
			match how % 6 {
				0 => contents.fee_base_msat ^= 1,
				1 => contents.timestamp = contents.timestamp.wrapping_add(20 * HOUR as u32), // "make it look newer"
				2 => contents.channel_flags ^= 1,                                               // claim the other direction
				3 => contents.channel_flags ^= 2,
				4 => contents.htlc_maximum_msat = contents.htlc_maximum_msat.wrapping_sub(1),
				_ => contents.excess_data.push(0x17),
			}
		}
		ChannelUpdate { signature, contents }
	}

	pub fn build_node(&mut self, node: usize, timestamp: u32, body: &NodeBody, var: &NodeVar, salt: usize) -> NodeAnnouncement {
		let mut alias = [0u8; 32];
		for (i, b) in alias.iter_mut().enumerate().take(1 + (body.alias as usize % 31)) {
			*b = b'a' + ((body.alias as usize + i) % 26) as u8;
		}
		let addresses: Vec<SocketAddress> = body
			.addrs
			.iter()
			.map(|a| match a {
				AddrSpec::V4(x, port) => SocketAddress::TcpIpV4 { addr: x.to_be_bytes(), port: *port },
				AddrSpec::V6(x, port) => SocketAddress::TcpIpV6 { addr: [*x; 16], port: *port },
				AddrSpec::OnionV3(x, port) => SocketAddress::OnionV3 { ed25519_pubkey: [*x; 32], checksum: *x as u16 * 3, version: 3, port: *port },
				AddrSpec::Host(x, port) => {
					let name: String = (0..(1 + *x as usize % 20)).map(|i| (b'a' + ((*x as usize + i) % 26) as u8) as char).collect();
					SocketAddress::Hostname { hostname: Hostname::try_from(format!("{}.example", name)).unwrap(), port: *port }
				},
			})
			.collect();
		// canonical form: unparsed address data starts with a descriptor type the decoder does not know
		let mut excess_address_data = excess_bytes(body.excess_addr, salt);
		if let Some(b) = excess_address_data.first_mut() {
			*b = 0x09;
		}
		let mut contents = UnsignedNodeAnnouncement {
			features: NodeFeatures::from_le_bytes(feat_bytes(body.feat)),
			timestamp,
			node_id: self.node_id[node],
			rgb: [body.rgb, body.rgb.wrapping_mul(3), 7],
			alias: NodeAlias(alias),
			addresses,
			excess_address_data,
			excess_data: excess_bytes(body.excess, salt + 1),
		};
		let m = digest(&contents.encode());
		let signer = match var {
			NodeVar::SignedBy { by } => {
				let pool: Vec<usize> = (0..self.uni.n()).filter(|x| *x != node).collect();
				self.node_sk[pool[pick(*by, pool.len())]]
			},
			_ => self.node_sk[node],
		};
		let signature = self.sign(&m, &signer);
		if let NodeVar::Altered { how } = var {
			match how % 4 {
				0 => contents.alias.0[0] ^= 1,
				1 => contents.timestamp = contents.timestamp.wrapping_add(20 * HOUR as u32),
				2 => contents.node_id = self.node_id[(node + 1) % self.uni.n()], // X's announcement under Y's name
				_ => contents.addresses.push(SocketAddress::TcpIpV4 { addr: [6, 6, 6, 6], port: 666 }),
			}
		}
		NodeAnnouncement { signature, contents }
	}

	/// Build (and cache) message `idx` of `msgs`. `ts_override` replaces the slot timestamp.
	pub fn msg(&mut self, msgs: &[MsgSpec], idx: usize, ts_override: Option<u32>) -> Msg {
		let key = (idx, ts_override.unwrap_or(0));
		if let Some(m) = self.cache.get(&key) {
			return m.clone();
		}
		let nch = self.uni.chans.len();
		let m = match &msgs[idx] {
			MsgSpec::Ann { chan } => {
				let c = pick(*chan, nch);
				let var = self.uni.chans[c].var.clone();
				Msg::Ann(self.build_ann(c, &var))
			},
			MsgSpec::AnnVariant { chan, var } => Msg::Ann(self.build_ann(pick(*chan, nch), var)),
			MsgSpec::Upd { chan, dir, slot, pol, var } => Msg::Upd(self.build_upd(pick(*chan, nch), *dir, ts_override.unwrap_or(ts(*slot)), pol, var, idx)),
			MsgSpec::Node { node, slot, body, var } => Msg::Node(self.build_node(pick(*node, self.uni.n()), ts_override.unwrap_or(ts(*slot)), body, var, idx)),
		};
		self.cache.insert(key, m.clone());
		m
	}
}

/// The generated UTXO lookup handed to the library (synchronous answers only).
pub struct Lookup {
	pub answers: HashMap<u64, UtxoAns>,
}
impl UtxoLookup for Lookup {
	fn get_utxo(&self, chain_hash: &ChainHash, scid: u64, _n: Arc<Notifier>) -> UtxoResult {
		if *chain_hash != our_chain() {
			return UtxoResult::Sync(Err(UtxoLookupError::UnknownChain));
		}
		UtxoResult::Sync(match self.answers.get(&scid) {
			Some(UtxoAns::Ok(o)) => Ok(o.clone()),
			Some(UtxoAns::UnknownChain) => Err(UtxoLookupError::UnknownChain),
			_ => Err(UtxoLookupError::UnknownTx),
		})
	}
}

// ---------------------------------------------------------------------------------------------
// normalized view of a graph (library side and model side produce the same type)
// ---------------------------------------------------------------------------------------------

#[derive(Clone, Debug, PartialEq, Eq)]
pub struct VDir {
	pub last_update: u32,
	pub enabled: bool,
	pub cltv: u16,
	pub hmin: u64,
	pub hmax: u64,
	pub fee_base: u32,
	pub fee_prop: u32,
	/// stored relayable message (serialized), if any
	pub msg: Option<Vec<u8>>,
}
#[derive(Clone, Debug, PartialEq, Eq)]
pub struct VChan {
	pub n1: [u8; 33],
	pub n2: [u8; 33],
	pub cap: Option<u64>,
	pub features: Vec<u8>,
	pub dirs: [Option<VDir>; 2],
	pub ann: Option<Vec<u8>>,
}
#[derive(Clone, Debug, PartialEq, Eq)]
pub struct VNodeInfo {
	pub last_update: u32,
	pub alias: [u8; 32],
	pub rgb: [u8; 3],
	pub features: Vec<u8>,
	pub addresses: Vec<u8>,
	pub msg: Option<Vec<u8>>,
}
#[derive(Clone, Debug, PartialEq, Eq)]
pub struct VNode {
	/// sorted; a duplicate entry in the library's list would show up as a difference
	pub chans: Vec<u64>,
	pub info: Option<VNodeInfo>,
}
#[derive(Clone, Debug, PartialEq, Eq, Default)]
pub struct View {
	pub chans: BTreeMap<u64, VChan>,
	pub nodes: BTreeMap<[u8; 33], VNode>,
}

pub fn trim_features(le: &[u8]) -> Vec<u8> {
	let mut v = le.to_vec();
	while v.last() == Some(&0) {
		v.pop();
	}
	v
}

pub fn encode_addrs(a: &[SocketAddress]) -> Vec<u8> {
	let mut v = vec![];
	for x in a {
		v.extend_from_slice(&x.encode());
	}
	v
}

pub fn lib_view(g: &Graph) -> View {
	let ro = g.read_only();
	let mut v = View::default();
	for (scid, c) in ro.channels().unordered_iter() {
		let d = |x: &Option<lightning::routing::gossip::ChannelUpdateInfo>| {
			x.as_ref().map(|u| VDir {
				last_update: u.last_update,
				enabled: u.enabled,
				cltv: u.cltv_expiry_delta,
				hmin: u.htlc_minimum_msat,
				hmax: u.htlc_maximum_msat,
				fee_base: u.fees.base_msat,
				fee_prop: u.fees.proportional_millionths,
				msg: u.last_update_message.as_ref().map(|m| m.encode()),
			})
		};
		v.chans.insert(
			*scid,
			VChan {
				n1: *c.node_one.as_array(),
				n2: *c.node_two.as_array(),
				cap: c.capacity_sats,
				features: trim_features(c.features.le_flags()),
				dirs: [d(&c.one_to_two), d(&c.two_to_one)],
				ann: c.announcement_message.as_ref().map(|m| m.encode()),
			},
		);
	}
	for (id, n) in ro.nodes().unordered_iter() {
		let mut chans = n.channels.clone();
		chans.sort();
		v.nodes.insert(
			*id.as_array(),
			VNode {
				chans,
				info: n.announcement_info.as_ref().map(|i| VNodeInfo {
					last_update: i.last_update(),
					alias: i.alias().0,
					rgb: i.rgb(),
					features: trim_features(i.features().le_flags()),
					addresses: encode_addrs(i.addresses()),
					msg: i.announcement_message().map(|m| m.encode()),
				}),
			},
		);
	}
	v
}

/// First difference between two views, for failure reports.
pub fn view_diff(lib: &View, model: &View) -> String {
	for (k, a) in lib.chans.iter() {
		match model.chans.get(k) {
			None => return format!("channel {} present in library graph, absent in reference", k),
			Some(b) if a != b => {
				let mut s = format!("channel {} differs:", k);
				if (a.n1, a.n2) != (b.n1, b.n2) {
					s += " node ids;";
				}
				if a.cap != b.cap {
					s += &format!(" capacity lib={:?} ref={:?};", a.cap, b.cap);
				}
				if a.features != b.features {
					s += " features;";
				}
				if a.ann != b.ann {
					s += &format!(" stored announcement lib={} ref={};", a.ann.is_some(), b.ann.is_some());
				}
				for i in 0..2 {
					if a.dirs[i] != b.dirs[i] {
						let strip = |d: &Option<VDir>| d.as_ref().map(|x| VDir { msg: x.msg.as_ref().map(|m| vec![m.len() as u8]), ..x.clone() });
						s += &format!(" dir{} lib={:?} ref={:?};", i, strip(&a.dirs[i]), strip(&b.dirs[i]));
					}
				}
				return s;
			},
			_ => {},
		}
	}
	for k in model.chans.keys() {
		if !lib.chans.contains_key(k) {
			return format!("channel {} absent in library graph, present in reference", k);
		}
	}
	for (k, a) in lib.nodes.iter() {
		match model.nodes.get(k) {
			None => return format!("node {} present in library graph (channels {:?}), absent in reference", vcore::hex(&k[..6]), a.chans),
			Some(b) if a != b => {
				return format!(
					"node {} differs: channels lib={:?} ref={:?}; info lib={:?} ref={:?}",
					vcore::hex(&k[..6]),
					a.chans,
					b.chans,
					a.info.as_ref().map(|i| (i.last_update, i.msg.is_some(), vcore::hex(&i.alias[..4]))),
					b.info.as_ref().map(|i| (i.last_update, i.msg.is_some(), vcore::hex(&i.alias[..4])))
				)
			},
			_ => {},
		}
	}
	for k in model.nodes.keys() {
		if !lib.nodes.contains_key(k) {
			return format!("node {} absent in library graph, present in reference", vcore::hex(&k[..6]));
		}
	}
	"views equal".into()
}
