//! Arrangement (B): the independent BOLT-8 peer of bolt8.rs against one `PeerManager`.
//!
//! Oracle (DESIGN C15 a, c-f):
//!  (a) the handshake completes exactly when all acts are authentic and complete; LDK's acts
//!      authenticate under the reference and the reference's keys decrypt everything LDK sends;
//!  (c) a tampered / replayed / reordered / dropped / wrong-key unit makes `read_event` return
//!      Err no later than the read that completes the affected header or body, every unit before
//!      it has reached the handlers exactly, and nothing of it or after it is ever delivered;
//!      a truncated unit is never delivered and raises no error by itself;
//!  (d) no handler sees a message before `peer_connected`, LDK's first transport message is its
//!      Init, a non-Init first message or an Init with an unknown even feature bit drops the peer;
//!  (e) no panic;
//!  (f) every unit LDK writes equals the reference's encryption of its plaintext under the same
//!      key and nonce, and the plaintext sequence is Init followed by exactly what was queued.

use crate::ab::{bulk_spec, bulk_strat, cut_strat, size_strat, spec_strat};
use crate::bolt8::{Initiator, Responder, Transport};
use crate::world::*;
use bitcoin::secp256k1::{PublicKey, Secp256k1};
use proptest::prelude::*;
use serde::{Deserialize, Serialize};
use vcore::*;

#[derive(Clone, Debug, Serialize, Deserialize, PartialEq)]
pub enum Region {
	HeaderCt,
	HeaderMac,
	Body,
	BodyMac,
}

#[derive(Clone, Debug, Serialize, Deserialize, PartialEq)]
pub enum Fault {
	None,
	/// `second`: the reference's second act (act three) when it is the initiator
	ActFlip { second: bool, byte: u16, bit: u8 },
	ActVersion { second: bool, v: u8 },
	ActTruncate { second: bool, keep: u16 },
	ActGarbage { second: bool, bytes: Vec<u8> },
	MsgFlip { idx: u16, region: Region, off: u16, bit: u8 },
	MsgTruncate { idx: u16, keep: u16 },
	Replay { idx: u16, earlier: u16 },
	Swap { idx: u16 },
	Drop { idx: u16 },
	WrongKey { idx: u16 },
	NonInitFirst,
	EvenFeature { bit: u8 },
}

#[derive(Clone, Debug, Serialize, Deserialize)]
pub enum Junk {
	/// a type id below 32768 with arbitrary payload bytes
	Typed { ty: u16, body: Vec<u8> },
	/// a valid message whose plaintext is truncated (op 0), extended (op 1) or has one byte set (op 2)
	Mutated { spec: MsgSpec, op: u8, pos: u16, val: u8 },
	SecondInit,
	ZeroChanError { len: u8 },
	/// an authentic unit whose plaintext is 0 or 1 bytes long (no room for a type)
	Short { len: u8 },
	StartBatch { size: u16, with_type: bool },
}

#[derive(Clone, Debug, Serialize, Deserialize)]
pub enum RefMsg {
	Spec(MsgSpec),
	/// unknown odd type: must be ignored without losing framing
	UnknownOdd { ty: u16, size: u16 },
	Ping { ponglen: u16, byteslen: u16 },
	Junk(Junk),
}

#[derive(Clone, Debug, Serialize, Deserialize)]
pub enum Op {
	Feed(u8),
	Events,
	WriteAvail { spurious: bool },
	QueueLdk(u8),
}

#[derive(Clone, Debug, Serialize, Deserialize)]
pub struct Case {
	pub ref_initiator: bool,
	pub ldk_key: u8,
	pub ref_key: u8,
	pub ldk_eph: u8,
	pub ref_eph: u8,
	pub init_features: Vec<u8>,
	pub bulk_ref: u16,
	pub bulk_ldk: u16,
	pub ref_msgs: Vec<RefMsg>,
	pub ldk_msgs: Vec<MsgSpec>,
	pub fault: Fault,
	pub ops: Vec<Op>,
	pub cuts: Vec<u16>,
	pub acc: Vec<u16>,
	pub drain_burst: u16,
}

// ---------------------------------------------------------------------------------------------
// strategies
// ---------------------------------------------------------------------------------------------

fn region_strat() -> impl Strategy<Value = Region> + Clone {
	prop_oneof![Just(Region::HeaderCt), Just(Region::HeaderMac), Just(Region::Body), Just(Region::BodyMac)]
}

fn fault_strat() -> impl Strategy<Value = Fault> + Clone {
	// (two groups: prop_oneof! with more than ten arms boxes them into a non-Send strategy)
	let acts = prop_oneof![
		8 => (any::<bool>(), any::<u16>(), 0u8..8).prop_map(|(second, byte, bit)| Fault::ActFlip { second, byte, bit }),
		3 => (any::<bool>(), 1u8..=255).prop_map(|(second, v)| Fault::ActVersion { second, v }),
		4 => (any::<bool>(), any::<u16>()).prop_map(|(second, keep)| Fault::ActTruncate { second, keep }),
		3 => (any::<bool>(), prop::collection::vec(any::<u8>(), 66)).prop_map(|(second, bytes)| Fault::ActGarbage { second, bytes }),
		3 => Just(Fault::NonInitFirst),
		3 => (0u8..24).prop_map(|bit| Fault::EvenFeature { bit }),
	];
	let units = prop_oneof![
		24 => (any::<u16>(), region_strat(), any::<u16>(), 0u8..8).prop_map(|(idx, region, off, bit)| Fault::MsgFlip { idx, region, off, bit }),
		8 => (any::<u16>(), any::<u16>()).prop_map(|(idx, keep)| Fault::MsgTruncate { idx, keep }),
		7 => (any::<u16>(), any::<u16>()).prop_map(|(idx, earlier)| Fault::Replay { idx, earlier }),
		5 => any::<u16>().prop_map(|idx| Fault::Swap { idx }),
		5 => any::<u16>().prop_map(|idx| Fault::Drop { idx }),
		5 => any::<u16>().prop_map(|idx| Fault::WrongKey { idx }),
	];
	prop_oneof![22 => Just(Fault::None), 24 => acts, 54 => units]
}

/// type ids LDK knows (BOLT 1/2/7 and friends) plus neighbours: junk bodies under these types
/// reach the individual decoders
const KNOWN_TYPES: &[u16] = &[
	1, 2, 7, 9, 16, 17, 18, 19, 32, 33, 34, 35, 36, 38, 39, 40, 41, 64, 65, 66, 67, 68, 69, 70, 71, 72, 73, 74, 77, 80, 81, 84, 90, 91, 127, 128, 130, 131, 132, 133, 134, 135, 136, 256, 257, 258, 259, 261,
	262, 263, 264, 265, 513, 1000, 20001, 20002,
];

fn junk_strat() -> impl Strategy<Value = Junk> + Clone {
	let ty = prop_oneof![4 => prop::sample::select(KNOWN_TYPES.to_vec()), 1 => 0u16..32768];
	// types whose undecodable bodies LDK answers with a warning or ignores (gossip, unknown odd)
	let soft_ty = prop_oneof![3 => prop::sample::select(vec![256u16, 257, 258, 261, 262, 263, 264]), 2 => (5000u16..16000).prop_map(|t| t * 2 + 1)];
	prop_oneof![
		25 => (ty, prop::collection::vec(any::<u8>(), 0..160)).prop_map(|(ty, body)| Junk::Typed { ty, body }),
		25 => (soft_ty, prop::collection::vec(any::<u8>(), 0..160)).prop_map(|(ty, body)| Junk::Typed { ty, body }),
		30 => (spec_strat(), 0u8..3, any::<u16>(), any::<u8>()).prop_map(|(mut spec, op, pos, val)| {
			if matches!(spec.kind, Kind::Custom { .. }) {
				spec.kind = Kind::Stfu;
			}
			spec.size = spec.size.min(3000);
			Junk::Mutated { spec, op, pos, val }
		}),
		6 => Just(Junk::SecondInit),
		6 => any::<u8>().prop_map(|len| Junk::ZeroChanError { len }),
		8 => (0u8..2).prop_map(|len| Junk::Short { len }),
		10 => (any::<u16>(), any::<bool>()).prop_map(|(size, with_type)| Junk::StartBatch { size: if size % 3 == 0 { size % 4 } else { size }, with_type }),
	]
}

fn ref_msg_strat(junk: bool) -> SBoxedStrategy<RefMsg> {
	let custom = (0u16..32768, size_strat(), any::<u8>()).prop_map(|(ty_off, size, fill)| RefMsg::Spec(MsgSpec { kind: Kind::Custom { ty_off }, size, fill }));
	if junk {
		prop_oneof![55 => custom, 45 => junk_strat().prop_map(RefMsg::Junk)].sboxed()
	} else {
		prop_oneof![
			84 => spec_strat().prop_map(RefMsg::Spec),
			8 => (10000u16..15000, size_strat()).prop_map(|(t, size)| RefMsg::UnknownOdd { ty: t * 2 + 1, size: size.min(65533) }),
			8 => (prop_oneof![4 => 0u16..300, 1 => 65520u16..=65535], prop_oneof![4 => 0u16..300, 1 => 60000u16..65529]).prop_map(|(ponglen, byteslen)| RefMsg::Ping { ponglen, byteslen }),
		]
		.sboxed()
	}
}

fn op_strat() -> impl Strategy<Value = Op> + Clone {
	prop_oneof![
		40 => (1u8..40).prop_map(Op::Feed),
		25 => Just(Op::Events),
		15 => prop::bool::weighted(0.2).prop_map(|spurious| Op::WriteAvail { spurious }),
		20 => (1u8..12).prop_map(Op::QueueLdk),
	]
}

fn budget_strat() -> impl Strategy<Value = u16> + Clone {
	prop_oneof![15 => Just(0u16), 45 => cut_strat(), 40 => Just(65535u16)]
}

pub fn strat(thorough: bool, junk: bool) -> impl Strategy<Value = Case> + Clone + Send + Sync + 'static {
	let head = (any::<bool>(), any::<u8>(), any::<u8>(), any::<u8>(), any::<u8>(), prop::collection::vec(any::<u8>(), 0..5), bulk_strat(thorough), bulk_strat(thorough));
	let ldk_msgs = if junk {
		prop::collection::vec((0u16..32768, size_strat(), any::<u8>()).prop_map(|(ty_off, size, fill)| MsgSpec { kind: Kind::Custom { ty_off }, size, fill }), 0..10).sboxed()
	} else {
		prop::collection::vec(spec_strat(), 0..25).sboxed()
	};
	let fault = if junk { Just(Fault::None).sboxed() } else { fault_strat().sboxed() };
	let body = (
		prop::collection::vec(ref_msg_strat(junk), 0..if junk { 14 } else { 25 }),
		ldk_msgs,
		fault,
		prop::collection::vec(op_strat(), 0..60),
		prop::collection::vec(cut_strat(), 1..6),
		prop::collection::vec(budget_strat(), 0..6),
		prop::sample::select(vec![1u16, 2, 4, 16, 64, 256, 1024, 1024]),
	);
	(head, body)
		.prop_map(move |((ref_initiator, ldk_key, ref_key, ldk_eph, ref_eph, feats, bulk_ref, bulk_ldk), (ref_msgs, ldk_msgs, fault, ops, cuts, acc, drain_burst))| Case {
			ref_initiator,
			ldk_key,
			ref_key,
			ldk_eph,
			ref_eph,
			// only odd ("optional") bits: a peer that requires nothing LDK does not know
			init_features: feats.into_iter().map(|b| b & 0xAA).collect(),
			bulk_ref: if junk { 0 } else { bulk_ref },
			bulk_ldk: if junk { 0 } else { bulk_ldk },
			ref_msgs,
			ldk_msgs,
			fault,
			ops,
			cuts,
			acc,
			drain_burst,
		})
		.sboxed()
}

// ---------------------------------------------------------------------------------------------
// the reference's plaintext units
// ---------------------------------------------------------------------------------------------

#[derive(Clone)]
struct Unit {
	plain: Vec<u8>,
	recs: Vec<Rec>,
	junk: bool,
	/// a pong of this many ignored bytes is owed by LDK
	pong: Option<u16>,
}

/// BOLT-1 `init`: type 16, empty globalfeatures, features (big-endian bit field), no TLVs
fn init_plain(features_be: &[u8]) -> Vec<u8> {
	let mut v = vec![0u8, 16, 0, 0];
	v.extend_from_slice(&(features_be.len() as u16).to_be_bytes());
	v.extend_from_slice(features_be);
	v
}

fn junk_plain(j: &Junk, ldk_id: PublicKey) -> Vec<Vec<u8>> {
	match j {
		Junk::Typed { ty, body } => {
			let mut v = (ty % 32768).to_be_bytes().to_vec();
			v.extend_from_slice(body);
			vec![v]
		},
		Junk::Mutated { spec, op, pos, val } => {
			let b = build(spec, ldk_id);
			b.wire
				.into_iter()
				.map(|(mut p, _)| {
					match op % 3 {
						0 => {
							let keep = 2 + pick(*pos, p.len() - 1);
							p.truncate(keep.min(p.len()));
						},
						1 => {
							let extra = (*pos as usize % 40) + 1;
							if p.len() + extra <= 65535 {
								p.extend(std::iter::repeat(*val).take(extra));
							}
						},
						_ => {
							let at = 2 + pick(*pos, p.len() - 2);
							if at < p.len() {
								p[at] = *val;
							}
						},
					}
					p
				})
				.collect()
		},
		Junk::SecondInit => vec![init_plain(&[])],
		Junk::ZeroChanError { len } => {
			// BOLT-1 error: channel_id (all zero = "all channels"), u16 len, data
			let mut v = vec![0u8, 17];
			v.extend_from_slice(&[0u8; 32]);
			v.extend_from_slice(&(*len as u16).to_be_bytes());
			v.extend(std::iter::repeat(b'x').take(*len as usize));
			vec![v]
		},
		Junk::Short { len } => vec![vec![0u8; (*len % 2) as usize]],
		Junk::StartBatch { size, with_type } => {
			let mut v = vec![0u8, 127];
			v.extend_from_slice(&[7u8; 32]);
			v.extend_from_slice(&size.to_be_bytes());
			if *with_type {
				v.extend_from_slice(&[1, 2, 0, 132]);
			}
			vec![v]
		},
	}
}

fn ref_units(c: &Case, ldk_id: PublicKey, junk_mode: bool) -> Vec<Unit> {
	let mut feats = c.init_features.clone();
	if let Fault::EvenFeature { bit } = &c.fault {
		// feature bit 2*bit (even = "required"): LDK offers no features, so it is unknown to it
		let b = 2 * (*bit as usize);
		let need = b / 8 + 1;
		while feats.len() < need {
			feats.insert(0, 0);
		}
		let l = feats.len();
		feats[l - 1 - b / 8] |= 1 << (b % 8);
	}
	let mut units = vec![Unit { plain: init_plain(&feats), recs: vec![], junk: false, pong: None }];
	let push_spec = |units: &mut Vec<Unit>, s: &MsgSpec| {
		for (plain, recs) in build(s, ldk_id).wire {
			units.push(Unit { plain, recs, junk: false, pong: None });
		}
	};
	for i in 0..c.bulk_ref as usize {
		push_spec(&mut units, &bulk_spec(i));
	}
	for m in c.ref_msgs.iter() {
		match m {
			RefMsg::Spec(s) => push_spec(&mut units, s),
			RefMsg::UnknownOdd { ty, size } => {
				let mut v = (ty | 1).to_be_bytes().to_vec();
				v.extend((0..*size as usize).map(|i| i as u8));
				units.push(Unit { plain: v, recs: vec![], junk: false, pong: None });
			},
			RefMsg::Ping { ponglen, byteslen } => {
				// BOLT-1 ping: num_pong_bytes, byteslen, ignored
				let mut v = vec![0u8, 18];
				v.extend_from_slice(&ponglen.to_be_bytes());
				v.extend_from_slice(&byteslen.to_be_bytes());
				v.extend(std::iter::repeat(0u8).take(*byteslen as usize));
				// "if num_pong_bytes is less than 65532 MUST respond with a pong with byteslen = num_pong_bytes"
				units.push(Unit { plain: v, recs: vec![], junk: false, pong: if *ponglen < 65532 { Some(*ponglen) } else { None } });
			},
			RefMsg::Junk(j) => {
				if junk_mode {
					for p in junk_plain(j, ldk_id) {
						units.push(Unit { plain: p, recs: vec![], junk: true, pong: None });
					}
				}
			},
		}
	}
	if c.fault == Fault::NonInitFirst {
		// something other than Init goes first (the Init follows)
		if units.len() == 1 {
			push_spec(&mut units, &MsgSpec { kind: Kind::Stfu, size: 0, fill: 1 });
		}
		let init = units.remove(0);
		units.insert(1, init);
	}
	units
}

// ---------------------------------------------------------------------------------------------
// expectations derived from the fault
// ---------------------------------------------------------------------------------------------

#[derive(Debug, Default)]
struct Expect {
	/// stream offset by which an Err is due (the read that feeds byte err_by-1 must fail at the latest)
	err_by: Option<usize>,
	/// an Err from a read that ends at or before this offset is a false disconnect
	err_not_before: usize,
	/// number of leading units whose effects must be visible (all units before the fault)
	deliver_units: usize,
	/// units that were (at least partly) put on the wire: (start, end, index)
	spans: Vec<(usize, usize, usize)>,
	fault_label: &'static str,
	fault_in_header_or_mac: bool,
	/// no Err may ever be returned (authentic, possibly truncated stream)
	never_err: bool,
}

enum Phase {
	/// waiting for LDK's handshake reply of this many bytes
	AwaitAct(usize),
	Transport,
	/// the reference stopped talking (act-level fault): LDK must stay silent
	Dead,
}

struct Run<'c> {
	c: &'c Case,
	node: Node,
	sock: Sock,
	ref_pub: PublicKey,
	ini: Option<Initiator>,
	resp: Option<Responder>,
	units: Vec<Unit>,
	to_ldk: Vec<u8>,
	fed: usize,
	ci: usize,
	read_out: usize,
	phase: Phase,
	rx: Option<Transport>,
	mirror: Option<Transport>,
	pending_len: Option<usize>,
	ldk_plain: Vec<Vec<u8>>,
	err_call: Option<(usize, usize)>,
	expect: Expect,
	ldk_next: usize,
	ldk_script: Vec<MsgSpec>,
	ldk_expected_plain: Vec<Vec<u8>>,
	pending_class: Option<bool>,
	header_splits: u64,
	mac_splits: u64,
	ldk_silent_len: Option<usize>,
}

fn flip(buf: &mut [u8], at: usize, bit: u8) {
	buf[at] ^= 1 << (bit % 8);
}

impl<'c> Run<'c> {
	/// Applies an act-level fault; returns (bytes to send, whether the act is still authentic & complete)
	fn fault_act(&mut self, act: Vec<u8>, is_second: bool, start: usize) -> (Vec<u8>, bool) {
		let applies = |second: &bool| !self.c.ref_initiator || *second == is_second;
		let len = act.len();
		let mut out = act;
		let mut ok = true;
		let mut label = "";
		match &self.c.fault {
			Fault::ActFlip { second, byte, bit } if applies(second) => {
				flip(&mut out, pick(*byte, len), *bit);
				ok = false;
				label = "act-bit-flip";
			},
			Fault::ActVersion { second, v } if applies(second) => {
				out[0] = *v;
				ok = false;
				label = "act-bad-version";
			},
			Fault::ActGarbage { second, bytes } if applies(second) => {
				if bytes[..len] != out[..] {
					out.copy_from_slice(&bytes[..len]);
					ok = false;
					label = "act-garbage";
				}
			},
			Fault::ActTruncate { second, keep } if applies(second) => {
				out.truncate(pick(*keep, len));
				self.expect.fault_label = "act-truncated";
				self.expect.never_err = true;
				self.expect.deliver_units = 0;
				return (out, false);
			},
			_ => {},
		}
		if !ok {
			self.expect.err_by = Some(start + len);
			self.expect.err_not_before = start;
			self.expect.deliver_units = 0;
			self.expect.fault_label = label;
			self.expect.fault_in_header_or_mac = true;
		}
		(out, ok)
	}

	/// Encrypts the reference's units with `tx`, applying a transport-level fault, and appends
	/// the result to the outgoing stream.
	fn emit_transport(&mut self, mut tx: Transport) {
		let n = self.units.len();
		let fault = self.c.fault.clone();
		// resolve the faulted unit index
		let k = match &fault {
			Fault::MsgFlip { idx, .. } | Fault::MsgTruncate { idx, .. } | Fault::WrongKey { idx } => Some(pick(*idx, n)),
			Fault::Replay { idx, .. } => {
				if n >= 2 {
					Some(1 + pick(*idx, n - 1))
				} else {
					None
				}
			},
			Fault::Swap { idx } | Fault::Drop { idx } => {
				if n >= 2 {
					Some(pick(*idx, n - 1))
				} else {
					None
				}
			},
			Fault::NonInitFirst | Fault::EvenFeature { .. } => Some(0),
			_ => None,
		};
		self.expect.deliver_units = n;
		if !matches!(fault, Fault::None | Fault::ActFlip { .. } | Fault::ActVersion { .. } | Fault::ActGarbage { .. } | Fault::ActTruncate { .. }) && k.is_none() {
			// not applicable to this short stream: behaves as no fault
			self.expect.fault_label = "fault-not-applicable";
		}
		let mut encs: Vec<Vec<u8>> = vec![];
		let mut i = 0;
		while i < n {
			let start = self.to_ldk.len();
			let plain = self.units[i].plain.clone();
			if Some(i) != k {
				let e = tx.encrypt(&plain);
				self.to_ldk.extend_from_slice(&e);
				self.expect.spans.push((start, start + e.len(), i));
				encs.push(e);
				i += 1;
				continue;
			}
			self.expect.deliver_units = i;
			self.expect.err_not_before = start;
			match &fault {
				Fault::MsgFlip { region, off, bit, .. } => {
					let mut e = tx.encrypt(&plain);
					let (lo, hi) = match region {
						Region::HeaderCt => (0, 2),
						Region::HeaderMac => (2, 18),
						Region::Body => (18, e.len() - 16),
						Region::BodyMac => (e.len() - 16, e.len()),
					};
					if hi > lo {
						flip(&mut e, lo + pick(*off, hi - lo), *bit);
					} else {
						// zero-length body (0/1-byte junk plaintexts are not used with faults): flip the MAC instead
						let l = e.len();
						flip(&mut e, l - 1, *bit);
					}
					self.expect.err_by = Some(if matches!(region, Region::HeaderCt | Region::HeaderMac) { start + 18 } else { start + e.len() });
					self.expect.fault_label = match region {
						Region::HeaderCt => "flip-length-ciphertext",
						Region::HeaderMac => "flip-length-mac",
						Region::Body => "flip-body",
						Region::BodyMac => "flip-body-mac",
					};
					self.expect.fault_in_header_or_mac = !matches!(region, Region::Body);
					self.to_ldk.extend_from_slice(&e);
					self.expect.spans.push((start, start + e.len(), i));
					encs.push(e);
				},
				Fault::MsgTruncate { keep, .. } => {
					let e = tx.encrypt(&plain);
					let keep = pick(*keep, e.len());
					self.to_ldk.extend_from_slice(&e[..keep]);
					self.expect.spans.push((start, start + keep, i));
					self.expect.fault_label = "unit-truncated";
					self.expect.fault_in_header_or_mac = keep < 18 || keep > e.len() - 16;
					self.expect.never_err = true;
					return; // the reference falls silent
				},
				Fault::WrongKey { .. } => {
					// an attacker without the session key: same nonces, different key
					let mut other = tx.clone();
					other.sk[0] ^= 1;
					let e = other.encrypt(&plain);
					let _ = tx.encrypt(&plain);
					self.expect.err_by = Some(start + 18);
					self.expect.fault_label = "unauthenticated-unit";
					self.expect.fault_in_header_or_mac = true;
					self.to_ldk.extend_from_slice(&e);
					self.expect.spans.push((start, start + e.len(), i));
					encs.push(e);
				},
				Fault::Replay { earlier, .. } => {
					// an earlier authentic unit is injected again before unit i
					let j = pick(*earlier, i);
					let e = encs[j].clone();
					self.expect.err_by = Some(start + 18);
					self.expect.fault_label = "replayed-unit";
					self.expect.fault_in_header_or_mac = true;
					self.to_ldk.extend_from_slice(&e);
					self.expect.spans.push((start, start + e.len(), usize::MAX));
					let s2 = self.to_ldk.len();
					let e2 = tx.encrypt(&plain);
					self.to_ldk.extend_from_slice(&e2);
					self.expect.spans.push((s2, s2 + e2.len(), i));
					encs.push(e2);
				},
				Fault::Swap { .. } => {
					let e1 = tx.encrypt(&plain);
					let e2 = tx.encrypt(&self.units[i + 1].plain.clone());
					self.expect.err_by = Some(start + 18);
					self.expect.fault_label = "swapped-units";
					self.expect.fault_in_header_or_mac = true;
					self.to_ldk.extend_from_slice(&e2);
					self.expect.spans.push((start, start + e2.len(), i + 1));
					let s2 = self.to_ldk.len();
					self.to_ldk.extend_from_slice(&e1);
					self.expect.spans.push((s2, s2 + e1.len(), i));
					encs.push(e1);
					encs.push(e2);
					i += 1;
				},
				Fault::Drop { .. } => {
					let e = tx.encrypt(&plain);
					encs.push(e);
					// unit i never travels; the next one arrives under the wrong nonce
					self.expect.err_by = Some(start + 18);
					self.expect.fault_label = "dropped-unit";
					self.expect.fault_in_header_or_mac = true;
				},
				Fault::NonInitFirst => {
					let e = tx.encrypt(&plain);
					self.expect.err_by = Some(start + e.len());
					self.expect.fault_label = "non-init-first";
					self.to_ldk.extend_from_slice(&e);
					self.expect.spans.push((start, start + e.len(), i));
					encs.push(e);
				},
				Fault::EvenFeature { .. } => {
					let e = tx.encrypt(&plain);
					self.expect.err_by = Some(start + e.len());
					self.expect.fault_label = "init-unknown-even-feature";
					self.to_ldk.extend_from_slice(&e);
					self.expect.spans.push((start, start + e.len(), i));
					encs.push(e);
				},
				_ => unreachable!(),
			}
			i += 1;
		}
	}

	/// The reference reads what LDK wrote so far.
	fn poll(&mut self) -> CaseResult {
		loop {
			let st = self.sock.st.lock().unwrap();
			let avail = &st.out[self.read_out..];
			match self.phase {
				Phase::Dead => return Ok(()),
				Phase::AwaitAct(n) => {
					if avail.len() < n {
						return Ok(());
					}
					let act = avail[..n].to_vec();
					drop(st);
					self.read_out += n;
					if self.c.ref_initiator {
						// act two from LDK (responder)
						let (act3, t) = match self.ini.as_mut().unwrap().act_two_three(&act) {
							Ok(x) => x,
							Err(e) => return Err(Failure::new("ldk-act-two", format!("LDK's act two does not authenticate under the reference: {:?}", e))),
						};
						let start = self.to_ldk.len();
						let (bytes, ok) = self.fault_act(act3, true, start);
						self.to_ldk.extend_from_slice(&bytes);
						if ok {
							self.mirror = Some(t.mirror());
							self.rx = Some(t.clone());
							self.emit_transport(t);
							self.phase = Phase::Transport;
						} else {
							// LDK must not talk to an unauthenticated initiator: nothing after its act two
							self.ldk_silent_len = Some(self.read_out);
							self.phase = Phase::Dead;
						}
					} else {
						// act three from LDK (initiator)
						let (their, t) = match self.resp.as_mut().unwrap().act_three(&act) {
							Ok(x) => x,
							Err(e) => return Err(Failure::new("ldk-act-three", format!("LDK's act three does not authenticate under the reference: {:?}", e))),
						};
						vensure!(their == self.node.node_id, "ldk-act-three", "act three carries static key {} but LDK's node id is {}", their, self.node.node_id);
						self.mirror = Some(t.mirror());
						self.rx = Some(t.clone());
						self.emit_transport(t);
						self.phase = Phase::Transport;
					}
				},
				Phase::Transport => {
					let need = self.pending_len.map(|l| l + 16).unwrap_or(18);
					if avail.len() < need {
						return Ok(());
					}
					let piece = avail[..need].to_vec();
					drop(st);
					let at = self.read_out;
					self.read_out += need;
					let rx = self.rx.as_mut().unwrap();
					match self.pending_len {
						None => {
							// (a)/(f): LDK's sending key and nonce must be the reference's receiving ones
							let l = rx.decrypt_len(&piece).ok_or_else(|| Failure::new("ldk-ciphertext", format!("length header of LDK unit {} (stream offset {}) does not verify under the reference's receive key", self.ldk_plain.len(), at)))?;
							self.pending_len = Some(l as usize);
						},
						Some(_) => {
							let p = rx.decrypt_body(&piece).ok_or_else(|| Failure::new("ldk-ciphertext", format!("body of LDK unit {} (stream offset {}) does not verify under the reference's receive key", self.ldk_plain.len(), at)))?;
							// (f) deterministic cipher: re-encrypting the plaintext under the mirrored state gives LDK's bytes
							let again = self.mirror.as_mut().unwrap().encrypt(&p);
							let st = self.sock.st.lock().unwrap();
							let raw = &st.out[at - 18..at + need];
							vensure!(again[..] == raw[..], "ciphertext-differential", "LDK unit {} ({} plaintext bytes) differs from the reference's encryption under the same key and nonce", self.ldk_plain.len(), p.len());
							drop(st);
							self.pending_len = None;
							self.ldk_plain.push(p);
						},
					}
				},
			}
		}
	}

	fn queue_ldk(&mut self, mut n: usize) -> usize {
		let mut done = 0;
		while n > 0 && self.ldk_next < self.ldk_script.len() && self.err_call.is_none() {
			if self.node.pm.peer_by_node_id(&self.ref_pub).is_none() {
				break;
			}
			let built = build(&self.ldk_script[self.ldk_next], self.ref_pub);
			let class = matches!(built.queue, Queued::Custom(_));
			if let Some(c) = self.pending_class {
				if c != class {
					self.node.pm.process_events();
				}
			}
			self.pending_class = Some(class);
			for (p, _) in built.wire.iter() {
				self.ldk_expected_plain.push(p.clone());
			}
			self.node.queue(built.queue, self.ref_pub);
			self.ldk_next += 1;
			n -= 1;
			done += 1;
		}
		done
	}

	fn events(&mut self) {
		self.node.pm.process_events();
		self.pending_class = None;
	}

	fn write_avail(&mut self, spurious: bool) -> CaseResult {
		if self.err_call.is_some() {
			return Ok(()); // no calls for a descriptor after an Err
		}
		let need = {
			let mut st = self.sock.st.lock().unwrap();
			let n = st.needs_write_avail;
			st.needs_write_avail = false;
			n
		};
		if need || spurious {
			let r = self.node.pm.write_buffer_space_avail(&mut self.sock);
			vensure!(r.is_ok(), "write-avail-err", "write_buffer_space_avail returned Err on a live connection");
		}
		Ok(())
	}

	fn feed(&mut self, chunks: usize) -> usize {
		let mut moved = 0;
		for _ in 0..chunks {
			if self.err_call.is_some() || self.fed >= self.to_ldk.len() {
				break;
			}
			{
				let st = self.sock.st.lock().unwrap();
				if st.paused || st.disconnected {
					break;
				}
			}
			let c = (self.c.cuts[self.ci % self.c.cuts.len()] as usize).max(1).min(self.to_ldk.len() - self.fed);
			self.ci += 1;
			let e = self.fed + c;
			if e < self.to_ldk.len() {
				for (s, en, _) in self.expect.spans.iter() {
					if e > *s && e < *en {
						self.header_splits += (e - s < 18) as u64;
						self.mac_splits += (en - e < 16) as u64;
					}
				}
			}
			let chunk = self.to_ldk[self.fed..e].to_vec();
			let r = self.node.pm.read_event(&mut self.sock, &chunk);
			let prev = self.fed;
			self.fed = e;
			moved += c;
			if r.is_err() {
				self.err_call = Some((prev, e));
			}
		}
		moved
	}
}

fn type_of(p: &[u8]) -> Option<u16> {
	if p.len() >= 2 {
		Some(u16::from_be_bytes([p[0], p[1]]))
	} else {
		None
	}
}

pub fn oracle(c: &Case, ctx: &mut Ctx, junk_mode: bool) -> CaseResult {
	let node = make_node(c.ldk_key, c.ldk_eph);
	let secp = Secp256k1::signing_only();
	let ref_secret = secret_from_seed(0x31, c.ref_key);
	let ref_pub = PublicKey::from_secret_key(&secp, &ref_secret);
	let ref_eph = secret_from_seed(0x41, c.ref_eph);
	let sock = Sock::new(7, c.acc.clone());
	let units = ref_units(c, node.node_id, junk_mode);
	let mut ldk_script: Vec<MsgSpec> = (0..c.bulk_ldk as usize).map(bulk_spec).collect();
	ldk_script.extend(c.ldk_msgs.iter().cloned());

	let mut run = Run {
		c,
		ref_pub,
		ini: None,
		resp: None,
		units,
		to_ldk: vec![],
		fed: 0,
		ci: 0,
		read_out: 0,
		phase: Phase::Dead,
		rx: None,
		mirror: None,
		pending_len: None,
		ldk_plain: vec![],
		err_call: None,
		expect: Expect::default(),
		ldk_next: 0,
		ldk_script,
		ldk_expected_plain: vec![],
		pending_class: None,
		header_splits: 0,
		mac_splits: 0,
		ldk_silent_len: None,
		sock,
		node,
	};
	run.expect.deliver_units = run.units.len();

	if c.ref_initiator {
		run.node.pm.new_inbound_connection(run.sock.clone(), None).map_err(|_| Failure::new("connect", "new_inbound_connection failed"))?;
		let mut ini = Initiator::new(ref_secret, ref_eph, run.node.node_id);
		let act1 = ini.act_one();
		run.ini = Some(ini);
		let (bytes, ok) = run.fault_act(act1, false, 0);
		run.to_ldk.extend_from_slice(&bytes);
		if ok {
			run.phase = Phase::AwaitAct(50);
		} else {
			run.ldk_silent_len = Some(0);
		}
	} else {
		let act1 = run.node.pm.new_outbound_connection(ref_pub, run.sock.clone(), None).map_err(|_| Failure::new("connect", "new_outbound_connection failed"))?;
		let mut resp = Responder::new(ref_secret, ref_eph);
		// (a) LDK's act one must authenticate against the reference's static key
		let act2 = resp.act_one_two(&act1).map_err(|e| Failure::new("ldk-act-one", format!("LDK's act one does not authenticate under the reference: {:?}", e)))?;
		run.resp = Some(resp);
		let (bytes, ok) = run.fault_act(act2, false, 0);
		run.to_ldk.extend_from_slice(&bytes);
		if ok {
			run.phase = Phase::AwaitAct(66);
		} else {
			run.ldk_silent_len = Some(0);
		}
	}

	for op in c.ops.iter() {
		match op {
			Op::Feed(n) => {
				run.feed(*n as usize);
			},
			Op::Events => {
				run.events();
				run.poll()?;
			},
			Op::WriteAvail { spurious } => {
				run.write_avail(*spurious)?;
				run.poll()?;
			},
			Op::QueueLdk(n) => {
				run.queue_ldk(*n as usize);
			},
		}
	}
	// drain
	run.sock.st.lock().unwrap().unlimited = true;
	let burst = c.drain_burst.max(1) as usize;
	loop {
		let mut progress = run.queue_ldk(usize::MAX) > 0;
		let out_before = run.sock.st.lock().unwrap().out.len();
		run.events();
		run.write_avail(false)?;
		run.poll()?;
		progress |= run.feed(burst) > 0;
		run.events();
		run.poll()?;
		progress |= run.sock.st.lock().unwrap().out.len() != out_before;
		if !progress {
			break;
		}
	}
	let truncated = run.expect.never_err && run.expect.fault_label != "";
	// the reference hangs up at the end; LDK is told unless it already dropped the peer
	if run.err_call.is_none() {
		run.node.pm.socket_disconnected(&run.sock);
	}

	// ------------------------------------------------------------------------------------
	// oracles
	// ------------------------------------------------------------------------------------
	let log: Vec<Rec> = run.node.log.lock().unwrap().clone();
	let got: Vec<Rec> = run.node.delivered();
	let st = run.sock.st.lock().unwrap();
	let (paused, partials, pauses, out_len) = (st.paused, st.partial_writes, st.pauses, st.out.len());
	drop(st);
	let stuck = run.err_call.is_none() && run.fed < run.to_ldk.len();
	vensure!(!stuck, "stuck", "no quiescence: {} of {} reference bytes fed, LDK read-paused={}", run.fed, run.to_ldk.len(), paused);

	// (d) nothing reaches a handler before peer_connected
	if let Some(first) = log.first() {
		vensure!(matches!(first, Rec::Connected), "before-init", "first handler call is {} instead of peer_connected", short(first));
	}
	let connected = log.iter().any(|r| matches!(r, Rec::Connected));
	let disconnected = log.iter().filter(|r| matches!(r, Rec::Disconnected)).count();
	vensure!(disconnected == connected as usize, "notify", "peer_connected called: {}, peer_disconnected calls after hang-up / drop: {}", connected, disconnected);
	vensure!(run.node.pm.list_peers().is_empty(), "notify", "peer still listed after the connection ended");

	if junk_mode {
		// customs delivered must be exactly those preceding the junk unit that made LDK drop the peer
		let customs_before = |upto: usize| -> Vec<Rec> { run.units[..upto].iter().flat_map(|u| u.recs.iter().cloned()).collect() };
		let got_custom: Vec<Rec> = got.iter().filter(|r| matches!(r, Rec::Custom(..))).cloned().collect();
		match run.err_call {
			None => {
				let all = customs_before(run.units.len());
				vensure!(got_custom == all, "junk-sequence", "no error was raised but {} of {} custom messages were delivered", got_custom.len(), all.len());
			},
			Some((prev, end)) => {
				// the failing unit completed (header or body) inside the failing read
				// (a junk start_batch may leave a batch open, after which any other message is a
				// protocol violation by the peer: units following one count as junk here)
				let mut tainted = vec![false; run.units.len()];
				let mut t = false;
				for (i, u) in run.units.iter().enumerate() {
					tainted[i] = t;
					t |= u.junk && type_of(&u.plain) == Some(127);
				}
				let mut candidates = vec![];
				for (s, e, i) in run.expect.spans.iter() {
					let inside = |x: usize| x > prev && x <= end;
					if (run.units[*i].junk || tainted[*i]) && (inside(*s + 18) || inside(*e)) {
						candidates.push(*i);
					}
				}
				vensure!(!candidates.is_empty(), "false-disconnect", "read_event failed in the read covering stream bytes {}..{} where no junk unit completes", prev, end);
				let okc = candidates.iter().any(|i| customs_before(*i) == got_custom);
				vensure!(okc, "junk-sequence", "after the drop at bytes {}..{} the {} delivered custom messages match no candidate junk unit {:?}", prev, end, got_custom.len(), candidates);
			},
		}
		let junk_consumed = run.expect.spans.iter().filter(|(_, e, i)| run.units[*i].junk && *e <= run.fed).count();
		// LDK -> reference: custom messages in order (prefix if the peer was dropped)
		let got_ldk: Vec<&Vec<u8>> = run.ldk_plain.iter().filter(|p| type_of(p).map(|t| t >= 32768).unwrap_or(false)).collect();
		let exp_ldk: Vec<&Vec<u8>> = run.ldk_expected_plain.iter().collect();
		vensure!(got_ldk.len() <= exp_ldk.len() && got_ldk[..] == exp_ldk[..got_ldk.len()], "ldk-to-ref-sequence", "custom messages from LDK are not a prefix of what was queued ({} received, {} queued)", got_ldk.len(), exp_ldk.len());
		if run.err_call.is_none() {
			vensure!(got_ldk.len() == exp_ldk.len() && run.ldk_next == run.ldk_script.len(), "ldk-to-ref-sequence", "{} of {} queued custom messages arrived", got_ldk.len(), exp_ldk.len());
		}
		ctx.label_if(run.err_call.is_some(), "junk-dropped-peer");
		ctx.label_if(run.err_call.is_none() && junk_consumed > 0, "junk-survived");
		ctx.label_if(connected, "connected");
		ctx.sub_evaluations(junk_consumed as u64);
		ctx.nontrivial_if(junk_consumed > 0);
		return Ok(());
	}

	// --- (c) the fault is detected in time, and not before ---
	let e = &run.expect;
	match (e.err_by, run.err_call) {
		(None, Some((prev, end))) => {
			return Err(Failure::new("false-disconnect", format!("read_event failed (read of bytes {}..{}) on an authentic {} stream", prev, end, if truncated { "truncated" } else { "complete" })).with_key("false-disconnect"));
		},
		(Some(by), None) => {
			if run.fed >= by {
				return Err(Failure::new("tamper-accepted", format!("{}: all {} bytes were fed (error due by offset {}) and read_event never failed; handlers saw {} messages (units before the fault carry {})", e.fault_label, run.fed, by, got.len(), e.deliver_units))
					.with_key(format!("tamper-accepted/{}", e.fault_label)));
			}
		},
		(Some(by), Some((prev, end))) => {
			vensure!(end > e.err_not_before, "false-disconnect", "{}: read_event failed in the read of bytes {}..{}, before the faulty unit starts at {}", e.fault_label, prev, end, e.err_not_before);
			if prev >= by {
				return Err(Failure::new("tamper-late", format!("{}: error due by offset {} but raised only by the read of bytes {}..{}", e.fault_label, by, prev, end)).with_key(format!("tamper-late/{}", e.fault_label)));
			}
		},
		(None, None) => {},
	}
	// --- (b)/(c) exactly the units before the fault were delivered ---
	let expected: Vec<Rec> = run.units[..e.deliver_units].iter().flat_map(|u| u.recs.iter().cloned()).collect();
	if got != expected {
		let n = got.len().min(expected.len());
		let at = (0..n).find(|i| got[*i] != expected[*i]).unwrap_or(n);
		let what = if got.len() > expected.len() && at == expected.len() { "delivered-after-fault" } else { "sequence" };
		return Err(Failure::new(
			what,
			format!("{}: handlers saw {} messages, expected exactly the {} carried by units before the fault; first difference at {}: expected {:?}, got {:?}", if e.fault_label.is_empty() { "no fault" } else { e.fault_label }, got.len(), expected.len(), at, expected.get(at).map(short), got.get(at).map(short)),
		)
		.with_key(format!("{}/{}", what, e.fault_label)));
	}
	// --- (d) peer_connected iff a valid Init was processed ---
	let init_ok = match &c.fault {
		Fault::NonInitFirst | Fault::EvenFeature { .. } => false,
		_ => e.deliver_units >= 1 && matches!(run.phase, Phase::Transport) && run.expect.spans.iter().any(|(_, en, i)| *i == 0 && *en <= run.fed),
	};
	vensure!(connected == init_ok, "init-gate", "{}: peer_connected called = {}, but a valid Init was {}", e.fault_label, connected, if init_ok { "delivered" } else { "never delivered" });

	// --- LDK -> reference direction ---
	if let Some(l) = run.ldk_silent_len {
		vensure!(out_len == l, "talks-to-unauthenticated", "{}: LDK wrote {} bytes although the handshake act was not authentic (allowed: {})", e.fault_label, out_len, l);
	}
	if let Some(first) = run.ldk_plain.first() {
		vensure!(type_of(first) == Some(16), "ldk-first-not-init", "LDK's first transport message has type {:?}, not init", type_of(first));
	}
	let mut got_pongs = vec![];
	let mut got_msgs: Vec<&Vec<u8>> = vec![];
	for p in run.ldk_plain.iter().skip(1) {
		match type_of(p) {
			Some(18) => {},
			Some(19) => got_pongs.push(p.clone()),
			_ => got_msgs.push(p),
		}
	}
	let exp_msgs: Vec<&Vec<u8>> = run.ldk_expected_plain.iter().collect();
	let clean = run.err_call.is_none() && !truncated && e.err_by.is_none();
	vensure!(got_msgs.len() <= exp_msgs.len() && got_msgs[..] == exp_msgs[..got_msgs.len()], "ldk-to-ref-sequence", "messages decrypted from LDK are not a prefix of what was queued: {} received, {} queued", got_msgs.len(), exp_msgs.len());
	// pongs: one per ping with num_pong_bytes < 65532 among the delivered units, in order
	let exp_pongs: Vec<Vec<u8>> = run.units[..e.deliver_units]
		.iter()
		.filter_map(|u| u.pong)
		.map(|n| {
			let mut v = vec![0u8, 19];
			v.extend_from_slice(&n.to_be_bytes());
			v.extend(std::iter::repeat(0u8).take(n as usize));
			v
		})
		.collect();
	vensure!(got_pongs.len() <= exp_pongs.len() && got_pongs[..] == exp_pongs[..got_pongs.len()], "pong", "pongs from LDK ({}) are not a prefix of the pongs owed ({})", got_pongs.len(), exp_pongs.len());
	if clean {
		vensure!(matches!(run.phase, Phase::Transport), "handshake", "authentic handshake did not complete");
		vensure!(run.ldk_next == run.ldk_script.len() && got_msgs.len() == exp_msgs.len(), "ldk-to-ref-sequence", "{} of {} queued messages arrived at the reference ({} handed to LDK)", got_msgs.len(), exp_msgs.len(), run.ldk_next);
		vensure!(got_pongs.len() == exp_pongs.len(), "pong", "{} of {} pongs arrived", got_pongs.len(), exp_pongs.len());
		vensure!(run.read_out == out_len, "ldk-trailing-bytes", "{} bytes written by LDK do not form a complete unit", out_len - run.read_out);
	}

	// ------------------------------------------------------------------------------------
	// classification
	// ------------------------------------------------------------------------------------
	ctx.label(if c.ref_initiator { "reference-initiator" } else { "reference-responder" });
	ctx.label(if e.fault_label.is_empty() { "fault:none" } else { e.fault_label });
	ctx.label_if(run.err_call.is_some(), "dropped-by-read-error");
	ctx.label_if(connected, "init-exchanged");
	ctx.label_if(run.header_splits > 0, "cut-inside-length-header");
	ctx.label_if(run.mac_splits > 0, "cut-inside-mac");
	ctx.label_if(partials > 0, "write-refused-or-partial");
	ctx.label_if(pauses > 0, "read-paused-by-ldk");
	let rot_ref = run.expect.spans.iter().filter(|(_, en, _)| *en <= run.fed).count() / 500;
	let rot_ldk = run.ldk_plain.len() / 500;
	ctx.label_if(rot_ref >= 1, "rotation-ref-to-ldk>=1");
	ctx.label_if(rot_ldk >= 1, "rotation-ldk-to-ref>=1");
	ctx.label_if(rot_ref >= 3 || rot_ldk >= 3, "rotation>=3");
	ctx.label_if(e.deliver_units > 1 && e.err_by.is_some(), "fault-after-delivered-messages");
	ctx.label_if(!got_pongs.is_empty(), "pong-checked");
	ctx.sub_evaluations((got.len() + run.ldk_plain.len()) as u64);
	ctx.nontrivial_if(e.fault_in_header_or_mac || run.header_splits > 0 || run.mac_splits > 0 || partials > 0 || pauses > 0 || rot_ref >= 1 || rot_ldk >= 1);
	ctx.summary(serde_json::json!({
		"role": if c.ref_initiator { "reference initiator" } else { "reference responder" }, "fault": format!("{:?}", c.fault), "fault_label": e.fault_label,
		"ref_units": run.units.len(), "ref_bytes": run.to_ldk.len(), "fed": run.fed, "err_call": run.err_call, "err_by": e.err_by,
		"delivered": got.len(), "ldk_units_decrypted": run.ldk_plain.len(), "cuts": c.cuts, "acc": c.acc,
	}));
	Ok(())
}

// ---------------------------------------------------------------------------------------------
// raw bytes instead of a handshake
// ---------------------------------------------------------------------------------------------

#[derive(Clone, Debug, Serialize, Deserialize)]
pub struct RawCase {
	pub outbound: bool,
	pub ldk_key: u8,
	pub ldk_eph: u8,
	pub ref_key: u8,
	/// start from a valid act (one / two) of the reference and overwrite bytes, or pure bytes
	pub from_valid_act: bool,
	pub overwrite: Vec<(u8, u8)>,
	pub bytes: Vec<u8>,
	pub cuts: Vec<u16>,
}

pub fn raw_strat() -> impl Strategy<Value = RawCase> + Clone + Send + Sync + 'static {
	(
		any::<bool>(),
		any::<u8>(),
		any::<u8>(),
		any::<u8>(),
		prop::bool::weighted(0.6),
		prop::collection::vec((0u8..50, any::<u8>()), 0..3),
		prop::collection::vec(any::<u8>(), 0..260),
		prop::collection::vec(cut_strat(), 1..5),
	)
		.prop_map(|(outbound, ldk_key, ldk_eph, ref_key, from_valid_act, overwrite, bytes, cuts)| RawCase { outbound, ldk_key, ldk_eph, ref_key, from_valid_act, overwrite, bytes, cuts })
		.sboxed()
}

pub fn raw_oracle(c: &RawCase, ctx: &mut Ctx) -> CaseResult {
	let node = make_node(c.ldk_key, c.ldk_eph);
	let secp = Secp256k1::signing_only();
	let ref_secret = secret_from_seed(0x31, c.ref_key);
	let ref_pub = PublicKey::from_secret_key(&secp, &ref_secret);
	let mut sock = Sock::new(9, vec![]);
	let mut stream: Vec<u8> = vec![];
	let mut valid_first_act = false;
	if c.outbound {
		let act1 = node.pm.new_outbound_connection(ref_pub, sock.clone(), None).map_err(|_| Failure::new("connect", "new_outbound_connection failed"))?;
		if c.from_valid_act {
			let mut resp = Responder::new(ref_secret, secret_from_seed(0x41, c.ref_key));
			let mut act2 = resp.act_one_two(&act1).map_err(|e| Failure::new("ldk-act-one", format!("LDK's act one does not authenticate: {:?}", e)))?;
			let orig = act2.clone();
			for (p, v) in c.overwrite.iter() {
				act2[*p as usize % 50] = *v;
			}
			valid_first_act = act2 == orig;
			stream.extend_from_slice(&act2);
		}
	} else {
		node.pm.new_inbound_connection(sock.clone(), None).map_err(|_| Failure::new("connect", "new_inbound_connection failed"))?;
		if c.from_valid_act {
			let mut ini = Initiator::new(ref_secret, secret_from_seed(0x41, c.ref_key), node.node_id);
			let mut act1 = ini.act_one();
			let orig = act1.clone();
			for (p, v) in c.overwrite.iter() {
				act1[*p as usize % 50] = *v;
			}
			valid_first_act = act1 == orig;
			stream.extend_from_slice(&act1);
		}
	}
	stream.extend_from_slice(&c.bytes);
	// where an implementation must have given up: a forged first act at 50 bytes; after a valid
	// first act the garbage that follows is an act three (66) resp. a length header (18)
	let must_err_by = if !valid_first_act { 50 } else if c.outbound { 50 + 18 } else { 50 + 66 };
	let mut fed = 0;
	let mut ci = 0;
	let mut err_at = None;
	while fed < stream.len() {
		let n = (c.cuts[ci % c.cuts.len()] as usize).max(1).min(stream.len() - fed);
		ci += 1;
		let r = node.pm.read_event(&mut sock, &stream[fed..fed + n]);
		fed += n;
		if r.is_err() {
			err_at = Some(fed);
			break;
		}
		node.pm.process_events();
	}
	if err_at.is_none() {
		node.pm.process_events();
		node.pm.socket_disconnected(&sock);
	}
	let log = node.log.lock().unwrap();
	vensure!(log.is_empty(), "unauthenticated-processed", "handlers were called ({}) for a byte string that cannot authenticate", log.iter().map(short).collect::<Vec<_>>().join(", "));
	vensure!(node.pm.list_peers().is_empty(), "unauthenticated-processed", "a peer is listed after garbage input");
	if stream.len() >= must_err_by {
		match err_at {
			None => return Err(Failure::new("garbage-accepted", format!("{} bytes fed (forgery detectable at byte {}) and read_event never failed", fed, must_err_by)).with_key("garbage-accepted")),
			Some(at) => {
				let min_ok = if valid_first_act { 51 } else { 50 };
				vensure!(at >= min_ok, "false-disconnect", "read_event failed after only {} bytes", at);
			},
		}
	} else {
		vensure!(err_at.is_none(), "false-disconnect", "read_event failed after {} bytes although no complete unit had arrived (first check possible at {})", err_at.unwrap_or(0), must_err_by);
	}
	let out = sock.st.lock().unwrap().out.len();
	if !valid_first_act {
		vensure!(out == 0, "talks-to-unauthenticated", "LDK wrote {} bytes in reply to a forged first act", out);
	}
	ctx.label(if c.outbound { "outbound" } else { "inbound" });
	ctx.label_if(valid_first_act, "valid-first-act-then-garbage");
	ctx.label_if(err_at.is_some(), "rejected");
	ctx.label_if(stream.len() < 50, "shorter-than-an-act");
	ctx.nontrivial_if(stream.len() >= 50);
	Ok(())
}
