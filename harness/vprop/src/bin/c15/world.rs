//! The in-memory world around a `PeerManager`: socket descriptor with scripted back-pressure,
//! recording message handlers, a silent logger and the builders that turn a generated message
//! spec into (what to queue, what travels on the wire, what the far handler must observe).

use bitcoin::constants::ChainHash;
use bitcoin::hashes::Hash;
use bitcoin::script::ScriptBuf;
use bitcoin::secp256k1::ecdsa::Signature;
use bitcoin::secp256k1::{Message, PublicKey, Secp256k1, SecretKey};
use lightning::ln::msgs::{self, BaseMessageHandler, ChannelMessageHandler, Init, LightningError, MessageSendEvent};
use lightning::ln::peer_handler::{CustomMessageHandler, IgnoringMessageHandler, MessageHandler, PeerManager, SocketDescriptor};
use lightning::ln::types::ChannelId;
use lightning::ln::wire::{CustomMessageReader, Type};
use lightning::types::features::{InitFeatures, NodeFeatures};
use lightning::types::payment::PaymentPreimage;
use lightning::util::logger::{Logger, Record};
use lightning::util::ser::{LengthLimitedRead, Writeable, Writer};
use lightning::util::test_utils::TestNodeSigner;
use serde::{Deserialize, Serialize};
use std::hash::{Hash as StdHash, Hasher};
use std::sync::{Arc, Mutex};

pub struct NullLogger;
impl Logger for NullLogger {
	fn log(&self, _record: Record) {}
}

// ---------------------------------------------------------------------------------------------
// socket descriptor
// ---------------------------------------------------------------------------------------------

#[derive(Default)]
pub struct SockState {
	/// every byte LDK managed to write, in order (the wire towards the far end)
	pub out: Vec<u8>,
	/// offsets in `out` where a fresh `send_data` buffer (= one encrypted unit or handshake act)
	/// started; used only for classification of read cuts
	pub unit_starts: Vec<usize>,
	/// bytes of the last buffer that were refused (a continuation is expected next)
	pending_rest: usize,
	/// cyclic per-call acceptance budgets; 0 refuses the write
	pub budgets: Vec<u16>,
	bi: usize,
	/// accept everything (drain phase)
	pub unlimited: bool,
	/// last `continue_read` flag was false: the driver must not call `read_event`
	pub paused: bool,
	/// the last write was partial: the driver owes a `write_buffer_space_avail`
	pub needs_write_avail: bool,
	pub disconnected: bool,
	pub partial_writes: u64,
	pub pauses: u64,
}

/// `SocketDescriptor` over shared state; equality / hash by id as the trait requires.
#[derive(Clone)]
pub struct Sock {
	pub id: u64,
	pub st: Arc<Mutex<SockState>>,
}
impl PartialEq for Sock {
	fn eq(&self, o: &Sock) -> bool {
		self.id == o.id
	}
}
impl Eq for Sock {}
impl StdHash for Sock {
	fn hash<H: Hasher>(&self, h: &mut H) {
		self.id.hash(h)
	}
}
impl Sock {
	pub fn new(id: u64, budgets: Vec<u16>) -> Sock {
		Sock { id, st: Arc::new(Mutex::new(SockState { budgets, ..Default::default() })) }
	}
}
impl SocketDescriptor for Sock {
	fn send_data(&mut self, data: &[u8], continue_read: bool) -> usize {
		let mut st = self.st.lock().unwrap();
		if st.paused == continue_read && !continue_read {
			st.pauses += 1;
		}
		st.paused = !continue_read;
		if data.is_empty() || st.disconnected {
			return 0;
		}
		let n = if st.unlimited || st.budgets.is_empty() {
			data.len()
		} else {
			let b = st.budgets[st.bi % st.budgets.len()] as usize;
			st.bi += 1;
			b.min(data.len())
		};
		if st.pending_rest != data.len() {
			let at = st.out.len();
			st.unit_starts.push(at);
		}
		st.out.extend_from_slice(&data[..n]);
		st.pending_rest = data.len() - n;
		if n < data.len() {
			// the obligation stays until write_buffer_space_avail is called, even if a later
			// (forced) write happens to be accepted completely
			st.needs_write_avail = true;
			st.partial_writes += 1;
		}
		n
	}
	fn disconnect_socket(&mut self) {
		self.st.lock().unwrap().disconnected = true;
	}
}

// ---------------------------------------------------------------------------------------------
// recording handlers
// ---------------------------------------------------------------------------------------------

#[derive(Clone, Debug, PartialEq, Eq)]
pub enum Rec {
	Connected,
	Disconnected,
	/// a channel message reached the `ChannelMessageHandler`: (type id, its encoding)
	Chan(u16, Vec<u8>),
	/// a batch of commitment_signed reached the handler: channel id, encodings
	Batch([u8; 32], Vec<Vec<u8>>),
	/// a custom message reached the `CustomMessageHandler`
	Custom(u16, Vec<u8>),
}
pub type Log = Arc<Mutex<Vec<Rec>>>;

pub struct ChanRec {
	pub log: Log,
	pub pending: Mutex<Vec<MessageSendEvent>>,
}
impl ChanRec {
	fn rec<M: Type>(&self, m: &M) {
		self.log.lock().unwrap().push(Rec::Chan(m.type_id(), m.encode()));
	}
}
impl BaseMessageHandler for ChanRec {
	fn get_and_clear_pending_msg_events(&self) -> Vec<MessageSendEvent> {
		std::mem::take(&mut *self.pending.lock().unwrap())
	}
	fn peer_disconnected(&self, _their_node_id: PublicKey) {
		self.log.lock().unwrap().push(Rec::Disconnected);
	}
	fn provided_node_features(&self) -> NodeFeatures {
		NodeFeatures::empty()
	}
	fn provided_init_features(&self, _their_node_id: PublicKey) -> InitFeatures {
		InitFeatures::empty()
	}
	fn peer_connected(&self, _their_node_id: PublicKey, _msg: &Init, _inbound: bool) -> Result<(), ()> {
		self.log.lock().unwrap().push(Rec::Connected);
		Ok(())
	}
}
macro_rules! rec_ref {
	($($f:ident: $t:ty),* $(,)?) => { $(fn $f(&self, _their_node_id: PublicKey, msg: &$t) { self.rec(msg) })* };
}
macro_rules! rec_val {
	($($f:ident: $t:ty),* $(,)?) => { $(fn $f(&self, _their_node_id: PublicKey, msg: $t) { self.rec(&msg) })* };
}
impl ChannelMessageHandler for ChanRec {
	rec_ref!(
		handle_open_channel: msgs::OpenChannel, handle_open_channel_v2: msgs::OpenChannelV2,
		handle_accept_channel: msgs::AcceptChannel, handle_accept_channel_v2: msgs::AcceptChannelV2,
		handle_funding_created: msgs::FundingCreated, handle_funding_signed: msgs::FundingSigned,
		handle_channel_ready: msgs::ChannelReady, handle_shutdown: msgs::Shutdown,
		handle_closing_signed: msgs::ClosingSigned, handle_stfu: msgs::Stfu,
		handle_splice_init: msgs::SpliceInit, handle_splice_ack: msgs::SpliceAck,
		handle_splice_locked: msgs::SpliceLocked, handle_tx_add_input: msgs::TxAddInput,
		handle_tx_add_output: msgs::TxAddOutput, handle_tx_remove_input: msgs::TxRemoveInput,
		handle_tx_remove_output: msgs::TxRemoveOutput, handle_tx_complete: msgs::TxComplete,
		handle_tx_signatures: msgs::TxSignatures, handle_tx_init_rbf: msgs::TxInitRbf,
		handle_tx_ack_rbf: msgs::TxAckRbf, handle_tx_abort: msgs::TxAbort,
		handle_update_add_htlc: msgs::UpdateAddHTLC, handle_update_fail_htlc: msgs::UpdateFailHTLC,
		handle_update_fail_malformed_htlc: msgs::UpdateFailMalformedHTLC,
		handle_commitment_signed: msgs::CommitmentSigned, handle_revoke_and_ack: msgs::RevokeAndACK,
		handle_update_fee: msgs::UpdateFee, handle_announcement_signatures: msgs::AnnouncementSignatures,
		handle_channel_reestablish: msgs::ChannelReestablish, handle_channel_update: msgs::ChannelUpdate,
		handle_error: msgs::ErrorMessage,
	);
	rec_val!(
		handle_peer_storage: msgs::PeerStorage, handle_peer_storage_retrieval: msgs::PeerStorageRetrieval,
		handle_update_fulfill_htlc: msgs::UpdateFulfillHTLC,
	);
	fn handle_commitment_signed_batch(&self, _their_node_id: PublicKey, channel_id: ChannelId, batch: Vec<msgs::CommitmentSigned>) {
		self.log.lock().unwrap().push(Rec::Batch(channel_id.0, batch.iter().map(|m| m.encode()).collect()));
	}
	fn get_chain_hashes(&self) -> Option<Vec<ChainHash>> {
		None
	}
	fn message_received(&self) {}
}

/// A custom message: arbitrary type id >= 32768 and an opaque payload.
#[derive(Clone, Debug, PartialEq, Eq)]
pub struct RawMsg {
	pub ty: u16,
	pub data: Vec<u8>,
}
impl Type for RawMsg {
	fn type_id(&self) -> u16 {
		self.ty
	}
}
impl Writeable for RawMsg {
	fn write<W: Writer>(&self, w: &mut W) -> Result<(), lightning::io::Error> {
		w.write_all(&self.data)
	}
}

pub struct CustRec {
	pub log: Log,
	pub pending: Mutex<Vec<(PublicKey, RawMsg)>>,
}
impl CustomMessageReader for CustRec {
	type CustomMessage = RawMsg;
	fn read<R: LengthLimitedRead>(&self, message_type: u16, buffer: &mut R) -> Result<Option<RawMsg>, msgs::DecodeError> {
		if message_type < 32768 {
			return Ok(None);
		}
		let mut data = vec![0u8; buffer.remaining_bytes() as usize];
		buffer.read_exact(&mut data).map_err(|_| msgs::DecodeError::ShortRead)?;
		Ok(Some(RawMsg { ty: message_type, data }))
	}
}
impl CustomMessageHandler for CustRec {
	fn handle_custom_message(&self, msg: RawMsg, _sender_node_id: PublicKey) -> Result<(), LightningError> {
		self.log.lock().unwrap().push(Rec::Custom(msg.ty, msg.data));
		Ok(())
	}
	fn get_and_clear_pending_msg(&self) -> Vec<(PublicKey, RawMsg)> {
		std::mem::take(&mut *self.pending.lock().unwrap())
	}
	fn peer_disconnected(&self, _their_node_id: PublicKey) {}
	fn peer_connected(&self, _their_node_id: PublicKey, _msg: &Init, _inbound: bool) -> Result<(), ()> {
		Ok(())
	}
	fn provided_node_features(&self) -> NodeFeatures {
		NodeFeatures::empty()
	}
	fn provided_init_features(&self, _their_node_id: PublicKey) -> InitFeatures {
		InitFeatures::empty()
	}
}

pub type Pm = PeerManager<Sock, Arc<ChanRec>, IgnoringMessageHandler, IgnoringMessageHandler, Arc<NullLogger>, Arc<CustRec>, Arc<TestNodeSigner>, IgnoringMessageHandler>;

pub struct Node {
	pub pm: Pm,
	pub chan: Arc<ChanRec>,
	pub cust: Arc<CustRec>,
	pub log: Log,
	pub node_id: PublicKey,
}

pub fn secret_from_seed(tag: u8, seed: u8) -> SecretKey {
	let mut b = [0x11u8; 32];
	b[0] = tag;
	b[31] = seed;
	b[15] = seed ^ 0x5a;
	SecretKey::from_slice(&b).expect("valid key")
}

pub fn make_node(key_seed: u8, eph_seed: u8) -> Node {
	let log: Log = Arc::new(Mutex::new(Vec::new()));
	let chan = Arc::new(ChanRec { log: log.clone(), pending: Mutex::new(Vec::new()) });
	let cust = Arc::new(CustRec { log: log.clone(), pending: Mutex::new(Vec::new()) });
	let secret = secret_from_seed(0x21, key_seed);
	let node_id = PublicKey::from_secret_key(&Secp256k1::signing_only(), &secret);
	let mut eph = [0x77u8; 32];
	eph[0] = eph_seed;
	let pm = PeerManager::new(
		MessageHandler {
			chan_handler: chan.clone(),
			route_handler: IgnoringMessageHandler {},
			onion_message_handler: IgnoringMessageHandler {},
			custom_message_handler: cust.clone(),
			send_only_message_handler: IgnoringMessageHandler {},
		},
		1_700_000_000,
		&eph,
		Arc::new(NullLogger),
		Arc::new(TestNodeSigner::new(secret)),
	);
	Node { pm, chan, cust, log, node_id }
}

// ---------------------------------------------------------------------------------------------
// message specs
// ---------------------------------------------------------------------------------------------

#[derive(Clone, Debug, Serialize, Deserialize, PartialEq, Eq)]
pub enum Kind {
	/// custom message, type 32768 + ty_off, payload of `size` bytes (up to 65533)
	Custom { ty_off: u16 },
	/// `error` with a non-zero channel id and `size` ASCII bytes of data
	Error,
	PeerStorage,
	TxAbort,
	Shutdown,
	Stfu,
	/// update_fee followed by its commitment_signed (one `UpdateHTLCs` event)
	FeeUpdate,
	/// `fulfills` update_fulfill_htlc, then `sigs` commitment_signed (a start_batch precedes them
	/// when sigs > 1) each carrying `size / 64` HTLC signatures
	Htlcs { fulfills: u8, sigs: u8 },
}

#[derive(Clone, Debug, Serialize, Deserialize, PartialEq, Eq)]
pub struct MsgSpec {
	pub kind: Kind,
	pub size: u16,
	pub fill: u8,
}

pub enum Queued {
	Event(MessageSendEvent),
	Custom(RawMsg),
}

pub struct Built {
	/// what the sending LDK node is handed
	pub queue: Queued,
	/// the plaintext messages (2-byte type || payload) that travel, in order, each with the
	/// handler records its arrival must cause at the receiver
	pub wire: Vec<(Vec<u8>, Vec<Rec>)>,
}

impl Built {
	/// what the receiving handlers must record, in order
	pub fn recs(&self) -> Vec<Rec> {
		self.wire.iter().flat_map(|(_, r)| r.iter().cloned()).collect()
	}
}

fn one<M: Type>(m: &M) -> (Vec<u8>, Vec<Rec>) {
	(plain(m), vec![Rec::Chan(m.type_id(), m.encode())])
}

fn plain<M: Type>(m: &M) -> Vec<u8> {
	let mut v = m.type_id().to_be_bytes().to_vec();
	v.extend_from_slice(&m.encode());
	v
}

fn chan_id(fill: u8) -> ChannelId {
	let mut c = [fill; 32];
	c[0] = 1 | fill; // never the all-zero id (an `error` for channel 0 legitimately closes the connection)
	c[31] = 0x80;
	ChannelId(c)
}

fn payload(size: usize, fill: u8) -> Vec<u8> {
	(0..size).map(|i| fill.wrapping_add((i as u8).wrapping_mul(31)).wrapping_add((i >> 8) as u8)).collect()
}

fn signature(fill: u8) -> Signature {
	let secp = Secp256k1::signing_only();
	let mut k = [0x33u8; 32];
	k[1] = fill;
	secp.sign_ecdsa(&Message::from_digest([fill | 1; 32]), &SecretKey::from_slice(&k).unwrap())
}

pub fn build(spec: &MsgSpec, to: PublicKey) -> Built {
	let size = spec.size as usize;
	let fill = spec.fill;
	let cid = chan_id(fill);
	match &spec.kind {
		Kind::Custom { ty_off } => {
			let m = RawMsg { ty: 32768 + (ty_off % 32768), data: payload(size.min(65533), fill) };
			Built { wire: vec![(plain(&m), vec![Rec::Custom(m.ty, m.data.clone())])], queue: Queued::Custom(m) }
		},
		Kind::Error => {
			let n = size.min(65535 - 2 - 32 - 2);
			let data: String = (0..n).map(|i| (b'a' + ((i as u8).wrapping_add(fill)) % 26) as char).collect();
			let m = msgs::ErrorMessage { channel_id: cid, data };
			Built {
				wire: vec![one(&m)],
				queue: Queued::Event(MessageSendEvent::HandleError { node_id: to, action: msgs::ErrorAction::SendErrorMessage { msg: m } }),
			}
		},
		Kind::PeerStorage => {
			let m = msgs::PeerStorage { data: payload(size.min(65535 - 2 - 2), fill) };
			Built { wire: vec![one(&m)], queue: Queued::Event(MessageSendEvent::SendPeerStorage { node_id: to, msg: m }) }
		},
		Kind::TxAbort => {
			let m = msgs::TxAbort { channel_id: cid, data: payload(size.min(65535 - 2 - 32 - 2), fill) };
			Built { wire: vec![one(&m)], queue: Queued::Event(MessageSendEvent::SendTxAbort { node_id: to, msg: m }) }
		},
		Kind::Shutdown => {
			let m = msgs::Shutdown { channel_id: cid, scriptpubkey: ScriptBuf::from_bytes(payload(size.min(65535 - 2 - 32 - 2), fill)) };
			Built { wire: vec![one(&m)], queue: Queued::Event(MessageSendEvent::SendShutdown { node_id: to, msg: m }) }
		},
		Kind::Stfu => {
			let m = msgs::Stfu { channel_id: cid, initiator: fill & 1 == 1 };
			Built { wire: vec![one(&m)], queue: Queued::Event(MessageSendEvent::SendStfu { node_id: to, msg: m }) }
		},
		Kind::FeeUpdate => {
			let fee = msgs::UpdateFee { channel_id: cid, feerate_per_kw: 253 + size as u32 };
			let cs = msgs::CommitmentSigned { channel_id: cid, signature: signature(fill), htlc_signatures: vec![], funding_txid: None };
			Built {
				wire: vec![one(&fee), one(&cs)],
				queue: Queued::Event(MessageSendEvent::UpdateHTLCs {
					node_id: to,
					channel_id: cid,
					updates: msgs::CommitmentUpdate {
						update_add_htlcs: vec![],
						update_fulfill_htlcs: vec![],
						update_fail_htlcs: vec![],
						update_fail_malformed_htlcs: vec![],
						update_fee: Some(fee),
						commitment_signed: vec![cs],
					},
				}),
			}
		},
		Kind::Htlcs { fulfills, sigs } => {
			let sig = signature(fill);
			let nsigs = (*sigs).clamp(1, 3) as usize;
			let htlc_sigs = (size / 64).min(1000);
			let mut wire = vec![];
			let fl: Vec<msgs::UpdateFulfillHTLC> = (0..(*fulfills).min(8))
				.map(|i| msgs::UpdateFulfillHTLC { channel_id: cid, htlc_id: i as u64 + fill as u64, payment_preimage: PaymentPreimage([fill ^ i; 32]), attribution_data: None })
				.collect();
			for f in fl.iter() {
				wire.push(one(f));
			}
			let css: Vec<msgs::CommitmentSigned> = (0..nsigs)
				.map(|i| msgs::CommitmentSigned {
					channel_id: cid,
					signature: sig,
					htlc_signatures: vec![sig; htlc_sigs],
					funding_txid: if nsigs > 1 { Some(bitcoin::Txid::from_byte_array([i as u8 + 1; 32])) } else { None },
				})
				.collect();
			if nsigs > 1 {
				// BOLT-2 (splicing): a batch of commitment_signed is announced by start_batch
				let sb = msgs::StartBatch { channel_id: cid, batch_size: nsigs as u16, message_type: Some(css[0].type_id()) };
				wire.push((plain(&sb), vec![]));
				// the handler sees the whole batch once its last commitment_signed has arrived
				for (i, c) in css.iter().enumerate() {
					let r = if i + 1 == nsigs { vec![Rec::Batch(cid.0, css.iter().map(|c| c.encode()).collect())] } else { vec![] };
					wire.push((plain(c), r));
				}
			} else {
				wire.push(one(&css[0]));
			}
			Built {
				wire,
				queue: Queued::Event(MessageSendEvent::UpdateHTLCs {
					node_id: to,
					channel_id: cid,
					updates: msgs::CommitmentUpdate {
						update_add_htlcs: vec![],
						update_fulfill_htlcs: fl,
						update_fail_htlcs: vec![],
						update_fail_malformed_htlcs: vec![],
						update_fee: None,
						commitment_signed: css,
					},
				}),
			}
		},
	}
}

impl Node {
	pub fn queue(&self, q: Queued, to: PublicKey) {
		match q {
			Queued::Event(e) => self.chan.pending.lock().unwrap().push(e),
			Queued::Custom(m) => self.cust.pending.lock().unwrap().push((to, m)),
		}
	}
	/// the records of delivered messages (everything but connect / disconnect notifications)
	pub fn delivered(&self) -> Vec<Rec> {
		self.log.lock().unwrap().iter().filter(|r| !matches!(r, Rec::Connected | Rec::Disconnected)).cloned().collect()
	}
}

pub fn short(r: &Rec) -> String {
	match r {
		Rec::Connected => "connected".into(),
		Rec::Disconnected => "disconnected".into(),
		Rec::Chan(t, b) => format!("chan(type {}, {} bytes)", t, b.len()),
		Rec::Batch(_, v) => format!("batch({} commitment_signed)", v.len()),
		Rec::Custom(t, b) => format!("custom(type {}, {} bytes)", t, b.len()),
	}
}
