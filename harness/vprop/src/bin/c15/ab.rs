//! Arrangement (A): two `PeerManager`s joined by in-memory descriptors.
//!
//! Oracle: (a) the handshake completes on both sides; (b) each side's handlers observe exactly
//! the directed messages the other side queued — equal encodings, same order, nothing twice —
//! for every read fragmentation, write refusal pattern and schedule, across key rotations;
//! `read_event` never fails and nobody is disconnected on an authentic stream; (d) the first
//! handler call on each side is `peer_connected`; (e) no panic.

use crate::world::*;
use proptest::prelude::*;
use serde::{Deserialize, Serialize};
use vcore::*;

#[derive(Clone, Debug, Serialize, Deserialize)]
pub enum Op {
	/// hand the next n scripted messages to their senders' handlers (if the sender sees the peer)
	Queue(u8),
	Events { a: bool },
	Deliver { to_b: bool, chunks: u8 },
	/// `spurious`: call write_buffer_space_avail even if no partial write is outstanding
	WriteAvail { a: bool, spurious: bool },
}

#[derive(Clone, Debug, Serialize, Deserialize)]
pub struct Case {
	pub key_a: u8,
	pub key_delta: u8,
	pub eph_a: u8,
	pub eph_b: u8,
	/// tiny custom messages sent first in each direction (to get past key rotations cheaply)
	pub bulk_ab: u16,
	pub bulk_ba: u16,
	/// (from A?, message)
	pub msgs: Vec<(bool, MsgSpec)>,
	pub ops: Vec<Op>,
	pub cuts_ab: Vec<u16>,
	pub cuts_ba: Vec<u16>,
	pub acc_a: Vec<u16>,
	pub acc_b: Vec<u16>,
	pub drain_burst: u16,
}

pub fn size_strat() -> impl Strategy<Value = u16> + Clone {
	prop_oneof![
		50 => 0u16..64,
		25 => 64u16..2000,
		10 => 2000u16..20000,
		4 => 20000u16..=65535,
		9 => prop::sample::select(vec![0u16, 1, 2, 14, 15, 16, 17, 18, 30, 31, 32, 33, 34, 62, 63, 64, 65, 1000, 4095, 4096, 4097, 8191, 8192, 16383, 16384, 32767, 32768, 65499, 65500, 65530, 65531, 65532, 65533, 65534, 65535]),
	]
}

pub fn kind_strat() -> impl Strategy<Value = Kind> + Clone {
	prop_oneof![
		45 => (0u16..32768).prop_map(|ty_off| Kind::Custom { ty_off }),
		10 => Just(Kind::Error),
		8 => Just(Kind::PeerStorage),
		8 => Just(Kind::TxAbort),
		6 => Just(Kind::Shutdown),
		6 => Just(Kind::Stfu),
		7 => Just(Kind::FeeUpdate),
		10 => (0u8..5, 1u8..4).prop_map(|(fulfills, sigs)| Kind::Htlcs { fulfills, sigs }),
	]
}

pub fn spec_strat() -> impl Strategy<Value = MsgSpec> + Clone {
	(kind_strat(), size_strat(), any::<u8>()).prop_map(|(kind, size, fill)| MsgSpec { kind, size, fill })
}

/// read-cut / write-budget sizes: single bytes, the header / MAC / act sizes and their neighbours,
/// typical and large reads
pub fn cut_strat() -> impl Strategy<Value = u16> + Clone {
	prop_oneof![
		10 => 1u16..5,
		22 => prop::sample::select(vec![15u16, 16, 17, 18, 19, 20, 33, 34, 35, 49, 50, 51, 65, 66, 67]),
		33 => 20u16..600,
		25 => 600u16..5000,
		10 => Just(65535u16),
	]
}

fn budget_strat() -> impl Strategy<Value = u16> + Clone {
	prop_oneof![15 => Just(0u16), 45 => cut_strat(), 40 => Just(65535u16)]
}

pub fn bulk_strat(thorough: bool) -> SBoxedStrategy<u16> {
	if thorough {
		prop_oneof![84 => Just(0u16), 5 => 480u16..520, 5 => 980u16..1100, 3 => 1480u16..1600, 3 => 2000u16..3600].sboxed()
	} else {
		prop_oneof![90 => Just(0u16), 5 => 480u16..520, 4 => 980u16..1100, 1 => 1480u16..1600].sboxed()
	}
}

fn op_strat() -> impl Strategy<Value = Op> + Clone {
	prop_oneof![
		25 => (1u8..12).prop_map(Op::Queue),
		25 => any::<bool>().prop_map(|a| Op::Events { a }),
		35 => (any::<bool>(), 1u8..40).prop_map(|(to_b, chunks)| Op::Deliver { to_b, chunks }),
		15 => (any::<bool>(), prop::bool::weighted(0.2)).prop_map(|(a, spurious)| Op::WriteAvail { a, spurious }),
	]
}

pub fn strat(thorough: bool) -> impl Strategy<Value = Case> + Clone + Send + Sync + 'static {
	let head = (any::<u8>(), 0u8..255, any::<u8>(), any::<u8>(), bulk_strat(thorough), bulk_strat(thorough));
	let body = (
		prop::collection::vec((any::<bool>(), spec_strat()), 0..40),
		prop::collection::vec(op_strat(), 0..80),
		prop::collection::vec(cut_strat(), 1..6),
		prop::collection::vec(cut_strat(), 1..6),
		prop::collection::vec(budget_strat(), 0..6),
		prop::collection::vec(budget_strat(), 0..6),
		prop::sample::select(vec![1u16, 2, 4, 16, 64, 256, 1024, 1024]),
	);
	(head, body)
		.prop_map(|((key_a, key_delta, eph_a, eph_b, bulk_ab, bulk_ba), (msgs, ops, cuts_ab, cuts_ba, acc_a, acc_b, drain_burst))| Case {
			key_a,
			key_delta,
			eph_a,
			eph_b,
			bulk_ab,
			bulk_ba,
			msgs,
			ops,
			cuts_ab,
			cuts_ba,
			acc_a,
			acc_b,
			drain_burst,
		})
		.sboxed()
}

pub fn bulk_spec(i: usize) -> MsgSpec {
	MsgSpec { kind: Kind::Custom { ty_off: 7 + (i % 3) as u16 }, size: (i % 5) as u16, fill: i as u8 }
}

/// How a read cut at stream offset `e` falls relative to the units written to `st`.
/// Returns (inside an 18-byte length header, inside a trailing 16-byte MAC).
pub fn classify_cut(st: &SockState, handshake_units: usize, e: usize) -> (bool, bool) {
	let idx = st.unit_starts.partition_point(|s| *s < e);
	if idx == 0 {
		return (false, false);
	}
	let u = idx - 1;
	if u < handshake_units {
		return (false, false);
	}
	let s = st.unit_starts[u];
	let in_header = e > s && e - s < 18;
	let in_mac = match st.unit_starts.get(u + 1) {
		Some(end) => e < *end && *end - e < 16,
		None => false,
	};
	(in_header, in_mac)
}

struct Run<'c> {
	case: &'c Case,
	a: Node,
	b: Node,
	sock_a: Sock,
	sock_b: Sock,
	script: Vec<(bool, MsgSpec)>,
	next: usize,
	/// which handler class (custom / channel) has unflushed messages per sender
	pending_class: [Option<bool>; 2],
	expected_at_b: Vec<Rec>,
	expected_at_a: Vec<Rec>,
	taken_ab: usize,
	taken_ba: usize,
	ci_ab: usize,
	ci_ba: usize,
	header_splits: u64,
	mac_splits: u64,
	read_calls: u64,
}

impl<'c> Run<'c> {
	fn events(&mut self, a: bool) {
		if a {
			self.a.pm.process_events();
			self.pending_class[0] = None;
		} else {
			self.b.pm.process_events();
			self.pending_class[1] = None;
		}
	}

	fn try_queue(&mut self, mut n: usize) -> usize {
		let mut done = 0;
		while n > 0 && self.next < self.script.len() {
			let (from_a, spec) = self.script[self.next].clone();
			let (snd, rcv_id, si) = if from_a { (&self.a, self.b.node_id, 0) } else { (&self.b, self.a.node_id, 1) };
			// LDK does not send messages queued for a peer whose Init it has not received yet
			if snd.pm.peer_by_node_id(&rcv_id).is_none() {
				break;
			}
			let built = build(&spec, rcv_id);
			let class = matches!(built.queue, Queued::Custom(_));
			// process_events takes channel events before custom messages: a caller that wants
			// order across the two handlers has to process events in between
			if let Some(c) = self.pending_class[si] {
				if c != class {
					self.events(from_a);
				}
			}
			let (snd, _, _) = if from_a { (&self.a, (), ()) } else { (&self.b, (), ()) };
			self.pending_class[si] = Some(class);
			if from_a {
				self.expected_at_b.extend(built.recs());
			} else {
				self.expected_at_a.extend(built.recs());
			}
			snd.queue(built.queue, rcv_id);
			self.next += 1;
			n -= 1;
			done += 1;
		}
		done
	}

	fn write_avail(&mut self, a: bool, spurious: bool) -> CaseResult {
		let (node, sock) = if a { (&self.a, &mut self.sock_a) } else { (&self.b, &mut self.sock_b) };
		let need = {
			let mut st = sock.st.lock().unwrap();
			let n = st.needs_write_avail;
			if n {
				st.needs_write_avail = false;
			}
			n
		};
		if need || spurious {
			let r = node.pm.write_buffer_space_avail(sock);
			vensure!(r.is_ok(), "write-avail-err", "write_buffer_space_avail returned Err on a live authentic connection (side {})", if a { "A" } else { "B" });
		}
		Ok(())
	}

	fn deliver(&mut self, to_b: bool, max_chunks: usize) -> Result<usize, Failure> {
		let mut moved = 0;
		for _ in 0..max_chunks {
			let (src, dst_node, dst_sock, taken, cuts, ci, hs_units) = if to_b {
				(&self.sock_a, &self.b, &mut self.sock_b, &mut self.taken_ab, &self.case.cuts_ab, &mut self.ci_ab, 2)
			} else {
				(&self.sock_b, &self.a, &mut self.sock_a, &mut self.taken_ba, &self.case.cuts_ba, &mut self.ci_ba, 1)
			};
			{
				let d = dst_sock.st.lock().unwrap();
				if d.paused || d.disconnected {
					break;
				}
			}
			let chunk = {
				let s = src.st.lock().unwrap();
				let avail = s.out.len() - *taken;
				if avail == 0 {
					break;
				}
				let c = (cuts[*ci % cuts.len()] as usize).max(1).min(avail);
				*ci += 1;
				let e = *taken + c;
				if e < s.out.len() {
					let (h, m) = classify_cut(&s, hs_units, e);
					self.header_splits += h as u64;
					self.mac_splits += m as u64;
				}
				s.out[*taken..e].to_vec()
			};
			self.read_calls += 1;
			let r = dst_node.pm.read_event(dst_sock, &chunk);
			if r.is_err() {
				return Err(Failure::new(
					"read-err",
					format!("read_event returned Err on an authentic, untampered stream ({} at stream offset {}, chunk {} bytes)", if to_b { "A->B" } else { "B->A" }, *taken, chunk.len()),
				));
			}
			*taken += chunk.len();
			moved += chunk.len();
		}
		Ok(moved)
	}

	fn wire_pending(&self) -> (usize, usize) {
		(self.sock_a.st.lock().unwrap().out.len() - self.taken_ab, self.sock_b.st.lock().unwrap().out.len() - self.taken_ba)
	}
}

fn first_diff(exp: &[Rec], got: &[Rec]) -> String {
	let n = exp.len().min(got.len());
	for i in 0..n {
		if exp[i] != got[i] {
			return format!("first difference at message {}: expected {}, got {}", i, short(&exp[i]), short(&got[i]));
		}
	}
	if exp.len() > got.len() {
		format!("{} of {} messages delivered; first missing: {}", got.len(), exp.len(), short(&exp[n]))
	} else {
		format!("{} extra messages delivered; first extra: {}", got.len() - exp.len(), short(&got[n]))
	}
}

pub fn oracle(c: &Case, ctx: &mut Ctx) -> CaseResult {
	let a = make_node(c.key_a, c.eph_a);
	let b = make_node(c.key_a.wrapping_add(1).wrapping_add(c.key_delta), c.eph_b);
	let sock_a = Sock::new(1, c.acc_a.clone());
	let sock_b = Sock::new(2, c.acc_b.clone());
	let mut script: Vec<(bool, MsgSpec)> = vec![];
	for i in 0..c.bulk_ab as usize {
		script.push((true, bulk_spec(i)));
	}
	for i in 0..c.bulk_ba as usize {
		script.push((false, bulk_spec(i + 1)));
	}
	script.extend(c.msgs.iter().cloned());

	// A dials B: the 50 bytes returned are for the caller to put on the wire
	let act1 = a.pm.new_outbound_connection(b.node_id, sock_a.clone(), None).map_err(|_| Failure::new("connect", "new_outbound_connection failed"))?;
	{
		let mut st = sock_a.st.lock().unwrap();
		st.unit_starts.push(0);
		st.out.extend_from_slice(&act1);
	}
	b.pm.new_inbound_connection(sock_b.clone(), None).map_err(|_| Failure::new("connect", "new_inbound_connection failed"))?;

	let mut run = Run {
		case: c,
		a,
		b,
		sock_a,
		sock_b,
		script,
		next: 0,
		pending_class: [None, None],
		expected_at_b: vec![],
		expected_at_a: vec![],
		taken_ab: 0,
		taken_ba: 0,
		ci_ab: 0,
		ci_ba: 0,
		header_splits: 0,
		mac_splits: 0,
		read_calls: 0,
	};

	for op in c.ops.iter() {
		match op {
			Op::Queue(n) => {
				run.try_queue(*n as usize);
			},
			Op::Events { a } => run.events(*a),
			Op::Deliver { to_b, chunks } => {
				run.deliver(*to_b, *chunks as usize)?;
			},
			Op::WriteAvail { a, spurious } => run.write_avail(*a, *spurious)?,
		}
	}

	// drain to quiescence: the sockets now accept everything, every owed call is made
	run.sock_a.st.lock().unwrap().unlimited = true;
	run.sock_b.st.lock().unwrap().unlimited = true;
	let burst = c.drain_burst.max(1) as usize;
	loop {
		let mut progress = run.try_queue(usize::MAX) > 0;
		let out_before = (run.sock_a.st.lock().unwrap().out.len(), run.sock_b.st.lock().unwrap().out.len());
		run.events(true);
		run.events(false);
		run.write_avail(true, false)?;
		run.write_avail(false, false)?;
		progress |= run.deliver(true, burst)? > 0;
		progress |= run.deliver(false, burst)? > 0;
		run.events(true);
		run.events(false);
		let out_after = (run.sock_a.st.lock().unwrap().out.len(), run.sock_b.st.lock().unwrap().out.len());
		progress |= out_after != out_before;
		if !progress {
			break;
		}
	}

	if ctx.replay {
		eprintln!("A log: {:?}", run.a.log.lock().unwrap().iter().map(short).collect::<Vec<_>>());
		eprintln!("B log: {:?}", run.b.log.lock().unwrap().iter().map(short).collect::<Vec<_>>());
		for (n, s) in [("A", &run.sock_a), ("B", &run.sock_b)] {
			let st = s.st.lock().unwrap();
			eprintln!("sock {}: out={} units={:?} paused={} need_wa={} partial={} disc={}", n, st.out.len(), st.unit_starts, st.paused, st.needs_write_avail, st.partial_writes, st.disconnected);
		}
		eprintln!("taken ab={} ba={} next={}", run.taken_ab, run.taken_ba, run.next);
	}
	// ---- oracles ----
	let (sa, sb) = (run.sock_a.st.lock().unwrap(), run.sock_b.st.lock().unwrap());
	vensure!(!sa.disconnected && !sb.disconnected, "disconnected", "disconnect_socket was called on an authentic connection (A: {}, B: {})", sa.disconnected, sb.disconnected);
	let (pa, pb) = (sa.paused, sb.paused);
	let (partials, pauses) = (sa.partial_writes + sb.partial_writes, sa.pauses + sb.pauses);
	let units = (sa.unit_starts.len().saturating_sub(2), sb.unit_starts.len().saturating_sub(1));
	drop(sa);
	drop(sb);
	// (a) handshake + Init exchange completed on both sides
	vensure!(
		run.a.pm.peer_by_node_id(&run.b.node_id).is_some() && run.b.pm.peer_by_node_id(&run.a.node_id).is_some(),
		"handshake",
		"two honest nodes did not complete handshake and Init exchange (A sees B: {}, B sees A: {})",
		run.a.pm.peer_by_node_id(&run.b.node_id).is_some(),
		run.b.pm.peer_by_node_id(&run.a.node_id).is_some()
	);
	let (wab, wba) = run.wire_pending();
	vensure!(run.next == run.script.len() && wab == 0 && wba == 0, "stuck", "no quiescence: {} of {} messages queued, {} bytes A->B and {} bytes B->A undelivered, read paused A={} B={}", run.next, run.script.len(), wab, wba, pa, pb);
	// (d) the first thing each side's handlers saw is peer_connected; nobody was told of a disconnect
	for (name, n) in [("A", &run.a), ("B", &run.b)] {
		let log = n.log.lock().unwrap();
		vensure!(matches!(log.first(), Some(Rec::Connected)), "before-init", "node {}: first handler call is {:?}, not peer_connected", name, log.first().map(short));
		vensure!(!log.iter().any(|r| matches!(r, Rec::Disconnected)), "disconnected", "node {} handlers were told the peer disconnected", name);
	}
	// (b) exact sequence in both directions
	let got_b = run.b.delivered();
	if got_b != run.expected_at_b {
		return Err(Failure::new("sequence", format!("A->B: {}", first_diff(&run.expected_at_b, &got_b))).with_key("sequence/a-to-b"));
	}
	let got_a = run.a.delivered();
	if got_a != run.expected_at_a {
		return Err(Failure::new("sequence", format!("B->A: {}", first_diff(&run.expected_at_a, &got_a))).with_key("sequence/b-to-a"));
	}

	// ---- classification ----
	ctx.label_if(run.header_splits > 0, "cut-inside-length-header");
	ctx.label_if(run.mac_splits > 0, "cut-inside-mac");
	ctx.label_if(partials > 0, "write-refused-or-partial");
	ctx.label_if(pauses > 0, "read-paused-by-ldk");
	// one rotation per 500 units (two nonces per unit, key changes at nonce 1000)
	let rot = units.0.max(units.1) / 500;
	ctx.label_if(rot >= 1, "rotation>=1");
	ctx.label_if(rot >= 3, "rotation>=3");
	ctx.label_if(units.0 >= 500 && units.1 >= 500, "rotation-both-directions");
	ctx.label_if(!run.expected_at_a.is_empty() && !run.expected_at_b.is_empty(), "traffic-both-directions");
	let big = |v: &Vec<Rec>| v.iter().any(|r| matches!(r, Rec::Chan(_, b) | Rec::Custom(_, b) if b.len() >= 65000));
	ctx.label_if(big(&run.expected_at_a) || big(&run.expected_at_b), "message>=65000-bytes");
	ctx.label_if(run.expected_at_a.iter().chain(run.expected_at_b.iter()).any(|r| matches!(r, Rec::Batch(..))), "commitment-batch");
	ctx.sub_evaluations((run.expected_at_a.len() + run.expected_at_b.len()) as u64);
	ctx.nontrivial_if(run.header_splits > 0 || run.mac_splits > 0 || partials > 0 || pauses > 0);
	ctx.summary(serde_json::json!({
		"messages": run.script.len(), "units_a_to_b": units.0, "units_b_to_a": units.1, "read_calls": run.read_calls,
		"header_splits": run.header_splits, "mac_splits": run.mac_splits, "partial_writes": partials, "pauses": pauses,
		"cuts_ab": c.cuts_ab, "cuts_ba": c.cuts_ba, "acc_a": c.acc_a, "acc_b": c.acc_b,
	}));
	Ok(())
}
