//! C15 — the encrypted transport delivers the exact message sequence or disconnects.
//!
//! Everything goes through the public `PeerManager` API with an in-memory `SocketDescriptor`.
//!  * `ldk-ldk`   two PeerManagers; generated directed messages, read cuts, write refusals, schedules
//!  * `ref-ldk`   an independent BOLT-8 peer (bolt8.rs) as initiator or responder against one
//!                PeerManager: key agreement, ciphertext differential, tamper / truncate / replay /
//!                reorder / unauthenticated units, messages before Init
//!  * `ref-junk`  well-formed but arbitrary typed messages after a correct handshake (no panic,
//!                framing stays in sync)
//!  * `raw-bytes` arbitrary byte strings instead of a handshake

mod ab;
mod bolt8;
mod refpeer;
mod world;

use vcore::*;

fn main() {
	let mut c = Check::new("C15", "exploration");
	if let Err(e) = bolt8::self_test() {
		report(&format!("INCONCLUSIVE property=C15 reference BOLT-8 implementation failed its self-test: {}", e));
		std::process::exit(2);
	}
	c.assume("the reference BOLT-8 peer (own ChaCha20-Poly1305 / HKDF / Noise_XK, validated at start-up against the RFC 8439 and BOLT-8 appendix vectors incl. the rotation vectors 500/501/1000/1001) is correct; secp256k1 ECDH and SHA256/HMAC come from the bitcoin crate");
	c.assume("the driver honours the SocketDescriptor contract: no read_event while the last send_data said continue_read=false, a write_buffer_space_avail after every partial write, no call after an Err; the wire itself is unbounded and lossless (TCP)");
	c.assume("gossip broadcasts, onion messages, timer ticks / ping timeouts are not generated; the reference peer does not answer LDK's pings (no timer runs, so LDK may not disconnect for that)");
	c.assume("message codecs are trusted here (C13): sent and received messages are compared through their encodings");
	c.set_case_timeout_secs(240);
	let thorough = c.tier() == Tier::Thorough;

	c.part(
		PartSpec {
			name: "ldk-ldk",
			rule: "two PeerManagers joined by in-memory descriptors; generated directed messages (custom 0..65533 bytes, error/peer_storage/tx_abort/shutdown/stfu/update_fee/fulfill+commitment_signed batches), optional bulk of 480..3600 tiny messages to cross key rotations, cyclic read-cut sizes (1..4096 incl. 16/17/18/19), cyclic send_data budgets (0 = refuse) and an operation schedule, then drained to quiescence. Non-trivial: a read cut fell inside an 18-byte length header or a 16-byte MAC, or a write was refused/partial, or LDK paused reading",
			quick_cases: 12_000,
			thorough_cases: 800_000,
			max_shrink: 300,
		},
		ab::strat(thorough),
		ab::oracle,
	);
	c.part(
		PartSpec {
			name: "ref-ldk",
			rule: "reference BOLT-8 peer as initiator or responder against one PeerManager; correct handshake + Init + messages in both directions (bulk past rotations), or one fault: bit flip / bad version / truncation / garbage in an act, bit flip in a length header, header MAC, body or body MAC of message k, truncated unit, replayed / swapped / dropped / wrong-key unit, non-Init first message, unknown even feature bit in Init. Non-trivial: the fault lies in a header or MAC, or a read cut fell inside a header/MAC, or back-pressure occurred, or a rotation was crossed",
			quick_cases: 30_000,
			thorough_cases: 1_600_000,
			max_shrink: 300,
		},
		refpeer::strat(thorough, false),
		|c, ctx| refpeer::oracle(c, ctx, false),
	);
	c.part(
		PartSpec {
			name: "ref-junk",
			rule: "after a correct handshake the reference sends authentic units carrying arbitrary typed payloads (known types with random / truncated / mutated bodies, second Init, pings, start_batch sequences, zero-channel errors, 0- and 1-byte messages) interleaved with custom messages. Non-trivial: at least one junk unit was consumed by LDK",
			quick_cases: 30_000,
			thorough_cases: 1_500_000,
			max_shrink: 300,
		},
		refpeer::strat(thorough, true),
		|c, ctx| refpeer::oracle(c, ctx, true),
	);
	c.part(
		PartSpec {
			name: "raw-bytes",
			rule: "arbitrary byte strings (random, or derived from a valid act by mutation) fed in generated fragments to a fresh inbound or outbound connection. Non-trivial: at least one complete act-sized unit was consumed",
			quick_cases: 80_000,
			thorough_cases: 5_000_000,
			max_shrink: 300,
		},
		refpeer::raw_strat(),
		refpeer::raw_oracle,
	);
	c.finish();
}
