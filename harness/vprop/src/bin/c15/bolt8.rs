//! Independent BOLT-8 transport (Noise_XK_secp256k1_ChaChaPoly_SHA256) written from the
//! specification: RFC 8439 ChaCha20 / Poly1305 / AEAD construction, RFC 5869 HKDF-SHA256 (two
//! output blocks, as BOLT-8 uses it), the three handshake acts for both roles, and the message
//! cipher with key rotation every 1000 nonces. Only secp256k1 (ECDH = SHA256 of the compressed
//! shared point) and SHA256/HMAC primitives are borrowed from `bitcoin`; nothing from lightning's
//! crypto module is used. `self_test()` checks RFC 8439 and the BOLT-8 appendix vectors.

use bitcoin::hashes::{sha256, Hash, HashEngine, Hmac, HmacEngine};
use bitcoin::secp256k1::ecdh::SharedSecret;
use bitcoin::secp256k1::{PublicKey, Secp256k1, SecretKey};

// ---------------------------------------------------------------------------------------------
// RFC 8439 §2.3 ChaCha20 block function, §2.4 encryption
// ---------------------------------------------------------------------------------------------

#[inline(always)]
fn qr(s: &mut [u32; 16], a: usize, b: usize, c: usize, d: usize) {
	s[a] = s[a].wrapping_add(s[b]);
	s[d] = (s[d] ^ s[a]).rotate_left(16);
	s[c] = s[c].wrapping_add(s[d]);
	s[b] = (s[b] ^ s[c]).rotate_left(12);
	s[a] = s[a].wrapping_add(s[b]);
	s[d] = (s[d] ^ s[a]).rotate_left(8);
	s[c] = s[c].wrapping_add(s[d]);
	s[b] = (s[b] ^ s[c]).rotate_left(7);
}

fn le32(b: &[u8]) -> u32 {
	u32::from_le_bytes([b[0], b[1], b[2], b[3]])
}

pub fn chacha20_block(key: &[u8; 32], counter: u32, nonce: &[u8; 12]) -> [u8; 64] {
	let mut init = [0u32; 16];
	init[0] = 0x61707865;
	init[1] = 0x3320646e;
	init[2] = 0x79622d32;
	init[3] = 0x6b206574;
	for i in 0..8 {
		init[4 + i] = le32(&key[4 * i..]);
	}
	init[12] = counter;
	for i in 0..3 {
		init[13 + i] = le32(&nonce[4 * i..]);
	}
	let mut s = init;
	for _ in 0..10 {
		qr(&mut s, 0, 4, 8, 12);
		qr(&mut s, 1, 5, 9, 13);
		qr(&mut s, 2, 6, 10, 14);
		qr(&mut s, 3, 7, 11, 15);
		qr(&mut s, 0, 5, 10, 15);
		qr(&mut s, 1, 6, 11, 12);
		qr(&mut s, 2, 7, 8, 13);
		qr(&mut s, 3, 4, 9, 14);
	}
	let mut out = [0u8; 64];
	for i in 0..16 {
		out[4 * i..4 * i + 4].copy_from_slice(&s[i].wrapping_add(init[i]).to_le_bytes());
	}
	out
}

pub fn chacha20_xor(key: &[u8; 32], mut counter: u32, nonce: &[u8; 12], data: &mut [u8]) {
	for chunk in data.chunks_mut(64) {
		let ks = chacha20_block(key, counter, nonce);
		for (d, k) in chunk.iter_mut().zip(ks.iter()) {
			*d ^= *k;
		}
		counter = counter.wrapping_add(1);
	}
}

// ---------------------------------------------------------------------------------------------
// RFC 8439 §2.5 Poly1305 (accumulator in five 26-bit limbs, arithmetic mod 2^130 - 5)
// ---------------------------------------------------------------------------------------------

pub struct Poly1305 {
	r: [u64; 5],
	h: [u64; 5],
	s: [u8; 16],
	buf: [u8; 16],
	buf_len: usize,
}

impl Poly1305 {
	pub fn new(key: &[u8; 32]) -> Poly1305 {
		// r = le_bytes_to_num(key[0..16]) clamped: r &= 0x0ffffffc0ffffffc0ffffffc0fffffff
		let r = [
			(le32(&key[0..]) as u64) & 0x3ffffff,
			((le32(&key[3..]) >> 2) as u64) & 0x3ffff03,
			((le32(&key[6..]) >> 4) as u64) & 0x3ffc0ff,
			((le32(&key[9..]) >> 6) as u64) & 0x3f03fff,
			((le32(&key[12..]) >> 8) as u64) & 0x00fffff,
		];
		let mut s = [0u8; 16];
		s.copy_from_slice(&key[16..32]);
		Poly1305 { r, h: [0; 5], s, buf: [0; 16], buf_len: 0 }
	}

	/// a += n (n = the 16-byte block with the 2^128 bit, or a padded short block); a = (r*a) % p
	fn block(&mut self, m: &[u8; 16], hibit: u64) {
		let r = self.r;
		let (s1, s2, s3, s4) = (r[1] * 5, r[2] * 5, r[3] * 5, r[4] * 5);
		let h0 = self.h[0] + ((le32(&m[0..]) as u64) & 0x3ffffff);
		let h1 = self.h[1] + (((le32(&m[3..]) >> 2) as u64) & 0x3ffffff);
		let h2 = self.h[2] + (((le32(&m[6..]) >> 4) as u64) & 0x3ffffff);
		let h3 = self.h[3] + (((le32(&m[9..]) >> 6) as u64) & 0x3ffffff);
		let h4 = self.h[4] + (((le32(&m[12..]) >> 8) as u64) | hibit);

		let d0 = h0 * r[0] + h1 * s4 + h2 * s3 + h3 * s2 + h4 * s1;
		let mut d1 = h0 * r[1] + h1 * r[0] + h2 * s4 + h3 * s3 + h4 * s2;
		let mut d2 = h0 * r[2] + h1 * r[1] + h2 * r[0] + h3 * s4 + h4 * s3;
		let mut d3 = h0 * r[3] + h1 * r[2] + h2 * r[1] + h3 * r[0] + h4 * s4;
		let mut d4 = h0 * r[4] + h1 * r[3] + h2 * r[2] + h3 * r[1] + h4 * r[0];

		let mut c = d0 >> 26;
		let mut n0 = d0 & 0x3ffffff;
		d1 += c;
		c = d1 >> 26;
		let mut n1 = d1 & 0x3ffffff;
		d2 += c;
		c = d2 >> 26;
		let n2 = d2 & 0x3ffffff;
		d3 += c;
		c = d3 >> 26;
		let n3 = d3 & 0x3ffffff;
		d4 += c;
		c = d4 >> 26;
		let n4 = d4 & 0x3ffffff;
		n0 += c * 5;
		c = n0 >> 26;
		n0 &= 0x3ffffff;
		n1 += c;
		self.h = [n0, n1, n2, n3, n4];
	}

	pub fn update(&mut self, mut data: &[u8]) {
		if self.buf_len > 0 {
			let take = (16 - self.buf_len).min(data.len());
			self.buf[self.buf_len..self.buf_len + take].copy_from_slice(&data[..take]);
			self.buf_len += take;
			data = &data[take..];
			if self.buf_len < 16 {
				return;
			}
			let b = self.buf;
			self.block(&b, 1 << 24);
			self.buf_len = 0;
		}
		while data.len() >= 16 {
			let mut b = [0u8; 16];
			b.copy_from_slice(&data[..16]);
			self.block(&b, 1 << 24);
			data = &data[16..];
		}
		if !data.is_empty() {
			self.buf[..data.len()].copy_from_slice(data);
			self.buf_len = data.len();
		}
	}

	pub fn finish(mut self) -> [u8; 16] {
		if self.buf_len > 0 {
			// short final block: append 0x01 then zero-pad, no 2^128 bit
			let mut b = [0u8; 16];
			b[..self.buf_len].copy_from_slice(&self.buf[..self.buf_len]);
			b[self.buf_len] = 1;
			self.block(&b, 0);
		}
		// full carry, then compute h + -p and select
		let mut h = self.h;
		let mut c = h[1] >> 26;
		h[1] &= 0x3ffffff;
		h[2] += c;
		c = h[2] >> 26;
		h[2] &= 0x3ffffff;
		h[3] += c;
		c = h[3] >> 26;
		h[3] &= 0x3ffffff;
		h[4] += c;
		c = h[4] >> 26;
		h[4] &= 0x3ffffff;
		h[0] += c * 5;
		c = h[0] >> 26;
		h[0] &= 0x3ffffff;
		h[1] += c;

		// value as a single 130-bit number (two u128 halves are enough: acc < 2^131)
		let low4: u128 = (h[0] as u128) + ((h[1] as u128) << 26) + ((h[2] as u128) << 52) + ((h[3] as u128) << 78);
		let (lo, carry) = low4.overflowing_add(((h[4] as u128) & 0xffffff) << 104);
		let hi: u128 = ((h[4] as u128) >> 24) + if carry { 1 } else { 0 }; // bits 128..
		// reduce modulo p = 2^130 - 5 exactly: value < 2^130 + small; subtract p if value >= p
		let (mut lo, mut hi) = (lo, hi);
		// p = (hi=3, lo=2^128-5)
		let p_lo: u128 = 0u128.wrapping_sub(5);
		let p_hi: u128 = 3;
		for _ in 0..2 {
			let ge = hi > p_hi || (hi == p_hi && lo >= p_lo);
			if ge {
				let (nl, borrow) = lo.overflowing_sub(p_lo);
				lo = nl;
				hi = hi - p_hi - if borrow { 1 } else { 0 };
			}
		}
		let _ = hi;
		// tag = (acc + s) mod 2^128
		let s = u128::from_le_bytes(self.s);
		lo.wrapping_add(s).to_le_bytes()
	}
}

pub fn poly1305(key: &[u8; 32], msg: &[u8]) -> [u8; 16] {
	let mut p = Poly1305::new(key);
	p.update(msg);
	p.finish()
}

// ---------------------------------------------------------------------------------------------
// RFC 8439 §2.8 AEAD_CHACHA20_POLY1305; BOLT-8 nonce = 32 zero bits || 64-bit LE counter
// ---------------------------------------------------------------------------------------------

fn bolt8_nonce(n: u64) -> [u8; 12] {
	let mut nonce = [0u8; 12];
	nonce[4..].copy_from_slice(&n.to_le_bytes());
	nonce
}

fn aead_tag(key: &[u8; 32], nonce: &[u8; 12], ad: &[u8], ct: &[u8]) -> [u8; 16] {
	let block0 = chacha20_block(key, 0, nonce);
	let mut otk = [0u8; 32];
	otk.copy_from_slice(&block0[..32]);
	let mut p = Poly1305::new(&otk);
	let zeros = [0u8; 16];
	p.update(ad);
	p.update(&zeros[..(16 - ad.len() % 16) % 16]);
	p.update(ct);
	p.update(&zeros[..(16 - ct.len() % 16) % 16]);
	p.update(&(ad.len() as u64).to_le_bytes());
	p.update(&(ct.len() as u64).to_le_bytes());
	p.finish()
}

pub fn aead_encrypt_nonce(key: &[u8; 32], nonce: &[u8; 12], ad: &[u8], pt: &[u8]) -> Vec<u8> {
	let mut out = Vec::with_capacity(pt.len() + 16);
	out.extend_from_slice(pt);
	chacha20_xor(key, 1, nonce, &mut out[..]);
	let tag = aead_tag(key, nonce, ad, &out);
	out.extend_from_slice(&tag);
	out
}

/// encryptWithAD(k, n, ad, plaintext) of BOLT-8
pub fn encrypt_with_ad(key: &[u8; 32], n: u64, ad: &[u8], pt: &[u8]) -> Vec<u8> {
	aead_encrypt_nonce(key, &bolt8_nonce(n), ad, pt)
}

/// decryptWithAD(k, n, ad, ciphertext) of BOLT-8; `None` when the MAC check fails
pub fn decrypt_with_ad(key: &[u8; 32], n: u64, ad: &[u8], ct_tag: &[u8]) -> Option<Vec<u8>> {
	if ct_tag.len() < 16 {
		return None;
	}
	let nonce = bolt8_nonce(n);
	let (ct, tag) = ct_tag.split_at(ct_tag.len() - 16);
	let want = aead_tag(key, &nonce, ad, ct);
	let mut diff = 0u8;
	for i in 0..16 {
		diff |= want[i] ^ tag[i];
	}
	if diff != 0 {
		return None;
	}
	let mut pt = ct.to_vec();
	chacha20_xor(key, 1, &nonce, &mut pt[..]);
	Some(pt)
}

// ---------------------------------------------------------------------------------------------
// HKDF(salt, ikm) -> two 32-byte outputs (RFC 5869 with empty info)
// ---------------------------------------------------------------------------------------------

fn hmac(key: &[u8], parts: &[&[u8]]) -> [u8; 32] {
	let mut e = HmacEngine::<sha256::Hash>::new(key);
	for p in parts {
		e.input(p);
	}
	Hmac::<sha256::Hash>::from_engine(e).to_byte_array()
}

pub fn hkdf2(salt: &[u8; 32], ikm: &[u8]) -> ([u8; 32], [u8; 32]) {
	let prk = hmac(salt, &[ikm]);
	let t1 = hmac(&prk, &[&[1u8]]);
	let t2 = hmac(&prk, &[&t1, &[2u8]]);
	(t1, t2)
}

fn sha(parts: &[&[u8]]) -> [u8; 32] {
	let mut e = sha256::Hash::engine();
	for p in parts {
		e.input(p);
	}
	sha256::Hash::from_engine(e).to_byte_array()
}

fn ecdh(pk: &PublicKey, sk: &SecretKey) -> [u8; 32] {
	// BOLT-8: ECDH(k, rk) = SHA256 of the compressed format of the resulting point
	SharedSecret::new(pk, sk).secret_bytes()
}

// ---------------------------------------------------------------------------------------------
// Handshake
// ---------------------------------------------------------------------------------------------

#[derive(Clone, Debug, PartialEq, Eq)]
pub enum HsError {
	BadLength,
	BadVersion,
	BadKey,
	BadMac,
}

#[derive(Clone)]
struct Symmetric {
	h: [u8; 32],
	ck: [u8; 32],
}

impl Symmetric {
	fn new(responder_static: &PublicKey) -> Symmetric {
		// h = SHA-256(protocolName); ck = h; h = SHA-256(h || prologue); h = SHA-256(h || rs.pub)
		let h0 = sha(&[b"Noise_XK_secp256k1_ChaChaPoly_SHA256"]);
		let h1 = sha(&[&h0, b"lightning"]);
		let h2 = sha(&[&h1, &responder_static.serialize()]);
		Symmetric { h: h2, ck: h0 }
	}
	fn mix_hash(&mut self, data: &[u8]) {
		self.h = sha(&[&self.h, data]);
	}
	fn mix_key(&mut self, ss: &[u8; 32]) -> [u8; 32] {
		let (ck, k) = hkdf2(&self.ck, ss);
		self.ck = ck;
		k
	}
}

/// Cipher state after the handshake: our sending and receiving keys with their nonces and the
/// chaining keys used for rotation.
#[derive(Clone)]
pub struct Transport {
	pub sk: [u8; 32],
	pub sn: u64,
	pub sck: [u8; 32],
	pub rk: [u8; 32],
	pub rn: u64,
	pub rck: [u8; 32],
	pub send_rotations: u32,
	pub recv_rotations: u32,
}

impl Transport {
	/// A state that *sends* with what `self` receives with (the peer's view of one direction);
	/// used for the ciphertext differential.
	pub fn mirror(&self) -> Transport {
		Transport {
			sk: self.rk,
			sn: self.rn,
			sck: self.rck,
			rk: self.sk,
			rn: self.sn,
			rck: self.sck,
			send_rotations: self.recv_rotations,
			recv_rotations: self.send_rotations,
		}
	}

	fn next_send(&mut self) -> ([u8; 32], u64) {
		// "if sn exceeds 1000 ... rotate": a key is used for nonces 0..=999, then
		// ck', k' = HKDF(ck, k); n = 0
		if self.sn == 1000 {
			let (ck, k) = hkdf2(&self.sck, &self.sk);
			self.sck = ck;
			self.sk = k;
			self.sn = 0;
			self.send_rotations += 1;
		}
		let r = (self.sk, self.sn);
		self.sn += 1;
		r
	}

	fn next_recv(&mut self) -> ([u8; 32], u64) {
		if self.rn == 1000 {
			let (ck, k) = hkdf2(&self.rck, &self.rk);
			self.rck = ck;
			self.rk = k;
			self.rn = 0;
			self.recv_rotations += 1;
		}
		let r = (self.rk, self.rn);
		self.rn += 1;
		r
	}

	/// 18-byte encrypted length prefix followed by the encrypted message and its MAC
	pub fn encrypt(&mut self, msg: &[u8]) -> Vec<u8> {
		assert!(msg.len() <= 65535);
		let (k, n) = self.next_send();
		let mut out = encrypt_with_ad(&k, n, &[], &(msg.len() as u16).to_be_bytes());
		let (k, n) = self.next_send();
		out.extend_from_slice(&encrypt_with_ad(&k, n, &[], msg));
		out
	}

	pub fn decrypt_len(&mut self, hdr: &[u8]) -> Option<u16> {
		let (k, n) = self.next_recv();
		let l = decrypt_with_ad(&k, n, &[], hdr)?;
		Some(u16::from_be_bytes([l[0], l[1]]))
	}

	pub fn decrypt_body(&mut self, body: &[u8]) -> Option<Vec<u8>> {
		let (k, n) = self.next_recv();
		decrypt_with_ad(&k, n, &[], body)
	}
}

pub struct Initiator {
	sym: Symmetric,
	s: SecretKey,
	e: SecretKey,
	rs: PublicKey,
}

impl Initiator {
	pub fn new(s: SecretKey, e: SecretKey, rs: PublicKey) -> Initiator {
		Initiator { sym: Symmetric::new(&rs), s, e, rs }
	}

	pub fn act_one(&mut self) -> Vec<u8> {
		let secp = Secp256k1::signing_only();
		let epub = PublicKey::from_secret_key(&secp, &self.e).serialize();
		self.sym.mix_hash(&epub);
		let es = ecdh(&self.rs, &self.e);
		let temp_k1 = self.sym.mix_key(&es);
		let c = encrypt_with_ad(&temp_k1, 0, &self.sym.h, &[]);
		self.sym.mix_hash(&c);
		let mut m = vec![0u8];
		m.extend_from_slice(&epub);
		m.extend_from_slice(&c);
		m
	}

	/// Processes act two and produces act three plus the transport keys.
	pub fn act_two_three(&mut self, act2: &[u8]) -> Result<(Vec<u8>, Transport), HsError> {
		if act2.len() != 50 {
			return Err(HsError::BadLength);
		}
		if act2[0] != 0 {
			return Err(HsError::BadVersion);
		}
		let re = PublicKey::from_slice(&act2[1..34]).map_err(|_| HsError::BadKey)?;
		self.sym.mix_hash(&re.serialize());
		let ee = ecdh(&re, &self.e);
		let temp_k2 = self.sym.mix_key(&ee);
		decrypt_with_ad(&temp_k2, 0, &self.sym.h, &act2[34..]).ok_or(HsError::BadMac)?;
		self.sym.mix_hash(&act2[34..]);

		let secp = Secp256k1::signing_only();
		let spub = PublicKey::from_secret_key(&secp, &self.s).serialize();
		let c = encrypt_with_ad(&temp_k2, 1, &self.sym.h, &spub);
		self.sym.mix_hash(&c);
		let se = ecdh(&re, &self.s);
		let temp_k3 = self.sym.mix_key(&se);
		let t = encrypt_with_ad(&temp_k3, 0, &self.sym.h, &[]);
		let (sk, rk) = hkdf2(&self.sym.ck, &[]);
		let mut m = vec![0u8];
		m.extend_from_slice(&c);
		m.extend_from_slice(&t);
		let ck = self.sym.ck;
		Ok((m, Transport { sk, sn: 0, sck: ck, rk, rn: 0, rck: ck, send_rotations: 0, recv_rotations: 0 }))
	}
}

pub struct Responder {
	sym: Symmetric,
	s: SecretKey,
	e: SecretKey,
	temp_k2: [u8; 32],
	/// the initiator's ephemeral key learnt from act one
	pub re: Option<PublicKey>,
}

impl Responder {
	pub fn new(s: SecretKey, e: SecretKey) -> Responder {
		let secp = Secp256k1::signing_only();
		let spub = PublicKey::from_secret_key(&secp, &s);
		Responder { sym: Symmetric::new(&spub), s, e, temp_k2: [0; 32], re: None }
	}

	pub fn act_one_two(&mut self, act1: &[u8]) -> Result<Vec<u8>, HsError> {
		if act1.len() != 50 {
			return Err(HsError::BadLength);
		}
		if act1[0] != 0 {
			return Err(HsError::BadVersion);
		}
		let re = PublicKey::from_slice(&act1[1..34]).map_err(|_| HsError::BadKey)?;
		self.sym.mix_hash(&re.serialize());
		let es = ecdh(&re, &self.s);
		let temp_k1 = self.sym.mix_key(&es);
		decrypt_with_ad(&temp_k1, 0, &self.sym.h, &act1[34..]).ok_or(HsError::BadMac)?;
		self.sym.mix_hash(&act1[34..]);
		self.re = Some(re);

		let secp = Secp256k1::signing_only();
		let epub = PublicKey::from_secret_key(&secp, &self.e).serialize();
		self.sym.mix_hash(&epub);
		let ee = ecdh(&re, &self.e);
		self.temp_k2 = self.sym.mix_key(&ee);
		let c = encrypt_with_ad(&self.temp_k2, 0, &self.sym.h, &[]);
		self.sym.mix_hash(&c);
		let mut m = vec![0u8];
		m.extend_from_slice(&epub);
		m.extend_from_slice(&c);
		Ok(m)
	}

	/// Processes act three: returns the initiator's authenticated static key and the transport.
	pub fn act_three(&mut self, act3: &[u8]) -> Result<(PublicKey, Transport), HsError> {
		if act3.len() != 66 {
			return Err(HsError::BadLength);
		}
		if act3[0] != 0 {
			return Err(HsError::BadVersion);
		}
		let rs_bytes = decrypt_with_ad(&self.temp_k2, 1, &self.sym.h, &act3[1..50]).ok_or(HsError::BadMac)?;
		let rs = PublicKey::from_slice(&rs_bytes).map_err(|_| HsError::BadKey)?;
		self.sym.mix_hash(&act3[1..50]);
		let se = ecdh(&rs, &self.e);
		let temp_k3 = self.sym.mix_key(&se);
		decrypt_with_ad(&temp_k3, 0, &self.sym.h, &act3[50..]).ok_or(HsError::BadMac)?;
		let (rk, sk) = hkdf2(&self.sym.ck, &[]);
		let ck = self.sym.ck;
		Ok((rs, Transport { sk, sn: 0, sck: ck, rk, rn: 0, rck: ck, send_rotations: 0, recv_rotations: 0 }))
	}
}

// ---------------------------------------------------------------------------------------------
// Self-test against published vectors. A failure is a harness error (exit 2), never a violation.
// ---------------------------------------------------------------------------------------------

fn unhex(s: &str) -> Vec<u8> {
	let s: String = s.chars().filter(|c| c.is_ascii_hexdigit()).collect();
	(0..s.len() / 2).map(|i| u8::from_str_radix(&s[2 * i..2 * i + 2], 16).unwrap()).collect()
}

fn key32(s: &str) -> [u8; 32] {
	let v = unhex(s);
	let mut k = [0u8; 32];
	k.copy_from_slice(&v);
	k
}

pub fn self_test() -> Result<(), String> {
	macro_rules! check {
		($c:expr, $($arg:tt)*) => { if !($c) { return Err(format!($($arg)*)); } };
	}
	// RFC 8439 §2.3.2 block function
	{
		let key = key32("000102030405060708090a0b0c0d0e0f101112131415161718191a1b1c1d1e1f");
		let nonce: [u8; 12] = [0, 0, 0, 9, 0, 0, 0, 0x4a, 0, 0, 0, 0];
		let b = chacha20_block(&key, 1, &nonce);
		check!(b[..16] == unhex("10f1e7e4d13b5915500fdd1fa32071c4")[..], "chacha20 block vector");
		check!(b[48..] == unhex("b5129cd1de164eb9cbd083e8a2503c4e")[..], "chacha20 block vector tail");
	}
	// RFC 8439 §2.5.2 Poly1305
	{
		let key = key32("85d6be7857556d337f4452fe42d506a80103808afb0db2fd4abff6af4149f51b");
		let tag = poly1305(&key, b"Cryptographic Forum Research Group");
		check!(tag[..] == unhex("a8061dc1305136c6c22b8baf0c0127a9")[..], "poly1305 vector: {:02x?}", tag);
	}
	// RFC 8439 §2.8.2 AEAD
	{
		let key = key32("808182838485868788898a8b8c8d8e8f909192939495969798999a9b9c9d9e9f");
		let nonce: [u8; 12] = [0x07, 0, 0, 0, 0x40, 0x41, 0x42, 0x43, 0x44, 0x45, 0x46, 0x47];
		let ad = unhex("50515253c0c1c2c3c4c5c6c7");
		let pt = b"Ladies and Gentlemen of the class of '99: If I could offer you only one tip for the future, sunscreen would be it.";
		let out = aead_encrypt_nonce(&key, &nonce, &ad, pt);
		check!(out.len() == pt.len() + 16, "aead length");
		check!(out[..16] == unhex("d31a8d34648e60db7b86afbc53ef7ec2")[..], "aead ciphertext head");
		check!(out[pt.len()..] == unhex("1ae10b594f09e26a7e902ecbd0600691")[..], "aead tag: {:02x?}", &out[pt.len()..]);
	}
	// AEAD round trip / tamper at a few sizes incl. block boundaries
	for len in [0usize, 1, 15, 16, 17, 63, 64, 65, 127, 128, 129, 1000, 65535] {
		let key = [0x42u8; 32];
		let pt: Vec<u8> = (0..len).map(|i| (i * 7 + 3) as u8).collect();
		let ct = encrypt_with_ad(&key, 5, b"ad", &pt);
		check!(decrypt_with_ad(&key, 5, b"ad", &ct).as_deref() == Some(&pt[..]), "aead roundtrip len {}", len);
		check!(decrypt_with_ad(&key, 6, b"ad", &ct).is_none(), "aead wrong nonce accepted len {}", len);
		let mut bad = ct.clone();
		let pos = bad.len() / 2;
		bad[pos] ^= 1;
		check!(decrypt_with_ad(&key, 5, b"ad", &bad).is_none(), "aead tamper accepted len {}", len);
	}

	// BOLT-8 appendix A: handshake vectors
	let secp = Secp256k1::new();
	let sk = |s: &str| SecretKey::from_slice(&key32(s)).unwrap();
	let rs_priv = sk("2121212121212121212121212121212121212121212121212121212121212121");
	let rs_pub = PublicKey::from_secret_key(&secp, &rs_priv);
	check!(rs_pub.serialize()[..] == unhex("028d7500dd4c12685d1f568b4c2b5048e8534b873319f3a8daa612b469132ec7f7")[..], "rs.pub");
	let ls_priv = sk("1111111111111111111111111111111111111111111111111111111111111111");
	let ie = sk("1212121212121212121212121212121212121212121212121212121212121212");
	let re = sk("2222222222222222222222222222222222222222222222222222222222222222");
	let act1_v = unhex("00036360e856310ce5d294e8be33fc807077dc56ac80d95d9cd4ddbd21325eff73f70df6086551151f58b8afe6c195782c6a");
	let act2_v = unhex("0002466d7fcae563e5cb09a0d1870bb580344804617879a14949cf22285f1bae3f276e2470b93aac583c9ef6eafca3f730ae");
	let act3_v = unhex("00b9e3a702e93e3a9948c2ed6e5fd7590a6e1c3a0344cfc9d5b57357049aa22355361aa02e55a8fc28fef5bd6d71ad0c38228dc68b1c466263b47fdf31e560e139ba");

	let mut ini = Initiator::new(ls_priv, ie, rs_pub);
	let a1 = ini.act_one();
	check!(a1 == act1_v, "initiator act one");
	let (a3, mut it) = ini.act_two_three(&act2_v).map_err(|e| format!("initiator act two: {:?}", e))?;
	check!(a3 == act3_v, "initiator act three");
	check!(it.sk == key32("969ab31b4d288cedf6218839b27a3e2140827047f2c0f01bf5c04435d43511a9"), "initiator sk");
	check!(it.rk == key32("bb9020b8965f4df047e07f955f3c4b88418984aadc5cdb35096b9ea8fa5c3442"), "initiator rk");
	check!(it.sck == key32("919219dbb2920afa8db80f9a51787a840bcf111ed8d588caf9ab4be716e42b01"), "initiator ck");

	let mut resp = Responder::new(rs_priv, re);
	let a2 = resp.act_one_two(&act1_v).map_err(|e| format!("responder act one: {:?}", e))?;
	check!(a2 == act2_v, "responder act two");
	let (their, mut rt) = resp.act_three(&act3_v).map_err(|e| format!("responder act three: {:?}", e))?;
	check!(their.serialize()[..] == unhex("034f355bdcb7cc0af728ef3cceb9615d90684bb5b2ca5f859ab0f0b704075871aa")[..], "responder learnt rs");
	check!(rt.rk == it.sk && rt.sk == it.rk, "responder keys mirror initiator keys");

	// negative handshake vectors
	{
		let bad = |hexs: &str| unhex(hexs);
		let mut r = Responder::new(rs_priv, re);
		check!(r.act_one_two(&bad("01036360e856310ce5d294e8be33fc807077dc56ac80d95d9cd4ddbd21325eff73f70df6086551151f58b8afe6c195782c6a")) == Err(HsError::BadVersion), "act1 bad version");
		let mut r = Responder::new(rs_priv, re);
		check!(r.act_one_two(&bad("00046360e856310ce5d294e8be33fc807077dc56ac80d95d9cd4ddbd21325eff73f70df6086551151f58b8afe6c195782c6a")) == Err(HsError::BadKey), "act1 bad key");
		let mut r = Responder::new(rs_priv, re);
		check!(r.act_one_two(&bad("00036360e856310ce5d294e8be33fc807077dc56ac80d95d9cd4ddbd21325eff73f70df6086551151f58b8afe6c195782c6b")) == Err(HsError::BadMac), "act1 bad mac");
		let mut i = Initiator::new(ls_priv, ie, rs_pub);
		i.act_one();
		check!(i.act_two_three(&bad("0002466d7fcae563e5cb09a0d1870bb580344804617879a14949cf22285f1bae3f276e2470b93aac583c9ef6eafca3f730af")).err() == Some(HsError::BadMac), "act2 bad mac");
		let mut r = Responder::new(rs_priv, re);
		r.act_one_two(&act1_v).unwrap();
		check!(r.act_three(&bad("00c9e3a702e93e3a9948c2ed6e5fd7590a6e1c3a0344cfc9d5b57357049aa22355361aa02e55a8fc28fef5bd6d71ad0c38228dc68b1c466263b47fdf31e560e139ba")).err() == Some(HsError::BadMac), "act3 bad ciphertext mac");
		let mut r = Responder::new(rs_priv, re);
		r.act_one_two(&act1_v).unwrap();
		check!(r.act_three(&bad("00bfe3a702e93e3a9948c2ed6e5fd7590a6e1c3a0344cfc9d5b57357049aa2235536ad09a8ee351870c2bb7f78b754a26c6cef79a98d25139c856d7efd252c2ae73c")).err() == Some(HsError::BadKey), "act3 bad rs");
		let mut r = Responder::new(rs_priv, re);
		r.act_one_two(&act1_v).unwrap();
		check!(r.act_three(&bad("00b9e3a702e93e3a9948c2ed6e5fd7590a6e1c3a0344cfc9d5b57357049aa22355361aa02e55a8fc28fef5bd6d71ad0c38228dc68b1c466263b47fdf31e560e139bb")).err() == Some(HsError::BadMac), "act3 bad mac");
	}

	// message encryption vectors incl. the two rotations
	let mut mirror = rt.mirror();
	for i in 0..1005u32 {
		let c = it.encrypt(b"hello");
		let want = match i {
			0 => Some("cf2b30ddf0cf3f80e7c35a6e6730b59fe802473180f396d88a8fb0db8cbcf25d2f214cf9ea1d95"),
			1 => Some("72887022101f0b6753e0c7de21657d35a4cb2a1f5cde2650528bbc8f837d0f0d7ad833b1a256a1"),
			500 => Some("178cb9d7387190fa34db9c2d50027d21793c9bc2d40b1e14dcf30ebeeeb220f48364f7a4c68bf8"),
			501 => Some("1b186c57d44eb6de4c057c49940d79bb838a145cb528d6e8fd26dbe50a60ca2c104b56b60e45bd"),
			1000 => Some("4a2f3cc3b5e78ddb83dcb426d9863d9d9a723b0337c89dd0b005d89f8d3c05c52b76b29b740f09"),
			1001 => Some("2ecd8c8a5629d0d02ab457a0fdd0f7b90a192cd46be5ecb6ca570bfc5e268338b1a16cf4ef2d36"),
			_ => None,
		};
		if let Some(w) = want {
			check!(c == unhex(w), "message vector {}", i);
		}
		check!(mirror.encrypt(b"hello") == c, "mirror state diverges at {}", i);
		check!(rt.decrypt_len(&c[..18]) == Some(5), "decrypt length {}", i);
		check!(rt.decrypt_body(&c[18..]).as_deref() == Some(&b"hello"[..]), "decrypt body {}", i);
	}
	check!(it.send_rotations == 2 && rt.recv_rotations == 2, "rotation count");
	Ok(())
}
