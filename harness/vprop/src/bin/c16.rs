//! C16 — returned routes are valid for the graph and for the caller's constraints.
//!
//! One case = one generated network graph (2–40 nodes, built through the public `NetworkGraph`
//! update API with a UTXO lookup that supplies the capacity or nothing) plus a scorer history and
//! a list of routing queries answered on that graph by `routing::router::find_route`.
//!
//! Oracle 1 (*validator*, every `Ok` route): an independent re-derivation of what a valid route is,
//! from the property text, BOLT-7 fee / CLTV semantics and the documented meaning of the `RouteHop`
//! fields, evaluated against a snapshot of the read-only graph view and the caller's inputs.
//! Oracle 2 (*completeness*, every `Err` in the slack regime): an own depth-first search for a single
//! simple path whose limits have so much slack that the router's (fee-greedy, payee-to-payer) search
//! provably cannot miss a path; if one exists `find_route` must not have failed.

use std::collections::{BTreeMap, BTreeSet, HashMap};
use std::sync::{Arc, OnceLock};
use std::time::Duration;

use bitcoin::constants::ChainHash;
use bitcoin::network::Network;
use bitcoin::secp256k1::{PublicKey, Secp256k1, SecretKey};
use bitcoin::{Amount, ScriptBuf, TxOut};

use lightning::blinded_path::payment::{BlindedPayInfo, BlindedPaymentPath};
use lightning::blinded_path::BlindedHop;
use lightning::ln::chan_utils::make_funding_redeemscript;
use lightning::ln::channel_state::{ChannelCounterparty, ChannelDetails, ChannelShutdownState};
use lightning::ln::msgs::{UnsignedChannelAnnouncement, UnsignedChannelUpdate, UnsignedNodeAnnouncement};
use lightning::ln::types::ChannelId;
use lightning::routing::gossip::{NetworkGraph, NodeAlias, NodeId};
use lightning::routing::router::{
	find_route, BlindedTail, InFlightHtlcs, Path, PaymentParameters, Route, RouteHop, RouteParameters, ScorerAccountingForInFlightHtlcs,
};
use lightning::routing::scoring::{
	FixedPenaltyScorer, ProbabilisticScorer, ProbabilisticScoringDecayParameters, ProbabilisticScoringFeeParameters, ScoreUpdate,
};
use lightning::routing::utxo::{UtxoLookup, UtxoLookupError, UtxoResult};
use lightning::util::logger::{Logger, Record};
use lightning::util::wakers::Notifier;
use lightning_types::features::{BlindedHopFeatures, Bolt11InvoiceFeatures, Bolt12InvoiceFeatures, ChannelFeatures, InitFeatures, NodeFeatures};
use lightning_types::routing::{RouteHint, RouteHintHop, RoutingFees};

use proptest::collection::vec;
use proptest::prelude::*;
use serde::{Deserialize, Serialize};
use vcore::*;

/// 21 million BTC in msat (`ln::msgs::MAX_VALUE_MSAT` is crate-private): no amount or limit exceeds it.
const MAX_VALUE_MSAT: u64 = 21_000_000_0000_0000_000;

// ---------------------------------------------------------------------------------------------
// case types (plain data; the replay format)
// ---------------------------------------------------------------------------------------------

#[derive(Clone, Debug, Serialize, Deserialize)]
struct DirSpec {
	en: bool,
	min: u64,
	/// clamped to the capacity (if known) and to MAX_VALUE_MSAT when the update is built
	max: u64,
	base: u32,
	ppm: u32,
	cltv: u16,
}

#[derive(Clone, Debug, Serialize, Deserialize)]
struct ChanSpec {
	/// endpoints as indices into the graph's nodes (a != b after resolution)
	a: u16,
	b: u16,
	/// capacity in sat reported by the UTXO lookup; None = no lookup available for this channel
	cap: Option<u64>,
	/// d[0] is the a->b direction, d[1] b->a; None = no channel_update received
	d: [Option<DirSpec>; 2],
}

#[derive(Clone, Debug, Serialize, Deserialize)]
struct GraphSpec {
	n: u8,
	/// typical channel size in sat (amounts and limits are generated around it)
	scale: u64,
	/// per node: 0 no node_announcement, 1 announcement without MPP, 2 with basic MPP
	ann: Vec<u8>,
	chans: Vec<ChanSpec>,
}

/// One scorer-history event: a (dummy first hop +) walk over up to 3 graph channels.
#[derive(Clone, Debug, Serialize, Deserialize)]
struct HistEv {
	chan: u16,
	dir: bool,
	more: Vec<u16>,
	amount: u64,
	/// None = success, Some(i) = failed at the i-th walked channel
	fail_at: Option<u8>,
}

#[derive(Clone, Debug, Serialize, Deserialize)]
struct FirstHop {
	peer: u16,
	/// use the scid of an announced channel payer<->peer as `short_channel_id` when one exists
	public_scid: bool,
	/// also set an `outbound_scid_alias` (which routes must then use)
	alias: bool,
	limit: u64,
	min: u64,
}

#[derive(Clone, Debug, Serialize, Deserialize)]
struct HintHop {
	/// source of the first hop of a hint: a graph node; later hops: private node unless `public`
	src: u16,
	public: bool,
	base: u32,
	ppm: u32,
	cltv: u16,
	min: Option<u64>,
	max: Option<u64>,
	/// (first hop of a hint only) the hint describes one of the payer's own first-hop channels, named by that
	/// channel's real short_channel_id (as the payer's peer would put it into an invoice): the source is the payer
	/// and the next node is that first hop's peer
	#[serde(default)]
	own: Option<u16>,
}

#[derive(Clone, Debug, Serialize, Deserialize)]
struct BlindedSpec {
	intro: u16,
	hops: u8,
	base: u32,
	ppm: u32,
	cltv: u16,
	min: u64,
	max: u64,
}

#[derive(Clone, Debug, Serialize, Deserialize)]
enum PayeeSpec {
	Clear {
		node: u16,
		/// payee is not a graph node (reachable only through hints / first hops)
		private: bool,
		/// 0 no invoice features, 1 features without MPP, 2 features with basic MPP
		mpp: u8,
		final_cltv: u32,
		hints: Vec<Vec<HintHop>>,
	},
	Blinded {
		mpp: bool,
		paths: Vec<BlindedSpec>,
	},
}

#[derive(Clone, Debug, Serialize, Deserialize)]
enum Amt {
	Abs(u64),
	/// graph scale (msat) * num / 16
	Scale(u16),
	/// the idx-th limit occurring in the inputs, divided by div, plus delta
	Near { idx: u16, div: u8, delta: i8 },
	/// above every satoshi in existence
	Beyond,
}

#[derive(Clone, Debug, Serialize, Deserialize)]
enum FeeCap {
	None,
	/// `RouteParameters::from_payment_params_and_value` default: 1% + 50 sat
	Default,
	Abs(u64),
}

#[derive(Clone, Debug, Serialize, Deserialize)]
struct Query {
	payer: u16,
	/// payer is not a graph node (then only first hops can lead anywhere)
	payer_private: bool,
	payee: PayeeSpec,
	first_hops: Option<Vec<FirstHop>>,
	amount: Amt,
	max_paths: u8,
	max_len: u8,
	max_cltv: u32,
	max_fee: FeeCap,
	sat_pow: u8,
	/// indices into the list of all scids that occur in the inputs
	failed: Vec<u16>,
	failed_blinded: Vec<u8>,
	/// 0 fixed penalty, 1 probabilistic (default params, case history); +2 = wrapped with in-flight HTLCs
	scorer: u8,
	penalty: u64,
	inflight: Vec<(u16, bool, u64)>,
	seed: u64,
}

#[derive(Clone, Debug, Serialize, Deserialize)]
struct Case {
	g: GraphSpec,
	hist: Vec<HistEv>,
	qs: Vec<Query>,
}

// ---------------------------------------------------------------------------------------------
// generators
// ---------------------------------------------------------------------------------------------

/// log-uniform-ish u64 below 2^bits
fn logu(bits: u32) -> SBoxedStrategy<u64> {
	(0..=bits, any::<u64>()).prop_map(|(b, x)| if b == 0 { 0 } else { (x >> (64 - b)) | (1u64 << (b - 1)) }).sboxed()
}

fn base_fee() -> SBoxedStrategy<u32> {
	prop_oneof![3 => Just(0u32), 5 => 0..=5000u32, 1 => any::<u32>()].sboxed()
}
fn ppm_fee() -> SBoxedStrategy<u32> {
	prop_oneof![3 => Just(0u32), 5 => 0..=20_000u32, 1 => 0..=2_000_000u32, 1 => any::<u32>()].sboxed()
}
fn cltv_delta() -> SBoxedStrategy<u16> {
	prop_oneof![1 => Just(0u16), 6 => 6..=144u16, 2 => 0..=2016u16].sboxed()
}

fn dir_strat(scale: u64) -> SBoxedStrategy<Option<DirSpec>> {
	let sm = scale.saturating_mul(1000);
	let min = prop_oneof![
		6 => Just(0u64),
		3 => 1..=1000u64,
		2 => (1..=16u64).prop_map(move |k| sm / 16 * k),
		1 => logu(45),
	];
	let max = prop_oneof![
		5 => Just(u64::MAX),
		3 => (1..=32u64, 1..=4u64).prop_map(move |(k, d)| (sm * k / d).max(1)),
		1 => logu(45),
	];
	let d = (min, max, base_fee(), ppm_fee(), cltv_delta(), prop::bool::weighted(0.93))
		.prop_map(|(min, max, base, ppm, cltv, en)| DirSpec { en, min, max, base, ppm, cltv });
	prop_oneof![30 => d.prop_map(Some), 1 => Just(None)].sboxed()
}

fn chan_strat(scale: u64) -> SBoxedStrategy<ChanSpec> {
	let cap = prop_oneof![
		6 => (1..=32u64).prop_map(move |k| Some(scale * k)),
		1 => logu(40).prop_map(|c| Some(c.max(1))),
		2 => Just(None),
	];
	(any::<u16>(), any::<u16>(), cap, dir_strat(scale), dir_strat(scale)).prop_map(|(a, b, cap, d0, d1)| ChanSpec { a, b, cap, d: [d0, d1] }).sboxed()
}

fn graph_strat(max_nodes: u8) -> SBoxedStrategy<GraphSpec> {
	let n = if max_nodes <= 12 {
		(2..=max_nodes).sboxed()
	} else {
		prop_oneof![3 => 2..=6u8, 4 => 7..=12u8, 3 => 13..=max_nodes].sboxed()
	};
	let scale = prop_oneof![4 => 1_000..=100_000u64, 2 => 1..=1000u64, 2 => 100_000..=10_000_000u64];
	(n, scale)
		.prop_flat_map(|(n, scale)| {
			let nn = n as usize;
			let hi = (3 * nn).min(100).max(nn);
			(Just(n), Just(scale), vec(0..=2u8, nn), vec(chan_strat(scale), (nn - 1)..=hi))
		})
		.prop_map(|(n, scale, ann, chans)| GraphSpec { n, scale, ann, chans })
		.sboxed()
}

fn hist_strat() -> SBoxedStrategy<Vec<HistEv>> {
	let ev = (any::<u16>(), any::<bool>(), vec(any::<u16>(), 0..=2), logu(40), prop::option::weighted(0.6, 0..=2u8))
		.prop_map(|(chan, dir, more, amount, fail_at)| HistEv { chan, dir, more, amount: amount.max(1), fail_at });
	vec(ev, 0..=12).sboxed()
}

fn amount_strat() -> SBoxedStrategy<Amt> {
	prop_oneof![
		4 => logu(44).prop_map(|a| Amt::Abs(a.max(1))),
		3 => (1..=1000u64).prop_map(Amt::Abs),
		14 => (1..=400u16).prop_map(Amt::Scale),
		8 => (1..=32u16).prop_map(Amt::Scale),
		12 => (any::<u16>(), 1..=3u8, -1..=1i8).prop_map(|(idx, div, delta)| Amt::Near { idx, div, delta }),
		1 => Just(Amt::Beyond),
	]
	.sboxed()
}

fn first_hops_strat(scale: u64, p_some: f64) -> SBoxedStrategy<Option<Vec<FirstHop>>> {
	let sm = scale.saturating_mul(1000);
	let limit = prop_oneof![5 => (1..=64u64).prop_map(move |k| sm / 4 * k), 1 => logu(45), 1 => Just(0u64)];
	let min = prop_oneof![6 => Just(0u64), 2 => 1..=1000u64, 1 => (1..=8u64).prop_map(move |k| sm / 8 * k)];
	let fh = (any::<u16>(), any::<bool>(), prop::bool::weighted(0.3), limit, min).prop_map(|(peer, public_scid, alias, limit, min)| FirstHop {
		peer,
		public_scid,
		alias,
		limit,
		min,
	});
	prop::option::weighted(p_some, prop_oneof![1 => vec(fh.clone(), 0..=1), 20 => vec(fh, 1..=4)]).sboxed()
}

fn hint_strat(scale: u64) -> SBoxedStrategy<Vec<HintHop>> {
	let sm = scale.saturating_mul(1000);
	let min = prop_oneof![4 => Just(None), 2 => Just(Some(0u64)), 2 => (1..=1000u64).prop_map(Some), 1 => (1..=8u64).prop_map(move |k| Some(sm / 8 * k))];
	let max = prop_oneof![3 => Just(None), 4 => (1..=64u64).prop_map(move |k| Some(sm / 4 * k)), 1 => logu(45).prop_map(Some)];
	let hop = (any::<u16>(), prop::bool::weighted(0.2), base_fee(), ppm_fee(), cltv_delta(), min, max, prop::option::weighted(0.2, any::<u16>()))
		.prop_map(|(src, public, base, ppm, cltv, min, max, own)| HintHop { src, public, base, ppm, cltv, min, max, own });
	vec(hop, 1..=3).sboxed()
}

fn blinded_strat(scale: u64) -> SBoxedStrategy<BlindedSpec> {
	let sm = scale.saturating_mul(1000);
	let min = prop_oneof![5 => Just(0u64), 2 => 1..=1000u64, 2 => (1..=8u64).prop_map(move |k| sm / 8 * k)];
	let max = prop_oneof![2 => Just(MAX_VALUE_MSAT), 5 => (1..=64u64).prop_map(move |k| sm / 4 * k), 1 => logu(45)];
	(any::<u16>(), 1..=3u8, base_fee(), ppm_fee(), cltv_delta(), min, max)
		.prop_map(|(intro, hops, base, ppm, cltv, min, max)| BlindedSpec { intro, hops, base, ppm, cltv, min, max })
		.sboxed()
}

fn payee_strat(scale: u64) -> SBoxedStrategy<PayeeSpec> {
	let mpp = prop_oneof![2 => Just(0u8), 1 => Just(1u8), 4 => Just(2u8)];
	let final_cltv = prop_oneof![30 => 1..=144u32, 1 => Just(0u32), 1 => 145..=2000u32];
	let hints = prop_oneof![12 => Just(vec![]), 5 => vec(hint_strat(scale), 1..=3)];
	let clear = (any::<u16>(), prop::bool::weighted(0.12), mpp, final_cltv, hints).prop_map(|(node, private, mpp, final_cltv, hints)| PayeeSpec::Clear {
		node,
		private,
		mpp,
		final_cltv,
		hints,
	});
	let blinded = (prop::bool::weighted(0.7), vec(blinded_strat(scale), 1..=3)).prop_map(|(mpp, paths)| PayeeSpec::Blinded { mpp, paths });
	prop_oneof![4 => clear, 1 => blinded].sboxed()
}

/// General queries: every parameter varies.
fn query_strat(scale: u64) -> SBoxedStrategy<Query> {
	let max_paths = prop_oneof![30 => Just(10u8), 20 => Just(1u8), 40 => 2..=8u8, 1 => Just(0u8)];
	let max_len = prop_oneof![16 => Just(19u8), 3 => 1..=6u8, 1 => any::<u8>()];
	let max_cltv = prop_oneof![12 => Just(1008u32), 1 => 0..=150u32, 2 => 150..=600u32, 3 => 600..=6000u32, 2 => Just(u32::MAX)];
	let sm = scale.saturating_mul(1000);
	let max_fee = prop_oneof![
		4 => Just(FeeCap::None),
		3 => Just(FeeCap::Default),
		3 => (0..=64u64).prop_map(move |k| FeeCap::Abs(sm / 256 * k)),
		1 => (0..=20_000u64).prop_map(FeeCap::Abs),
	];
	let sat_pow = prop_oneof![5 => Just(2u8), 4 => 0..=8u8, 1 => any::<u8>()];
	let failed = prop_oneof![7 => Just(vec![]), 3 => vec(any::<u16>(), 1..=4)];
	let failed_blinded = prop_oneof![7 => Just(vec![]), 3 => vec(0..=3u8, 1..=2)];
	let inflight = vec((any::<u16>(), any::<bool>(), logu(42)), 0..=4);
	(
		(any::<u16>(), prop::bool::weighted(0.06), payee_strat(scale), first_hops_strat(scale, 0.45), amount_strat()),
		(max_paths, max_len, max_cltv, max_fee, sat_pow),
		(failed, failed_blinded, 0..=3u8, logu(24), inflight, any::<u64>()),
	)
		.prop_map(|((payer, payer_private, payee, first_hops, amount), (max_paths, max_len, max_cltv, max_fee, sat_pow), (failed, failed_blinded, scorer, penalty, inflight, seed))| Query {
			payer,
			payer_private,
			payee,
			first_hops,
			amount,
			max_paths,
			max_len,
			max_cltv,
			max_fee,
			sat_pow,
			failed,
			failed_blinded,
			scorer,
			penalty,
			inflight,
			seed,
		})
		.sboxed()
}

/// Queries inside the slack regime of the completeness clause: no fee cap, no CLTV cap, default
/// path length, nothing excluded, zero-penalty scorer, no in-flight HTLCs, small amounts.
fn slack_query_strat(scale: u64) -> SBoxedStrategy<Query> {
	let amount = prop_oneof![3 => (1..=2000u64).prop_map(Amt::Abs), 3 => (1..=24u16).prop_map(Amt::Scale), 1 => (any::<u16>(), 2..=3u8, -1..=1i8).prop_map(|(idx, div, delta)| Amt::Near { idx, div, delta })];
	let max_paths = prop_oneof![4 => Just(1u8), 1 => 2..=10u8];
	(any::<u16>(), prop::bool::weighted(0.05), payee_strat(scale), first_hops_strat(scale, 0.3), amount, max_paths, 0..=8u8, any::<u64>())
		.prop_map(|(payer, payer_private, payee, first_hops, amount, max_paths, sat_pow, seed)| Query {
			payer,
			payer_private,
			payee,
			first_hops,
			amount,
			max_paths,
			max_len: 19,
			max_cltv: u32::MAX,
			max_fee: FeeCap::None,
			sat_pow,
			failed: vec![],
			failed_blinded: vec![],
			scorer: 0,
			penalty: 0,
			inflight: vec![],
			seed,
		})
		.sboxed()
}

fn case_strat(max_nodes: u8, queries: usize, slack: bool) -> SBoxedStrategy<Case> {
	graph_strat(max_nodes)
		.prop_flat_map(move |g| {
			let q = if slack { slack_query_strat(g.scale) } else { query_strat(g.scale) };
			(Just(g), hist_strat(), vec(q, queries))
		})
		.prop_map(|(g, hist, qs)| Case { g, hist, qs })
		.sboxed()
}

// ---------------------------------------------------------------------------------------------
// building the library inputs from a case
// ---------------------------------------------------------------------------------------------

/// Silent unless a replay is running (then the router's trace goes to the replay log).
static VERBOSE: std::sync::atomic::AtomicBool = std::sync::atomic::AtomicBool::new(false);
struct NullLogger;
impl Logger for NullLogger {
	fn log(&self, record: Record) {
		if VERBOSE.load(std::sync::atomic::Ordering::Relaxed) {
			eprintln!("    [{}] {}", record.level, record.args);
		}
	}
}

/// 64 fixed keys: 0..40 graph nodes, 40 private payer, 41 private payee, 42.. private hint nodes,
/// 56.. blinding points, 63 blinded hop id.
fn keytab() -> &'static Vec<(PublicKey, NodeId)> {
	static T: OnceLock<Vec<(PublicKey, NodeId)>> = OnceLock::new();
	T.get_or_init(|| {
		let secp = Secp256k1::new();
		(0..64u8)
			.map(|i| {
				let mut b = [0x21u8; 32];
				b[31] = i + 1;
				b[7] = i.wrapping_mul(37);
				let pk = PublicKey::from_secret_key(&secp, &SecretKey::from_slice(&b).unwrap());
				(pk, NodeId::from_pubkey(&pk))
			})
			.collect()
	})
}
fn pk(i: usize) -> PublicKey {
	keytab()[i].0
}
fn nid(i: usize) -> NodeId {
	keytab()[i].1
}
const K_PRIV_PAYER: usize = 40;
const K_PRIV_PAYEE: usize = 41;
const K_HINT: usize = 42;
const K_BLIND: usize = 56;
const K_BHOP: usize = 63;

const SCID_PUB: u64 = 1000;
const SCID_FIRST: u64 = 2_000_000;
const SCID_ALIAS: u64 = 2_100_000;
const SCID_HINT: u64 = 3_000_000;

struct Utxo(HashMap<u64, (u64, ScriptBuf)>);
impl UtxoLookup for Utxo {
	fn get_utxo(&self, _chain_hash: &ChainHash, scid: u64, _n: Arc<Notifier>) -> UtxoResult {
		match self.0.get(&scid) {
			Some((sats, script)) => UtxoResult::Sync(Ok(TxOut { value: Amount::from_sat(*sats), script_pubkey: script.clone() })),
			None => UtxoResult::Sync(Err(UtxoLookupError::UnknownTx)),
		}
	}
}

/// Resolved endpoints (key indices) of the graph's channels.
fn chan_endpoints(g: &GraphSpec) -> Vec<(usize, usize)> {
	let n = g.n as usize;
	g.chans
		.iter()
		.enumerate()
		.map(|(i, c)| {
			if i + 1 < n {
				// spanning tree: node i+1 attaches to an earlier node
				(i + 1, pick(c.a, i + 1))
			} else {
				let a = pick(c.a, n);
				let mut b = pick(c.b, n - 1);
				if b >= a {
					b += 1;
				}
				(a, b)
			}
		})
		.collect()
}

fn build_graph(g: &GraphSpec) -> NetworkGraph<NullLogger> {
	let graph = NetworkGraph::new(Network::Testnet, NullLogger);
	let chain_hash = ChainHash::using_genesis_block(Network::Testnet);
	let ends = chan_endpoints(g);
	for (i, c) in g.chans.iter().enumerate() {
		let scid = SCID_PUB + i as u64;
		let (a, b) = ends[i];
		let (one, two) = if nid(a) < nid(b) { (a, b) } else { (b, a) };
		let ann = UnsignedChannelAnnouncement {
			features: ChannelFeatures::empty(),
			chain_hash,
			short_channel_id: scid,
			node_id_1: nid(one),
			node_id_2: nid(two),
			bitcoin_key_1: nid(one),
			bitcoin_key_2: nid(two),
			excess_data: vec![],
		};
		let cap = c.cap.map(|s| s.clamp(1, MAX_VALUE_MSAT / 1000));
		let res = match cap {
			Some(sats) => {
				let script = make_funding_redeemscript(&pk(one), &pk(two)).to_p2wsh();
				let mut m = HashMap::new();
				m.insert(scid, (sats, script));
				graph.update_channel_from_unsigned_announcement(&ann, &Some(Utxo(m)))
			},
			None => graph.update_channel_from_unsigned_announcement::<Utxo>(&ann, &None),
		};
		if res.is_err() {
			continue;
		}
		for (di, d) in c.d.iter().enumerate() {
			let Some(d) = d else { continue };
			// d[0] is a->b: the update of node a; channel_flags bit 0 = 1 when sent by node_two
			let from = if di == 0 { a } else { b };
			let flags = (if from == one { 0u8 } else { 1u8 }) | (if d.en { 0 } else { 2 });
			let mut max = d.max.min(MAX_VALUE_MSAT);
			if let Some(sats) = cap {
				max = max.min(sats * 1000);
			}
			let upd = UnsignedChannelUpdate {
				chain_hash,
				short_channel_id: scid,
				timestamp: 100,
				message_flags: 1,
				channel_flags: flags,
				cltv_expiry_delta: d.cltv,
				htlc_minimum_msat: d.min,
				htlc_maximum_msat: max,
				fee_base_msat: d.base,
				fee_proportional_millionths: d.ppm,
				excess_data: vec![],
			};
			let _ = graph.update_channel_unsigned(&upd);
		}
	}
	for i in 0..g.n as usize {
		let kind = g.ann.get(i).copied().unwrap_or(0);
		if kind == 0 {
			continue;
		}
		let mut features = NodeFeatures::empty();
		features.set_variable_length_onion_optional();
		if kind == 2 {
			features.set_basic_mpp_optional();
		}
		let ann = UnsignedNodeAnnouncement {
			features,
			timestamp: 100,
			node_id: nid(i),
			rgb: [0; 3],
			alias: NodeAlias([0; 32]),
			addresses: vec![],
			excess_address_data: vec![],
			excess_data: vec![],
		};
		let _ = graph.update_node_from_unsigned_announcement(&ann);
	}
	graph
}

// ---------------------------------------------------------------------------------------------
// the independent model: a snapshot of the read-only view + the caller's inputs
// ---------------------------------------------------------------------------------------------

/// Forwarding policy of one directed edge, as the validator sees it.
#[derive(Clone, Copy, Debug)]
struct Pol {
	min: u64,
	max: u64,
	base: u64,
	ppm: u64,
	cltv: u32,
	enabled: bool,
}
const FREE: Pol = Pol { min: 0, max: u64::MAX, base: 0, ppm: 0, cltv: 0, enabled: true };

/// BOLT-7: fee_base_msat + amount_to_forward * fee_proportional_millionths / 1_000_000
fn fee_of(p: &Pol, amt: u64) -> u128 {
	p.base as u128 + (amt as u128 * p.ppm as u128) / 1_000_000
}

struct MChan {
	n1: NodeId,
	n2: NodeId,
	cap_msat: Option<u64>,
	/// d[0]: n1 -> n2
	d: [Option<Pol>; 2],
}

fn snapshot(g: &GraphSpec, graph: &NetworkGraph<NullLogger>) -> (BTreeMap<u64, MChan>, BTreeMap<NodeId, bool>) {
	let ro = graph.read_only();
	let mut chans = BTreeMap::new();
	for i in 0..g.chans.len() {
		let scid = SCID_PUB + i as u64;
		if let Some(c) = ro.channel(scid) {
			let conv = |u: &lightning::routing::gossip::ChannelUpdateInfo| Pol {
				min: u.htlc_minimum_msat,
				max: u.htlc_maximum_msat,
				base: u.fees.base_msat as u64,
				ppm: u.fees.proportional_millionths as u64,
				cltv: u.cltv_expiry_delta as u32,
				enabled: u.enabled,
			};
			chans.insert(
				scid,
				MChan { n1: c.node_one, n2: c.node_two, cap_msat: c.capacity_sats.map(|s| s * 1000), d: [c.one_to_two.as_ref().map(conv), c.two_to_one.as_ref().map(conv)] },
			);
		}
	}
	let mut mpp = BTreeMap::new();
	for i in 0..g.n as usize {
		if let Some(n) = ro.node(&nid(i)) {
			mpp.insert(nid(i), n.announcement_info.as_ref().map_or(false, |a| a.features().supports_basic_mpp()));
		}
	}
	(chans, mpp)
}

struct MFirst {
	scid: u64,
	/// the channel's real short_channel_id (differs from `scid` when an outbound alias is set)
	real: u64,
	peer: NodeId,
	limit: u64,
	min: u64,
}
struct MHint {
	scid: u64,
	src: NodeId,
	dst: NodeId,
	pol: Pol,
}
struct MBlinded {
	intro: NodeId,
	blinding: PublicKey,
	nhops: usize,
	/// aggregated payinfo; FREE for a one-hop path (its payinfo is documented as ignored)
	pol: Pol,
	failed: bool,
}
enum MPayee {
	Clear { id: NodeId, final_cltv: u32 },
	Blinded { paths: Vec<MBlinded> },
}

/// Everything one query hands to `find_route`, in model form.
struct World<'a> {
	chans: &'a BTreeMap<u64, MChan>,
	payer: NodeId,
	first: Option<Vec<MFirst>>,
	hints: Vec<MHint>,
	payee: MPayee,
	amount: u64,
	max_paths: u8,
	allow_mpp: bool,
	max_len: u8,
	max_cltv: u32,
	max_fee: Option<u64>,
	failed_scids: Vec<u64>,
}

/// Library-side inputs of one query.
struct Inputs {
	payer_pk: PublicKey,
	params: RouteParameters,
	first: Option<Vec<ChannelDetails>>,
	inflight: InFlightHtlcs,
	seed: [u8; 32],
}

fn channel_details(scid: Option<u64>, alias: Option<u64>, peer: PublicKey, limit: u64, min: u64, announced: bool) -> ChannelDetails {
	ChannelDetails {
		channel_id: ChannelId::new_zero(),
		counterparty: ChannelCounterparty {
			node_id: peer,
			features: InitFeatures::empty(),
			unspendable_punishment_reserve: 0,
			forwarding_info: None,
			outbound_htlc_minimum_msat: None,
			outbound_htlc_maximum_msat: None,
		},
		funding_txo: None,
		funding_redeem_script: None,
		channel_type: None,
		short_channel_id: scid,
		outbound_scid_alias: alias,
		inbound_scid_alias: None,
		channel_value_satoshis: limit / 1000 + 1,
		unspendable_punishment_reserve: None,
		user_channel_id: 0,
		feerate_sat_per_1000_weight: None,
		outbound_capacity_msat: limit,
		next_outbound_htlc_limit_msat: limit,
		next_outbound_htlc_minimum_msat: min,
		next_splice_out_maximum_sat: limit / 1000,
		inbound_capacity_msat: 0,
		confirmations_required: None,
		confirmations: Some(10),
		force_close_spend_delay: None,
		is_outbound: true,
		is_channel_ready: true,
		channel_shutdown_state: Some(ChannelShutdownState::NotShuttingDown),
		is_usable: true,
		is_announced: announced,
		inbound_htlc_minimum_msat: None,
		inbound_htlc_maximum_msat: None,
		config: None,
		pending_inbound_htlcs: vec![],
		pending_outbound_htlcs: vec![],
		current_dust_exposure_msat: None,
		splice_details: None,
	}
}

/// Resolve a query against the graph spec: the model `World` and the library `Inputs`.
fn resolve<'a>(g: &GraphSpec, ends: &[(usize, usize)], chans: &'a BTreeMap<u64, MChan>, node_mpp: &BTreeMap<NodeId, bool>, q: &Query) -> (World<'a>, Inputs) {
	let n = g.n as usize;
	// an unannounced payer can only get anywhere through supplied first hops
	let payer_k = if q.payer_private && q.first_hops.is_some() { K_PRIV_PAYER } else { pick(q.payer, n) };
	let payer = nid(payer_k);
	let mut limits: Vec<u64> = vec![];
	let mut scids: Vec<u64> = vec![];
	for (i, c) in g.chans.iter().enumerate() {
		scids.push(SCID_PUB + i as u64);
		if let Some(m) = chans.get(&(SCID_PUB + i as u64)) {
			if let Some(cap) = m.cap_msat {
				limits.push(cap);
			}
			for d in m.d.iter().flatten() {
				limits.push(d.max);
				if d.min > 0 {
					limits.push(d.min);
				}
			}
		}
		let _ = c;
	}

	// first hops
	let mut mfirst = None;
	let mut lfirst = None;
	// (peer index, real short_channel_id) per supplied first hop
	let mut first_k: Vec<(usize, u64)> = vec![];
	if let Some(fhs) = &q.first_hops {
		let mut mv = vec![];
		let mut lv = vec![];
		for (j, fh) in fhs.iter().enumerate() {
			let mut peer_k = pick(fh.peer, n);
			if peer_k == payer_k {
				peer_k = (peer_k + 1) % n;
				if peer_k == payer_k {
					continue;
				}
			}
			let mut scid = SCID_FIRST + j as u64;
			let mut announced = false;
			if fh.public_scid {
				// an announced channel between payer and peer, if any
				if let Some((ci, _)) = ends.iter().enumerate().find(|(ci, (a, b))| ((*a, *b) == (payer_k, peer_k) || (*a, *b) == (peer_k, payer_k)) && chans.contains_key(&(SCID_PUB + *ci as u64))) {
					let s = SCID_PUB + ci as u64;
					if !mv.iter().any(|m: &MFirst| m.scid == s || m.real == s) {
						scid = s;
						announced = true;
					}
				}
			}
			let alias = if fh.alias { Some(SCID_ALIAS + j as u64) } else { None };
			let limit = fh.limit.min(MAX_VALUE_MSAT);
			lv.push(channel_details(Some(scid), alias, pk(peer_k), limit, fh.min, announced));
			// documented: routes use `outbound_scid_alias` if set, otherwise `short_channel_id`
			mv.push(MFirst { scid: alias.unwrap_or(scid), real: scid, peer: nid(peer_k), limit, min: fh.min });
			first_k.push((peer_k, scid));
			limits.push(limit);
			scids.push(alias.unwrap_or(scid));
		}
		mfirst = Some(mv);
		lfirst = Some(lv);
	}

	// payee, hints, blinded paths
	let mut mhints = vec![];
	let mut allow_param_mpp = false;
	let (mpayee, mut pparams) = match &q.payee {
		PayeeSpec::Clear { node, private, mpp, final_cltv, hints } => {
			// an unannounced payee is only reachable through route hints
			let mut payee_k = if *private && !hints.is_empty() { K_PRIV_PAYEE } else { pick(*node, n) };
			if payee_k == payer_k {
				// paying oneself is refused up front; spend the query on something else
				payee_k = (payee_k + 1) % n;
			}
			// hints that describe one of the payer's own first-hop channels: a one-hop hint of that kind makes that
			// first hop's peer the payee
			let own_of = |hint: &Vec<HintHop>| -> Option<(usize, u64)> { hint.first().and_then(|h0| h0.own).and_then(|i| if first_k.is_empty() { None } else { Some(first_k[pick(i, first_k.len())]) }) };
			if let Some((peer_k, _)) = hints.iter().take(3).filter(|h| h.len() == 1).find_map(|h| own_of(h)) {
				payee_k = peer_k;
			}
			let not_payee = |k: usize| if k == payee_k { (k + 1) % n } else { k };
			let mut lhints = vec![];
			for (h, hint) in hints.iter().enumerate().take(3) {
				let mut lh = vec![];
				let mut srcs: Vec<usize> = hint.iter().enumerate().map(|(k, hop)| if k == 0 || hop.public { not_payee(pick(hop.src, n)) } else { K_HINT + 4 * h + k }).collect();
				let own = own_of(hint).filter(|(peer_k, _)| if hint.len().min(3) == 1 { *peer_k == payee_k } else { *peer_k != payee_k });
				if let Some((peer_k, _)) = own {
					srcs[0] = payer_k;
					if srcs.len() > 1 {
						srcs[1] = peer_k;
					}
				}
				for (k, hop) in hint.iter().enumerate().take(3) {
					let scid = match own {
						Some((_, real)) if k == 0 => real,
						_ => SCID_HINT + 16 * h as u64 + k as u64,
					};
					let dst = if k + 1 < hint.len().min(3) { srcs[k + 1] } else { payee_k };
					lh.push(RouteHintHop {
						src_node_id: pk(srcs[k]),
						short_channel_id: scid,
						fees: RoutingFees { base_msat: hop.base, proportional_millionths: hop.ppm },
						cltv_expiry_delta: hop.cltv,
						htlc_minimum_msat: hop.min,
						htlc_maximum_msat: hop.max,
					});
					mhints.push(MHint {
						scid,
						src: nid(srcs[k]),
						dst: nid(dst),
						pol: Pol { min: hop.min.unwrap_or(0), max: hop.max.unwrap_or(u64::MAX), base: hop.base as u64, ppm: hop.ppm as u64, cltv: hop.cltv as u32, enabled: true },
					});
					if let Some(m) = hop.max {
						limits.push(m);
					}
					if let Some(m) = hop.min {
						if m > 0 {
							limits.push(m);
						}
					}
					scids.push(scid);
				}
				lhints.push(RouteHint(lh));
			}
			let mut pp = PaymentParameters::from_node_id(pk(payee_k), *final_cltv);
			if !lhints.is_empty() {
				pp = pp.with_route_hints(lhints).unwrap();
			}
			if *mpp > 0 {
				let mut f = Bolt11InvoiceFeatures::empty();
				f.set_variable_length_onion_required();
				f.set_payment_secret_required();
				if *mpp == 2 {
					f.set_basic_mpp_optional();
					allow_param_mpp = true;
				}
				pp = pp.with_bolt11_features(f).unwrap();
			}
			if node_mpp.get(&nid(payee_k)).copied().unwrap_or(false) {
				// documented: without invoice features MPP is used if the graph knows the payee supports it
				allow_param_mpp = true;
			}
			(MPayee::Clear { id: nid(payee_k), final_cltv: *final_cltv }, pp)
		},
		PayeeSpec::Blinded { mpp, paths } => {
			let mut mp = vec![];
			let mut lp = vec![];
			let mut one_hop_intro = None;
			for (j, b) in paths.iter().enumerate().take(3) {
				let mut intro_k = pick(b.intro, n);
				if intro_k == payer_k {
					intro_k = (intro_k + 1) % n;
				}
				let nh = b.hops.clamp(1, 3) as usize;
				if nh == 1 {
					// one-hop blinded paths end at their introduction node: the recipient is one node
					intro_k = *one_hop_intro.get_or_insert(intro_k);
				}
				let max = b.max.min(MAX_VALUE_MSAT);
				let payinfo = BlindedPayInfo {
					fee_base_msat: b.base,
					fee_proportional_millionths: b.ppm,
					cltv_expiry_delta: b.cltv,
					htlc_minimum_msat: b.min,
					htlc_maximum_msat: max,
					features: BlindedHopFeatures::empty(),
				};
				let hops = (0..nh).map(|_| BlindedHop { blinded_node_id: pk(K_BHOP), encrypted_payload: vec![] }).collect();
				lp.push(BlindedPaymentPath::from_blinded_path_and_payinfo(pk(intro_k), pk(K_BLIND + j), hops, payinfo));
				let pol = if nh == 1 { FREE } else { Pol { min: b.min, max, base: b.base as u64, ppm: b.ppm as u64, cltv: b.cltv as u32, enabled: true } };
				mp.push(MBlinded { intro: nid(intro_k), blinding: pk(K_BLIND + j), nhops: nh, pol, failed: q.failed_blinded.iter().any(|f| *f as usize == j) });
				if nh > 1 {
					limits.push(max);
					if b.min > 0 {
						limits.push(b.min);
					}
				}
			}
			let mut pp = PaymentParameters::blinded(lp);
			if *mpp {
				let mut f = Bolt12InvoiceFeatures::empty();
				f.set_basic_mpp_optional();
				pp = pp.with_bolt12_features(f).unwrap();
				allow_param_mpp = true;
			}
			(MPayee::Blinded { paths: mp }, pp)
		},
	};

	let sm = g.scale.saturating_mul(1000);
	let amount = match &q.amount {
		Amt::Abs(a) => *a,
		Amt::Scale(k) => (sm as u128 * *k as u128 / 16).min(u64::MAX as u128) as u64,
		Amt::Near { idx, div, delta } => {
			if limits.is_empty() {
				1
			} else {
				let l = limits[pick(*idx, limits.len())] / (*div).max(1) as u64;
				if *delta < 0 {
					l.saturating_sub(1)
				} else {
					l.saturating_add(*delta as u64)
				}
			}
		},
		Amt::Beyond => MAX_VALUE_MSAT + 1,
	}
	.max(1);

	let failed_scids: Vec<u64> = q.failed.iter().map(|i| scids[pick(*i, scids.len())]).collect();
	pparams.max_path_count = q.max_paths;
	pparams.max_path_length = q.max_len;
	pparams.max_total_cltv_expiry_delta = q.max_cltv;
	pparams.max_channel_saturation_power_of_half = q.sat_pow;
	pparams.previously_failed_channels = failed_scids.clone();
	pparams.previously_failed_blinded_path_idxs = q.failed_blinded.iter().map(|x| *x as u64).collect();
	let max_fee = match q.max_fee {
		FeeCap::None => None,
		FeeCap::Default => Some(amount / 100 + 50_000),
		FeeCap::Abs(f) => Some(f),
	};
	let params = RouteParameters { payment_params: pparams, final_value_msat: amount, max_total_routing_fee_msat: max_fee };

	// in-flight HTLCs the caller knows about (only the scorer is told; see assumptions)
	let mut inflight = InFlightHtlcs::new();
	for (ci, dir, amt) in q.inflight.iter() {
		let i = pick(*ci, g.chans.len());
		let (a, b) = ends[i];
		let (s, t) = if *dir { (a, b) } else { (b, a) };
		inflight.add_inflight_htlc(&nid(s), &nid(t), SCID_PUB + i as u64, *amt);
	}
	if let (MPayee::Blinded { paths }, Some((_, _, amt))) = (&mpayee, q.inflight.first()) {
		// one in-flight part over the first blinded path
		if let Some(b) = paths.first() {
			let p = Path {
				hops: vec![RouteHop {
					pubkey: PublicKey::from_slice(b.intro.as_slice()).unwrap(),
					node_features: NodeFeatures::empty(),
					short_channel_id: 42,
					channel_features: ChannelFeatures::empty(),
					fee_msat: 0,
					cltv_expiry_delta: 0,
					maybe_announced_channel: false,
				}],
				blinded_tail: Some(BlindedTail {
					trampoline_hops: vec![],
					hops: (0..b.nhops).map(|_| BlindedHop { blinded_node_id: pk(K_BHOP), encrypted_payload: vec![] }).collect(),
					blinding_point: b.blinding,
					excess_final_cltv_expiry_delta: 0,
					final_value_msat: *amt,
				}),
			};
			inflight.process_path(&p, pk(payer_k));
		}
	}

	let mut seed = [0u8; 32];
	for i in 0..4 {
		seed[i * 8..i * 8 + 8].copy_from_slice(&q.seed.wrapping_mul(0x9E3779B97F4A7C15).rotate_left(i as u32 * 13).to_le_bytes());
	}

	let allow_mpp = q.max_paths > 1 && allow_param_mpp;
	let w = World { chans, payer, first: mfirst, hints: mhints, payee: mpayee, amount, max_paths: q.max_paths, allow_mpp, max_len: q.max_len, max_cltv: q.max_cltv, max_fee, failed_scids };
	(w, Inputs { payer_pk: pk(payer_k), params, first: lfirst, inflight, seed })
}

// ---------------------------------------------------------------------------------------------
// oracle 1: the route validator
// ---------------------------------------------------------------------------------------------

#[derive(Clone, Copy, Debug, PartialEq, Eq, PartialOrd, Ord)]
enum EdgeKey {
	/// announced channel and direction (true = node_one -> node_two)
	Pub(u64, bool),
	First(usize),
	Hint(u64),
	Blinded(usize),
}

#[derive(Clone, Copy, Debug)]
struct Edge {
	key: EdgeKey,
	pol: Pol,
	/// what all parts crossing this edge may carry together
	joint: u64,
}

#[derive(Default)]
struct Facts {
	paths: usize,
	max_hops: usize,
	shared_edge: bool,
	near_binding: bool,
	raised: bool,
	overpaid_recipient: bool,
	waived: bool,
	first_hop_used: bool,
	hint_used: bool,
	blinded_used: bool,
	tolerated_excess: bool,
}

/// Keys listed (status "known") for this property in /verif/known_findings.json. The runner excludes a
/// case that fails with such a key; the oracle additionally keeps checking the remaining queries of the
/// case so that a listed finding can never hide a different failure behind it.
fn is_listed(key: &str) -> bool {
	static K: OnceLock<Vec<String>> = OnceLock::new();
	K.get_or_init(|| load_known_findings("C16").into_iter().filter(|k| k.status == "known").map(|k| k.key).collect()).iter().any(|k| k == key)
}

fn fail(oracle: &str, detail: String) -> Failure {
	Failure::new(oracle, detail).with_key(format!("validator/{}", oracle))
}

/// Which directed edge does hop `k` (from `prev` to `tgt` over `scid`) use?
fn resolve_edge(w: &World, k: usize, prev: &NodeId, tgt: &NodeId, scid: u64) -> Result<Edge, Failure> {
	if k == 0 {
		if let Some(first) = &w.first {
			// "If [first_hops] is filled in, the view of these channels from network_graph will be
			// ignored, and only those in first_hops will be used."
			// a supplied first hop is that channel under either of its names (outbound alias or real scid): a hint
			// that describes it does not create a second channel with limits of its own
			if let Some((i, fh)) = first.iter().enumerate().find(|(_, fh)| fh.scid == scid && fh.peer == *tgt).or_else(|| first.iter().enumerate().find(|(_, fh)| fh.real == scid && fh.peer == *tgt)) {
				return Ok(Edge { key: EdgeKey::First(i), pol: Pol { min: fh.min, max: fh.limit, ..FREE }, joint: fh.limit });
			}
			// a route hint that names the payer itself as the source of a private channel
			if let Some(h) = w.hints.iter().find(|h| h.scid == scid && h.src == *prev && h.dst == *tgt) {
				return Ok(Edge { key: EdgeKey::Hint(scid), pol: h.pol, joint: h.pol.max });
			}
			return Err(fail("first-hop-not-supplied", format!("hop 0 uses scid {} to {:?} which is none of the supplied first hops", scid, tgt)));
		}
	}
	if let Some(c) = w.chans.get(&scid) {
		let dir = if c.n1 == *prev && c.n2 == *tgt {
			Some(0)
		} else if c.n2 == *prev && c.n1 == *tgt {
			Some(1)
		} else {
			None
		};
		if let Some(di) = dir {
			let pol = c.d[di].ok_or_else(|| fail("missing-direction", format!("hop {} uses scid {} in a direction without channel_update", k, scid)))?;
			if !pol.enabled {
				return Err(fail("disabled-direction", format!("hop {} uses scid {} in a disabled direction", k, scid)));
			}
			// capacity from the funding output when known, else the advertised htlc_maximum is the bound
			let joint = pol.max.min(c.cap_msat.unwrap_or(u64::MAX));
			return Ok(Edge { key: EdgeKey::Pub(scid, di == 0), pol, joint });
		}
		return Err(fail("not-connected", format!("hop {} uses scid {} whose endpoints are not {:?} -> {:?}", k, scid, prev, tgt)));
	}
	if let Some(h) = w.hints.iter().find(|h| h.scid == scid && h.src == *prev && h.dst == *tgt) {
		return Ok(Edge { key: EdgeKey::Hint(scid), pol: h.pol, joint: h.pol.max });
	}
	Err(fail("unknown-channel", format!("hop {} uses scid {} from {:?} to {:?}: not in the graph, the first hops or the hints", k, scid, prev, tgt)))
}

struct VPath {
	edges: Vec<Edge>,
	/// `RouteHop::fee_msat` of the path's hops
	fees: Vec<u64>,
	/// amount carried over edge k (for a blinded tail: the value seen by the recipient)
	amt: Vec<u64>,
	/// edge k's amount was lifted above need (downstream amount + fee) to reach its own htlc_minimum
	raised: Vec<bool>,
}

fn validate(w: &World, r: &Route) -> Result<Facts, Failure> {
	let mut facts = Facts::default();
	let np = r.paths.len();
	if np == 0 {
		return Err(fail("no-paths", "route without paths".into()));
	}
	let allowed = if w.allow_mpp { w.max_paths as usize } else { 1 };
	if np > allowed {
		return Err(fail("path-count", format!("{} paths, allowed {} (max_path_count {}, mpp allowed {})", np, allowed, w.max_paths, w.allow_mpp)));
	}
	facts.paths = np;

	let mut vps: Vec<VPath> = vec![];
	for (pi, path) in r.paths.iter().enumerate() {
		let hops = &path.hops;
		if hops.is_empty() {
			return Err(fail("empty-path", format!("path {} has no hops", pi)));
		}
		if hops.len() > w.max_len as usize {
			return Err(fail("path-length", format!("path {} has {} hops, max_path_length {}", pi, hops.len(), w.max_len)));
		}
		facts.max_hops = facts.max_hops.max(hops.len());
		let mut prev = w.payer;
		let mut edges = vec![];
		for (k, h) in hops.iter().enumerate() {
			let tgt = NodeId::from_pubkey(&h.pubkey);
			if w.failed_scids.contains(&h.short_channel_id) {
				return Err(fail("excluded-channel", format!("path {} hop {} uses previously failed scid {}", pi, k, h.short_channel_id)));
			}
			let e = resolve_edge(w, k, &prev, &tgt, h.short_channel_id)?;
			match e.key {
				EdgeKey::First(_) => facts.first_hop_used = true,
				EdgeKey::Hint(_) => facts.hint_used = true,
				_ => {},
			}
			edges.push(e);
			prev = tgt;
		}
		// how the path ends
		let value;
		let last_cltv_floor;
		match (&w.payee, &path.blinded_tail) {
			(MPayee::Clear { id, final_cltv }, None) => {
				if prev != *id {
					return Err(fail("wrong-destination", format!("path {} ends at {:?}, payee is {:?}", pi, prev, id)));
				}
				value = hops.last().unwrap().fee_msat;
				last_cltv_floor = *final_cltv;
			},
			(MPayee::Blinded { paths }, Some(t)) => {
				let Some((bi, b)) = paths.iter().enumerate().find(|(_, b)| b.blinding == t.blinding_point && b.nhops == t.hops.len()) else {
					return Err(fail("unknown-blinded-tail", format!("path {} ends in a blinded tail that was not supplied", pi)));
				};
				if b.failed {
					return Err(fail("excluded-blinded-path", format!("path {} uses previously failed blinded path {}", pi, bi)));
				}
				if b.intro != prev {
					return Err(fail("blinded-intro-mismatch", format!("path {} reaches {:?} but blinded path {} starts at {:?}", pi, prev, bi, b.intro)));
				}
				if !t.trampoline_hops.is_empty() {
					return Err(fail("unexpected-trampoline", format!("path {}", pi)));
				}
				edges.push(Edge { key: EdgeKey::Blinded(bi), pol: b.pol, joint: b.pol.max });
				value = t.final_value_msat;
				last_cltv_floor = b.pol.cltv;
				facts.blinded_used = true;
			},
			_ => return Err(fail("tail-kind", format!("path {}: blinded tail presence does not match the payee kind", pi))),
		}
		if value == 0 {
			return Err(fail("zero-value-path", format!("path {} delivers nothing", pi)));
		}
		// Amount over edge k = what is delivered + every fee taken at or after hop k
		// (`RouteHop::fee_msat`: fee taken on this hop for the use of the *next* channel; for the last
		// hop the amount paid, or with a blinded tail the fee for the whole blinded path).
		let m = edges.len();
		let mut amt = vec![0u64; m];
		amt[m - 1] = value;
		for k in (0..m - 1).rev() {
			amt[k] = amt[k + 1].checked_add(hops[k].fee_msat).ok_or_else(|| fail("amount-overflow", format!("path {}", pi)))?;
		}
		// CLTV: each forwarding node gets at least its advertised delta, the recipient at least the
		// requested final delta (a blinded path: its aggregated delta); the sum respects the cap.
		let nh = hops.len();
		let mut total_cltv: u64 = 0;
		for k in 0..nh {
			let floor = if k + 1 < nh { edges[k + 1].pol.cltv } else { last_cltv_floor };
			if hops[k].cltv_expiry_delta < floor {
				return Err(fail("cltv-delta-too-small", format!("path {} hop {} has cltv_expiry_delta {} < required {}", pi, k, hops[k].cltv_expiry_delta, floor)));
			}
			total_cltv += hops[k].cltv_expiry_delta as u64;
		}
		if total_cltv > w.max_cltv as u64 {
			return Err(fail("cltv-limit", format!("path {} total CLTV delta {} > max_total_cltv_expiry_delta {}", pi, total_cltv, w.max_cltv)));
		}
		if w.max_cltv < u32::MAX / 2 && total_cltv * 100 >= w.max_cltv as u64 * 99 {
			facts.near_binding = true;
		}
		let fees = hops.iter().map(|h| h.fee_msat).collect();
		vps.push(VPath { edges, amt, fees, raised: vec![false; m] });
	}

	// value: at least what was asked, and no part that could be dropped
	let values: Vec<u64> = vps.iter().map(|p| *p.amt.last().unwrap()).collect();
	let total: u128 = values.iter().map(|v| *v as u128).sum();
	if total < w.amount as u128 {
		return Err(fail("insufficient-value", format!("paths deliver {} < requested {}", total, w.amount)));
	}
	if np > 1 {
		let minv = *values.iter().min().unwrap() as u128;
		if total - minv >= w.amount as u128 {
			return Err(fail("superfluous-path", format!("values {:?}: the smallest part is not needed for {}", values, w.amount)));
		}
	}
	let overpay = total - w.amount as u128;
	if overpay > 0 {
		// only the htlc_minimum of a final edge can force value above the request
		let maxmin = vps.iter().map(|p| p.edges.last().unwrap().pol.min).max().unwrap() as u128;
		if overpay >= maxmin {
			return Err(fail("recipient-overpaid-without-minimum", format!("delivers {} for a request of {}, largest final-edge htlc_minimum is {}", total, w.amount, maxmin)));
		}
		facts.overpaid_recipient = true;
	}
	// per edge: minimum, forwarding fee, and nothing above need unless forced by the edge's minimum
	for (pi, p) in vps.iter_mut().enumerate() {
		let m = p.edges.len();
		let (edges, amt, hop_fees) = (&p.edges, &p.amt, &p.fees);
		// the delivered value of this path may have been lifted to the final edge's htlc_minimum
		let lifted_final = overpay > 0 && amt[m - 1] == edges[m - 1].pol.min;
		// Signature of one known mechanism (see report): the final edge's htlc_minimum lifted the delivered
		// value by `overpay`, but all amounts upstream of the final edge were computed from the un-lifted
		// value. `lib[k]` is what the path would carry under that mistake; if every upstream amount equals
		// lib[k] + overpay the discrepancy gets its own exact key.
		let mut lifted_signature = false;
		if lifted_final && m >= 2 {
			let mut lib = vec![0u128; m];
			lib[m - 1] = amt[m - 1] as u128;
			let unlifted = (amt[m - 1] as u128).saturating_sub(overpay);
			lib[m - 2] = (unlifted + fee_of(&edges[m - 1].pol, amt[m - 1])).max(edges[m - 2].pol.min as u128);
			for k in (0..m.saturating_sub(2)).rev() {
				lib[k] = (lib[k + 1] + fee_of(&edges[k + 1].pol, lib[k + 1].min(u64::MAX as u128) as u64)).max(edges[k].pol.min as u128);
			}
			lifted_signature = (0..m - 1).all(|k| amt[k] as u128 == lib[k] + overpay);
		}
		let mut raised = vec![false; m];
		for k in 0..m {
			let e = &edges[k];
			if amt[k] < e.pol.min {
				return Err(fail("htlc-minimum", format!("path {} edge {} ({:?}) carries {} < htlc_minimum {}", pi, k, e.key, amt[k], e.pol.min)));
			}
			if amt[k] as u128 * 100 <= e.pol.min as u128 * 101 && e.pol.min > 0 {
				facts.near_binding = true;
			}
			if k + 1 < m {
				// the node between edge k and k+1 forwards amt[k+1] over its outgoing edge k+1
				let need = fee_of(&edges[k + 1].pol, amt[k + 1]);
				let paid = hop_fees[k] as u128;
				let expect = (amt[k + 1] as u128 + need).max(e.pol.min as u128);
				if paid < need {
					let detail = format!("path {} hop {} pays {} msat for forwarding {} over {:?}, policy (base {}, ppm {}) requires {}", pi, k, paid, amt[k + 1], edges[k + 1].key, edges[k + 1].pol.base, edges[k + 1].pol.ppm, need);
					if lifted_signature {
						return Err(Failure::new("fee-underpaid", format!("{} [delivered value was lifted by {} to the final edge's htlc_minimum; upstream amounts match the un-lifted value]", detail, overpay))
							.with_key("validator/fee-underpaid/final-hop-lifted"));
					}
					return Err(fail("fee-underpaid", detail));
				}
				// anything above the policy fee is only explained by this edge's own htlc_minimum
				if amt[k] as u128 != expect {
					let detail = format!("path {} edge {} carries {} but downstream need is {} + fee {} and its htlc_minimum is {}", pi, k, amt[k], amt[k + 1], need, e.pol.min);
					if lifted_signature {
						return Err(Failure::new("overpay-not-forced-by-minimum", format!("{} [delivered value was lifted by {}; upstream amounts match the un-lifted value]", detail, overpay))
							.with_key("validator/overpay/final-hop-lifted"));
					}
					return Err(fail("overpay-not-forced-by-minimum", detail));
				}
				raised[k] = amt[k] as u128 > amt[k + 1] as u128 + need;
				if raised[k] {
					facts.raised = true;
				}
			}
		}
		p.raised = raised;
	}
	// fees: everything sent beyond the requested amount counts (the overpayment is reported as fee)
	let sent: u128 = vps.iter().map(|p| p.amt[0] as u128).sum();
	if let Some(cap) = w.max_fee {
		if sent - w.amount as u128 > cap as u128 {
			return Err(fail("fee-limit", format!("route sends {} for a request of {}: fees {} > max_total_routing_fee_msat {}", sent, w.amount, sent - w.amount as u128, cap)));
		}
		if cap > 0 && (sent - w.amount as u128) * 100 >= cap as u128 * 99 {
			facts.near_binding = true;
		}
	}

	// maximum / capacity, per part and jointly over the parts sharing an edge. Where a later edge's
	// htlc_minimum lifted the amount, the property tolerates the excess: the check then uses the
	// amount the edge would carry without that lift.
	// Rounding bound (own key `htlc-maximum/off-by-rounding`). The router derives the value a path may
	// carry from its tightest hop as floor(((max - agg_base) * 1e6 + agg_prop) / (1e6 + agg_prop)); the
	// `+ agg_prop` rounds the value up by less than 1 msat, and every downstream fee is a floor (at most
	// 1 msat each, also when two identical parts are merged). So a pure rounding artefact disappears when
	// the path delivers 2 + (number of edges after k) msat less: `shaved(p, k)` is what edge k would
	// then carry. Anything larger keeps the generic key.
	let shaved = |p: &VPath, k: usize| -> u128 {
		let m = p.edges.len();
		let mut c: u128 = (p.amt[m - 1] as u128).saturating_sub((2 + m - 1 - k) as u128);
		for j in (k..m - 1).rev() {
			c += fee_of(&p.edges[j + 1].pol, c.min(u64::MAX as u128) as u64);
		}
		c
	};
	let mut joint: BTreeMap<EdgeKey, (u128, u64, usize, u128)> = BTreeMap::new();
	for (pi, p) in vps.iter().enumerate() {
		let m = p.edges.len();
		let last_lifted = overpay > 0 && p.amt[m - 1] == p.edges[m - 1].pol.min;
		for k in 0..m {
			let e = &p.edges[k];
			let later_raise = (k + 1 < m && last_lifted) || p.raised[k + 1..].iter().any(|r| *r);
			let counted: u128 = if !later_raise {
				p.amt[k] as u128
			} else {
				facts.waived = true;
				let mut c: u128 = if last_lifted { (p.amt[m - 1] as u128).saturating_sub(overpay).max(1) } else { p.amt[m - 1] as u128 };
				for j in (k..m - 1).rev() {
					c += fee_of(&p.edges[j + 1].pol, c.min(u64::MAX as u128) as u64);
				}
				c.max(e.pol.min as u128)
			};
			if p.amt[k] as u128 > e.pol.max as u128 && counted <= e.pol.max as u128 {
				facts.tolerated_excess = true;
			}
			if counted > e.pol.max as u128 {
				let detail = format!("path {} edge {} ({:?}) carries {} (counted {}) > htlc_maximum {}", pi, k, e.key, p.amt[k], counted, e.pol.max);
				// gone when the path delivers a few msat less: own key (integer rounding, see report)
				if shaved(p, k) <= e.pol.max as u128 {
					return Err(Failure::new("htlc-maximum", format!("{} [within the rounding bound: gone if the path delivered {} msat less]", detail, 2 + m - 1 - k)).with_key("htlc-maximum/off-by-rounding"));
				}
				return Err(fail("htlc-maximum", detail));
			}
			if e.pol.max < u64::MAX && counted * 100 >= e.pol.max as u128 * 99 {
				facts.near_binding = true;
			}
			let ent = joint.entry(e.key).or_insert((0, e.joint, 0, 0));
			ent.0 += counted;
			ent.2 += 1;
			ent.3 += shaved(p, k).min(counted);
		}
	}
	for (key, (used, limit, parts, used_shaved)) in joint.iter() {
		if *used > *limit as u128 {
			let detail = format!("{} part(s) over {:?} carry {} together, limit {}", parts, key, used, limit);
			if *used_shaved <= *limit as u128 {
				return Err(Failure::new("joint-capacity", format!("{} [within the rounding bound]", detail)).with_key("htlc-maximum/off-by-rounding"));
			}
			return Err(fail("joint-capacity", detail));
		}
		if *parts > 1 {
			facts.shared_edge = true;
		}
		if *limit < u64::MAX && *used * 100 >= *limit as u128 * 99 {
			facts.near_binding = true;
		}
	}
	Ok(facts)
}

// ---------------------------------------------------------------------------------------------
// oracle 2: completeness in the slack regime
// ---------------------------------------------------------------------------------------------

struct SEdge {
	/// scid (0 for a blinded tail), for reporting
	id: u64,
	/// None = the blinded recipient
	to: Option<NodeId>,
	pol: Pol,
	limit: u64,
}

/// Is the query inside the regime in which the property promises a route (given a path exists)?
fn slack_regime(g: &GraphSpec, q: &Query, w: &World) -> bool {
	let clean_payee = match &w.payee {
		MPayee::Clear { id, .. } => *id != w.payer && !w.hints.iter().any(|h| h.src == *id) && w.hints.iter().all(|h| h.pol.cltv <= 2016),
		MPayee::Blinded { paths } => {
			// documented refusals: all paths start at the payer; one-hop paths with different intro nodes
			let one: BTreeSet<NodeId> = paths.iter().filter(|b| b.nhops == 1).map(|b| b.intro).collect();
			one.len() <= 1 && paths.iter().any(|b| b.intro != w.payer) && paths.iter().all(|b| b.pol.cltv <= 2016)
		},
	};
	g.n <= 12
		&& clean_payee
		&& q.max_len >= 19
		&& q.max_cltv == u32::MAX
		&& w.max_fee.is_none()
		&& w.failed_scids.is_empty()
		&& q.failed_blinded.is_empty()
		&& q.scorer == 0
		&& q.penalty == 0
		&& q.max_paths >= 1
		&& w.amount <= MAX_VALUE_MSAT
		&& w.first.as_ref().map_or(true, |f| !f.is_empty())
}

/// Depth-first search for a single simple path from payer to payee whose limits leave *strong*
/// slack. Walking the path from the payee, let C bound the cost (fees or propagated minimum) any
/// cheaper alternative the router may prefer can have accumulated: C' = v + C + fee(v + C). An edge
/// qualifies if it is usable, its htlc_minimum is at most the payment value v, its maximum and
/// capacity are at least v + C, and (v + C) * ppm fits 64 bits (the router's fee arithmetic is 64-bit
/// and treats an overflowing edge as unusable). Then a fee-greedy payee-to-payer search reaches every
/// node of this path with cost <= C. Additionally *no usable edge anywhere* may be near binding: for
/// the requested saturation shift and for shift 0 (the router retries with it), every edge's
/// effective maximum is either below v (never usable) or at least 2 * (v + C_final). Otherwise the
/// router may size the one path it found exactly at a limit and lose a msat to integer rounding, which
/// the property ("limits not binding") does not cover. Returns (number of edges, description).
fn slack_reference(w: &World, sat_pow: u8) -> Option<(usize, String)> {
	let v = w.amount as u128;
	let mut adj: BTreeMap<NodeId, Vec<SEdge>> = BTreeMap::new();
	// every edge the router could consider, with its effective maximum for a given saturation shift
	let mut world: Vec<(Pol, Option<u64>, bool)> = vec![]; // (policy, capacity, shift applies)
	if let Some(first) = &w.first {
		for fh in first {
			let pol = Pol { min: fh.min, max: fh.limit, ..FREE };
			adj.entry(w.payer).or_default().push(SEdge { id: fh.scid, to: Some(fh.peer), pol, limit: fh.limit });
			world.push((pol, None, false));
		}
	}
	for (scid, c) in w.chans.iter() {
		// the router only uses channels for which both directions have been announced
		let (Some(d0), Some(d1)) = (c.d[0], c.d[1]) else { continue };
		for (src, dst, pol) in [(c.n1, c.n2, d0), (c.n2, c.n1, d1)] {
			if !pol.enabled || (w.first.is_some() && src == w.payer) {
				continue;
			}
			adj.entry(src).or_default().push(SEdge { id: *scid, to: Some(dst), pol, limit: pol.max.min(c.cap_msat.unwrap_or(u64::MAX)) });
			world.push((pol, c.cap_msat, true));
		}
	}
	for h in &w.hints {
		// a hint that describes one of the payer's supplied first hops is that channel, not a further one
		if h.src == w.payer && w.first.as_ref().map(|f| f.iter().any(|fh| fh.scid == h.scid || fh.real == h.scid)).unwrap_or(false) {
			continue;
		}
		adj.entry(h.src).or_default().push(SEdge { id: h.scid, to: Some(h.dst), pol: h.pol, limit: h.pol.max });
		world.push((h.pol, None, false));
	}
	let target = match &w.payee {
		MPayee::Clear { id, .. } => Some(*id),
		MPayee::Blinded { paths } => {
			for b in paths.iter().filter(|b| b.intro != w.payer && !b.failed) {
				adj.entry(b.intro).or_default().push(SEdge { id: 0, to: None, pol: b.pol, limit: b.pol.max });
				world.push((b.pol, None, false));
			}
			None
		},
	};
	/// Some(C_final) if the path has strong slack
	fn strong(path: &[&SEdge], v: u128) -> Option<u128> {
		let mut c: u128 = 0;
		for e in path.iter().rev() {
			if e.pol.min as u128 > v || v + c > e.limit as u128 {
				return None;
			}
			if (v + c) * 2 * e.pol.ppm as u128 > u64::MAX as u128 {
				return None;
			}
			c = v + c + fee_of(&e.pol, (v + c) as u64);
			if c > 1u128 << 50 {
				return None;
			}
		}
		Some(c)
	}
	// documented: the share of a channel's capacity usable per path is capacity >> shift (with a known
	// capacity: min(capacity >> shift, htlc_maximum); without: htlc_maximum >> shift); first hops, hints
	// and blinded paths are not shifted
	let eff = |pol: &Pol, cap: Option<u64>, shifted: bool, shift: u32| -> u128 {
		let sh = |x: u64| -> u64 { if shifted { x.checked_shr(shift).unwrap_or(0) } else { x } };
		(match cap {
			Some(c) => sh(c).min(pol.max),
			None => sh(pol.max),
		}) as u128
	};
	let clear_of_band = |c_final: u128| -> bool {
		let hi = 2 * (v + c_final);
		world.iter().all(|(pol, cap, shifted)| [sat_pow as u32, 0].iter().all(|s| {
			let e = eff(pol, *cap, *shifted, *s);
			e < v || e >= hi
		}))
	};
	struct Dfs<'a, 'b> {
		adj: &'a BTreeMap<NodeId, Vec<SEdge>>,
		target: Option<NodeId>,
		v: u128,
		steps: u32,
		ok: &'b dyn Fn(u128) -> bool,
	}
	fn dfs<'a>(d: &mut Dfs<'a, '_>, at: NodeId, seen: &mut Vec<NodeId>, path: &mut Vec<&'a SEdge>) -> Option<(usize, String)> {
		if path.len() >= 6 {
			return None;
		}
		for e in d.adj.get(&at).map(|x| x.as_slice()).unwrap_or(&[]) {
			d.steps += 1;
			if d.steps > 30_000 {
				return None;
			}
			// cheap necessary conditions first
			if e.pol.min as u128 > d.v || d.v > e.limit as u128 {
				continue;
			}
			path.push(e);
			if e.to == d.target {
				if let Some(c_final) = strong(path, d.v) {
					if (d.ok)(c_final) {
						return Some((path.len(), format!("{:?}", path.iter().map(|e| (e.id, e.pol.min, e.limit, e.pol.base, e.pol.ppm)).collect::<Vec<_>>())));
					}
				}
			} else if let Some(next) = e.to {
				if !seen.contains(&next) {
					seen.push(next);
					let r = dfs(d, next, seen, path);
					seen.pop();
					if r.is_some() {
						return r;
					}
				}
			}
			path.pop();
		}
		None
	}
	let mut d = Dfs { adj: &adj, target, v, steps: 0, ok: &clear_of_band };
	dfs(&mut d, w.payer, &mut vec![w.payer], &mut vec![])
}

// ---------------------------------------------------------------------------------------------
// the case oracle
// ---------------------------------------------------------------------------------------------

fn build_history(g: &GraphSpec, ends: &[(usize, usize)], hist: &[HistEv], scorer: &mut ProbabilisticScorer<&NetworkGraph<NullLogger>, NullLogger>) {
	if g.chans.is_empty() {
		return;
	}
	for (t, ev) in hist.iter().enumerate() {
		let mk = |to: usize, scid: u64| RouteHop {
			pubkey: pk(to),
			node_features: NodeFeatures::empty(),
			short_channel_id: scid,
			channel_features: ChannelFeatures::empty(),
			fee_msat: 0,
			cltv_expiry_delta: 40,
			maybe_announced_channel: true,
		};
		let i = pick(ev.chan, g.chans.len());
		let (a, b) = ends[i];
		let (s, mut at) = if ev.dir { (a, b) } else { (b, a) };
		let mut hops = vec![mk(s, 9_999_999), mk(at, SCID_PUB + i as u64)];
		let mut walked = vec![SCID_PUB + i as u64];
		for m in &ev.more {
			// continue over some channel adjacent to the current node
			let adjc: Vec<(usize, usize)> = ends.iter().enumerate().filter(|(_, (x, y))| *x == at || *y == at).map(|(ci, (x, y))| (ci, if *x == at { *y } else { *x })).collect();
			if adjc.is_empty() {
				break;
			}
			let (ci, nx) = adjc[pick(*m, adjc.len())];
			hops.push(mk(nx, SCID_PUB + ci as u64));
			walked.push(SCID_PUB + ci as u64);
			at = nx;
		}
		hops.last_mut().unwrap().fee_msat = ev.amount;
		let path = Path { hops, blinded_tail: None };
		let now = Duration::from_secs(1_700_000_000 + 60 * t as u64);
		match ev.fail_at {
			None => scorer.payment_path_successful(&path, now),
			Some(f) => scorer.payment_path_failed(&path, walked[(f as usize).min(walked.len() - 1)], now),
		}
	}
}

/// One mechanism gets cause-specific keys (see report): a supplied first hop whose counterparty is also
/// the introduction node of a supplied blinded path. Checked on the query's inputs, never on the symptom.
fn first_hop_peer_is_blinded_intro(w: &World) -> bool {
	match (&w.first, &w.payee) {
		(Some(first), MPayee::Blinded { paths }) => first.iter().any(|fh| paths.iter().any(|b| b.intro == fh.peer)),
		_ => false,
	}
}

fn oracle(c: &Case, ctx: &mut Ctx) -> CaseResult {
	let g = &c.g;
	VERBOSE.store(ctx.replay && std::env::var("C16_TRACE").is_ok(), std::sync::atomic::Ordering::Relaxed);
	let graph = build_graph(g);
	let ends = chan_endpoints(g);
	let (chans, node_mpp) = snapshot(g, &graph);
	let mut prob = ProbabilisticScorer::new(ProbabilisticScoringDecayParameters::default(), &graph, NullLogger);
	build_history(g, &ends, &c.hist, &mut prob);
	let prob_params = ProbabilisticScoringFeeParameters::default();
	ctx.sub_evaluations(c.qs.len() as u64);
	// a failure whose exact key is listed as known does not end the case: the remaining queries are
	// still checked, and the listed failure is returned at the end (the runner then counts it as excluded)
	let mut listed: Option<Failure> = None;
	macro_rules! report {
		($f:expr) => {{
			let f: Failure = $f;
			if is_listed(&f.key) {
				ctx.label(&format!("listed-finding/{}", f.key));
				if listed.is_none() {
					listed = Some(f);
				}
				continue;
			}
			return Err(f);
		}};
	}

	for (qi, q) in c.qs.iter().enumerate() {
		let (w, inp) = resolve(g, &ends, &chans, &node_mpp, q);
		let first_refs: Option<Vec<&ChannelDetails>> = inp.first.as_ref().map(|v| v.iter().collect());
		let first_arg = first_refs.as_ref().map(|v| v.as_slice());
		let fixed = FixedPenaltyScorer::with_penalty(q.penalty);
		if ctx.replay {
			eprintln!("query {} input: {:?}\n  params {:?}\n  first {:?}", qi, q, inp.params, inp.first.as_ref().map(|f| f.iter().map(|d| (d.get_outbound_payment_scid(), d.counterparty.node_id, d.next_outbound_htlc_limit_msat, d.next_outbound_htlc_minimum_msat)).collect::<Vec<_>>()));
		}
		let res = std::panic::catch_unwind(std::panic::AssertUnwindSafe(|| match q.scorer {
			0 => find_route(&inp.payer_pk, &inp.params, &graph, first_arg, NullLogger, &fixed, &(), &inp.seed),
			1 => find_route(&inp.payer_pk, &inp.params, &graph, first_arg, NullLogger, &prob, &prob_params, &inp.seed),
			2 => find_route(&inp.payer_pk, &inp.params, &graph, first_arg, NullLogger, &ScorerAccountingForInFlightHtlcs::new(&fixed, &inp.inflight), &(), &inp.seed),
			_ => find_route(&inp.payer_pk, &inp.params, &graph, first_arg, NullLogger, &ScorerAccountingForInFlightHtlcs::new(&prob, &inp.inflight), &prob_params, &inp.seed),
		}));
		let stale_sig = first_hop_peer_is_blinded_intro(&w);
		let res = match res {
			Ok(r) => r,
			Err(_) => {
				// A panic inside find_route. The harness is built with debug assertions, so the library's
				// own debug/test-build assertions fire here before a route is returned. Three of them
				// guard clauses of this property and are classified; any other panic is reported as is.
				let (msg, loc) = take_last_panic().unwrap_or_default();
				let in_router = loc.contains("routing/router.rs");
				let f = if in_router && msg.starts_with("Path had a length of") {
					// test-build detector for an over-long path (production logs and returns the route)
					let key = if stale_sig { "first-hop-peer-is-blinded-intro/path-length" } else { "validator/path-length/lib-self-check" };
					Failure::new("path-length", format!("query {}: the router built a path longer than max_path_length {} (library's own assertion at {}): {}", qi, q.max_len, loc, msg)).with_key(key)
				} else if in_router && msg.contains("used_liquidity_msat <= hop_max_msat") {
					// liquidity bookkeeping right after a path was sized: the path carries more over a hop
					// than that hop's maximum. Production builds return the route (excess observed there:
					// within the rounding bound); in this build the excess itself cannot be observed.
					let key = if stale_sig { "first-hop-peer-is-blinded-intro/lib-assert" } else { "htlc-maximum/lib-assert-used-liquidity" };
					Failure::new("lib-assert", format!("query {}: library debug assertion at {} fired inside find_route: {}", qi, loc, msg)).with_key(key)
				} else if in_router && msg == "assertion failed: false" {
					// `max_final_value_msat`: a hop's liquidity is below the aggregated base fees after it, a
					// branch the library claims unreachable; production ignores that hop's limit.
					let key = if stale_sig { "first-hop-peer-is-blinded-intro/lib-assert".to_string() } else { "lib-tripwire/max-final-value-branch-claimed-unreachable".to_string() };
					Failure::new("lib-assert", format!("query {}: library debug assertion at {} fired inside find_route: {}", qi, loc, msg)).with_key(key)
				} else if in_router && msg.contains("entered unreachable code") {
					// not an assertion: `unreachable!()` panics in production builds as well (seen in
					// update_value_and_recompute_fees when amount * ppm overflows u64 after two identical parts
					// were merged). Keyed by site without the line number.
					Failure::new("panic", format!("query {}: find_route panicked at {}: {}", qi, loc, msg)).with_key("panic/router-unreachable-code")
				} else {
					Failure { oracle: "panic".into(), detail: format!("query {}: find_route panicked at {}: {}", qi, loc, msg), key: format!("panic@{}", loc) }
				};
				report!(f)
			},
		};
		if ctx.replay {
			eprintln!("query {}: payer {:?} amount {} first {:?} res {:?}", qi, w.payer, w.amount, w.first.as_ref().map(|f| f.iter().map(|x| (x.scid, x.peer, x.limit, x.min)).collect::<Vec<_>>()), res.as_ref().map(|r| r.paths.iter().map(|p| p.hops.iter().map(|h| (h.short_channel_id, h.fee_msat, h.cltv_expiry_delta)).collect::<Vec<_>>()).collect::<Vec<_>>()));
			if let Ok(r) = &res {
				for p in &r.paths {
					for h in &p.hops {
						if let Some(c) = w.chans.get(&h.short_channel_id) {
							eprintln!("   scid {} n1 {:?} n2 {:?} cap {:?} d {:?}", h.short_channel_id, c.n1, c.n2, c.cap_msat, c.d);
						}
					}
				}
			}
		}
		let slack = slack_regime(g, q, &w);
		// the reference path of the completeness clause (None outside the regime or if there is none)
		let reference = if slack && !w.allow_mpp { slack_reference(&w, q.sat_pow) } else { None };
		if let Some((len, _)) = &reference {
			ctx.label("slack/reference-path");
			if *len >= 2 {
				ctx.label("slack/reference-path-2+edges");
				ctx.nontrivial();
			}
		}
		match res {
			Ok(route) => {
				let facts = match validate(&w, &route) {
					Ok(facts) => facts,
					Err(mut f) => {
						// cause-specific keys for the first-hop-peer-is-blinded-intro mechanism: only when the
						// inputs have that shape AND the offending route continues from such a peer
						let via_intro = stale_sig
							&& match &w.payee {
								MPayee::Blinded { paths } => route.paths.iter().any(|p| p.hops.len() >= 2 && paths.iter().any(|b| b.intro == NodeId::from_pubkey(&p.hops[0].pubkey))),
								_ => false,
							};
						if via_intro {
							if f.oracle == "path-length" {
								f.key = "first-hop-peer-is-blinded-intro/path-length".into();
							} else if (f.oracle == "htlc-maximum" || f.oracle == "joint-capacity") && f.detail.contains("First(") {
								f.key = "first-hop-peer-is-blinded-intro/first-hop-limit".into();
							}
						}
						f.detail = format!("query {}: {} | route: {:?}", qi, f.detail, route.paths);
						report!(f)
					},
				};
				ctx.label("ok");
				ctx.label_if(facts.paths > 1, "ok/multi-path");
				ctx.label_if(facts.shared_edge, "ok/shared-edge");
				ctx.label_if(facts.max_hops >= 2, "ok/2+hops");
				ctx.label_if(facts.max_hops >= 4, "ok/4+hops");
				ctx.label_if(facts.near_binding, "ok/constraint-within-1%");
				ctx.label_if(facts.raised, "ok/raised-to-htlc-minimum");
				ctx.label_if(facts.overpaid_recipient, "ok/recipient-overpaid");
				ctx.label_if(facts.waived, "ok/max-checked-without-later-lift");
				ctx.label_if(facts.tolerated_excess, "ok/above-maximum-only-by-later-minimum-lift(tolerated)");
				ctx.label_if(facts.first_hop_used, "ok/via-first-hop");
				ctx.label_if(facts.hint_used, "ok/via-hint");
				ctx.label_if(facts.blinded_used, "ok/blinded-tail");
				let nt = (facts.max_hops >= 2 && facts.near_binding) || facts.shared_edge;
				ctx.label_if(nt, "nontrivial-query");
				ctx.nontrivial_if(nt);
				ctx.label_if(slack, "slack/ok");
			},
			Err(e) => {
				ctx.label("err");
				ctx.label(&format!("err/{}", e));
				if ctx.replay {
					eprintln!("query {}: Err({})", qi, e);
				}
				if slack {
					match &reference {
						Some((len, desc)) => {
							let key = if stale_sig { "first-hop-peer-is-blinded-intro/no-route" } else { "completeness/no-route" };
							report!(Failure::new(
								"completeness",
								format!("query {}: find_route failed with {:?} although a single path of {} edges has strong slack for {} msat and no usable edge is near binding (no fee/CLTV cap, nothing excluded, zero-penalty scorer, no MPP); reference edges (scid, min, limit, base, ppm): {}", qi, e, len, w.amount, desc),
							)
							.with_key(key))
						},
						None if w.allow_mpp => ctx.label("slack/err-mpp-allowed(not asserted)"),
						None => ctx.label("slack/err-no-reference-path"),
					}
				}
			},
		}
	}
	match listed {
		Some(f) => Err(f),
		None => Ok(()),
	}
}

fn main() {
	let mut c = Check::new("C16", "exploration");
	c.assume("graphs are built through NetworkGraph::update_channel_from_unsigned_announcement / update_channel_unsigned / update_node_from_unsigned_announcement (no signatures; UTXO lookup supplies the capacity or is absent); the validator reads the resulting read-only view, so rejected updates are simply absent");
	c.assume("first hops are usable ChannelDetails (is_usable, scid set) as ChannelManager::list_usable_channels would return; joint limit of a first hop = next_outbound_htlc_limit_msat; routes must use outbound_scid_alias when set");
	c.assume("limits are counted per channel direction (HTLCs in opposite directions do not compete); htlc_maximum, capacity, hint and blinded maxima are all counted jointly over the parts sharing the edge, as the property states; where a later edge's htlc_minimum lifted an amount the maximum is checked on the amount without that lift (the property's stated tolerance)");
	c.assume("RouteHop::fee_msat semantics as documented: fee for the use of the next channel, last hop = amount paid (blinded tail: fee of the whole blinded path); forwarding fee per BOLT 7 = base + floor(amount_forwarded * ppm / 1e6) of the outgoing direction; any amount above need must be explained by the edge's own htlc_minimum");
	c.assume("in-flight HTLCs are passed the only way the API allows (ScorerAccountingForInFlightHtlcs); the property does not state that they are subtracted from capacity, so the validator does not subtract them");
	c.assume("blinded payinfo htlc_minimum/maximum apply to the value seen by the recipient (documented on BlindedPayInfo); one-hop blinded paths carry no fee/limits (documented as ignored)");
	c.assume("the harness is built with debug assertions: three library assertions inside find_route (router.rs:896 path length, :2602 and :3828 liquidity bookkeeping) fire before a route is returned; a build without them showed the returned routes then violate the corresponding clause, so they are classified as failures of that clause (cause-specific keys where the inputs have the known shape, generic keys otherwise); any other panic is a failure");
	c.assume("completeness is asserted only where no limit is binding: <=12 graph nodes, no fee/CLTV cap, default path length, nothing excluded, zero-penalty scorer, no in-flight HTLCs, MPP not allowed, channels with both directions announced, a reference path (<=6 edges) whose every limit covers value + the compounded cost bound C of any cheaper alternative and on which (value + C) * ppm stays below 2^63, and no usable edge anywhere whose effective maximum (for the requested saturation shift or shift 0) lies in [value, 2 * (value + C)]");
	c.assume("trampoline routes, unknown required feature bits and route-hint scids colliding with announced scids are not generated");
	c.part(
		PartSpec {
			name: "validity",
			rule: "graph of 2-40 nodes (parallel channels, cycles, per direction enabled/disabled/missing, zero to extreme fees, capacity known or not) + scorer history + 40 queries with every parameter varied (first hops, 1-3 hop route hints, 1-3 hop blinded paths, amounts around each limit +-1 up to beyond all satoshis, path count/length/CLTV/fee caps, saturation power, failed channels and blinded paths, fixed / probabilistic scorer with and without in-flight HTLCs); every Ok route goes through the validator; a query is non-trivial if the returned route has a path of >=2 hops with some constraint (min, max, capacity, fee cap, CLTV cap) within 1% of binding, or is multi-path sharing a channel",
			quick_cases: 50_000,
			thorough_cases: 1_600_000,
			max_shrink: 600,
		},
		case_strat(40, 40, false),
		oracle,
	);
	c.part(
		PartSpec {
			name: "completeness",
			rule: "graph of 2-12 nodes + 24 queries inside the slack regime (see assumptions); every Ok route is validated; non-trivial if an own depth-first search finds a single strong-slack reference path of >=2 edges with no near-binding edge anywhere: then find_route must not report failure",
			quick_cases: 30_000,
			thorough_cases: 1_000_000,
			max_shrink: 600,
		},
		case_strat(12, 24, true),
		oracle,
	);
	c.finish();
}
