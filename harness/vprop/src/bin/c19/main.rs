//! C19 — stored channel state is never lost or torn by the storage layer.
//!
//! Part A (`a.rs`): `FilesystemStore` / `FilesystemStoreV2`, sync and async API, against an atomic-map
//! model — sequential sequences (exact model), store re-open, out-of-order completion of async
//! writes, and a multi-thread phase judged by a sound linearizability-style oracle.
//! Part B (`b.rs`): `MonitorUpdatingPersister` over a logging in-memory store driven by a real
//! channel; every crash prefix of the store-operation log × lazy-removal outcomes is recovered and
//! compared with the recorded in-memory monitors; single store operations fail.

#[macro_use]
extern crate lightning;

mod a;
mod b;

use vcore::*;

fn main() {
	let mut c = Check::new("C19", "fault_enumeration");
	c.set_case_timeout_secs(600);
	c.assume("Crash consistency is decided at KVStore-operation granularity (a crash happens between two store operations; a store operation is atomic); power-loss/fsync ordering of the real filesystem is not observable in-process.");
	c.assume("Thread interleavings of the filesystem stores are whatever the OS scheduler produces (2-8 threads, shared keys); the concurrent oracle only flags histories impossible under every interleaving, so the 'all thread interleavings' clause is explored, not enumerated.");
	c.assume("Lazy removals issued before a crash: none applied / all applied / two pseudo-random subsets per crash prefix (not all 2^n subsets). Failing store operations: every operation position (write, remove, read, list) of every history fails once, resuming the fault-free run at the start of the call that contains it and running that call plus the next two; a failed operation has no effect on the store; after a persist call reports failure the node stops.");
	c.assume("Chain data and released monitor events change the in-memory monitor outside of ChannelMonitorUpdates; the recovered monitor is therefore compared with (in-memory monitor handed over in the persist call whose full write survives) + (recorded updates up to the recovered id), and additionally with the in-memory monitor of the last update directly whenever the in-memory steps in between were pure update applications.");
	c.assume("ChannelMonitor equality is the library's `==` (test-only PartialEq) on monitors decoded through one TestKeysInterface; byte equality is used only between a monitor object and what the persister stored for that same object (HashMap iteration order makes re-encodings of equal monitors differ).");
	c.assume("Names: only valid KVStore names (alphabet, <=120 chars, empty primary implies empty secondary); for the v1 store a key never equals a sub-namespace name of its own namespace (documented caller obligation). Scratch directories live under /verif/.scratch/c19 on the local filesystem.");
	let thorough = c.tier() == Tier::Thorough;

	c.part(
		PartSpec {
			name: "fs-store-atomic-map",
			rule: "store kind (v1/v2 x sync/async) x 1-3 namespace pairs x 1-3 key names from pools with empty namespaces, 120-char names and keys named like namespaces; 4-27 sequential ops (write 0B..256kB / read / remove lazy|eager / list / list_all_keys / reopen / bursts of same-key ops whose async futures complete out of order), optional 2-8 thread phase over the same keys, tail ops. Non-trivial: one key is written, removed and re-written, or >=2 threads mutate one key.",
			quick_cases: 1500,
			thorough_cases: 60_000,
			max_shrink: 200,
		},
		a::strat(),
		a::oracle,
	);

	c.part(
		PartSpec {
			name: "monitor-persister-crash",
			rule: "2-node channel history (payments both ways incl. dust, held HTLCs claimed/failed, fee updates, blocks, cleanup_stale_updates(lazy|eager), optional cooperative / force close by either side with pending HTLCs, post-close preimage claims, on-chain claim rounds, optional archive) persisted by both nodes through MonitorUpdatingPersister(maximum_pending_updates in {0,1,2,3,5,10,100}); live log + replays of the recorded call script with other settings: every crash prefix x lazy-removal outcomes recovered; then every store-operation position fails once. Non-trivial: some crash prefix ends right after an update write and some prefix ends inside a clean-up with a lazy removal undecided.",
			quick_cases: 64,
			thorough_cases: 2400,
			max_shrink: 24,
		},
		b::strat(),
		move |case, ctx| b::oracle(case, ctx, thorough),
	);
	c.finish();
}
