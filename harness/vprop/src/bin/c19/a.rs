//! C19 part A — `FilesystemStore` (v1) and `FilesystemStoreV2` against an atomic-map model.
//!
//! Contract used as oracle (lightning/src/util/persist.rs, docs of `KVStoreSync` / `KVStore`):
//!  * `read` returns the data stored under (primary, secondary, key) or `ErrorKind::NotFound`;
//!  * `remove` succeeds whether or not the key existed, afterwards nothing is stored;
//!  * `list` returns the keys stored in a namespace (arbitrary order), empty for unknown namespaces;
//!  * names are `KVSTORE_NAMESPACE_KEY_ALPHABET` strings of at most `KVSTORE_NAMESPACE_KEY_MAX_LEN`
//!    characters, empty namespaces are valid, empty primary requires empty secondary, and callers
//!    must avoid a key that is named like a sub-namespace of its own namespace (relevant for the v1
//!    directory layout only; v2 keeps keys and namespaces on separate levels);
//!  * async `KVStore`: the order of the *calls* to `write`/`remove` on one key defines the order in
//!    which they take effect, whatever the order in which the returned futures complete.

use lightning::util::persist::{
	KVStore, KVStoreSync, MigratableKVStoreSync, KVSTORE_NAMESPACE_KEY_ALPHABET,
	KVSTORE_NAMESPACE_KEY_MAX_LEN,
};
use lightning_persister::fs_store::v1::FilesystemStore;
use lightning_persister::fs_store::v2::FilesystemStoreV2;
use proptest::prelude::*;
use serde::{Deserialize, Serialize};
use std::collections::{BTreeMap, BTreeSet};
use std::future::Future;
use lightning::io;
use std::path::PathBuf;
use std::pin::Pin;
use std::sync::atomic::{AtomicU64, Ordering};
use std::sync::{Arc, Barrier};
use vcore::*;

type K3 = (String, String, String);

// ---------------------------------------------------------------------------------------------
// case
// ---------------------------------------------------------------------------------------------

#[derive(Clone, Debug, Serialize, Deserialize)]
pub enum BOp {
	Write { size: u8 },
	Remove { lazy: bool },
}

#[derive(Clone, Debug, Serialize, Deserialize)]
pub enum AOp {
	Write { k: u16, size: u8 },
	Read { k: u16 },
	Remove { k: u16, lazy: bool },
	List { n: u16 },
	ListAll,
	Reopen,
	/// several writes/removes of ONE key issued back to back; with the async API the futures are
	/// created in this order and completed in the permutation derived from `order` (one after the
	/// other, reading in between) or all spawned at once (`spawn`).
	Burst { k: u16, ops: Vec<BOp>, order: Vec<u16>, spawn: bool },
}

#[derive(Clone, Debug, Serialize, Deserialize)]
pub enum COp {
	Write { k: u16, size: u8 },
	Read { k: u16 },
	Remove { k: u16, lazy: bool },
	List { n: u16 },
}

#[derive(Clone, Debug, Serialize, Deserialize)]
pub struct ACase {
	v2: bool,
	use_async: bool,
	/// namespace pairs as indices into the name pools
	ns_sel: Vec<(u8, u8)>,
	key_sel: Vec<u8>,
	ops: Vec<AOp>,
	/// concurrent phase: one op list per thread (empty = no concurrent phase)
	conc: Vec<Vec<COp>>,
	/// ops after the concurrent phase
	tail: Vec<AOp>,
}

fn size_strat() -> SBoxedStrategy<u8> {
	prop_oneof![30 => Just(0u8), 40 => Just(1u8), 15 => Just(2u8), 6 => Just(3u8), 3 => Just(4u8), 6 => Just(5u8)].sboxed()
}

fn aop_strat() -> SBoxedStrategy<AOp> {
	prop_oneof![
		34 => (any::<u16>(), size_strat()).prop_map(|(k, size)| AOp::Write { k, size }),
		18 => any::<u16>().prop_map(|k| AOp::Read { k }),
		16 => (any::<u16>(), any::<bool>()).prop_map(|(k, lazy)| AOp::Remove { k, lazy }),
		9 => any::<u16>().prop_map(|n| AOp::List { n }),
		4 => Just(AOp::ListAll),
		5 => Just(AOp::Reopen),
		14 => (
			any::<u16>(),
			prop::collection::vec(
				prop_oneof![4 => size_strat().prop_map(|size| BOp::Write { size }), 1 => any::<bool>().prop_map(|lazy| BOp::Remove { lazy })],
				2..7
			),
			prop::collection::vec(any::<u16>(), 6),
			any::<bool>()
		)
			.prop_map(|(k, ops, order, spawn)| AOp::Burst { k, ops, order, spawn }),
	]
	.sboxed()
}

fn cop_strat() -> SBoxedStrategy<COp> {
	prop_oneof![
		40 => (any::<u16>(), prop_oneof![25 => Just(0u8), 35 => Just(1u8), 25 => Just(2u8), 10 => Just(3u8), 5 => Just(4u8)]).prop_map(|(k, size)| COp::Write { k, size }),
		35 => any::<u16>().prop_map(|k| COp::Read { k }),
		13 => (any::<u16>(), any::<bool>()).prop_map(|(k, lazy)| COp::Remove { k, lazy }),
		12 => any::<u16>().prop_map(|n| COp::List { n }),
	]
	.sboxed()
}

pub fn strat() -> impl Strategy<Value = ACase> + Clone + Send + Sync + 'static {
	(
		any::<bool>(),
		any::<bool>(),
		prop::collection::vec((0..4u8, 0..5u8), 1..4),
		prop::collection::vec(0..7u8, 1..4),
		prop::collection::vec(aop_strat(), 4..28),
		prop_oneof![
			2 => Just(Vec::new()),
			3 => prop::collection::vec(prop::collection::vec(cop_strat(), 3..14), 2..9),
		],
		prop::collection::vec(aop_strat(), 0..6),
	)
		.prop_map(|(v2, use_async, ns_sel, key_sel, ops, conc, tail)| ACase { v2, use_async, ns_sel, key_sel, ops, conc, tail })
}

// ---------------------------------------------------------------------------------------------
// names
// ---------------------------------------------------------------------------------------------

fn maxlen(c: char) -> String {
	// maximum-length name; ends in characters taken from the far end of the alphabet
	let mut s: String = std::iter::repeat(c).take(KVSTORE_NAMESPACE_KEY_MAX_LEN - 3).collect();
	s.push_str("_-9");
	s
}

fn primary_pool() -> Vec<String> {
	vec!["".into(), "p".into(), "a".into(), maxlen('P')]
}
fn secondary_pool() -> Vec<String> {
	vec!["".into(), "s".into(), "a".into(), "k".into(), maxlen('S')]
}
fn key_pool() -> Vec<String> {
	vec!["k".into(), "a".into(), "p".into(), "0".into(), "key-_Z9".into(), maxlen('K'), "s".into()]
}

struct Universe {
	namespaces: Vec<(String, String)>,
	keys: Vec<K3>,
}

fn universe(c: &ACase) -> Universe {
	let (pp, sp, kp) = (primary_pool(), secondary_pool(), key_pool());
	let mut namespaces: Vec<(String, String)> = vec![];
	for (p, s) in c.ns_sel.iter() {
		let p = pp[*p as usize % pp.len()].clone();
		// an empty primary namespace requires an empty secondary namespace
		let s = if p.is_empty() { String::new() } else { sp[*s as usize % sp.len()].clone() };
		if !namespaces.contains(&(p.clone(), s.clone())) {
			namespaces.push((p, s));
		}
	}
	let mut names: Vec<String> = vec![];
	for k in c.key_sel.iter() {
		let k = kp[*k as usize % kp.len()].clone();
		if !names.contains(&k) {
			names.push(k);
		}
	}
	let mut keys = vec![];
	for (p, s) in namespaces.iter() {
		for k in names.iter() {
			// v1 stores `primary/secondary/key` as a path with empty levels dropped, so a key named
			// like a sub-namespace of its own namespace is the conflict the trait docs tell callers
			// to avoid; v2 has no such conflict and keeps them (the "key equals namespace" edge).
			let conflict = !c.v2
				&& ((p.is_empty() && namespaces.iter().any(|(p2, _)| p2 == k))
					|| (!p.is_empty() && s.is_empty() && namespaces.iter().any(|(p2, s2)| p2 == p && s2 == k)));
			if !conflict {
				keys.push((p.clone(), s.clone(), k.clone()));
			}
		}
	}
	if keys.is_empty() {
		let (p, s) = namespaces[0].clone();
		keys.push((p, s, "zz".into()));
	}
	for (p, s, k) in keys.iter() {
		for n in [p, s, k] {
			debug_assert!(n.len() <= KVSTORE_NAMESPACE_KEY_MAX_LEN && n.chars().all(|ch| KVSTORE_NAMESPACE_KEY_ALPHABET.contains(ch)));
		}
	}
	Universe { namespaces, keys }
}

// ---------------------------------------------------------------------------------------------
// self-describing values: (key, writer, sequence number, checksum)
// ---------------------------------------------------------------------------------------------

fn fnv(b: &[u8]) -> u64 {
	let mut h: u64 = 0xcbf29ce484222325;
	for x in b {
		h ^= *x as u64;
		h = h.wrapping_mul(0x100000001b3);
	}
	h
}

fn size_of_class(c: u8) -> usize {
	match c {
		0 => 0,
		1 => 100,
		2 => 4099,
		3 => 65537,
		4 => 262144,
		_ => 0,
	}
}

/// class 5 is the empty value (only usable where the oracle is exact equality)
fn make_value(key_idx: usize, writer: u8, seq: u32, class: u8) -> Vec<u8> {
	if class == 5 {
		return vec![];
	}
	let body = size_of_class(class);
	let mut v = Vec::with_capacity(24 + body);
	v.extend_from_slice(b"C19v");
	v.extend_from_slice(&(key_idx as u16).to_le_bytes());
	v.push(writer);
	v.push(class);
	v.extend_from_slice(&seq.to_le_bytes());
	v.extend_from_slice(&(body as u32).to_le_bytes());
	let mut x: u64 = 0x9E3779B97F4A7C15 ^ ((key_idx as u64) << 40) ^ ((writer as u64) << 32) ^ seq as u64;
	while v.len() < 16 + body {
		x ^= x << 13;
		x ^= x >> 7;
		x ^= x << 17;
		let b = x.to_le_bytes();
		let take = (16 + body - v.len()).min(8);
		v.extend_from_slice(&b[..take]);
	}
	let h = fnv(&v);
	v.extend_from_slice(&h.to_le_bytes());
	v
}

/// -> (key_idx, writer, seq); Err describes how the value is torn / foreign
fn parse_value(v: &[u8]) -> Result<(usize, u8, u32), String> {
	if v.len() < 24 || &v[..4] != b"C19v" {
		return Err(format!("no header (len {})", v.len()));
	}
	let body = u32::from_le_bytes(v[12..16].try_into().unwrap()) as usize;
	if v.len() != 24 + body {
		return Err(format!("length {} does not match header body length {}", v.len(), body));
	}
	let h = u64::from_le_bytes(v[v.len() - 8..].try_into().unwrap());
	if h != fnv(&v[..v.len() - 8]) {
		return Err("checksum mismatch (mixed or partial value)".into());
	}
	Ok((u16::from_le_bytes(v[4..6].try_into().unwrap()) as usize, v[6], u32::from_le_bytes(v[8..12].try_into().unwrap())))
}

// ---------------------------------------------------------------------------------------------
// store wrapper: v1/v2 × sync/async API
// ---------------------------------------------------------------------------------------------

enum Fs {
	V1(FilesystemStore),
	V2(FilesystemStoreV2),
}

type BoxFut<T> = Pin<Box<dyn Future<Output = io::Result<T>> + Send + 'static>>;

struct Store {
	fs: Fs,
	rt: Option<Arc<tokio::runtime::Runtime>>,
}

impl Store {
	fn open(v2: bool, dir: &PathBuf, rt: Option<Arc<tokio::runtime::Runtime>>) -> Result<Store, String> {
		let fs = if v2 { Fs::V2(FilesystemStoreV2::new(dir.clone()).map_err(|e| format!("FilesystemStoreV2::new: {}", e))?) } else { Fs::V1(FilesystemStore::new(dir.clone())) };
		Ok(Store { fs, rt })
	}
	fn write_fut(&self, k: &K3, v: Vec<u8>) -> BoxFut<()> {
		match &self.fs {
			Fs::V1(s) => Box::pin(KVStore::write(s, &k.0, &k.1, &k.2, v)),
			Fs::V2(s) => Box::pin(KVStore::write(s, &k.0, &k.1, &k.2, v)),
		}
	}
	fn remove_fut(&self, k: &K3, lazy: bool) -> BoxFut<()> {
		match &self.fs {
			Fs::V1(s) => Box::pin(KVStore::remove(s, &k.0, &k.1, &k.2, lazy)),
			Fs::V2(s) => Box::pin(KVStore::remove(s, &k.0, &k.1, &k.2, lazy)),
		}
	}
	fn write(&self, k: &K3, v: Vec<u8>) -> io::Result<()> {
		if let Some(rt) = &self.rt {
			return rt.block_on(self.write_fut(k, v));
		}
		match &self.fs {
			Fs::V1(s) => KVStoreSync::write(s, &k.0, &k.1, &k.2, v),
			Fs::V2(s) => KVStoreSync::write(s, &k.0, &k.1, &k.2, v),
		}
	}
	fn remove(&self, k: &K3, lazy: bool) -> io::Result<()> {
		if let Some(rt) = &self.rt {
			return rt.block_on(self.remove_fut(k, lazy));
		}
		match &self.fs {
			Fs::V1(s) => KVStoreSync::remove(s, &k.0, &k.1, &k.2, lazy),
			Fs::V2(s) => KVStoreSync::remove(s, &k.0, &k.1, &k.2, lazy),
		}
	}
	fn read(&self, k: &K3) -> io::Result<Vec<u8>> {
		match (&self.fs, &self.rt) {
			(Fs::V1(s), Some(rt)) => rt.block_on(KVStore::read(s, &k.0, &k.1, &k.2)),
			(Fs::V2(s), Some(rt)) => rt.block_on(KVStore::read(s, &k.0, &k.1, &k.2)),
			(Fs::V1(s), None) => KVStoreSync::read(s, &k.0, &k.1, &k.2),
			(Fs::V2(s), None) => KVStoreSync::read(s, &k.0, &k.1, &k.2),
		}
	}
	fn list(&self, p: &str, s2: &str) -> io::Result<Vec<String>> {
		match (&self.fs, &self.rt) {
			(Fs::V1(s), Some(rt)) => rt.block_on(KVStore::list(s, p, s2)),
			(Fs::V2(s), Some(rt)) => rt.block_on(KVStore::list(s, p, s2)),
			(Fs::V1(s), None) => KVStoreSync::list(s, p, s2),
			(Fs::V2(s), None) => KVStoreSync::list(s, p, s2),
		}
	}
	fn list_all(&self) -> io::Result<Vec<K3>> {
		match &self.fs {
			Fs::V1(s) => MigratableKVStoreSync::list_all_keys(s),
			Fs::V2(s) => MigratableKVStoreSync::list_all_keys(s),
		}
	}
}

/// scratch directory removed when the case ends, also on failure / panic
struct Scratch(PathBuf);
impl Drop for Scratch {
	fn drop(&mut self) {
		let _ = std::fs::remove_dir_all(&self.0);
	}
}
static SCRATCH_CTR: AtomicU64 = AtomicU64::new(0);
fn scratch() -> Scratch {
	let n = SCRATCH_CTR.fetch_add(1, Ordering::SeqCst);
	let p = PathBuf::from(format!("{}/.scratch/c19/{}-{}", VERIF_ROOT, std::process::id(), n));
	let _ = std::fs::remove_dir_all(&p);
	std::fs::create_dir_all(p.parent().unwrap()).expect("scratch parent");
	Scratch(p)
}

// ---------------------------------------------------------------------------------------------
// sequential phase
// ---------------------------------------------------------------------------------------------

struct Seq<'a> {
	c: &'a ACase,
	uni: &'a Universe,
	dir: PathBuf,
	rt: Option<Arc<tokio::runtime::Runtime>>,
	store: Arc<Store>,
	model: BTreeMap<K3, Vec<u8>>,
	seq: u32,
	/// per key: bit0 written, bit1 then removed, bit2 then re-written (non-triviality rule)
	hist: BTreeMap<usize, u8>,
	reopened: bool,
	bursts_async: u32,
}

fn is_not_found(e: &io::Error) -> bool {
	e.kind() == io::ErrorKind::NotFound
}

impl<'a> Seq<'a> {
	fn note_write(&mut self, ki: usize) {
		let h = self.hist.entry(ki).or_insert(0);
		if *h & 2 != 0 {
			*h |= 4;
		}
		*h |= 1;
	}
	fn note_remove(&mut self, ki: usize) {
		let h = self.hist.entry(ki).or_insert(0);
		if *h & 1 != 0 {
			*h |= 2;
		}
	}

	fn check_read(&self, ki: usize, what: &str) -> CaseResult {
		let k = &self.uni.keys[ki];
		match (self.store.read(k), self.model.get(k)) {
			(Ok(v), Some(m)) => {
				vensure!(&v == m, "seq-read", "{}: read of {:?} returned {} bytes ({:?}) but the last completed write had {} bytes ({:?})", what, k, v.len(), parse_value(&v), m.len(), parse_value(m));
			},
			(Ok(v), None) => vfail!("seq-read", "{}: read of {:?} returned {} bytes ({:?}) although the key was never written / was removed", what, k, v.len(), parse_value(&v)),
			(Err(e), Some(m)) => vfail!("seq-read", "{}: read of {:?} failed with {:?} although a {}-byte value was written", what, k, e, m.len()),
			(Err(e), None) => {
				vensure!(is_not_found(&e), "seq-read-errkind", "{}: read of absent {:?} must be NotFound, got {:?}", what, k, e);
			},
		}
		Ok(())
	}

	fn check_list(&self, ni: usize, what: &str) -> CaseResult {
		let (p, s) = &self.uni.namespaces[ni];
		let mut got = self.store.list(p, s).map_err(|e| Failure::new("seq-list", format!("{}: list({:?},{:?}) failed: {:?}", what, p, s, e)))?;
		got.sort();
		let want: Vec<String> = self.model.keys().filter(|k| &k.0 == p && &k.1 == s).map(|k| k.2.clone()).collect();
		vensure!(got == want, "seq-list", "{}: list({:?},{:?}) = {:?} but the model holds {:?}", what, p, s, got, want);
		Ok(())
	}

	fn check_list_all(&self, what: &str) -> CaseResult {
		let mut got = self.store.list_all().map_err(|e| Failure::new("seq-list-all", format!("{}: list_all_keys failed: {:?}", what, e)))?;
		got.sort();
		let want: Vec<K3> = self.model.keys().cloned().collect();
		vensure!(got == want, "seq-list-all", "{}: list_all_keys = {:?} but the model holds {:?}", what, got, want);
		Ok(())
	}

	fn sweep(&self, what: &str) -> CaseResult {
		for ki in 0..self.uni.keys.len() {
			self.check_read(ki, what)?;
		}
		for ni in 0..self.uni.namespaces.len() {
			self.check_list(ni, what)?;
		}
		self.check_list_all(what)
	}

	fn reopen(&mut self) -> CaseResult {
		// a new store object over the same directory must see everything that completed
		self.store = Arc::new(Store::open(self.c.v2, &self.dir, self.rt.clone()).map_err(|e| Failure::new("reopen", e))?);
		self.reopened = true;
		self.sweep("after reopen")
	}

	fn burst(&mut self, ki: usize, ops: &[BOp], order: &[u16], spawn: bool) -> CaseResult {
		let k = self.uni.keys[ki].clone();
		// issue order = order of the calls below
		let mut issued: Vec<Option<Vec<u8>>> = vec![];
		for op in ops {
			match op {
				BOp::Write { size } => {
					self.seq += 1;
					issued.push(Some(make_value(ki, 0, self.seq, *size)));
					self.note_write(ki);
				},
				BOp::Remove { .. } => {
					issued.push(None);
					self.note_remove(ki);
				},
			}
		}
		let last = issued.last().unwrap().clone();
		if let Some(rt) = self.rt.clone() {
			self.bursts_async += 1;
			let mut futs: Vec<Option<BoxFut<()>>> = vec![];
			for (op, val) in ops.iter().zip(issued.iter()) {
				futs.push(Some(match (op, val) {
					(BOp::Write { .. }, Some(v)) => self.store.write_fut(&k, v.clone()),
					(BOp::Remove { lazy }, _) => self.store.remove_fut(&k, *lazy),
					_ => unreachable!(),
				}));
			}
			// completion permutation (Fisher-Yates driven by the case)
			let mut perm: Vec<usize> = (0..ops.len()).collect();
			for i in (1..perm.len()).rev() {
				let j = pick(order[i % order.len()], i + 1);
				perm.swap(i, j);
			}
			if spawn {
				let hs: Vec<_> = perm.iter().map(|i| rt.spawn(futs[*i].take().unwrap())).collect();
				for h in hs {
					let r = rt.block_on(h).map_err(|e| Failure::new("burst-join", format!("{:?}", e)))?;
					r.map_err(|e| Failure::new("burst-op-failed", format!("async op on {:?} failed: {:?}", k, e)))?;
				}
			} else {
				// KVStore::write docs: once the future of a later call completed the state must never
				// show an earlier call again; so after completing a set C of futures the visible state
				// belongs to a call with issue index >= max(C) (a store may run calls eagerly), and the
				// observed issue index never decreases.
				let mut max_done = 0usize;
				let mut max_seen = 0usize;
				for i in perm.iter() {
					rt.block_on(futs[*i].take().unwrap()).map_err(|e| Failure::new("burst-op-failed", format!("async op #{} on {:?} failed: {:?}", i, k, e)))?;
					max_done = max_done.max(*i);
					let seen: Vec<usize> = match self.store.read(&k) {
						Ok(v) => issued.iter().enumerate().filter(|(_, x)| x.as_ref() == Some(&v)).map(|(j, _)| j).collect(),
						Err(e) if is_not_found(&e) => issued.iter().enumerate().filter(|(_, x)| x.is_none()).map(|(j, _)| j).collect(),
						Err(e) => vfail!("burst-read", "read of {:?} failed: {:?}", k, e),
					};
					let floor = max_done.max(max_seen);
					let ok = seen.iter().filter(|j| **j >= floor).min().cloned();
					match ok {
						Some(j) => max_seen = max_seen.max(j),
						None => vfail!(
							"async-issue-order",
							"key {:?}: {} ops issued in order {:?}; after completing the futures {:?} (max issue index {}) the store shows the effect of issue index(es) {:?} — an earlier call overtook a later one",
							k,
							ops.len(),
							ops,
							&perm[..=perm.iter().position(|x| x == i).unwrap()],
							floor,
							seen
						),
					}
				}
			}
		} else {
			for (op, val) in ops.iter().zip(issued.iter()) {
				match (op, val) {
					(BOp::Write { .. }, Some(v)) => self.store.write(&k, v.clone()),
					(BOp::Remove { lazy }, _) => self.store.remove(&k, *lazy),
					_ => unreachable!(),
				}
				.map_err(|e| Failure::new("seq-op-failed", format!("op on {:?} failed: {:?}", k, e)))?;
			}
		}
		match last {
			Some(v) => {
				self.model.insert(k, v);
			},
			None => {
				self.model.remove(&k);
			},
		}
		self.check_read(ki, "after burst (all futures complete: the last issued call wins)")
	}

	fn run_ops(&mut self, ops: &[AOp]) -> CaseResult {
		let (nk, nn) = (self.uni.keys.len(), self.uni.namespaces.len());
		for op in ops {
			match op {
				AOp::Write { k, size } => {
					let ki = pick(*k, nk);
					self.seq += 1;
					let v = make_value(ki, 0, self.seq, *size);
					self.store.write(&self.uni.keys[ki], v.clone()).map_err(|e| Failure::new("seq-op-failed", format!("write {:?} failed: {:?}", self.uni.keys[ki], e)))?;
					self.model.insert(self.uni.keys[ki].clone(), v);
					self.note_write(ki);
					self.check_read(ki, "read-your-write")?;
				},
				AOp::Read { k } => self.check_read(pick(*k, nk), "read")?,
				AOp::Remove { k, lazy } => {
					let ki = pick(*k, nk);
					// "Returns successfully ... independently of whether it was present before"
					self.store.remove(&self.uni.keys[ki], *lazy).map_err(|e| Failure::new("seq-op-failed", format!("remove {:?} failed: {:?}", self.uni.keys[ki], e)))?;
					self.model.remove(&self.uni.keys[ki]);
					self.note_remove(ki);
					self.check_read(ki, "read after remove")?;
				},
				AOp::List { n } => self.check_list(pick(*n, nn), "list")?,
				AOp::ListAll => self.check_list_all("list_all_keys")?,
				AOp::Reopen => self.reopen()?,
				AOp::Burst { k, ops, order, spawn } => self.burst(pick(*k, nk), ops, order, *spawn)?,
			}
		}
		Ok(())
	}
}

// ---------------------------------------------------------------------------------------------
// concurrent phase
// ---------------------------------------------------------------------------------------------

#[derive(Clone, Debug)]
enum Res {
	Done,
	/// value read: parsed (key_idx, writer, seq) or the parse error
	Val(Result<(usize, u8, u32), String>),
	NotFound,
	Names(Vec<String>),
	Err(String),
}

#[derive(Clone, Debug)]
struct Ev {
	thread: usize,
	/// 'w' write, 'd' remove, 'r' read, 'l' list
	kind: char,
	/// key index (w/d/r) or namespace index (l)
	idx: usize,
	seq: u32,
	t0: u64,
	t1: u64,
	res: Res,
}

/// a mutation of one key as the oracle sees it; `present` = it leaves a value behind
#[derive(Clone, Debug)]
struct Mut {
	present: bool,
	writer: u8,
	seq: u32,
	t0: i64,
	t1: i64,
}

fn run_threads(store: &Arc<Store>, uni: &Universe, conc: &[Vec<COp>]) -> Vec<Ev> {
	let clock = Arc::new(AtomicU64::new(1));
	let barrier = Arc::new(Barrier::new(conc.len()));
	let (nk, nn) = (uni.keys.len(), uni.namespaces.len());
	let mut all = vec![];
	std::thread::scope(|sc| {
		let mut hs = vec![];
		for (ti, ops) in conc.iter().enumerate() {
			let (store, clock, barrier) = (store.clone(), clock.clone(), barrier.clone());
			hs.push(sc.spawn(move || {
				let mut evs = vec![];
				let mut seqs: BTreeMap<usize, u32> = BTreeMap::new();
				// build the values before the barrier so that the timed section is mostly store calls
				let prepared: Vec<Option<Vec<u8>>> = ops
					.iter()
					.map(|op| match op {
						COp::Write { k, size } => {
							let ki = pick(*k, nk);
							let s = seqs.entry(ki).or_insert(0);
							*s += 1;
							Some(make_value(ki, ti as u8 + 1, *s, *size))
						},
						_ => None,
					})
					.collect();
				barrier.wait();
				for (op, val) in ops.iter().zip(prepared.into_iter()) {
					let t0 = clock.fetch_add(1, Ordering::SeqCst);
					let (kind, idx, seq, res) = match op {
						COp::Write { k, .. } => {
							let ki = pick(*k, nk);
							let v = val.unwrap();
							let seq = parse_value(&v).unwrap().2;
							let r = store.write(&uni.keys[ki], v);
							('w', ki, seq, match r {
								Ok(()) => Res::Done,
								Err(e) => Res::Err(format!("{:?}", e)),
							})
						},
						COp::Remove { k, lazy } => {
							let ki = pick(*k, nk);
							('d', ki, 0, match store.remove(&uni.keys[ki], *lazy) {
								Ok(()) => Res::Done,
								Err(e) => Res::Err(format!("{:?}", e)),
							})
						},
						COp::Read { k } => {
							let ki = pick(*k, nk);
							('r', ki, 0, match store.read(&uni.keys[ki]) {
								Ok(v) => Res::Val(parse_value(&v)),
								Err(e) if is_not_found(&e) => Res::NotFound,
								Err(e) => Res::Err(format!("{:?}", e)),
							})
						},
						COp::List { n } => {
							let ni = pick(*n, nn);
							let (p, s) = &uni.namespaces[ni];
							('l', ni, 0, match store.list(p, s) {
								Ok(v) => Res::Names(v),
								Err(e) => Res::Err(format!("{:?}", e)),
							})
						},
					};
					let t1 = clock.fetch_add(1, Ordering::SeqCst);
					evs.push(Ev { thread: ti, kind, idx, seq, t0, t1, res });
				}
				evs
			}));
		}
		for h in hs {
			all.extend(h.join().expect("store thread panicked"));
		}
	});
	all
}

/// Sound linearizability-style conditions (necessary for ANY interleaving; the schedule itself is
/// the OS's). `a` "definitely precedes" `b` iff a.t1 < b.t0 on the shared logical clock.
///  R1  a value read was written to that key by some write W, intact (checksum), W started before
///      the read ended, and no other mutation of the key lies entirely between W and the read;
///      NotFound needs a remove (or the initial absence) in the same position.
///  R2  reads of one key that follow each other never go back to a definitely-older mutation.
///  R3  the state after all threads joined stems from a mutation that no other one definitely follows.
///  L1  list returns only key names of that namespace (no temp files), each explainable by a write
///      that started before the list ended and was not definitely removed before the list began;
///  L2  a key written before the list began, with no remove that could follow that write before the
///      list ended and no write in flight during the list, must be listed.
fn check_conc(uni: &Universe, initial: &BTreeMap<K3, Vec<u8>>, evs: &[Ev], finals: &[Res], stats: &mut ConcStats) -> CaseResult {
	for e in evs {
		if let Res::Err(s) = &e.res {
			vfail!("conc-op-failed", "thread {} op {} on #{} failed: {}", e.thread, e.kind, e.idx, s);
		}
	}
	for (ki, k) in uni.keys.iter().enumerate() {
		let mut muts: Vec<Mut> = vec![];
		match initial.get(k).map(|v| parse_value(v)) {
			Some(Ok((_, w, s))) => muts.push(Mut { present: true, writer: w, seq: s, t0: -2, t1: -1 }),
			Some(Err(_)) => muts.push(Mut { present: true, writer: 255, seq: 0, t0: -2, t1: -1 }), // empty-value class
			None => muts.push(Mut { present: false, writer: 0, seq: 0, t0: -2, t1: -1 }),
		}
		for e in evs.iter().filter(|e| e.idx == ki && (e.kind == 'w' || e.kind == 'd')) {
			muts.push(Mut { present: e.kind == 'w', writer: e.thread as u8 + 1, seq: e.seq, t0: e.t0 as i64, t1: e.t1 as i64 });
		}
		let writers: BTreeSet<u8> = muts.iter().skip(1).map(|m| m.writer).collect();
		if writers.len() >= 2 {
			stats.contended_keys += 1;
		}
		let overwritten_before = |x: &Mut, r0: i64| muts.iter().any(|y| !std::ptr::eq(x, y) && x.t1 < y.t0 && y.t1 < r0);
		// source candidates of an observation at [r0, r1]
		let explain = |res: &Res, r0: i64, r1: i64| -> Result<Vec<usize>, String> {
			match res {
				Res::Val(Err(why)) => {
					// the empty-value class has no header: acceptable only if such a value is the initial one
					if let Some(i) = muts.iter().position(|m| m.writer == 255) {
						if why.starts_with("no header (len 0)") && !overwritten_before(&muts[i], r0) {
							return Ok(vec![i]);
						}
					}
					Err(format!("torn value: {}", why))
				},
				Res::Val(Ok((vk, w, s))) => {
					if *vk != ki {
						return Err(format!("value belongs to key #{} ({:?}) — keys interfere", vk, uni.keys.get(*vk)));
					}
					match muts.iter().position(|m| m.present && m.writer == *w && m.seq == *s) {
						None => Err(format!("value (writer {}, seq {}) was never written to this key", w, s)),
						Some(i) => {
							let x = &muts[i];
							if x.t0 >= r1 {
								return Err(format!("value (writer {}, seq {}) was read before its write began", w, s));
							}
							if overwritten_before(x, r0) {
								return Err(format!("stale value (writer {}, seq {}): another mutation completed entirely between that write and this read", w, s));
							}
							Ok(vec![i])
						},
					}
				},
				Res::NotFound => {
					let c: Vec<usize> = muts.iter().enumerate().filter(|(_, x)| !x.present && x.t0 < r1 && !overwritten_before(x, r0)).map(|(i, _)| i).collect();
					if c.is_empty() {
						Err("NotFound although a write completed before the read began and no remove can explain it".into())
					} else {
						Ok(c)
					}
				},
				_ => Err("unexpected result".into()),
			}
		};
		// R1 + R2
		let mut reads: Vec<(&Ev, Vec<usize>)> = vec![];
		for e in evs.iter().filter(|e| e.idx == ki && e.kind == 'r') {
			let src = explain(&e.res, e.t0 as i64, e.t1 as i64).map_err(|why| {
				Failure::new("conc-read", format!("key {:?}: read by thread {} at [{},{}] -> {:?}: {}; mutations of the key: {:?}", k, e.thread, e.t0, e.t1, e.res, why, muts)).with_key("conc-read")
			})?;
			if muts.iter().skip(1).any(|m| m.present && m.t0 < e.t1 as i64 && m.t1 > e.t0 as i64) {
				stats.reads_overlapping_write += 1;
			}
			reads.push((e, src));
		}
		for (a, sa) in reads.iter() {
			for (b, sb) in reads.iter() {
				if a.t1 < b.t0 && sa.len() == 1 && sb.len() == 1 {
					let (xa, xb) = (&muts[sa[0]], &muts[sb[0]]);
					vensure!(!(xb.t1 < xa.t0), "conc-read-went-back", "key {:?}: thread {} read {:?} at [{},{}], later thread {} read the definitely older {:?} at [{},{}]", k, a.thread, xa, a.t0, a.t1, b.thread, xb, b.t0, b.t1);
				}
			}
		}
		// R3
		explain(&finals[ki], i64::MAX - 1, i64::MAX).map_err(|why| Failure::new("conc-final", format!("key {:?}: after all threads joined the store holds {:?}: {}; mutations: {:?}", k, finals[ki], why, muts)))?;
		// L1 / L2
		for l in evs.iter().filter(|e| e.kind == 'l') {
			let (p, s) = &uni.namespaces[l.idx];
			if &k.0 != p || &k.1 != s {
				continue;
			}
			let Res::Names(names) = &l.res else { continue };
			let listed = names.iter().any(|n| n == &k.2);
			let (l0, l1) = (l.t0 as i64, l.t1 as i64);
			let removes: Vec<&Mut> = muts.iter().filter(|m| !m.present).collect();
			let explainable = muts.iter().any(|w| w.present && w.t0 < l1 && !removes.iter().any(|y| w.t1 < y.t0 && y.t1 < l0));
			let write_in_flight = muts.iter().any(|w| w.present && w.t0 < l1 && w.t1 > l0);
			let must = !write_in_flight && muts.iter().any(|w| w.present && w.t1 < l0 && removes.iter().all(|y| y.t1 < w.t0 || y.t0 > l1));
			vensure!(!listed || explainable, "conc-list-ghost", "list({:?},{:?}) by thread {} at [{},{}] contains {:?} which cannot exist then; mutations: {:?}", p, s, l.thread, l0, l1, k.2, muts);
			vensure!(listed || !must, "conc-list-missing", "list({:?},{:?}) by thread {} at [{},{}] = {:?} misses {:?} which was written before and not touched since; mutations: {:?}", p, s, l.thread, l0, l1, names, k.2, muts);
		}
	}
	// L1: nothing but key names of the namespace
	for l in evs.iter().filter(|e| e.kind == 'l') {
		let (p, s) = &uni.namespaces[l.idx];
		if let Res::Names(names) = &l.res {
			for n in names {
				vensure!(uni.keys.iter().any(|k| &k.0 == p && &k.1 == s && &k.2 == n), "conc-list-foreign", "list({:?},{:?}) returned {:?}, which is not a key of that namespace (temp file or other namespace?)", p, s, n);
			}
		}
	}
	Ok(())
}

#[derive(Default)]
struct ConcStats {
	contended_keys: u32,
	reads_overlapping_write: u32,
}

// ---------------------------------------------------------------------------------------------
// oracle
// ---------------------------------------------------------------------------------------------

pub fn oracle(c: &ACase, ctx: &mut Ctx) -> CaseResult {
	let uni = universe(c);
	let guard = scratch();
	let rt = if c.use_async { Some(Arc::new(tokio::runtime::Builder::new_multi_thread().worker_threads(2).build().expect("tokio runtime"))) } else { None };
	let store = Arc::new(Store::open(c.v2, &guard.0, rt.clone()).map_err(|e| Failure::new("open", e))?);
	let mut st = Seq { c, uni: &uni, dir: guard.0.clone(), rt, store, model: BTreeMap::new(), seq: 0, hist: BTreeMap::new(), reopened: false, bursts_async: 0 };

	st.sweep("fresh store")?;
	st.run_ops(&c.ops)?;
	st.sweep("end of sequential phase")?;

	let mut cs = ConcStats::default();
	if !c.conc.is_empty() {
		let evs = run_threads(&st.store, &uni, &c.conc);
		let finals: Vec<Res> = uni
			.keys
			.iter()
			.map(|k| match st.store.read(k) {
				Ok(v) => Res::Val(parse_value(&v)),
				Err(e) if is_not_found(&e) => Res::NotFound,
				Err(e) => Res::Err(format!("{:?}", e)),
			})
			.collect();
		let raw_finals: Vec<Option<Vec<u8>>> = uni.keys.iter().map(|k| st.store.read(k).ok()).collect();
		check_conc(&uni, &st.model, &evs, &finals, &mut cs)?;
		// adopt the (checked) final state as the model; it must survive a reopen
		st.model.clear();
		for (k, v) in uni.keys.iter().zip(raw_finals.into_iter()) {
			if let Some(v) = v {
				st.model.insert(k.clone(), v);
			}
		}
		st.sweep("after concurrent phase (quiescent)")?;
		st.reopen()?;
	}
	st.run_ops(&c.tail)?;
	st.sweep("end of case")?;

	let rewrite = st.hist.values().any(|h| *h & 4 != 0);
	ctx.nontrivial_if(rewrite || cs.contended_keys > 0);
	ctx.label(match (c.v2, c.use_async) {
		(false, false) => "store:v1-sync",
		(false, true) => "store:v1-async",
		(true, false) => "store:v2-sync",
		(true, true) => "store:v2-async",
	});
	ctx.label_if(rewrite, "seq:write-remove-rewrite-one-key");
	ctx.label_if(st.reopened, "seq:reopened");
	ctx.label_if(st.bursts_async > 0, "async:burst-out-of-order-completion");
	ctx.label_if(!c.conc.is_empty(), "conc:ran");
	ctx.label_if(cs.contended_keys > 0, "conc:key-with-2+-writers");
	ctx.label_if(cs.reads_overlapping_write > 0, "conc:read-overlapped-a-write-in-time");
	ctx.label_if(uni.keys.iter().any(|k| k.0.is_empty()), "names:empty-primary");
	ctx.label_if(uni.keys.iter().any(|k| !k.0.is_empty() && k.1.is_empty()), "names:empty-secondary");
	ctx.label_if(uni.keys.iter().any(|k| [&k.0, &k.1, &k.2].iter().any(|n| n.len() == KVSTORE_NAMESPACE_KEY_MAX_LEN)), "names:max-length");
	ctx.label_if(uni.keys.iter().any(|k| uni.namespaces.iter().any(|(p, s)| &k.2 == p || (!s.is_empty() && &k.2 == s))), "names:key-equals-a-namespace-name");
	ctx.label_if(st.model.values().any(|v| v.is_empty()) || c.ops.iter().any(|o| matches!(o, AOp::Write { size: 5, .. })), "values:empty");
	ctx.label_if(c.ops.iter().chain(c.tail.iter()).any(|o| matches!(o, AOp::Write { size: 4, .. })) || c.conc.iter().flatten().any(|o| matches!(o, COp::Write { size: 4, .. })), "values:256kB");
	let sub = (c.ops.len() + c.tail.len() + c.conc.iter().map(|t| t.len()).sum::<usize>()) as u64;
	ctx.sub_evaluations(sub);
	ctx.summary(serde_json::json!({"v2": c.v2, "async": c.use_async, "keys": uni.keys.len(), "seq_ops": c.ops.len(), "threads": c.conc.len(), "contended_keys": cs.contended_keys}));
	Ok(())
}
