//! C19 part B — crash / fault enumeration for `MonitorUpdatingPersister`.
//!
//! A real two-node channel (functional_test_utils) runs a generated history; both nodes persist
//! through a recording `Persist` wrapper around a `MonitorUpdatingPersister` over a logging
//! in-memory `KVStoreSync`. Every persist call is recorded with the exact serialization of the
//! in-memory monitor handed over (and of the update). The recorded call script is then also
//! replayed directly against fresh persisters with other `maximum_pending_updates` values and with
//! a single store operation failing.
//!
//! For every prefix of the store-operation log (= crash between two store operations), with lazy
//! removals before the crash applied / not applied / applied in two pseudo-random subsets, a fresh
//! persister over the surviving map must recover:
//!   * `read_all_channel_monitors_with_updates` succeeds;
//!   * recovered `latest_update_id` >= highest id whose persist call had returned `Completed`;
//!   * the recovered monitor `==` M ⊕ U(id(M)+1 ..= recovered id), where M is the in-memory monitor
//!     exactly as handed to the persister in one of its calls (identified as the call whose full
//!     write is the last one in the prefix, and checked byte-for-byte against what reached the store)
//!     and U are the recorded updates. Chain data and monitor events reach the monitor outside of
//!     updates, so "the in-memory monitor as of update j" is only defined up to the chain tip /
//!     event state of M — exactly the latitude the property text gives ("once brought to the same
//!     chain tip"). Where the in-memory history itself satisfies snapshot(j) == M ⊕ U(..j) the
//!     recovered monitor is additionally compared with snapshot(j) directly.
//!   * clean-up never removes a stored update above the stored full monitor's id.
//! A store operation failing with an I/O error: a persist call that had a write fail must not
//! return `Completed`; everything reported before stays recoverable.

use bitcoin::{OutPoint as BtcOutPoint, Transaction, Txid};
use lightning::chain::chaininterface::{BroadcasterInterface, ConfirmationTarget, FeeEstimator, TransactionType};
use lightning::chain::chainmonitor::Persist;
use lightning::chain::channelmonitor::{ChannelMonitor, ChannelMonitorUpdate};
use lightning::chain::{BlockLocator, ChannelMonitorUpdateStatus};
use lightning::io;
use lightning::ln::functional_test_utils::*;
use lightning::ln::msgs::{BaseMessageHandler, ChannelMessageHandler, MessageSendEvent};
use lightning::types::payment::{PaymentHash, PaymentPreimage};
use lightning::util::logger::{Logger, Record};
use lightning::util::persist::{
	KVStoreSync, MonitorName, MonitorUpdatingPersister, ARCHIVED_CHANNEL_MONITOR_PERSISTENCE_PRIMARY_NAMESPACE,
	CHANNEL_MONITOR_PERSISTENCE_PRIMARY_NAMESPACE, CHANNEL_MONITOR_UPDATE_PERSISTENCE_PRIMARY_NAMESPACE,
	MONITOR_UPDATING_PERSISTER_PREPEND_SENTINEL,
};
use lightning::util::ser::{Readable, ReadableArgs, Writeable};
use lightning::util::test_channel_signer::TestChannelSigner;
use lightning::util::test_utils::TestKeysInterface;
use proptest::prelude::*;
use serde::{Deserialize, Serialize};
use std::collections::{BTreeMap, BTreeSet, HashMap, HashSet};
use std::panic::{catch_unwind, AssertUnwindSafe};
use std::sync::{Arc, Mutex};
use vcore::*;

type K3 = (String, String, String);
type Mon = ChannelMonitor<TestChannelSigner>;
type Map = BTreeMap<K3, Arc<Vec<u8>>>;

pub const MPUS: [u64; 7] = [0, 1, 2, 3, 5, 10, 100];

// ---------------------------------------------------------------------------------------------
// case
// ---------------------------------------------------------------------------------------------

#[derive(Clone, Debug, Serialize, Deserialize)]
pub enum HOp {
	/// route + claim a payment from node `from`
	Pay { from: bool, amt: u32 },
	/// route a payment and leave it pending
	Route { from: bool, amt: u32 },
	Claim { idx: u16 },
	Fail { idx: u16 },
	/// the funder (node 0) raises its feerate: update_fee + commitment dance
	FeeBump { delta: u16 },
	/// n blocks on both nodes
	Blocks { n: u8 },
	/// `cleanup_stale_updates(lazy)` on both nodes' persisters
	Cleanup { lazy: bool },
}

#[derive(Clone, Debug, Serialize, Deserialize)]
pub struct CloseSpec {
	/// 0 cooperative, 1 node 0 force-closes, 2 node 1 force-closes
	kind: u8,
	/// payments routed right before a force close and left pending
	pre_routes: Vec<(bool, u32)>,
	/// claim the pending inbound payments after the force close (post-close preimage updates)
	claim_after: bool,
	/// rounds of "mine what was broadcast + n empty blocks" after the close
	rounds: Vec<u8>,
	cleanup_lazy: Option<bool>,
}

#[derive(Clone, Debug, Serialize, Deserialize)]
pub struct BCase {
	/// index into MPUS: node 0 live, node 1 live
	mpu: (u8, u8),
	/// further values the recorded call script is replayed with
	extra_mpu: Vec<u8>,
	connect_style: u8,
	/// the live / replay store never applies lazy removals to its visible state
	defer_lazy: bool,
	lazy_seed: u64,
	ops: Vec<HOp>,
	close: Option<CloseSpec>,
	archive: bool,
}

fn amt_strat() -> SBoxedStrategy<u32> {
	prop_oneof![3 => 1_000u32..600_000, 5 => 600_000u32..5_000_000, 1 => 5_000_000u32..40_000_000].sboxed()
}

fn hop_strat() -> SBoxedStrategy<HOp> {
	prop_oneof![
		30 => (any::<bool>(), amt_strat()).prop_map(|(from, amt)| HOp::Pay { from, amt }),
		26 => (any::<bool>(), amt_strat()).prop_map(|(from, amt)| HOp::Route { from, amt }),
		11 => any::<u16>().prop_map(|idx| HOp::Claim { idx }),
		7 => any::<u16>().prop_map(|idx| HOp::Fail { idx }),
		8 => (20u16..400).prop_map(|delta| HOp::FeeBump { delta }),
		10 => (1u8..7).prop_map(|n| HOp::Blocks { n }),
		8 => any::<bool>().prop_map(|lazy| HOp::Cleanup { lazy }),
	]
	.sboxed()
}

pub fn strat() -> impl Strategy<Value = BCase> + Clone + Send + Sync + 'static {
	let close = (0u8..3, prop::collection::vec((any::<bool>(), amt_strat()), 0..3), any::<bool>(), prop::collection::vec(prop_oneof![3 => 0u8..4, 1 => 4u8..40, 1 => 70u8..100], 1..5), prop::option::of(any::<bool>()))
		.prop_map(|(kind, pre_routes, claim_after, rounds, cleanup_lazy)| CloseSpec { kind, pre_routes, claim_after, rounds, cleanup_lazy });
	(
		(0u8..7, 0u8..7),
		prop::collection::vec(0u8..7, 0..3),
		0u8..3,
		prop::bool::weighted(0.3),
		any::<u64>(),
		prop_oneof![2 => prop::collection::vec(hop_strat(), 1..4), 5 => prop::collection::vec(hop_strat(), 4..13)],
		prop::option::weighted(0.55, close),
		prop::bool::weighted(0.3),
	)
		.prop_map(|(mpu, extra_mpu, connect_style, defer_lazy, lazy_seed, ops, close, archive)| BCase { mpu, extra_mpu, connect_style, defer_lazy, lazy_seed, ops, close, archive })
}

// ---------------------------------------------------------------------------------------------
// null collaborators for offline persisters
// ---------------------------------------------------------------------------------------------

pub struct NullLogger;
impl Logger for NullLogger {
	fn log(&self, _record: Record) {}
}
pub struct NullBroadcaster;
impl BroadcasterInterface for NullBroadcaster {
	fn broadcast_transactions(&self, _txs: &[(&Transaction, TransactionType)]) {}
}
pub struct NullFee;
impl FeeEstimator for NullFee {
	fn get_est_sat_per_1000_weight(&self, _t: ConfirmationTarget) -> u32 {
		253
	}
}
static NULL_LOGGER: NullLogger = NullLogger;
static NULL_BROADCASTER: NullBroadcaster = NullBroadcaster;
static NULL_FEE: NullFee = NullFee;

fn offline_keys(node: usize) -> TestKeysInterface {
	// same seed as create_chanmon_cfgs gives node `node`; the signer's state-machine enforcement is
	// about the live channel, not about monitors decoded from storage
	let mut k = TestKeysInterface::new(&[node as u8; 32], bitcoin::Network::Testnet);
	k.disable_all_state_policy_checks = true;
	k.disable_revocation_policy_check = true;
	k
}

type Mup<'a> = MonitorUpdatingPersister<&'a LogStore, &'static NullLogger, &'a TestKeysInterface, &'a TestKeysInterface, &'static NullBroadcaster, &'static NullFee>;

fn new_mup<'a>(store: &'a LogStore, mpu: u64, keys: &'a TestKeysInterface) -> Mup<'a> {
	MonitorUpdatingPersister::new(store, &NULL_LOGGER, mpu, keys, keys, &NULL_BROADCASTER, &NULL_FEE)
}

fn decode_mon(bytes: &[u8], keys: &TestKeysInterface) -> Result<Mon, String> {
	<(BlockLocator, Mon)>::read(&mut io::Cursor::new(bytes), (keys, keys)).map(|x| x.1).map_err(|e| format!("{:?}", e))
}

// ---------------------------------------------------------------------------------------------
// logging / fault-injecting in-memory store
// ---------------------------------------------------------------------------------------------

#[derive(Clone)]
pub enum OpKind {
	Write(Arc<Vec<u8>>),
	Remove { lazy: bool },
}

#[derive(Clone)]
pub struct LogOp {
	kind: OpKind,
	key: K3,
	/// index of the script entry (persist call / cleanup / archive) that issued it
	call: usize,
	failed: bool,
}

struct LogInner {
	map: Map,
	log: Vec<LogOp>,
	ops_seen: usize,
	fail_at: Option<usize>,
	/// (op index, kind, script entry) of the injected failure once it happened
	faulted: Option<(usize, char, usize)>,
	cur_call: usize,
	defer_lazy: bool,
}

pub struct LogStore(Mutex<LogInner>);

impl LogStore {
	fn new(defer_lazy: bool, fail_at: Option<usize>) -> Self {
		LogStore(Mutex::new(LogInner { map: Map::new(), log: vec![], ops_seen: 0, fail_at, faulted: None, cur_call: 0, defer_lazy }))
	}
	fn from_map(map: Map) -> Self {
		LogStore(Mutex::new(LogInner { map, log: vec![], ops_seen: 0, fail_at: None, faulted: None, cur_call: 0, defer_lazy: false }))
	}
	/// a store that already went through `log` (visible state `map`, `ops_seen` operations so far)
	fn resume(map: Map, log: Vec<LogOp>, ops_seen: usize, defer_lazy: bool, fail_at: Option<usize>) -> Self {
		LogStore(Mutex::new(LogInner { map, log, ops_seen, fail_at, faulted: None, cur_call: 0, defer_lazy }))
	}
	/// -> (log length, operations seen); marks the start of script entry `c`
	fn set_call(&self, c: usize) -> (usize, usize) {
		let mut g = self.0.lock().unwrap();
		g.cur_call = c;
		(g.log.len(), g.ops_seen)
	}
	fn log_len(&self) -> usize {
		self.0.lock().unwrap().log.len()
	}
	fn take(&self) -> (Vec<LogOp>, usize, Option<(usize, char, usize)>) {
		let g = self.0.lock().unwrap();
		(g.log.clone(), g.ops_seen, g.faulted)
	}
}

fn injected() -> io::Error {
	io::Error::new(io::ErrorKind::Other, "injected I/O failure")
}

impl LogInner {
	fn fails(&mut self, kind: char) -> bool {
		let i = self.ops_seen;
		self.ops_seen += 1;
		if self.fail_at == Some(i) {
			self.faulted = Some((i, kind, self.cur_call));
			true
		} else {
			false
		}
	}
}

impl KVStoreSync for LogStore {
	fn read(&self, p: &str, s: &str, k: &str) -> Result<Vec<u8>, io::Error> {
		let mut g = self.0.lock().unwrap();
		if g.fails('r') {
			return Err(injected());
		}
		match g.map.get(&(p.to_string(), s.to_string(), k.to_string())) {
			Some(v) => Ok((**v).clone()),
			None => Err(io::Error::new(io::ErrorKind::NotFound, "not found")),
		}
	}
	fn write(&self, p: &str, s: &str, k: &str, buf: Vec<u8>) -> Result<(), io::Error> {
		let mut g = self.0.lock().unwrap();
		let failed = g.fails('w');
		let key = (p.to_string(), s.to_string(), k.to_string());
		let buf = Arc::new(buf);
		let call = g.cur_call;
		g.log.push(LogOp { kind: OpKind::Write(buf.clone()), key: key.clone(), call, failed });
		if failed {
			return Err(injected());
		}
		g.map.insert(key, buf);
		Ok(())
	}
	fn remove(&self, p: &str, s: &str, k: &str, lazy: bool) -> Result<(), io::Error> {
		let mut g = self.0.lock().unwrap();
		let failed = g.fails('d');
		let key = (p.to_string(), s.to_string(), k.to_string());
		let call = g.cur_call;
		g.log.push(LogOp { kind: OpKind::Remove { lazy }, key: key.clone(), call, failed });
		if failed {
			return Err(injected());
		}
		// "the backend implementation might choose to lazily remove the given key at some point in
		// time after the method returns": in defer mode the visible state keeps the key
		if !(lazy && g.defer_lazy) {
			g.map.remove(&key);
		}
		Ok(())
	}
	fn list(&self, p: &str, s: &str) -> Result<Vec<String>, io::Error> {
		let mut g = self.0.lock().unwrap();
		if g.fails('l') {
			return Err(injected());
		}
		Ok(g.map.keys().filter(|k| k.0 == p && k.1 == s).map(|k| k.2.clone()).collect())
	}
}

// ---------------------------------------------------------------------------------------------
// recorded calls
// ---------------------------------------------------------------------------------------------

#[derive(Clone, Copy, Debug, PartialEq)]
enum CallKind {
	New,
	Update,
	/// full-monitor persist without an update (chain sync, or a failed update application)
	Sync,
}

#[derive(Clone)]
enum EOp {
	Persist { kind: CallKind, id: u64, snap: Arc<Vec<u8>>, upd: Option<Arc<Vec<u8>>> },
	Cleanup { lazy: bool },
	Archive,
}

#[derive(Clone)]
struct Entry {
	op: EOp,
	/// number of store operations of any kind (incl. reads and lists) issued before this entry
	ops_start: usize,
	log_start: usize,
	log_end: usize,
	/// Persist: returned Completed; Cleanup: returned Ok
	ok: bool,
}

struct Run {
	mpu: u64,
	entries: Vec<Entry>,
	log: Vec<LogOp>,
	ops_seen: usize,
	faulted: Option<(usize, char, usize)>,
}

/// The `Persist` both live nodes use: record, then delegate to the real persister.
pub struct RecPersist<'a> {
	store: &'a LogStore,
	inner: Mup<'a>,
	entries: Mutex<Vec<Entry>>,
	name: Mutex<Option<MonitorName>>,
}

impl<'a> RecPersist<'a> {
	fn new(store: &'a LogStore, mpu: u64, keys: &'a TestKeysInterface) -> Self {
		RecPersist { store, inner: new_mup(store, mpu, keys), entries: Mutex::new(vec![]), name: Mutex::new(None) }
	}
	fn begin(&self) -> (usize, usize) {
		let idx = self.entries.lock().unwrap().len();
		self.store.set_call(idx)
	}
	fn persist(&self, kind: CallKind, name: MonitorName, upd: Option<&ChannelMonitorUpdate>, mon: &Mon) -> ChannelMonitorUpdateStatus {
		let (log_start, ops_start) = self.begin();
		*self.name.lock().unwrap() = Some(name);
		let snap = Arc::new(mon.encode());
		let updb = upd.map(|u| Arc::new(u.encode()));
		let st = match kind {
			CallKind::New => self.inner.persist_new_channel(name, mon),
			_ => self.inner.update_persisted_channel(name, upd, mon),
		};
		let e = Entry { op: EOp::Persist { kind, id: mon.get_latest_update_id(), snap, upd: updb }, ops_start, log_start, log_end: self.store.log_len(), ok: st == ChannelMonitorUpdateStatus::Completed };
		self.entries.lock().unwrap().push(e);
		st
	}
	fn cleanup(&self, lazy: bool) {
		let (log_start, ops_start) = self.begin();
		let ok = self.inner.cleanup_stale_updates(lazy).is_ok();
		self.entries.lock().unwrap().push(Entry { op: EOp::Cleanup { lazy }, ops_start, log_start, log_end: self.store.log_len(), ok });
	}
	fn archive(&self) {
		let name = match *self.name.lock().unwrap() {
			Some(n) => n,
			None => return,
		};
		let (log_start, ops_start) = self.begin();
		Persist::<TestChannelSigner>::archive_persisted_channel(&self.inner, name);
		self.entries.lock().unwrap().push(Entry { op: EOp::Archive, ops_start, log_start, log_end: self.store.log_len(), ok: true });
	}
	fn into_run(&self, mpu: u64) -> Run {
		let (log, ops_seen, faulted) = self.store.take();
		Run { mpu, entries: self.entries.lock().unwrap().clone(), log, ops_seen, faulted }
	}
}

impl<'a> Persist<TestChannelSigner> for RecPersist<'a> {
	fn persist_new_channel(&self, name: MonitorName, mon: &Mon) -> ChannelMonitorUpdateStatus {
		self.persist(CallKind::New, name, None, mon)
	}
	fn update_persisted_channel(&self, name: MonitorName, upd: Option<&ChannelMonitorUpdate>, mon: &Mon) -> ChannelMonitorUpdateStatus {
		self.persist(if upd.is_some() { CallKind::Update } else { CallKind::Sync }, name, upd, mon)
	}
	fn archive_persisted_channel(&self, _name: MonitorName) {
		// the live ChainMonitor never archives in these histories (needs 4032 blocks); the harness
		// calls `archive()` itself at the end of a history
	}
}

// ---------------------------------------------------------------------------------------------
// the live history
// ---------------------------------------------------------------------------------------------

fn drain(nodes: &[Node]) {
	for n in nodes {
		let _ = n.node.get_and_clear_pending_msg_events();
		let _ = n.node.get_and_clear_pending_events();
		n.chain_monitor.added_monitors.lock().unwrap().clear();
	}
}

struct Pending {
	from: usize,
	preimage: PaymentPreimage,
	hash: PaymentHash,
}

/// mine everything the nodes broadcast since the last round that does not double-spend a
/// confirmed input, on both nodes
fn mine_broadcasts(nodes: &[Node], spent: &mut HashSet<BtcOutPoint>, confirmed: &mut HashSet<Txid>) -> usize {
	let mut txs: Vec<Transaction> = vec![];
	for n in nodes {
		for tx in n.tx_broadcaster.txn_broadcast() {
			let txid = tx.compute_txid();
			if confirmed.contains(&txid) || txs.iter().any(|t| t.compute_txid() == txid) {
				continue;
			}
			if tx.input.iter().any(|i| spent.contains(&i.previous_output) || txs.iter().any(|t| t.input.iter().any(|j| j.previous_output == i.previous_output))) {
				continue;
			}
			txs.push(tx);
		}
	}
	for tx in txs.iter() {
		confirmed.insert(tx.compute_txid());
		for i in tx.input.iter() {
			spent.insert(i.previous_output);
		}
	}
	for n in nodes {
		let height = n.best_block_info().1 + 1;
		let block = create_dummy_block(n.best_block_hash(), height, txs.clone());
		connect_block(n, &block);
	}
	txs.len()
}

#[derive(Default)]
struct HistStats {
	payments: u32,
	held_at_close: u32,
	fee_updates: u32,
	blocks: u32,
	close_kind: Option<u8>,
	post_close_claims: u32,
	onchain_txs: u32,
}

fn run_history(c: &BCase) -> (Run, Run, HistStats) {
	let (mpu0, mpu1) = (MPUS[c.mpu.0 as usize % 7], MPUS[c.mpu.1 as usize % 7]);
	let keys = [offline_keys(0), offline_keys(1)];
	let stores = [LogStore::new(c.defer_lazy, None), LogStore::new(c.defer_lazy, None)];
	let pers = [RecPersist::new(&stores[0], mpu0, &keys[0]), RecPersist::new(&stores[1], mpu1, &keys[1])];
	let mut stats = HistStats::default();
	{
		let chanmon_cfgs = create_chanmon_cfgs(2);
		let node_cfgs = create_node_cfgs_with_persisters(2, &chanmon_cfgs, vec![&pers[0], &pers[1]]);
		let legacy = test_legacy_channel_config();
		let node_chanmgrs = create_node_chanmgrs(2, &node_cfgs, &[Some(legacy.clone()), Some(legacy)]);
		let nodes = create_network(2, &node_cfgs, &node_chanmgrs);
		*nodes[0].connect_style.borrow_mut() = match c.connect_style % 3 {
			0 => ConnectStyle::BestBlockFirst,
			1 => ConnectStyle::TransactionsFirst,
			_ => ConnectStyle::FullBlockViaListen,
		};
		let ids = [nodes[0].node.get_our_node_id(), nodes[1].node.get_our_node_id()];
		let (_, _, chan_id, funding_tx) = create_announced_chan_between_nodes_with_value(&nodes, 0, 1, 1_000_000, 400_000_000);
		let mut pending: Vec<Pending> = vec![];
		let mut blocks_budget: u32 = 30;

		for op in c.ops.iter() {
			match op {
				HOp::Pay { from, amt } => {
					let (a, b) = if *from { (1, 0) } else { (0, 1) };
					send_payment(&nodes[a], &[&nodes[b]], *amt as u64);
					stats.payments += 1;
				},
				HOp::Route { from, amt } => {
					if pending.len() >= 4 {
						continue;
					}
					let (a, b) = if *from { (1, 0) } else { (0, 1) };
					let (preimage, hash, _, _) = route_payment(&nodes[a], &[&nodes[b]], *amt as u64);
					pending.push(Pending { from: a, preimage, hash });
					stats.payments += 1;
				},
				HOp::Claim { idx } => {
					if pending.is_empty() {
						continue;
					}
					let p = pending.remove(pick(*idx, pending.len()));
					claim_payment(&nodes[p.from], &[&nodes[1 - p.from]], p.preimage);
				},
				HOp::Fail { idx } => {
					if pending.is_empty() {
						continue;
					}
					let p = pending.remove(pick(*idx, pending.len()));
					fail_payment(&nodes[p.from], &[&nodes[1 - p.from]], p.hash);
				},
				HOp::FeeBump { delta } => {
					for cfg in chanmon_cfgs.iter() {
						*cfg.fee_estimator.sat_per_kw.lock().unwrap() += *delta as u32;
					}
					nodes[0].node.timer_tick_occurred();
					let evs = nodes[0].node.get_and_clear_pending_msg_events();
					let upd = evs.iter().find_map(|e| if let MessageSendEvent::UpdateHTLCs { updates, .. } = e { Some(updates.clone()) } else { None });
					if let Some(u) = upd {
						if let Some(fee) = u.update_fee.as_ref() {
							nodes[1].node.handle_update_fee(ids[0], fee);
							nodes[1].node.handle_commitment_signed_batch_test(ids[0], &u.commitment_signed);
							let (raa, cs) = get_revoke_commit_msgs(&nodes[1], &ids[0]);
							nodes[0].node.handle_revoke_and_ack(ids[1], &raa);
							nodes[0].node.handle_commitment_signed_batch_test(ids[1], &cs);
							let raa0 = get_event_msg!(nodes[0], MessageSendEvent::SendRevokeAndACK, ids[1]);
							nodes[1].node.handle_revoke_and_ack(ids[0], &raa0);
							stats.fee_updates += 1;
						}
					}
					for n in nodes.iter() {
						n.chain_monitor.added_monitors.lock().unwrap().clear();
						let _ = n.node.get_and_clear_pending_msg_events();
					}
				},
				HOp::Blocks { n } => {
					// stay far away from the HTLC fail-back / timeout heights of pending payments
					let n = (*n as u32).min(blocks_budget);
					if n == 0 {
						continue;
					}
					blocks_budget -= n;
					connect_blocks(&nodes[0], n);
					connect_blocks(&nodes[1], n);
					stats.blocks += n;
				},
				HOp::Cleanup { lazy } => {
					pers[0].cleanup(*lazy);
					pers[1].cleanup(*lazy);
				},
			}
		}

		if let Some(cl) = c.close.as_ref() {
			let kind = cl.kind % 3;
			stats.close_kind = Some(kind);
			if kind == 0 {
				// a cooperative close needs a quiet channel: resolve what is pending first
				for (i, p) in pending.drain(..).enumerate() {
					if i % 2 == 0 {
						claim_payment(&nodes[p.from], &[&nodes[1 - p.from]], p.preimage);
					} else {
						fail_payment(&nodes[p.from], &[&nodes[1 - p.from]], p.hash);
					}
				}
				let _ = close_channel(&nodes[0], &nodes[1], &chan_id, funding_tx.clone(), true);
				drain(&nodes);
			} else {
				for (from, amt) in cl.pre_routes.iter() {
					if pending.len() < 4 {
						let (a, b) = if *from { (1, 0) } else { (0, 1) };
						let (preimage, hash, _, _) = route_payment(&nodes[a], &[&nodes[b]], *amt as u64);
						pending.push(Pending { from: a, preimage, hash });
						stats.payments += 1;
					}
				}
				stats.held_at_close = pending.len() as u32;
				let closer = (kind - 1) as usize;
				nodes[closer].node.force_close_broadcasting_latest_txn(&chan_id, &ids[1 - closer], "c19 close".to_owned()).unwrap();
				drain(&nodes);
			}
			let mut spent: HashSet<BtcOutPoint> = HashSet::new();
			let mut confirmed: HashSet<Txid> = HashSet::new();
			for (ri, r) in cl.rounds.iter().enumerate() {
				stats.onchain_txs += mine_broadcasts(&nodes, &mut spent, &mut confirmed) as u32;
				drain(&nodes);
				if ri == 0 && kind != 0 && cl.claim_after {
					// the recipient learns the preimage only now: post-close PaymentPreimage updates
					for p in pending.iter() {
						nodes[1 - p.from].node.claim_funds(p.preimage);
						stats.post_close_claims += 1;
					}
					drain(&nodes);
				}
				if *r > 0 {
					for _ in 0..*r {
						connect_blocks(&nodes[0], 1);
						connect_blocks(&nodes[1], 1);
						drain(&nodes);
						// HTLC timeout / claim transactions appear as the chain advances
						let any = nodes.iter().any(|n| !n.tx_broadcaster.txn_broadcasted.lock().unwrap().is_empty());
						if any {
							stats.onchain_txs += mine_broadcasts(&nodes, &mut spent, &mut confirmed) as u32;
							drain(&nodes);
						}
					}
					stats.blocks += *r as u32;
				}
			}
			if let Some(lazy) = cl.cleanup_lazy {
				pers[0].cleanup(lazy);
				pers[1].cleanup(lazy);
			}
		}
		if c.archive {
			pers[0].archive();
			pers[1].archive();
		}
		drain(&nodes);
		// `Node::drop` runs the test suite's own end-of-test self checks (reload of the manager, no
		// leftover events, ...) which are about the test scripts, not about storage: skip them.
		std::mem::forget(nodes);
	}
	(pers[0].into_run(mpu0), pers[1].into_run(mpu1), stats)
}

// ---------------------------------------------------------------------------------------------
// offline replay of a recorded call script
// ---------------------------------------------------------------------------------------------

struct Offline {
	node: usize,
	keys: TestKeysInterface,
	mon_key: String,
	/// recorded updates by id
	upds: BTreeMap<u64, ChannelMonitorUpdate>,
}

enum SOp {
	/// `snap` = serialization of THIS decoded object: what a correct persister stores for it
	Persist { kind: CallKind, id: u64, mon: Mon, snap: Arc<Vec<u8>>, upd: Option<ChannelMonitorUpdate>, updb: Option<Arc<Vec<u8>>> },
	Cleanup { lazy: bool },
	Archive,
}

fn build_offline(node: usize, live: &Run) -> Result<(Offline, Vec<SOp>), Failure> {
	let keys = offline_keys(node);
	let mut upds = BTreeMap::new();
	let mut script = vec![];
	let mut mon_key = String::new();
	for e in live.entries.iter() {
		match &e.op {
			EOp::Persist { kind, id, snap, upd } => {
				let mon = decode_mon(snap, &keys).map_err(|e| Failure::new("harness-decode", format!("in-memory monitor snapshot does not decode: {}", e)))?;
				mon_key = mon.persistence_key().to_string();
				let u = match upd {
					Some(b) => {
						let u = ChannelMonitorUpdate::read(&mut &b[..]).map_err(|e| Failure::new("harness-decode", format!("update does not decode: {:?}", e)))?;
						upds.insert(u.update_id, u.clone());
						Some(u)
					},
					None => None,
				};
				let snap = Arc::new(mon.encode());
				script.push(SOp::Persist { kind: *kind, id: *id, mon, snap, upd: u, updb: upd.clone() });
			},
			EOp::Cleanup { lazy } => script.push(SOp::Cleanup { lazy: *lazy }),
			EOp::Archive => script.push(SOp::Archive),
		}
	}
	Ok((Offline { node, keys, mon_key, upds }, script))
}

/// Replay the recorded call script against a fresh persister. With `resume = (base run, entry e)`
/// the store starts in the state the fault-free `base` run had when entry `e` began and only
/// entries `e..e+span` are executed (the persister keeps no state of its own between calls — and a
/// clean restart between two calls is a legal history anyway).
fn replay(script: &[SOp], off: &Offline, mpu: u64, defer_lazy: bool, fail_at: Option<usize>, resume: Option<(&Run, usize, usize)>) -> Run {
	let (store, mut entries, first, last) = match resume {
		None => (LogStore::new(defer_lazy, fail_at), vec![], 0, script.len()),
		Some((base, e, span)) => {
			let log: Vec<LogOp> = base.log[..base.entries[e].log_start].to_vec();
			let mut map = Map::new();
			for op in log.iter() {
				match &op.kind {
					OpKind::Write(b) => {
						map.insert(op.key.clone(), b.clone());
					},
					OpKind::Remove { lazy } => {
						if !(*lazy && defer_lazy) {
							map.remove(&op.key);
						}
					},
				}
			}
			(LogStore::resume(map, log, base.entries[e].ops_start, defer_lazy, fail_at), base.entries[..e].to_vec(), e, (e + span).min(script.len()))
		},
	};
	{
		let p = new_mup(&store, mpu, &off.keys);
		let name = script.iter().find_map(|o| if let SOp::Persist { mon, .. } = o { Some(mon.persistence_key()) } else { None });
		for i in first..last {
			let (log_start, ops_start) = store.set_call(i);
			let (eop, ok) = match &script[i] {
				SOp::Persist { kind, id, mon, snap, upd, updb } => {
					let st = match kind {
						CallKind::New => p.persist_new_channel(mon.persistence_key(), mon),
						_ => p.update_persisted_channel(mon.persistence_key(), upd.as_ref(), mon),
					};
					(EOp::Persist { kind: *kind, id: *id, snap: snap.clone(), upd: updb.clone() }, st == ChannelMonitorUpdateStatus::Completed)
				},
				SOp::Cleanup { lazy } => (EOp::Cleanup { lazy: *lazy }, p.cleanup_stale_updates(*lazy).is_ok()),
				SOp::Archive => {
					if let Some(n) = name {
						Persist::<TestChannelSigner>::archive_persisted_channel(&p, n);
					}
					(EOp::Archive, true)
				},
			};
			let is_persist = matches!(eop, EOp::Persist { .. });
			entries.push(Entry { op: eop, ops_start, log_start, log_end: store.log_len(), ok });
			if is_persist && !ok {
				// UnrecoverableError: "we cannot continue normal operation and must shut down"
				break;
			}
		}
	}
	let (log, ops_seen, faulted) = store.take();
	Run { mpu, entries, log, ops_seen, faulted }
}

// ---------------------------------------------------------------------------------------------
// the checker
// ---------------------------------------------------------------------------------------------

#[derive(Default)]
pub struct Stats {
	recoveries: u64,
	prefixes: u64,
	prefix_pending_updates: u64,
	prefix_mid_cleanup_lazy: u64,
	prefix_mid_archive: u64,
	direct_equal: u64,
	via_replay_only: u64,
	fault_runs: u64,
	fault_write: u64,
	fault_remove: u64,
	fault_read_list: u64,
	replays: u64,
	max_pending_applied: u64,
}

fn mix(a: u64, b: u64, c: u64) -> u64 {
	let mut z = a ^ b.wrapping_mul(0x9E3779B97F4A7C15) ^ c.wrapping_mul(0xD1B54A32D192ED03);
	z = (z ^ (z >> 30)).wrapping_mul(0xBF58476D1CE4E5B9);
	z = (z ^ (z >> 27)).wrapping_mul(0x94D049BB133111EB);
	z ^ (z >> 31)
}

fn apply(map: &mut Map, op: &LogOp, i: usize, variant: usize, seed: u64) {
	if op.failed {
		return;
	}
	match &op.kind {
		OpKind::Write(b) => {
			map.insert(op.key.clone(), b.clone());
		},
		OpKind::Remove { lazy } => {
			// a lazy removal issued before the crash independently did or did not reach the disk
			let done = !*lazy
				|| match variant {
					0 => false,
					1 => true,
					v => mix(seed, v as u64, i as u64) & 1 == 1,
				};
			if done {
				map.remove(&op.key);
			}
		},
	}
}

struct Checker<'a> {
	run: &'a Run,
	off: &'a Offline,
	what: String,
	/// (full-write call index, recovered id) -> expected monitor
	cache: HashMap<(usize, u64), Mon>,
	/// entry index -> decoded snapshot (for the direct comparison)
	snap_cache: HashMap<usize, Mon>,
	/// ids j for which snapshot(call j) == snapshot(previous persist call) ⊕ U_j held in memory
	step_ok: BTreeSet<u64>,
	mon_k3: K3,
	arch_k3: K3,
}

impl<'a> Checker<'a> {
	fn persist_of(&self, idx: usize) -> Option<(CallKind, u64, &Arc<Vec<u8>>, &Option<Arc<Vec<u8>>>)> {
		match &self.run.entries.get(idx)?.op {
			EOp::Persist { kind, id, snap, upd } => Some((*kind, *id, snap, upd)),
			_ => None,
		}
	}

	fn fail(&self, oracle: &str, detail: String) -> Failure {
		Failure::new(oracle, format!("[node {} {} mpu={}] {}", self.off.node, self.what, self.run.mpu, detail)).with_key(format!("B/{}", oracle))
	}

	fn expected(&mut self, c_idx: usize, j: u64) -> Result<&Mon, Failure> {
		if !self.cache.contains_key(&(c_idx, j)) {
			let (run, off) = (self.run, self.off);
			let (id_c, snap) = match &run.entries[c_idx].op {
				EOp::Persist { id, snap, .. } => (*id, snap),
				_ => return Err(self.fail("harness", "full write outside a persist call".into())),
			};
			let mon = decode_mon(snap, &off.keys).map_err(|e| self.fail("harness-decode", e))?;
			for id in id_c + 1..=j {
				let u = match off.upds.get(&id) {
					Some(u) => u,
					None => return Err(self.fail("recovered-unknown-update", format!("recovered monitor is at update id {} but no update with id {} was ever handed to the persister (full monitor stored at id {})", j, id, id_c))),
				};
				if mon.update_monitor(u, &NULL_BROADCASTER, &NULL_FEE, &NULL_LOGGER).is_err() {
					return Err(self.fail("reference-replay-failed", format!("applying the recorded update {} to the recorded monitor of call #{} (id {}) fails", id, c_idx, id_c)));
				}
			}
			self.cache.insert((c_idx, j), mon);
		}
		Ok(self.cache.get(&(c_idx, j)).unwrap())
	}

	/// content of every store mutation, clean-up safety, call status
	fn check_log(&self) -> CaseResult {
		let run = self.run;
		let mut full_id: Option<u64> = None;
		let mut written_updates: BTreeSet<u64> = BTreeSet::new();
		for (i, op) in run.log.iter().enumerate() {
			if op.failed {
				continue;
			}
			let ns = op.key.0.as_str();
			match &op.kind {
				OpKind::Write(b) => {
					if ns == CHANNEL_MONITOR_PERSISTENCE_PRIMARY_NAMESPACE {
						let (_, id, snap, _) = self.persist_of(op.call).ok_or_else(|| self.fail("foreign-write", format!("log[{}]: monitor written outside a persist call", i)))?;
						// what reached the store is the monitor handed over in that call, whole (optionally
						// behind the documented sentinel prefix)
						let sent = MONITOR_UPDATING_PERSISTER_PREPEND_SENTINEL;
						let body: &[u8] = if b.starts_with(sent) && b.len() == snap.len() + sent.len() { &b[sent.len()..] } else { &b[..] };
						if op.key != self.mon_k3 || body != &snap[..] {
							return Err(self.fail("stored-monitor-differs", format!("log[{}]: write to {:?} ({} bytes) is not the monitor handed to persist call #{} (id {}, {} bytes)", i, op.key, b.len(), op.call, id, snap.len())));
						}
						full_id = Some(id);
					} else if ns == CHANNEL_MONITOR_UPDATE_PERSISTENCE_PRIMARY_NAMESPACE {
						let ok = match self.persist_of(op.call) {
							Some((CallKind::Update, _, _, Some(u))) => {
								let uid = ChannelMonitorUpdate::read(&mut &u[..]).map(|x| x.update_id).unwrap_or(u64::MAX);
								written_updates.insert(uid);
								op.key.1 == self.off.mon_key && op.key.2 == uid.to_string() && **b == **u
							},
							_ => false,
						};
						if !ok {
							return Err(self.fail("stored-update-differs", format!("log[{}]: write to {:?} is not the update handed to persist call #{}", i, op.key, op.call)));
						}
					} else if ns == ARCHIVED_CHANNEL_MONITOR_PERSISTENCE_PRIMARY_NAMESPACE {
						if !matches!(run.entries.get(op.call).map(|e| &e.op), Some(EOp::Archive)) || op.key != self.arch_k3 {
							return Err(self.fail("foreign-write", format!("log[{}]: archive write {:?} outside archive_persisted_channel", i, op.key)));
						}
					} else {
						return Err(self.fail("foreign-write", format!("log[{}]: write to undocumented namespace {:?}", i, op.key)));
					}
				},
				OpKind::Remove { .. } => {
					if ns == CHANNEL_MONITOR_UPDATE_PERSISTENCE_PRIMARY_NAMESPACE {
						// "Its clean-up of superseded updates never deletes an update that recovery
						// still needs": a stored update above the stored full monitor's id is needed.
						let uid: u64 = op.key.2.parse().map_err(|_| self.fail("foreign-remove", format!("log[{}]: {:?}", i, op.key)))?;
						if written_updates.contains(&uid) && full_id.map(|f| uid > f).unwrap_or(true) {
							return Err(self.fail("cleanup-removed-needed-update", format!("log[{}]: update {} removed (entry #{}) while the stored full monitor is at id {:?}", i, uid, op.call, full_id)));
						}
					} else if ns == CHANNEL_MONITOR_PERSISTENCE_PRIMARY_NAMESPACE {
						if !matches!(run.entries.get(op.call).map(|e| &e.op), Some(EOp::Archive)) {
							return Err(self.fail("foreign-remove", format!("log[{}]: monitor {:?} removed outside archive_persisted_channel", i, op.key)));
						}
					} else {
						return Err(self.fail("foreign-remove", format!("log[{}]: remove of {:?}", i, op.key)));
					}
				},
			}
		}
		for (ei, e) in run.entries.iter().enumerate() {
			if let EOp::Persist { id, .. } = &e.op {
				let ops = &run.log[e.log_start..e.log_end];
				let write_failed = ops.iter().any(|o| o.failed && matches!(o.kind, OpKind::Write(_)));
				let any_failed = ops.iter().any(|o| o.failed) || run.faulted.map_or(false, |f| f.2 == ei);
				// ChannelMonitorUpdateStatus::Completed = "has been durably persisted"
				if write_failed && e.ok {
					return Err(self.fail("completed-despite-failed-write", format!("persist call #{} (id {}) returned Completed although its store write failed", ei, id)));
				}
				if !any_failed && !e.ok {
					return Err(self.fail("spurious-persist-failure", format!("persist call #{} (id {}) did not return Completed although no store operation failed", ei, id)));
				}
			}
		}
		Ok(())
	}

	fn check_image(&mut self, p: usize, img: &Map, stats: &mut Stats) -> CaseResult {
		let run = self.run;
		let prefix = &run.log[..p];
		let full = prefix.iter().rev().find(|o| !o.failed && o.key == self.mon_k3 && matches!(o.kind, OpKind::Write(_))).map(|o| o.call);
		let archive_started = prefix.iter().any(|o| matches!(run.entries[o.call].op, EOp::Archive));
		let mut j_completed: Option<u64> = None;
		let mut max_started: Option<u64> = None;
		for e in run.entries.iter() {
			if let EOp::Persist { id, .. } = &e.op {
				// a crash after the last store operation of a call may be a crash after its return
				if e.ok && e.log_end <= p {
					j_completed = Some(j_completed.map_or(*id, |x: u64| x.max(*id)));
				}
				if e.log_start < p {
					max_started = Some(max_started.map_or(*id, |x: u64| x.max(*id)));
				}
			}
		}
		let store = LogStore::from_map(img.clone());
		let pers = new_mup(&store, run.mpu, &self.off.keys);
		stats.recoveries += 1;
		let mons = pers.read_all_channel_monitors_with_updates().map_err(|e| {
			self.fail("recovery-failed", format!("crash after {} of {} store ops: read_all_channel_monitors_with_updates failed: {:?}; keys in store: {:?}", p, run.log.len(), e, img.keys().map(|k| format!("{}/{}/{}", k.0, if k.1.len() > 8 { &k.1[..8] } else { &k.1 }, if k.2.len() > 8 { &k.2[..8] } else { &k.2 })).collect::<Vec<_>>()))
		})?;
		let (m, ctxs): (Mon, &str) = if !img.contains_key(&self.mon_k3) {
			if !mons.is_empty() {
				return Err(self.fail("recovered-ghost", format!("crash after {} ops: {} monitors recovered from a store without a monitor key", p, mons.len())));
			}
			if full.is_none() {
				if let Some(j) = j_completed {
					return Err(self.fail("lost-completed-update", format!("crash after {} ops: update {} was reported Completed but no monitor is stored", p, j)));
				}
				return Ok(());
			}
			// only archiving may take the monitor out of the load set, and only once the archived copy exists
			if !archive_started {
				return Err(self.fail("monitor-lost", format!("crash after {} ops: monitor key vanished without an archive call", p)));
			}
			let arch = img.get(&self.arch_k3).ok_or_else(|| self.fail("monitor-lost", format!("crash after {} ops: monitor removed but no archived copy stored", p)))?;
			(decode_mon(arch, &self.off.keys).map_err(|e| self.fail("archived-copy-unreadable", e))?, "archived copy")
		} else {
			if mons.len() != 1 {
				return Err(self.fail("recovered-count", format!("crash after {} ops: {} monitors recovered, one stored", p, mons.len())));
			}
			(mons.into_iter().next().unwrap().1, "recovered monitor")
		};
		if m.persistence_key().to_string() != self.off.mon_key {
			return Err(self.fail("recovered-wrong-channel", format!("{} has key {}", ctxs, m.persistence_key())));
		}
		let j = m.get_latest_update_id();
		let c_idx = full.ok_or_else(|| self.fail("harness", "monitor present without a full write".into()))?;
		let id_c = self.persist_of(c_idx).unwrap().1;
		if let Some(jc) = j_completed {
			if j < jc {
				return Err(self.fail("lost-completed-update", format!("crash after {} of {} store ops: {} is at update id {} but update {} had been reported Completed (stored full monitor: call #{} id {}; update keys: {:?})", p, run.log.len(), ctxs, j, jc, c_idx, id_c, img.keys().filter(|k| k.0 == CHANNEL_MONITOR_UPDATE_PERSISTENCE_PRIMARY_NAMESPACE).map(|k| k.2.clone()).collect::<Vec<_>>())));
			}
		}
		if j < id_c || max_started.map_or(true, |ms| j > ms) {
			return Err(self.fail("recovered-id-out-of-range", format!("crash after {} ops: {} at id {} but stored full monitor has id {} and the highest id handed over so far is {:?}", p, ctxs, j, id_c, max_started)));
		}
		stats.max_pending_applied = stats.max_pending_applied.max(j - id_c);
		let equal = {
			let exp = self.expected(c_idx, j)?;
			m == *exp
		};
		if !equal {
			return Err(self.fail("recovered-differs", format!("crash after {} of {} store ops: {} (id {}) differs from the in-memory monitor of persist call #{} (id {}) with the recorded updates {}..={} applied", p, run.log.len(), ctxs, j, c_idx, id_c, id_c + 1, j)));
		}
		// direct form: between the stored full monitor and update j only Update calls happened (any
		// New/Sync call writes the full monitor); if each of those in-memory steps was exactly
		// "apply update" (no chain data / released events in between), the recovered monitor must be
		// the in-memory monitor as handed over with update j.
		if j > id_c && (id_c + 1..=j).all(|id| self.step_ok.contains(&id)) {
			let ej = run.entries.iter().position(|e| matches!(&e.op, EOp::Persist { id, kind: CallKind::Update, .. } if *id == j));
			if let Some(ej) = ej {
				if !self.snap_cache.contains_key(&ej) {
					let snap = self.persist_of(ej).unwrap().2.clone();
					let d = decode_mon(&snap, &self.off.keys).map_err(|e| self.fail("harness-decode", e))?;
					self.snap_cache.insert(ej, d);
				}
				if m != self.snap_cache[&ej] {
					return Err(self.fail("recovered-differs-from-in-memory", format!("crash after {} ops: {} (id {}) differs from the in-memory monitor handed over in persist call #{}", p, ctxs, j, ej)));
				}
				stats.direct_equal += 1;
			}
		} else if j > id_c {
			stats.via_replay_only += 1;
		}
		Ok(())
	}

	/// every crash prefix (or only the final state) × lazy-removal outcomes
	fn check_images(&mut self, all_prefixes: bool, seed: u64, stats: &mut Stats) -> CaseResult {
		let run = self.run;
		let n = run.log.len();
		let mut maps: Vec<Map> = vec![Map::new(); 4];
		for p in 0..=n {
			if p > 0 {
				for (v, m) in maps.iter_mut().enumerate() {
					apply(m, &run.log[p - 1], p - 1, v, seed);
				}
			}
			if !all_prefixes && p != n {
				continue;
			}
			stats.prefixes += 1;
			if p > 0 && p < n {
				let last = &run.log[p - 1];
				let e = &run.entries[last.call];
				let lazy_undecided = run.log[..p].iter().any(|o| !o.failed && matches!(o.kind, OpKind::Remove { lazy: true }));
				if !last.failed && last.key.0 == CHANNEL_MONITOR_UPDATE_PERSISTENCE_PRIMARY_NAMESPACE && matches!(last.kind, OpKind::Write(_)) {
					stats.prefix_pending_updates += 1;
				}
				if e.log_end > p && lazy_undecided && matches!(e.op, EOp::Persist { .. } | EOp::Cleanup { .. }) {
					stats.prefix_mid_cleanup_lazy += 1;
				}
				if e.log_end > p && matches!(e.op, EOp::Archive) {
					stats.prefix_mid_archive += 1;
				}
			}
			for v in 0..maps.len() {
				if (0..v).any(|w| maps[w] == maps[v]) {
					continue;
				}
				let img = maps[v].clone();
				self.check_image(p, &img, stats)?;
			}
		}
		Ok(())
	}
}

fn check_run(run: &Run, off: &Offline, what: String, all_prefixes: bool, seed: u64, step_ok: &BTreeSet<u64>, stats: &mut Stats) -> CaseResult {
	let mut ck = Checker {
		run,
		off,
		what,
		cache: HashMap::new(),
		snap_cache: HashMap::new(),
		step_ok: step_ok.clone(),
		mon_k3: (CHANNEL_MONITOR_PERSISTENCE_PRIMARY_NAMESPACE.to_string(), String::new(), off.mon_key.clone()),
		arch_k3: (ARCHIVED_CHANNEL_MONITOR_PERSISTENCE_PRIMARY_NAMESPACE.to_string(), String::new(), off.mon_key.clone()),
	};
	ck.check_log()?;
	ck.check_images(all_prefixes, seed, stats)
}

/// ids j whose in-memory step was "exactly update j": snapshot(j) == snapshot(previous call) ⊕ U_j
fn compute_step_ok(script: &[SOp], off: &Offline) -> BTreeSet<u64> {
	let mut ok = BTreeSet::new();
	let mut prev: Option<&Mon> = None;
	for op in script.iter() {
		if let SOp::Persist { kind, id, mon, upd, .. } = op {
			if let (CallKind::Update, Some(u), Some(pm)) = (kind, upd, prev) {
				if pm.get_latest_update_id() + 1 == *id {
					if let Ok(copy) = decode_mon(&pm.encode(), &off.keys) {
						if copy.update_monitor(u, &NULL_BROADCASTER, &NULL_FEE, &NULL_LOGGER).is_ok() && copy == *mon {
							ok.insert(*id);
						}
					}
				}
			}
			prev = Some(mon);
		}
	}
	ok
}

// ---------------------------------------------------------------------------------------------
// oracle
// ---------------------------------------------------------------------------------------------

pub fn oracle(c: &BCase, ctx: &mut Ctx, thorough: bool) -> CaseResult {
	let hist = catch_unwind(AssertUnwindSafe(|| run_history(c)));
	let (run0, run1, hs) = match hist {
		Ok(x) => x,
		Err(_) => {
			let (msg, loc) = take_last_panic().unwrap_or_default();
			// A panic in the test suite's scripted helpers means the generated history left the
			// script they expect (harness-side); anything else (persister, chain monitor, store)
			// is reported.
			if loc.contains("test_utils.rs") {
				ctx.discard();
				ctx.label("history:discarded-helper-panic");
				return Ok(());
			}
			return Err(Failure::new("panic-in-history", format!("panic at {}: {}", loc, msg)).with_key(format!("B/panic@{}", loc)));
		},
	};
	let mut stats = Stats::default();
	let mut n_calls = 0;
	for (node, live) in [run0, run1].iter().enumerate() {
		let (off, script) = build_offline(node, live)?;
		if script.is_empty() {
			continue;
		}
		n_calls += script.len();
		let step_ok = compute_step_ok(&script, &off);
		// the live log
		check_run(live, &off, "live".into(), true, c.lazy_seed, &step_ok, &mut stats)?;
		// the same call script under other consolidation settings
		let mut mpus: Vec<u64> = vec![];
		for x in c.extra_mpu.iter().take(if thorough { 3 } else { 1 }) {
			let m = MPUS[*x as usize % 7];
			if m != live.mpu && !mpus.contains(&m) {
				mpus.push(m);
			}
		}
		let mut bases: Vec<Run> = vec![];
		for m in mpus.iter() {
			let r = replay(&script, &off, *m, !c.defer_lazy, None, None);
			stats.replays += 1;
			check_run(&r, &off, "replay".into(), true, c.lazy_seed ^ *m, &step_ok, &mut stats)?;
			bases.push(r);
		}
		// one store operation (write / remove / read / list) fails, at every position
		let base = replay(&script, &off, live.mpu, c.defer_lazy, None, None);
		stats.replays += 1;
		check_run(&base, &off, "replay".into(), false, c.lazy_seed, &step_ok, &mut stats)?;
		bases.insert(0, base);
		for (bi, base) in bases.iter().enumerate() {
			let defer = if bi == 0 { c.defer_lazy } else { !c.defer_lazy };
			for (e, ent) in base.entries.iter().enumerate() {
				let ops_end = base.entries.get(e + 1).map_or(base.ops_seen, |n| n.ops_start);
				for f in ent.ops_start..ops_end {
					// the failing call and the two entries after it (what follows a failed removal is
					// the fault-free behaviour with one stale key more = "lazy removal not applied")
					let r = replay(&script, &off, base.mpu, defer, Some(f), Some((base, e, 3)));
					stats.fault_runs += 1;
					match r.faulted {
						Some((_, 'w', _)) => stats.fault_write += 1,
						Some((_, 'd', _)) => stats.fault_remove += 1,
						Some(_) => stats.fault_read_list += 1,
						None => return Err(Failure::new("harness", format!("fault at op {} of entry {} did not trigger", f, e))),
					}
					check_run(&r, &off, format!("fault@op{}", f), false, c.lazy_seed ^ f as u64, &step_ok, &mut stats)?;
				}
			}
		}
	}

	ctx.sub_evaluations(stats.recoveries);
	// rule: some crash prefix ends right after an update write (updates pending on top of the stored
	// monitor) and some prefix ends inside a clean-up with at least one lazy removal undecided
	ctx.nontrivial_if(stats.prefix_pending_updates > 0 && stats.prefix_mid_cleanup_lazy > 0);
	ctx.label_if(stats.prefix_pending_updates > 0, "crash:after-update-write");
	ctx.label_if(stats.prefix_mid_cleanup_lazy > 0, "crash:inside-cleanup-lazy-undecided");
	ctx.label_if(stats.prefix_mid_archive > 0, "crash:inside-archive");
	ctx.label_if(stats.max_pending_applied >= 2, "recovery:applied-2+-updates");
	ctx.label_if(stats.max_pending_applied >= 5, "recovery:applied-5+-updates");
	ctx.label_if(stats.direct_equal > 0, "equal:in-memory-snapshot-direct");
	ctx.label_if(stats.via_replay_only > 0, "equal:via-recorded-updates-only(chain/events-in-between)");
	ctx.label_if(stats.fault_write > 0, "fault:write");
	ctx.label_if(stats.fault_remove > 0, "fault:remove");
	ctx.label_if(stats.fault_read_list > 0, "fault:read-or-list");
	ctx.label(&format!("mpu0:{}", MPUS[c.mpu.0 as usize % 7]));
	ctx.label_if(c.defer_lazy, "store:lazy-removals-deferred");
	ctx.label_if(hs.fee_updates > 0, "history:fee-update");
	ctx.label_if(hs.blocks > 0, "history:blocks");
	ctx.label_if(hs.held_at_close > 0, "history:htlcs-pending-at-force-close");
	ctx.label_if(hs.post_close_claims > 0, "history:post-close-preimage-claim");
	ctx.label_if(hs.onchain_txs > 1, "history:on-chain-claims-mined");
	match hs.close_kind {
		Some(0) => ctx.label("history:coop-close"),
		Some(1) => ctx.label("history:force-close-by-node0"),
		Some(2) => ctx.label("history:force-close-by-node1"),
		_ => ctx.label("history:no-close"),
	}
	ctx.label_if(c.archive, "history:archive");
	ctx.label(match n_calls {
		0..=8 => "calls:<=8",
		9..=40 => "calls:9-40",
		41..=120 => "calls:41-120",
		_ => "calls:>120",
	});
	ctx.summary(serde_json::json!({"persist_calls_both_nodes": n_calls, "crash_prefixes": stats.prefixes, "recoveries": stats.recoveries, "fault_runs": stats.fault_runs, "payments": hs.payments, "close": hs.close_kind}));
	Ok(())
}
