//! Shared helpers for the property binaries.
pub use vcore;
