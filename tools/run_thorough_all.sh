#!/bin/bash
# Run the thorough tier of the given checks one after the other; one log per check under /verif/.scratch/thorough/
# (gitignored). Usage: tools/run_thorough_all.sh <seed> C01 C02 ...
seed=$1; shift
mkdir -p /verif/.scratch/thorough
for p in "$@"; do
  t0=$(date +%s)
  VERIF_SEED=$seed /verif/check $p --tier thorough > /verif/.scratch/thorough/$p-seed$seed.log 2>&1
  rc=$?
  echo "$p seed=$seed rc=$rc secs=$(( $(date +%s) - t0 ))" >> /verif/.scratch/thorough/SUMMARY.txt
done
