#!/usr/bin/env python3
"""Regenerate /verif/MANIFEST.json from the table below (keeps it schema-valid and consistent)."""
import json, os
ROOT = os.path.dirname(os.path.dirname(os.path.abspath(__file__)))

# id -> (engine, level category, technique, level text, level note, design ref)
CHECKS = {
 "C01": ("netsim", "exploration",
   "stateful property-based testing (proptest operation sequences) against an independent BOLT-2/BOLT-3 reference model",
   "Thousands of generated operation schedules over a two-node channel (all three channel types, generated reserve/dust/limit configurations, per-message delivery, disconnects, async persistence, fee updates); every counterparty commitment either node signs is compared field by field with a reference model written from BOLT-2/3 that consumes only the observed wire messages, conservation and peer agreement are checked on every signature, and any error, closure or broadcast in honest operation fails the case. Search, not proof.",
   "Trusts the harness's own reference model and the functional_test_utils test doubles (TestChainMonitor, TestKeysInterface); splicing, dual funding and quiescence are not generated.",
   "DESIGN.md §6 C01"),
 "C20": ("vprop", "exploration",
   "property-based testing over generated regtest block trees, scripted block sources with injected faults, against a reference chain cursor",
   "Hundreds of thousands of generated block trees (valid regtest PoW, forks up to 20 deep, equal-work ties, branches with a bad-PoW block, trees deeper than the 1008-header cache) served by a scripted BlockSource with one injected fault per call (transient/persistent errors, bad-PoW or non-connecting or altered headers, foreign or tampered blocks); every Listen notification of SpvClient::poll_best_tip and synchronize_listeners is replayed against an independent cursor over the harness's own tree: disconnect names a true ancestor, connects are the cursor's children in ascending order, the tip only moves to strictly more work, faulted calls leave a prefix of the fault-free walk and the next fault-free poll produces exactly the missing suffix. Search, not proof.",
   "The source's height/chainwork metadata is honest for valid connecting headers (a lying-metadata source is outside the property and kept as an opt-in part); REST/RPC clients are not exercised; regtest difficulty only.",
   "DESIGN.md §6 C20"),
 "C05": ("netsim", "exploration",
   "stateful property-based testing with a recording signer; invariants over the history of signer calls, wire messages and broadcasts; adversarial sub-profile corrupting revocation secrets in flight",
   "Generated two-node schedules (frequent disconnect/reconnect with retransmission of revoke_and_ack / commitment_signed in either order, async persistence, user force-closes) in which every release_commitment_secret, sign_counterparty_commitment, sign_holder_commitment, sign_holder_htlc_transaction, revoke_and_ack on the wire and broadcast transaction is checked against the revocation rules (secret released in order and only after the newer signed commitment was delivered; revoked commitments never signed or broadcast again; at most one unrevoked predecessor when signing; secrets match announced points); a second part flips bits in a queued revoke_and_ack and requires rejection without the secret being persisted. Search, not proof.",
   "ECDSA in-memory signer path only; restarts are covered under C10; validate_holder_commitment / validate_counterparty_revocation are not observable through the test signer (noted in DESIGN §2.1).",
   "DESIGN.md §6 C05"),
 "C15": ("vprop", "exploration",
   "property-based testing of PeerManager through in-memory sockets: LDK-LDK differential with generated fragmentation/back-pressure, and an independent BOLT-8 reference peer (own ChaCha20-Poly1305/HKDF/Noise_XK, validated against the BOLT-8 and RFC 8439 vectors at start-up) injecting faults",
   "Generated message sequences (0..65533-byte payloads, up to 3600 messages per direction so that key rotations are crossed) between two PeerManagers under generated read cuts and write budgets must arrive exactly and in order; an independent BOLT-8 implementation playing initiator or responder checks key agreement, byte-for-byte ciphertext equality, and that every tampered, truncated, replayed, swapped or wrongly keyed handshake act, length header or body makes read_event fail with nothing from the affected unit (or after it) reaching a handler, that nothing but Init is acted on before Init, and that arbitrary bytes never panic. Search, not proof.",
   "The in-memory driver honours the SocketDescriptor contract; lightning-net-tokio itself is not exercised; gossip broadcasts are excluded from the delivery oracle by design; message codecs are trusted here (C13).",
   "DESIGN.md §6 C15"),
 "C09": ("netsim", "exploration",
   "stateful property-based testing with a harness-owned Persist implementation (generated InProgress/Completed answers and completion orders); invariants relating the persistence history to everything the node emits",
   "Generated pair and three-node-line schedules (immediate and deferred ChainMonitor) in which the harness decides per update whether persistence is InProgress and when, and in which order, completions are reported; checked on the recorded history: update ids per channel are gap-free and increasing; the k-th new commitment_signed / revoke_and_ack depends on the k-th update carrying the counterparty / holder commitment and leaves only when that update and all earlier ones are complete; forwarded adds, upstream fulfils, PaymentClaimed and PaymentForwarded need the completed update they depend on; after completing and delivering everything the peers accept what was released and no HTLC is left half-way. Search, not proof.",
   "Step kinds are read from the Debug rendering of ChannelMonitorUpdate (unknown names abort as inconclusive); channel opening with asynchronous initial persistence is not part of the generated schedule yet; Persist follows the documented switching contract.",
   "DESIGN.md §6 C09"),
 "C13": ("vprop", "exploration",
   "property-based testing of every ln::msgs codec against independent per-message wire-layout templates (BOLT 1/2/4/7), plus structure-aware destructive mutation, arbitrary-byte totality and an exhaustive sweep of all 65536 type ids through wire::read",
   "For all 50 peer message types: canonical bytes produced by an independent layout description must decode, re-encode to exactly those bytes and round-trip to an equal value (so encoder and decoder are both tied to the specified layout, not only to each other); struct-first strategies check encode->decode equality; for every valid encoding every truncation, unknown odd/even TLV, non-minimal BigSize, duplicated / misordered record, wrong inner length, invalid point / signature / boolean is decoded with the verdict derived from the template; arbitrary and mutated bytes never panic and anything that decodes re-encodes stably; reads never pass the declared length (poisoned FixedLengthReader); all 65536 type ids are dispatched through the hooked wire::read. Search (exhaustive only for the type-id sweep), not proof.",
   "Wire-level delivery through PeerManager (unknown odd message ignored / unknown even disconnects) is exercised under C15, not here; messages behind cfg(simple_close) are checked at codec level only; libsecp256k1 and rust-bitcoin consensus encoding are trusted.",
   "DESIGN.md §6 C13"),
 "C14": ("vprop", "exploration",
   "property-based testing of onion construction/peeling and failure/fulfil attribution against an independent BOLT-4 reference (own ChaCha20, Sphinx peel, route blinding, failure wrap/decode, attribution decoder), plus exhaustive grids over path length x failing position",
   "Generated paths of 1..27 hops with generated amounts, expiries, channel ids, recipient fields (metadata, custom TLVs, keysend) and blinded tails, with the largest fitting hop count found constructively: each hop's peel_payment_onion must return exactly that hop's instructions and a 1366-byte next packet equal to the reference's, one hop or one byte beyond the fit must be refused, any single corrupted byte of packet / key / HMAC / payment hash must be rejected by the next hop; failures built at hop k (every failure code, data 0..60000 bytes) and wrapped by hops k-1..0 must be attributed to hop k with the original code and data and report the generated hold times, damaged packets are never decoded as a different valid failure. Path-length x failing-position grids are enumerated completely. Search, not proof.",
   "Trampoline onions and the netsim end-to-end cross-check are not covered; the fulfil-side consumer (decode_fulfill_attribution_data) is crate-private, so fulfil hold times are read by the reference decoder; CLTV deltas are generated inside LDK's relay policy.",
   "DESIGN.md §6 C14"),
 "C18": ("vprop", "exploration",
   "property-based testing of BOLT-11 / BOLT-12 builders and parsers against independent re-implementations (bech32 polymod, BOLT-11 signing hash, TLV framing, BOLT-12 merkle root), with generated character / symbol / bit mutations and recomputed checksums",
   "Generated invoices, offers, invoice requests, BOLT-12 invoices, refunds and static invoices over the builders' input space round-trip through strings and TLV bytes with equality, accessor agreement and an independent re-derivation of hashes and signatures; every sampled (and, for a fraction of cases, every single) character substitution of a BOLT-11 string and bit flip of a signed BOLT-12 stream must be rejected; recomputed-checksum mutations must fail, name an unrelated recovered key, or leave the signed content unchanged; stateless metadata verifies only for the originator (other key material, other nonce, altered offer, re-signed altered invoice are refused); arbitrary input never panics. Search, not proof.",
   "secp256k1/sha256 primitives are trusted; whole-second durations; offers that requests are built against do not expire (builders consult the wall clock); one listed known finding (offer_metadata injection into derived-key offers with paths).",
   "DESIGN.md §6 C18"),
 "C19": ("vprop", "fault_enumeration",
   "model-based property testing of the shipped key-value stores against an in-memory map (sequential, async-completion-order and multi-threaded phases) and crash-point / fault enumeration over the store-operation log of MonitorUpdatingPersister driven by a real channel",
   "Part A: generated write/read/remove/list/reopen sequences over FilesystemStore and FilesystemStoreV2 (sync and async API, empty namespaces, maximum-length names, 0..256 kB values) must equal a reference BTreeMap; out-of-order completion of async writes must respect issue order; 2..8 concurrent threads are checked with a sound linearizability-style oracle. Part B: for every recorded history of a real channel persisted through MonitorUpdatingPersister (maximum_pending_updates in {0,1,2,3,5,10,100}) EVERY prefix of the store-operation log, crossed with lazy-removal outcomes, is recovered by a fresh persister: recovery succeeds, includes every update reported as persisted, equals the handed-over monitor plus recorded updates, clean-up never removes a needed update; every store operation is additionally failed once. Fault enumeration over the explored histories; thread interleavings are sampled by the OS, not enumerated.",
   "Crash consistency is decided at KVStore-operation granularity (fsync/power-loss ordering is not observable in-process); lazy-removal subsets are sampled per prefix (none, all, two subsets).",
   "DESIGN.md §6 C19"),
 "C17": ("vprop", "exploration",
   "model-based property testing of NetworkGraph / P2PGossipSync against an independent reference interpreter of the BOLT-7 accept/reject rules (own signature verification), metamorphic order/duplication confluence, and single-bit tampering of signed gossip",
   "Generated gossip universes (3-15 nodes, channels with correct / wrong / missing UTXO answers, valid, wrongly signed, re-signed, altered, stale, duplicated, equal-timestamp and conflicting messages) are delivered through both update_* and handle_* entry points interleaved with permanent-failure reports, stale pruning at generated times, serialization round trips and (thorough) rapid-gossip-sync snapshots built by the harness's own encoder; after every operation the library's verdict and normalized read-only view must equal the reference's; the same universe delivered in 2-4 different orders with duplication must give equal graphs; every single-bit flip of a signature or signed part must be rejected with the view unchanged. Search, not proof.",
   "Wall-clock staleness checks on channel_update are compiled out under the _test_utils feature; timestamps stay at least 2 h from the one- and two-week edges; gossip queries, async UTXO lookups and RGS v2 are not covered.",
   "DESIGN.md §6 C17"),
 "C16": ("vprop", "exploration",
   "property-based testing of find_route over generated graphs / first hops / hints / blinded tails / scorers against an independent route validator, plus a completeness check against the harness's own path search in a strong-slack regime",
   "Millions of generated queries over graphs built through the public gossip API (2-40 nodes, parallel channels, cycles, per-direction enabled/disabled/missing, zero to extreme fees, capacities present or not), with hand-built first hops, route hints, blinded tails, generated amounts at every limit +-1, path-count / path-length / CLTV / fee caps, excluded channels and scorers with generated history: every returned route is checked by an independent validator (connectivity, usable directions, per-hop minimum and jointly-counted maximum / capacity / first-hop limit, BOLT-7 fee owed to every forwarding node, CLTV deltas and caps, delivered value without a superfluous part, fee cap, path length); when the harness's own search finds a single path with strong slack the router must not report failure. Search, not proof.",
   "Completeness is asserted only in the strong-slack regime (no usable edge near binding after the saturation shift, amount x ppm far below 2^64); in-flight HTLCs are passed through the scorer wrapper only; trampoline routes are not generated. Listed known findings: first-hop peer that is also a blinded-path introduction node (stale payer entry), max_final_value rounding (hop carries a few msat above its maximum), reachable unreachable!() when merged MPP parts overflow amount x ppm. One defect repaired in /repo (a7dbe7e).",
   "DESIGN.md §6 C16"),
 "C10": ("netsim", "fault_enumeration",
   "stateful property-based testing with crash injection: generated payment flows with harness-owned persistence, manager snapshots at generated persistence points, restarts from generated (snapshot lag, durable-or-landed monitor) combinations; plus enumeration of EVERY crash position x node x snapshot/monitor choice for generated short flows",
   "Pair / line / diamond worlds run generated payment flows with asynchronous persistence; the ChannelManager is serialized at generated moments; a generated node crashes at a generated position (possibly again during recovery) and restarts from a generated earlier manager snapshot and, per channel, the durable monitor image or the latest written one; the world is then reconnected, payments resolved and the chain mined until every closed channel is resolved. Checked over the concatenated history: deserialization succeeds; channels whose monitor provably ran ahead of the manager are closed as OutdatedChannelManager, never resumed; the revocation rules hold across restarts; every broadcast is consensus-valid for the next block; PaymentSent is truthful, PaymentFailed is not reported while the HTLC is live, terminal events are never contradicted; a claim acknowledged to the recipient reaches PaymentSent at the sender. The enumerated part tries every crash point of each explored short flow (exhaustive over crash points of those flows, sampled over flows).",
   "Crash points are between harness operations (one or a few durable writes each), not inside a library call; liveness is decided at a bounded horizon (400 blocks); reorgs are not combined with restarts. One listed known finding (PaymentFailed after PaymentSent when restarting from a manager older than the fulfil with a monitor that already forgot the HTLC — documented by the library as a rare case); one defect of this family repaired in /repo.",
   "DESIGN.md §6 C10"),
 "C08": ("netsim", "exploration",
   "scenario-parametric property-based testing (generated offsets, delays, block arrival patterns and delivery styles around every deadline) with exhaustive cross products of boundary offsets in the thorough tier",
   "Five scenario families on pair / line worlds whose numbers and schedules are generated: final-hop acceptance and claim around expiry - buffer (every offset -3..+3), forward admission around every CLTV / fee threshold, a silent / last-moment / on-chain-settling downstream peer with generated confirmation delays up to the library's stated maximum, a receiver holding a preimage with a dead upstream peer, and forwards stuck in the holding cell. Checked: nothing is shown claimable or forwarded inside the documented buffers (an upstream failure follows instead); claim_funds succeeds at every height below claim_deadline and the node has failed the payment itself from that height on; the holder commitment is first broadcast inside the documented window (not later, not before the trigger); the forwarder never ends with downstream fulfilled and upstream failed; upstream fail-back after a downstream timeout happens only after ANTI_REORG_DELAY confirmations and early enough for the upstream peer. The thorough tier enumerates all offset combinations (flagged exhaustive for that sub-space). Search, not proof.",
   "Stays inside the library's stated bounds (confirmation within 18 blocks of the due height, no reorgs, constant fees); thresholds that are crate-private constants are restated in the harness and pinned at both sides of each boundary; MPP / intercept / trampoline timeouts are not generated.",
   "DESIGN.md §6 C08"),
 "C04": ("netsim", "exploration",
   "model-based stateful property-based testing: a receive-side reference model written from the documented rules runs in lock-step with a real recipient node over generated registrations, HTLC part sequences, ticks, blocks and claim / fail calls; plus a generated bit-flip / mask sweep of the payment-secret verification",
   "A recipient with 1-3 channels from 1-2 senders; registrations through create_inbound_payment / create_inbound_payment_for_hash / keysend with generated minimum, expiry, min_final_cltv, metadata, re-registration; parts sent through the senders' own send API with generated onion fields, totals, secrets, CLTVs and channels. After every step the model's verdict (fail back with which reason class, hold, PaymentClaimable, PaymentClaimed, fulfil) is compared with the node; the credited amount is compared through channel balances; all-or-nothing (every part fulfilled or none) is checked over the whole history, including across MPP timeouts, the claim deadline and closed channels. The pure part drives the secret / metadata verification with 256 single-bit flips per case (about 16 M sub-evaluations quick). Search, not proof.",
   "Direct channels only, one HTLC per send call; no restarts, disconnects or async persistence at the recipient (C10 / C09 cover those); phantom and BOLT-12 receives are not generated; constants (fail-back buffer 39, +7200 s expiry grace) are restated in the model; three reachable library debug assertions are labelled, not failed (release behaviour satisfies the property).",
   "DESIGN.md §6 C04"),
 "C03": ("netsim", "exploration",
   "model-based stateful property-based testing of a real multi-node network: generated topologies, send styles, wire-level interleavings, reconnects cut inside the removal dance, async persistence, sender restarts and force-closes, each case driven to on-chain / off-chain quiescence; oracle = invariants over the sender's event and listing history against wire-level ground truth",
   "Worlds of 2-4 nodes (pair, lines, diamond, parallel channels), all channel types. The sender pays by explicit single and multi-path routes, through the real router with retries, by keysend, and with routes that underpay a forwarder; duplicate payment ids, abandon_payment, restarts from any older manager snapshot with durable or last-written monitors, force closes, blocks and timer ticks are generated. Every case ends with an end game (settle, resolve what is claimable by generated choice, mine until nothing is in flight). Checked over the whole history: at quiescence every payment has exactly one terminal outcome and is no longer listed as pending; PaymentSent only with the preimage of the hash and fee_paid equal to the exact balance decrease; PaymentFailed only when no part was or can still be fulfilled; no contradicting or duplicate terminal event per manager lineage; PaymentPathFailed names the channel that really failed (wire-level origin tracking); a payment in flight is always listed; duplicate ids are refused. A second part measures amount + fee against the sender's capacity delta exactly, one payment at a time. Search, not proof.",
   "Only the sender restarts; no reorgs, BOLT-12 or async payments; exact balance equality only when no channel closed (with closures 'not understated' as the library documents); on-chain outcomes are checked for absence of a confirmed preimage claim, not by spendable-output accounting (C07's domain). Listed known findings are matched on exact mechanism keys and counted as excluded_known.",
   "DESIGN.md §6 C03"),
 "C06": ("netsim", "exploration",
   "model-based stateful property-based testing with an adversary and a ground-truth chain: generated channel histories, a generated choice of which revoked state the cheater confirms (or, in the second part, every revoked state of the history in turn), generated block contents / conflict winners / delivery styles / lags / fee estimates / monitor reloads; oracle = consensus simulator verdict on every victim broadcast plus final ownership of every contested output",
   "A victim / cheater pair (all three channel types). Phase 1 is a generated update history with HTLCs in both directions, dust edges, claims, fails and fee changes; every holder commitment of the cheater is recovered from its persisted monitor images. Phase 2 confirms a chosen revoked commitment and, by generated choice, the cheater's HTLC-success / HTLC-timeout transactions (produced by a stale copy of the cheater's own monitor) before or between the victim's reactions; the victim sees blocks in a generated style with a lag, may be reloaded from its persisted state and has its claims re-issued. Checked: every victim broadcast is consensus-valid when made (script, locktime, CSV, inputs unspent as far as the victim could know); at the end every contested output of the revoked commitment and of the cheater's confirmed second-stage transactions is spent by a victim transaction before the cheater's CSV matures; re-issued claims over the same inputs never pay less; every recovered output is announced through SpendableOutputs and the sweep built from them is valid and complete; channel value is fully accounted. The second part replays one history and schedule once per revoked state. Search, not proof.",
   "No reorgs, relay policy or pinning; the cheater's second-stage transactions use only preimages its own monitor knew at that state; momentary get_claimable_balances values are labelled, not asserted (the statement speaks about broadcasts and the final spendable report); cases that trip the library's own monitor round-trip assertion (C12's subject) are labelled foreign and skipped; one listed known finding is matched on its exact mechanism.",
   "DESIGN.md §6 C06"),
}

NOT_YET = {
}

def main():
    props = [json.loads(l) for l in open(os.path.join(ROOT, "properties.jsonl"))]
    checks = []
    na = []
    for p in props:
        pid = p["id"]
        if pid in CHECKS:
            eng, cat, tech, text, note, ref = CHECKS[pid]
            checks.append({
                "property_id": pid,
                "quick_cmd": "./check %s --tier quick" % pid,
                "thorough_cmd": "./check %s --tier thorough" % pid,
                "evidence_file": "/verif/evidence/%s.json" % pid,
                "replay_cmd_template": "./check %s --replay {path}" % pid,
                "engine": eng,
                "level_claimed": {"category": cat, "text": text, "design_ref": ref},
                "level_note": note,
                "technique": tech,
            })
        else:
            na.append({"property_id": pid, "reason": NOT_YET.get(pid, "check not built yet in this round (planned in DESIGN.md; property-based testing applies)")})
    m = {
        "version": 1,
        "setup_cmd": "./check --setup",
        "hooks": {
            "guard": "cargo feature _verif_hooks on the lightning crate",
            "enable": "the harness crates depend on /repo/lightning with features = [\"_test_utils\", \"_verif_hooks\"] (harness/*/Cargo.toml); every check rebuilds from /repo's working tree through that path dependency",
            "baseline_off_cmd": "cd /repo && cargo test --workspace --no-fail-fast --offline",
            "source_commits": ["69389ac", "71cf6b4"],
            "add_only": True,
        },
        "engines": [
            {"name": "vcore", "path": "harness/vcore", "serves_properties": [c["property_id"] for c in checks], "kind_free_text": "seeded proptest runners over 16 worker threads, shrinking, replay files, evidence writer, known-findings matching"},
            {"name": "netsim", "path": "harness/netsim", "serves_properties": [c["property_id"] for c in checks if c["engine"] == "netsim"], "kind_free_text": "multi-node LDK simulator over functional_test_utils with harness-owned transport, persistence and chain; recording signer; BOLT-2/3 reference model"},
            {"name": "vprop", "path": "harness/vprop", "serves_properties": [c["property_id"] for c in checks if c["engine"] == "vprop"], "kind_free_text": "pure property-based checks over library functions (codecs, onions, router, gossip, invoices, transport, storage, block sync)"},
        ],
        "checks": checks,
        "not_applicable": na,
        "notes": "All checks: exit 0 held / exit 1 + VIOLATION line / exit 2 inconclusive (build failure, watchdog, generator health). VERIF_SEED selects the seed.",
    }
    json.dump(m, open(os.path.join(ROOT, "MANIFEST.json"), "w"), indent=1)
    print("wrote MANIFEST.json with %d checks, %d not yet claimed" % (len(checks), len(na)))

if __name__ == "__main__":
    main()
