#!/usr/bin/env python3
"""Regenerate /verif/MANIFEST.json from the table below (keeps it schema-valid and consistent)."""
import json, os
ROOT = os.path.dirname(os.path.dirname(os.path.abspath(__file__)))

# id -> (engine, level category, technique, level text, level note, design ref)
CHECKS = {
 "C01": ("netsim", "exploration",
   "stateful property-based testing (proptest operation sequences) against an independent BOLT-2/BOLT-3 reference model",
   "Thousands of generated operation schedules over a two-node channel (all three channel types, generated reserve/dust/limit configurations, per-message delivery, disconnects, async persistence, fee updates); every counterparty commitment either node signs is compared field by field with a reference model written from BOLT-2/3 that consumes only the observed wire messages, conservation and peer agreement are checked on every signature, and any error, closure or broadcast in honest operation fails the case. Search, not proof.",
   "Trusts the harness's own reference model and the functional_test_utils test doubles (TestChainMonitor, TestKeysInterface); splicing, dual funding and quiescence are not generated.",
   "DESIGN.md §6 C01"),
 "C20": ("vprop", "exploration",
   "property-based testing over generated regtest block trees, scripted block sources with injected faults, against a reference chain cursor",
   "Hundreds of thousands of generated block trees (valid regtest PoW, forks up to 20 deep, equal-work ties, branches with a bad-PoW block, trees deeper than the 1008-header cache) served by a scripted BlockSource with one injected fault per call (transient/persistent errors, bad-PoW or non-connecting or altered headers, foreign or tampered blocks); every Listen notification of SpvClient::poll_best_tip and synchronize_listeners is replayed against an independent cursor over the harness's own tree: disconnect names a true ancestor, connects are the cursor's children in ascending order, the tip only moves to strictly more work, faulted calls leave a prefix of the fault-free walk and the next fault-free poll produces exactly the missing suffix. Search, not proof.",
   "The source's height/chainwork metadata is honest for valid connecting headers (a lying-metadata source is outside the property and kept as an opt-in part); REST/RPC clients are not exercised; regtest difficulty only.",
   "DESIGN.md §6 C20"),
}

NOT_YET = {
}

def main():
    props = [json.loads(l) for l in open(os.path.join(ROOT, "properties.jsonl"))]
    checks = []
    na = []
    for p in props:
        pid = p["id"]
        if pid in CHECKS:
            eng, cat, tech, text, note, ref = CHECKS[pid]
            checks.append({
                "property_id": pid,
                "quick_cmd": "./check %s --tier quick" % pid,
                "thorough_cmd": "./check %s --tier thorough" % pid,
                "evidence_file": "/verif/evidence/%s.json" % pid,
                "replay_cmd_template": "./check %s --replay {path}" % pid,
                "engine": eng,
                "level_claimed": {"category": cat, "text": text, "design_ref": ref},
                "level_note": note,
                "technique": tech,
            })
        else:
            na.append({"property_id": pid, "reason": NOT_YET.get(pid, "check not built yet in this round (planned in DESIGN.md; property-based testing applies)")})
    m = {
        "version": 1,
        "setup_cmd": "./check --setup",
        "hooks": {
            "guard": "cargo feature _verif_hooks on the lightning crate",
            "enable": "the harness crates depend on /repo/lightning with features = [\"_test_utils\", \"_verif_hooks\"] (harness/*/Cargo.toml); every check rebuilds from /repo's working tree through that path dependency",
            "baseline_off_cmd": "cd /repo && cargo test --workspace --no-fail-fast --offline",
            "source_commits": ["69389ac"],
            "add_only": True,
        },
        "engines": [
            {"name": "vcore", "path": "harness/vcore", "serves_properties": [c["property_id"] for c in checks], "kind_free_text": "seeded proptest runners over 16 worker threads, shrinking, replay files, evidence writer, known-findings matching"},
            {"name": "netsim", "path": "harness/netsim", "serves_properties": [c["property_id"] for c in checks if c["engine"] == "netsim"], "kind_free_text": "multi-node LDK simulator over functional_test_utils with harness-owned transport, persistence and chain; recording signer; BOLT-2/3 reference model"},
            {"name": "vprop", "path": "harness/vprop", "serves_properties": [c["property_id"] for c in checks if c["engine"] == "vprop"], "kind_free_text": "pure property-based checks over library functions (codecs, onions, router, gossip, invoices, transport, storage, block sync)"},
        ],
        "checks": checks,
        "not_applicable": na,
        "notes": "All checks: exit 0 held / exit 1 + VIOLATION line / exit 2 inconclusive (build failure, watchdog, generator health). VERIF_SEED selects the seed.",
    }
    json.dump(m, open(os.path.join(ROOT, "MANIFEST.json"), "w"), indent=1)
    print("wrote MANIFEST.json with %d checks, %d not yet claimed" % (len(checks), len(na)))

if __name__ == "__main__":
    main()
