#!/bin/bash
# Run one check against a *mutated scratch copy* of /repo (never touches /repo's working tree).
#   tools/mutrun.sh <ID> <patch.diff|none> [args for the check binary...]
#   tools/mutrun.sh --clean <ID>        remove the scratch worktree, harness copy and build output
# Scratch locations (all outside /repo and /verif): /tmp/vwt-<ID> (git worktree of /repo HEAD),
# /tmp/vh-<ID> (copy of /verif/harness with paths rewritten), /tmp/vtgt-<ID> (cargo target dir, kept
# between runs for incremental builds until --clean).
set -u
if [ "$1" = "--clean" ]; then
  ID=$2
  git -C /repo worktree remove --force /tmp/vwt-$ID 2>/dev/null
  rm -rf /tmp/vwt-$ID /tmp/vh-$ID /tmp/vtgt-$ID
  git -C /repo worktree prune
  exit 0
fi
ID=$1; PATCH=$2; shift 2
id=$(echo $ID | tr 'A-Z' 'a-z')
WT=/tmp/vwt-$ID; H=/tmp/vh-$ID; TGT=/tmp/vtgt-$ID
if [ ! -d $WT ]; then git -C /repo worktree add -q --detach $WT HEAD || exit 2; fi
git -C $WT checkout -q -- . && git -C $WT clean -fdq
git -C $WT checkout -q --detach $(git -C /repo rev-parse HEAD) || exit 2
if [ "$PATCH" != "none" ]; then git -C $WT apply "$(realpath "$PATCH")" || { echo "patch does not apply"; exit 2; }; fi
mkdir -p $H && rsync -a --delete --exclude target /verif/harness/ $H/
sed -i "s#/repo/#$WT/#g" $H/vprop/Cargo.toml $H/netsim/Cargo.toml
sed -i "s#^target-dir.*#target-dir = \"$TGT\"#" $H/.cargo/config.toml
rm -f $TGT/debug/$id
(cd $H && CARGO_NET_OFFLINE=true CARGO_TARGET_DIR=$TGT cargo build --offline --bin $id $([ -f netsim/src/bin/$id.rs ] && echo "--features $(grep -o "^ext_c[0-9]*" netsim/Cargo.toml | sed "s#^#netsim/#" | paste -sd,)") 2>&1 | tail -3)
[ -x $TGT/debug/$id ] || { echo "build failed"; exit 2; }
cd /verif && $TGT/debug/$id --no-evidence "$@"
rc=$?
git -C $WT checkout -q -- .
exit $rc
