#!/bin/bash
# Confirm an independently seeded mutation and run our check against it.
#   tools/seedcheck.sh <ID> <dir with patch.diff demo.diff meta.json> [check args...]
# Uses one scratch worktree /tmp/seedchk (+ its target dir) for the library-side confirmation and
# tools/mutrun.sh for running the check. Prints a summary and writes <dir>/confirm.txt
set -u
ID=$1; D=$(realpath $2); shift 2
WT=/tmp/seedchk-$ID
if [ ! -d $WT ]; then git -C /repo worktree add -q --detach $WT HEAD || exit 2; fi
git -C $WT checkout -q --detach $(git -C /repo rev-parse HEAD) 2>/dev/null
git -C $WT checkout -q -- . && git -C $WT clean -fdq -e target
export CARGO_TARGET_DIR=$WT/target CARGO_NET_OFFLINE=true
DEMO=$(python3 -c "import json,sys; print(json.load(open('$D/meta.json')).get('demo_cmd',''))")
FILTER=$(echo "$DEMO" | sed -n "s/.*-- *\([^ ]*\).*/\1/p")
FEAT=$(echo "$DEMO" | sed -n "s/.*--features *\([^ ]*\).*/--features \1/p")
PKG=$(echo "$DEMO" | sed -n 's/.*-p *\([^ ]*\).*/\1/p'); PKG=${PKG:-lightning}
echo "demo filter: $FILTER (package $PKG)"
out=$D/confirm.txt; : > $out
cd $WT
git apply $D/demo.diff || { echo "demo.diff does not apply" | tee -a $out; exit 2; }
r1=$(cargo test -p $PKG --lib --offline $FEAT -- $FILTER 2>&1 | grep -a "test result" | head -1)
echo "demo WITHOUT patch: $r1" | tee -a $out
git apply $D/patch.diff || { echo "patch.diff does not apply on top of demo" | tee -a $out; exit 2; }
r2=$(cargo test -p $PKG --lib --offline $FEAT -- $FILTER 2>&1 | grep -a "test result" | head -1)
echo "demo WITH patch:    $r2" | tee -a $out
git checkout -q -- . && git clean -fdq -e target
git apply $D/patch.diff
# (one library test, test_single_channel_multiple_mpp, can dead-lock on its own thread hand-offs when the
# machine is heavily loaded: bounded by a timeout and, if that hits, re-run without it)
if [ "$PKG" != "lightning" ]; then
  # a change outside the lightning crate: that crate's own tests are the relevant "existing tests"
  r3="[$PKG] $(timeout 1200 cargo test -p $PKG --offline 2>&1 | grep -a "test result" | head -1)"
else
r3=$(timeout 1200 cargo test -p lightning --lib --offline 2>&1 | grep -a "test result" | head -1)
fi
if [ -z "$r3" ]; then
  pkill -f "$WT/target/debug/deps/lightning-" 2>/dev/null
  r3="(timed out once; re-run skipping test_single_channel_multiple_mpp) $(timeout 1200 cargo test -p lightning --lib --offline -- --skip test_single_channel_multiple_mpp 2>&1 | grep -a "test result" | head -1)"
fi
echo "lightning lib tests WITH patch only: $r3" | tee -a $out
git checkout -q -- . && git clean -fdq -e target
cd /verif
echo "== our check $ID against the patch" | tee -a $out
tools/mutrun.sh $ID $D/patch.diff "$@" 2>&1 | grep -a "^FAIL\|^  detail\|^VIOLATION\|tier=" | cut -c1-400 | head -8 | tee -a $out
