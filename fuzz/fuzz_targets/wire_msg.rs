//! C13 (coverage-guided): any byte string handed to the wire dispatch is decoded or rejected without a
//! panic; whatever decodes re-encodes to bytes that decode to the same message (stable re-encoding) under
//! the same type id.
#![no_main]
use libfuzzer_sys::fuzz_target;
use lightning::ln::wire::verif_hooks::read_wire;

fuzz_target!(|data: &[u8]| {
	if data.len() < 2 || data.len() > 65535 {
		return;
	}
	match read_wire(data) {
		Err(_) => {},
		Ok(d) => {
			let ty = u16::from_be_bytes([data[0], data[1]]);
			assert_eq!(d.type_id, ty, "dispatched under another type id");
			if d.unknown {
				assert!(d.reencoded.is_empty());
				return;
			}
			// decode(encode(m)) == m, observed through the Debug rendering and a second re-encoding
			let again = read_wire(&d.reencoded).expect("re-encoding of a decoded message must decode");
			assert_eq!(again.type_id, d.type_id);
			assert_eq!(again.debug, d.debug, "re-encoded message decodes to a different message");
			assert_eq!(again.reencoded, d.reencoded, "re-encoding is not stable");
		},
	}
});
