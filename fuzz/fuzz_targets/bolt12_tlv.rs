//! C18 (coverage-guided): parsing arbitrary TLV streams as BOLT-12 objects never panics; whatever parses
//! writes back to bytes that parse to an equal object.
#![no_main]
use libfuzzer_sys::fuzz_target;
use lightning::offers::invoice::Bolt12Invoice;
use lightning::offers::invoice_request::InvoiceRequest;
use lightning::offers::offer::Offer;
use lightning::offers::refund::Refund;
use lightning::util::ser::Writeable;
use std::convert::TryFrom;

fuzz_target!(|data: &[u8]| {
	if data.is_empty() {
		return;
	}
	let body = data[1..].to_vec();
	match data[0] % 5 {
		0 => {
			if let Ok(o) = Offer::try_from(body) {
				let mut b = Vec::new();
				o.write(&mut b).unwrap();
				let o2 = Offer::try_from(b).expect("re-encoded offer must parse");
				assert_eq!(o, o2);
				let s = o.to_string();
				let o3: Offer = s.parse().expect("offer string must parse");
				assert_eq!(o, o3);
			}
		},
		1 => {
			if let Ok(r) = InvoiceRequest::try_from(body) {
				let mut b = Vec::new();
				r.write(&mut b).unwrap();
				let r2 = InvoiceRequest::try_from(b).expect("re-encoded invoice request must parse");
				assert_eq!(format!("{:?}", r), format!("{:?}", r2));
			}
		},
		2 => {
			if let Ok(i) = Bolt12Invoice::try_from(body) {
				let mut b = Vec::new();
				i.write(&mut b).unwrap();
				let i2 = Bolt12Invoice::try_from(b).expect("re-encoded invoice must parse");
				assert_eq!(i, i2);
			}
		},
		3 => {
			if let Ok(r) = Refund::try_from(body) {
				let mut b = Vec::new();
				r.write(&mut b).unwrap();
				let r2 = Refund::try_from(b).expect("re-encoded refund must parse");
				assert_eq!(r, r2);
			}
		},
		_ => {
			if let Ok(s) = std::str::from_utf8(&body) {
				let _ = s.parse::<Offer>();
				let _ = s.parse::<Refund>();
			}
		},
	}
});
