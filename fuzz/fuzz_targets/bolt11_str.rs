//! C18 (coverage-guided): parsing arbitrary strings as BOLT-11 never panics; whatever parses and carries a
//! valid signature re-serializes to a string that parses to an equal invoice.
#![no_main]
use libfuzzer_sys::fuzz_target;
use lightning_invoice::{Bolt11Invoice, SignedRawBolt11Invoice};
use std::str::FromStr;

fuzz_target!(|data: &[u8]| {
	let Ok(s) = std::str::from_utf8(data) else { return };
	if let Ok(raw) = SignedRawBolt11Invoice::from_str(s) {
		let again = raw.to_string();
		let raw2 = SignedRawBolt11Invoice::from_str(&again).expect("re-serialized signed raw invoice must parse");
		assert_eq!(raw, raw2, "signed raw invoice changed over a round trip");
	}
	if let Ok(inv) = Bolt11Invoice::from_str(s) {
		let again = inv.to_string();
		let inv2 = Bolt11Invoice::from_str(&again).expect("re-serialized invoice must parse");
		assert_eq!(inv, inv2, "invoice changed over a round trip");
		assert_eq!(inv.payment_hash(), inv2.payment_hash());
		assert_eq!(inv.amount_milli_satoshis(), inv2.amount_milli_satoshis());
		assert_eq!(inv.expiry_time(), inv2.expiry_time());
	}
});
