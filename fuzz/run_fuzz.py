#!/usr/bin/env python3
"""Coverage-guided (libFuzzer) companion runs for the thorough tiers of C13 and C18.

  fuzz/run_fuzz.py <ID>     builds the targets (no --cfg fuzzing: the production crypto and signature checks
                            stay on) and runs the ones that belong to <ID> for a fixed number of executions on a
                            fresh copy of the committed corpus. Exit 0 = no crash; exit 1 + VIOLATION line with
                            the crashing input as replay; exit 2 = build problem (inconclusive).
"""
import os, shutil, subprocess, sys, tempfile

ROOT = os.path.dirname(os.path.dirname(os.path.abspath(__file__)))
FZ = os.path.join(ROOT, "fuzz")
TARGETS = {"C13": [("wire_msg", 3_000_000, 4096)], "C18": [("bolt11_str", 1_500_000, 1024), ("bolt12_tlv", 1_500_000, 2048)]}
FLAGS = ("-Cpasses=sancov-module -Cllvm-args=-sanitizer-coverage-level=4 -Cllvm-args=-sanitizer-coverage-inline-8bit-counters "
         "-Cllvm-args=-sanitizer-coverage-pc-table -Cllvm-args=-sanitizer-coverage-trace-compares -Zsanitizer=address -Ccodegen-units=4")


def main():
    pid = sys.argv[1].upper() if len(sys.argv) > 1 else ""
    if pid not in TARGETS:
        sys.exit(0)
    env = dict(os.environ)
    env["RUSTFLAGS"] = FLAGS
    env["CARGO_NET_OFFLINE"] = "true"
    env["CARGO_TARGET_DIR"] = os.path.join(FZ, "target")
    p = subprocess.run(["cargo", "+nightly", "build", "--release", "--target", "x86_64-unknown-linux-gnu"], cwd=FZ, env=env,
                       stdout=subprocess.PIPE, stderr=subprocess.STDOUT, text=True)
    if p.returncode != 0:
        sys.stdout.write(p.stdout[-3000:])
        print("INCONCLUSIVE fuzz build failed (exit 2)")
        sys.exit(2)
    seed = int(os.environ.get("VERIF_SEED", "0") or 0) or 1
    scale = float(os.environ.get("VERIF_SCALE", "1") or 1)
    rc = 0
    for (t, runs, maxlen) in TARGETS[pid]:
        work = tempfile.mkdtemp(prefix="vfz-" + t + "-")
        corpus = os.path.join(work, "corpus")
        shutil.copytree(os.path.join(FZ, "corpus", t), corpus)
        art = os.path.join(ROOT, "replays", "")
        exe = os.path.join(FZ, "target", "x86_64-unknown-linux-gnu", "release", t)
        cmd = [exe, "-runs=%d" % int(runs * scale), "-seed=%d" % seed, "-len_control=0", "-max_len=%d" % maxlen,
               "-artifact_prefix=" + os.path.join(art, pid + "-fuzz-" + t + "-"), "-print_final_stats=1", corpus]
        q = subprocess.run(cmd, stdout=subprocess.PIPE, stderr=subprocess.STDOUT, text=True, env={"ASAN_OPTIONS": "detect_leaks=0"})
        tail = q.stdout[-1500:]
        stats = [l for l in q.stdout.splitlines() if l.startswith("stat::") or l.startswith("Done ")]
        print("[fuzz] %s: %s" % (t, " ".join(stats[-4:])))
        shutil.rmtree(work, ignore_errors=True)
        if q.returncode != 0:
            crash = [l for l in q.stdout.splitlines() if "Test unit written to" in l]
            path = crash[-1].split("written to")[-1].strip() if crash else "(see output)"
            sys.stdout.write(tail + "\n")
            print("VIOLATION property=%s replay=%s" % (pid, path))
            rc = 1
    sys.exit(rc)


if __name__ == "__main__":
    main()
